import Frp.Model.Str
/-
  C05 — what crosses the frpc <-> frps network path, under which layers; TLS sniffing and TLS identity
  settings.  Hand-written mirror of

    pkg/util/net/tls.go      CheckAndEnableTLSServerConnWithTimeout           → `sniff`, `firstByteReplayed`
    pkg/config/v1/server.go  ServerTransportConfig.Complete                    → `ServerCfg.complete`
    pkg/config/v1/client.go  TLSClientConfig.Complete                          → `ClientCfg.default`
    pkg/transport/tls.go     NewServerTLSConfig / NewClientTLSConfig           → `serverTls`, `clientTlsOf`
    client/connector.go      realConnect / Open (quic)                         → `clientTls`, `clientDial`
    pkg/util/net/dial.go     DialHookCustomTLSHeadByte                         → `Dial.customByte`
    server/service.go        HandleListener / handleConnection                 → `reachesReadMsg`, `rawReply`
    server/service.go        NewService (listeners, quicTLSCfg) / Run / HandleQUICListener
                                                                               → `Listener`, `Listener.gate`, `quicServerTls`,
                                                                                 `listenerTls`, `reachesReadMsgOn`, `sessionUpOn`
    server/control.go, client/control.go  NewControl (NewCryptoReadWriter iff ctlConnEncrypted)
    server/service.go:RegisterControl (passes `!internal`)                     → `controlEncrypted`
    pkg/msg/msg.go + every WriteMsg / dispatcher.Send site                     → `carries`, `channel`
    server/proxy/proxy.go, client/proxy/proxy.go (wrapper order)               → `serverStack`, `clientStack`
    pkg/auth/token.go  SetLogin / SetPing / SetNewWorkConn                     → `authKeyField`

  Cryptography is NOT modelled: a "layer" is only the fact that the bytes pass through tls.Conn /
  golib crypto (AES-CFB) before they reach the socket.
-/
namespace Frp
namespace Wire

/-! ## 1. First-byte sniffing (pkg/util/net/tls.go) -/

inductive SniffClass
  | customTLS   -- first byte 0x17: `tls.Server(c, cfg)` on the RAW conn (byte consumed)
  | tls         -- first byte 0x16: `tls.Server(sc, cfg)` on the SharedConn (byte replayed)
  | plain       -- anything else, tlsOnly = false: `out = sc` (byte replayed)
  | refuse      -- anything else, tlsOnly = true: error, the caller closes the connection
  deriving DecidableEq, Repr

/-- `switch { case n == 1 && int(buf[0]) == FRPTLSHeadByte: … case … == 0x16: … default: if tlsOnly {err} … }` -/
def sniff (b : Nat) (force : Bool) : SniffClass :=
  if b = 0x17 then .customTLS
  else if b = 0x16 then .tls
  else if force then .refuse
  else .plain

/-- does the connection handed on still deliver the sniffed byte to its reader?
    custom: `tls.Server(c, …)` reads from the raw conn, the 0x17 is gone;
    tls / plain: the SharedConn replays its 1-byte buffer first. -/
def firstByteReplayed : SniffClass → Bool
  | .customTLS => false
  | .tls => true
  | .plain => true
  | .refuse => false

def SniffClass.isTLS : SniffClass → Bool
  | .customTLS => true
  | .tls => true
  | _ => false

def SniffClass.render : SniffClass → String
  | .customTLS => "custom"
  | .tls => "tls"
  | .plain => "plain"
  | .refuse => "refuse"

/-! ## 2. Server / client transport configuration -/

/-- the part of `v1.ServerConfig.Transport` that matters here -/
structure ServerCfg where
  force : Bool          -- transport.tls.force as written in the file
  trustedCA : Bool      -- transport.tls.trustedCaFile ≠ ""
  certGiven : Bool      -- certFile ≠ "" ∧ keyFile ≠ ""
  tcpMux : Bool := true
  deriving DecidableEq, Repr

/-- `ServerTransportConfig.Complete`: `if c.TLS.TrustedCaFile != "" { c.TLS.Force = true }` -/
def ServerCfg.complete (s : ServerCfg) : ServerCfg := { s with force := s.force || s.trustedCA }

/-- what `HandleListener` passes as `tlsOnly` (it reads the completed config) -/
def serverForce (s : ServerCfg) : Bool := s.complete.force

inductive ClientAuth
  | noClientCert            -- zero value of tls.Config.ClientAuth
  | requireAndVerify        -- tls.RequireAndVerifyClientCert
  deriving DecidableEq, Repr

/-- the fields `NewServerTLSConfig(cert, key, ca)` sets -/
structure ServerTls where
  clientAuth : ClientAuth
  hasClientCAs : Bool
  randomCert : Bool         -- self-generated RSA key pair, template without names
  nextProtos : List Str := []   -- tls.Config.NextProtos (ALPN); NewServerTLSConfig leaves it nil
  deriving DecidableEq, Repr

def serverTlsOf (certGiven caGiven : Bool) : ServerTls :=
  { clientAuth := if caGiven then .requireAndVerify else .noClientCert
  , hasClientCAs := caGiven
  , randomCert := !certGiven }

def serverTls (s : ServerCfg) : ServerTls := serverTlsOf s.certGiven s.trustedCA

inductive Protocol | tcp | kcp | quic | websocket | wss
  deriving DecidableEq, Repr

structure ClientCfg where
  tlsEnable : Bool                 -- transport.tls.enable (after Complete)
  disableCustomFirstByte : Bool    -- transport.tls.disableCustomTLSFirstByte (after Complete)
  protocol : Protocol := .tcp
  trustedCA : Bool                 -- trustedCaFile ≠ ""
  certGiven : Bool                 -- certFile ≠ "" ∧ keyFile ≠ ""
  serverName : Str                 -- transport.tls.serverName
  serverAddr : Str
  tcpMux : Bool := true
  deriving DecidableEq, Repr

/-- `TLSClientConfig.Complete`: Enable defaults to true, DisableCustomTLSFirstByte defaults to true -/
def ClientCfg.default (addr : Str) : ClientCfg :=
  { tlsEnable := true, disableCustomFirstByte := true, trustedCA := false, certGiven := false
  , serverName := [], serverAddr := addr }

/-- the fields `NewClientTLSConfig(cert, key, ca, sn)` sets -/
structure ClientTls where
  insecureSkipVerify : Bool
  serverName : Str
  hasRootCAs : Bool
  hasCert : Bool
  nextProtos : List Str := []   -- tls.Config.NextProtos; NewClientTLSConfig leaves it nil
  deriving DecidableEq, Repr

def clientTlsOf (certGiven caGiven : Bool) (sn : Str) : ClientTls :=
  { insecureSkipVerify := !caGiven, serverName := sn, hasRootCAs := caGiven, hasCert := certGiven }

/-- `sn := cfg.Transport.TLS.ServerName; if sn == "" { sn = cfg.ServerAddr }` -/
def effServerName (c : ClientCfg) : Str := if c.serverName = [] then c.serverAddr else c.serverName

/-- the ALPN protocol name both ends put into `NextProtos` for QUIC: `[]string{"frp"}` -/
def frpALPN : Str := [0x66, 0x72, 0x70]

/-- `realConnect`: `tlsEnable := Enable; if protocol == "wss" { tlsEnable = true }`;
    `Open` for quic: always a tls.Config — the configured one if Enable, else
    `NewClientTLSConfig("", "", "", sn)` (no verification) — then `tlsConfig.NextProtos = []string{"frp"}`. -/
def clientTls (c : ClientCfg) : Option ClientTls :=
  match c.protocol with
  | .quic =>
    if c.tlsEnable then
      some { clientTlsOf c.certGiven c.trustedCA (effServerName c) with nextProtos := [frpALPN] }
    else some { clientTlsOf false false (effServerName c) with nextProtos := [frpALPN] }
  | .wss => some (clientTlsOf c.certGiven c.trustedCA (effServerName c))
  | _ => if c.tlsEnable then some (clientTlsOf c.certGiven c.trustedCA (effServerName c)) else none

inductive Hook | websocket | customByte | tls
  deriving DecidableEq, Repr

/-- the after-dial hooks in the order they run (realConnect's `switch protocol`).  The custom-byte
    hook is always installed for tcp/kcp/websocket and writes its byte iff
    `enableTLS && !disableCustomTLSHeadByte` (dial.go); `WithTLSConfig(nil)` installs nothing. -/
def clientHooks (c : ClientCfg) : List Hook :=
  let tlsOn := (clientTls c).isSome
  let cb : List Hook := if tlsOn && !c.disableCustomFirstByte then [.customByte] else []
  let t : List Hook := if tlsOn then [.tls] else []
  match c.protocol with
  | .websocket => [.websocket] ++ cb ++ t
  | .wss => [.tls, .websocket]          -- TLS priority 100, websocket priority 110; no custom byte
  | .quic => [.tls]                     -- TLS is inside QUIC; no hooks
  | _ => cb ++ t

structure Dial where
  tls : Bool
  customByte : Bool
  deriving DecidableEq, Repr

def clientDial (c : ClientCfg) : Dial :=
  { tls := (clientHooks c).contains .tls, customByte := (clientHooks c).contains .customByte }

/-- first byte a real frpc puts on a fresh tcp connection to frps (protocol tcp):
    0x17 (custom byte), 0x16 (TLS record type handshake), 0x00 (yamux header version) or the
    message type byte of Login 'o' / NewWorkConn 'w' / NewVisitorConn 'v'. -/
def clientFirstBytes (c : ClientCfg) : List Nat :=
  let d := clientDial c
  if d.customByte then [0x17]
  else if d.tls then [0x16]
  else if c.tcpMux then [0x00]
  else [0x6f, 0x77, 0x76]

/-! ## 3. Certificates in play (abstract) and the session decision -/

/-! ### Host names and IP literals (crypto/x509 `Certificate.VerifyHostname`, ASSUMED; sampled by the
      certificate lattice and by the in-memory handshakes of the `ident` op)

  ```
  if ip := net.ParseIP(candidateIP); ip != nil {          // "We only match IP addresses against IP SANs."
      for _, candidate := range c.IPAddresses { if ip.Equal(candidate) { return nil } }
      return HostnameError{c, candidateIP} }
  for _, match := range c.DNSNames { … matchHostnames / matchExactly … }
  ```
  Model domain: IPv4 literals in dotted-decimal form (what `netip.ParseAddr` accepts: four fields,
  each 1–3 digits, ≤ 255, no leading zero), DNS names compared exactly (lower case, no wildcard
  patterns in the certificate).  IPv6 literals, bracketed literals and wildcard SANs are outside the
  domain (the driver skips them). -/

def isDigit (b : Nat) : Bool := 48 ≤ b && b ≤ 57

def decVal (f : Str) : Nat := f.foldl (fun a b => a * 10 + (b - 48)) 0

/-- one dotted-decimal field: `netip.parseIPv4` — digits only, at most 255, "IPv4 field has octet with
    leading zero" -/
def octetOk (f : Str) : Bool :=
  !f.isEmpty && f.length ≤ 3 && f.all isDigit && decVal f ≤ 255 && (f.length == 1 || f.head? != some 48)

/-- `net.ParseIP(n) != nil` for the IPv4 form -/
def isIPv4 (n : Str) : Bool :=
  let fs := Str.splitOn Str.dot n
  fs.length == 4 && fs.all octetOk

/-- outside the model's name domain: IPv6 / bracketed literals, wildcard patterns, upper case -/
def nameInDomain (n : Str) : Bool :=
  n.all fun b => b != Str.colon && b != 91 && b != 93 && b != Str.star && !(65 ≤ b && b ≤ 90)

/-- facts about the certificate files; CA identities are numbers -/
structure Pki where
  srvCertIssuer : Option Nat := none     -- CA that signed the server's configured certificate
  srvCertDNS : List Str := []            -- dNSName SANs of that certificate
  srvCertIPs : List Str := []            -- iPAddress SANs of that certificate (dotted decimal)
  cliRootCA : Nat := 0                   -- CA in the client's trustedCaFile
  cliCertIssuer : Option Nat := none     -- CA that signed the client's configured certificate
  srvClientCA : Nat := 0                 -- CA in the server's trustedCaFile
  deriving DecidableEq, Repr

/-- `leaf.VerifyHostname(name)`: an IP literal is matched against the IP SANs ONLY, anything else
    against the DNS SANs only -/
def certMatchesName (p : Pki) (n : Str) : Bool :=
  if isIPv4 n then p.srvCertIPs.contains n else p.srvCertDNS.contains n

/-- crypto/tls client side: skip, or chain to RootCAs and match ServerName (ASSUMED behaviour of
    crypto/tls + crypto/x509; sampled by the certificate matrix of the engine) -/
def serverCertAccepted (s : ServerCfg) (ct : ClientTls) (p : Pki) : Bool :=
  ct.insecureSkipVerify ||
    (s.certGiven && p.srvCertIssuer == some p.cliRootCA && certMatchesName p ct.serverName)

/-- crypto/tls server side with RequireAndVerifyClientCert (ASSUMED, sampled) -/
def clientCertAccepted (st : ServerTls) (ct : ClientTls) (p : Pki) : Bool :=
  match st.clientAuth with
  | .noClientCert => true
  | .requireAndVerify => ct.hasCert && p.cliCertIssuer == some p.srvClientCA

def handshakeOk (s : ServerCfg) (ct : ClientTls) (p : Pki) : Bool :=
  serverCertAccepted s ct p && clientCertAccepted (serverTls s) ct p

/-- does a real frpc (protocol tcp, same tcpMux on both ends) get a session? -/
def sessionUp (s : ServerCfg) (c : ClientCfg) (p : Pki) : Bool :=
  (clientFirstBytes c).all fun b =>
    match sniff b (serverForce s), clientTls c with
    | .customTLS, some ct => handshakeOk s ct p
    | .tls, some ct => handshakeOk s ct p
    | .plain, none => true
    | _, _ => false

/-- does `handleConnection` ever call `msg.ReadMsg` on bytes of this peer?  (`hs` = the peer
    completes a TLS handshake the server accepts) -/
def reachesReadMsg (s : ServerCfg) (b : Nat) (hs : Bool) : Bool :=
  match sniff b (serverForce s) with
  | .plain => true
  | .refuse => false
  | .customTLS => hs
  | .tls => hs

/-- a raw peer (no TLS ability, tcpMux off) sends `b` followed by the rest of a well-formed Login
    frame (run id empty).  Which reply type byte comes back?  'o' Login → '1' LoginResp;
    'v' NewVisitorConn (no such listener) → '3' NewVisitorConnResp; 'w' NewWorkConn (unknown run id)
    and every other byte → connection closed without a frame. -/
def rawReply (s : ServerCfg) (b : Nat) : Option Nat :=
  if reachesReadMsg s b false then
    if b = 0x6f then some 0x31 else if b = 0x76 then some 0x33 else none
  else none

/-! ## 3b. The server's listeners: which gate and which tls.Config each one puts in front of
      `handleConnection` (server/service.go NewService / Run / HandleListener / HandleQUICListener) -/

/-- every listener frps accepts frpc connections on:
    `svr.listener` (muxer default), `svr.tlsListener` (muxer rule: first byte 0x17 / 0x16),
    `svr.kcpListener`, `svr.websocketListener` (muxer rule "GET /~!frp", then the websocket stream),
    `svr.quicListener`, `svr.sshTunnelListener` (in-process) -/
inductive Listener | tcp | tlsMux | kcp | websocket | quic | sshTunnel
  deriving DecidableEq, Repr

def Listener.all : List Listener := [.tcp, .tlsMux, .kcp, .websocket, .quic, .sshTunnel]

/-- what stands between `Accept` and `handleConnection` -/
inductive Gate
  | internal   -- `HandleListener(l, true)`: no sniff, no TLS (pipe inside the frps process)
  | sniff      -- `HandleListener(l, false)`: `CheckAndEnableTLSServerConnWithTimeout(c, svr.tlsConfig, Force, …)`
  | quicTls    -- `HandleQUICListener`: no sniff, no force test; the TLS 1.3 handshake is part of the QUIC
               -- handshake and uses the config handed to `quic.ListenAddr`; every accepted stream goes
               -- straight to `handleConnection(ctx, stream, false)`
  deriving DecidableEq, Repr

/-- `Run`: `go svr.HandleListener(svr.sshTunnelListener, true)`, `HandleListener(svr.kcpListener, false)`,
    `HandleQUICListener(svr.quicListener)`, `HandleListener(svr.websocketListener, false)`,
    `HandleListener(svr.tlsListener, false)`, `HandleListener(svr.listener, false)` -/
def Listener.gate : Listener → Gate
  | .sshTunnel => .internal
  | .quic => .quicTls
  | _ => .sniff

/-- on the network (everything but the in-process ssh-gateway listener) -/
def Listener.isPublic (l : Listener) : Bool := l != .sshTunnel

/-- `tls.Config.Clone()`: every field is copied -/
def ServerTls.clone (t : ServerTls) : ServerTls := { t with }

/-- NewService: `quicTLSCfg := tlsConfig.Clone(); quicTLSCfg.NextProtos = []string{"frp"}` where
    `tlsConfig` is the value also stored in `svr.tlsConfig` -/
def quicServerTls (s : ServerCfg) : ServerTls := { (serverTls s).clone with nextProtos := [frpALPN] }

/-- the tls.Config a handshake on this listener is run with (none: the listener never does TLS) -/
def listenerTls (l : Listener) (s : ServerCfg) : Option ServerTls :=
  match l.gate with
  | .internal => none
  | .sniff => some (serverTls s)       -- `svr.tlsConfig`
  | .quicTls => some (quicServerTls s)

/-- crypto/tls ALPN (ASSUMED, sampled): in QUIC mode both ends must agree on a protocol (the
    handshake fails without a negotiated ALPN); on an ordinary tls.Conn an empty list on either side
    negotiates nothing and succeeds, two non-empty lists must intersect -/
def alpnOk (quicMode : Bool) (st : ServerTls) (ct : ClientTls) : Bool :=
  let common := st.nextProtos.any fun x => ct.nextProtos.contains x
  if quicMode then common else st.nextProtos.isEmpty || ct.nextProtos.isEmpty || common

/-- a TLS handshake on listener `l` between the server's config for that listener and client
    config `ct` completes on both ends -/
def handshakeOkOn (l : Listener) (s : ServerCfg) (ct : ClientTls) (p : Pki) : Bool :=
  match listenerTls l s with
  | none => false
  | some st =>
    serverCertAccepted s ct p && clientCertAccepted st ct p && alpnOk (l.gate == .quicTls) st ct

/-- does `handleConnection` ever call `msg.ReadMsg` on bytes of a peer that arrived on listener `l`?
    `b` = first byte on the fresh connection (not looked at by QUIC: there is no sniff),
    `hs` = the peer completes a TLS handshake which that listener's config accepts -/
def reachesReadMsgOn (l : Listener) (s : ServerCfg) (b : Nat) (hs : Bool) : Bool :=
  match l.gate with
  | .internal => true
  | .sniff => reachesReadMsg s b hs
  | .quicTls => hs

/-- first thing `handleConnection`'s side reads after the gate: a yamux header (version byte 0) when
    tcpMux is on, else a frame whose type byte must be one it dispatches on -/
def innerAccepts (mux : Bool) (b : Nat) : Bool :=
  if mux then b == 0 else [0x6f, 0x77, 0x76].contains b

/-- the listener a real frpc of protocol `pr` arrives on (`b` = the first byte it sends) -/
def listenerOf (pr : Protocol) (b : Nat) : Listener :=
  match pr with
  | .tcp => if b = 0x17 ∨ b = 0x16 then .tlsMux else .tcp
  | .kcp => .kcp
  | .websocket => .websocket
  | .wss => .tlsMux
  | .quic => .quic

/-- does a real frpc get a session, for every control transport?
    tcp / kcp / websocket: the same hooks (custom byte, TLS) run on the (inner) stream and the server
    sniffs it — `sessionUp`;  quic: the QUIC handshake with `quicServerTls`, no sniff, no force, no yamux;
    wss: frps does not terminate wss — after the TLS layer its reader meets the 'G' of the websocket
    upgrade request where a yamux header / frame type is expected and closes -/
def sessionUpOn (s : ServerCfg) (c : ClientCfg) (p : Pki) : Bool :=
  match c.protocol with
  | .quic =>
    match clientTls c with
    | some ct => reachesReadMsgOn .quic s 0 (handshakeOkOn .quic s ct p)
    | none => false
  | .wss => innerAccepts s.tcpMux 0x47 && sessionUp s { c with tlsEnable := true } p
  | _ => sessionUp s c p

/-! ## 3c. wss the way it is deployed: a TLS terminator in front of frps

  frps has no wss listener; `transport.protocol = "wss"` is for a TLS reverse proxy (nginx, a load
  balancer) that presents ITS certificate and hands the decrypted websocket stream to frps's plain
  port.  The client side is all in client/connector.go realConnect:
  `tlsEnable := Enable; if protocol == "wss" { tlsEnable = true }` — the configured certificate,
  trusted CA and server name go into the tls.Config whatever `transport.tls.enable` says —, dial options
  `WithTLSConfigAndPriority(100, tlsConfig)` then the websocket hook (priority 110); no custom byte, no
  inner TLS. -/

/-- which control transports are TLS by themselves: the connector builds a tls.Config for them
    whatever `transport.tls.enable` says (realConnect for wss, Open for quic) -/
def tlsRequired : Protocol → Bool
  | .wss => true
  | .quic => true
  | _ => false

/-- the certificate the endpoint in front of frps presents -/
structure Terminator where
  issuer : Nat
  dns : List Str := []
  ips : List Str := []
  deriving DecidableEq, Repr

/-- the certificate facts as the client sees them when it talks to the terminator -/
def Terminator.pki (t : Terminator) (p : Pki) : Pki :=
  { p with srvCertIssuer := some t.issuer, srvCertDNS := t.dns, srvCertIPs := t.ips }

/-- the client's crypto/tls verdict on the terminator's certificate (the terminator asks for no client
    certificate) -/
def terminatorAccepted (ct : ClientTls) (t : Terminator) (p : Pki) : Bool :=
  serverCertAccepted { force := false, trustedCA := false, certGiven := true } ct (t.pki p)

/-- what frps sees behind the terminator: a websocket client without TLS and without the custom byte -/
def behindTerminator (c : ClientCfg) : ClientCfg := { c with protocol := .websocket, tlsEnable := false }

/-- does a real frpc with `protocol = "wss"` get a session through terminator `t`?  The TLS handshake
    with the terminator under the connector's tls.Config, then the plain websocket stream at frps
    (refused by a forcing frps: the stream it sniffs is not TLS) -/
def wssSessionVia (s : ServerCfg) (c : ClientCfg) (p : Pki) (t : Terminator) : Bool :=
  match clientTls { c with protocol := .wss } with
  | some ct => terminatorAccepted ct t p && sessionUp s (behindTerminator c) p
  | none => false

/-! ## 4. Messages, secrets, channels, layers -/

inductive MsgKind
  | login | loginResp | newProxy | newProxyResp | closeProxy | newWorkConn | reqWorkConn
  | startWorkConn | newVisitorConn | newVisitorConnResp | ping | pong | udpPacket
  | natHoleVisitor | natHoleClient | natHoleResp | natHoleSid | natHoleReport
  deriving DecidableEq, Repr

def MsgKind.all : List MsgKind :=
  [.login, .loginResp, .newProxy, .newProxyResp, .closeProxy, .newWorkConn, .reqWorkConn,
   .startWorkConn, .newVisitorConn, .newVisitorConnResp, .ping, .pong, .udpPacket,
   .natHoleVisitor, .natHoleClient, .natHoleResp, .natHoleSid, .natHoleReport]

inductive Secret | token | sk | httpPwd
  deriving DecidableEq, Repr

inductive Form
  | digest    -- `util.GetAuthKey(secret, timestamp)` = hex(md5(secret ‖ decimal ts))
  | clear
  deriving DecidableEq, Repr

/-- secret-derived fields per message type (pkg/msg/msg.go + the sites that fill them):
    Login/Ping/NewWorkConn.PrivilegeKey ← GetAuthKey(token, ts) (pkg/auth/token.go);
    NewVisitorConn.SignKey ← GetAuthKey(sk, ts) (client/visitor/stcp.go, sudp.go);
    NatHoleVisitor.SignKey ← GetAuthKey(sk, ts) (client/visitor/xtcp.go, pkg/nathole/nathole.go);
    NewProxy.Sk, NewProxy.HTTPPwd ← the configured strings (pkg/config/v1/proxy.go MarshalToMsg). -/
def carries : MsgKind → List (Secret × Form)
  | .login => [(.token, .digest)]
  | .ping => [(.token, .digest)]
  | .newWorkConn => [(.token, .digest)]
  | .newVisitorConn => [(.sk, .digest)]
  | .natHoleVisitor => [(.sk, .digest)]
  | .newProxy => [(.httpPwd, .clear), (.sk, .clear)]
  | _ => []

inductive Channel
  | rawControl   -- msg.WriteMsg directly on the control connection (before / beside the cipher)
  | control      -- through ctl.msgDispatcher (built over NewCryptoReadWriter iff encrypted)
  | rawWork      -- msg.WriteMsg directly on a work connection
  | rawVisitor   -- msg.WriteMsg directly on a visitor connection
  | workStream   -- inside the proxy's wrapper stack on a work / visitor connection
  deriving DecidableEq, Repr

/-- where each message type is written (all `msg.WriteMsg` / `msgDispatcher.Send` /
    `msgTransporter.Send` sites of client/ and server/):
    Login client/service.go:286; LoginResp server/service.go:453 + server/control.go:209 (ctl.conn);
    NewWorkConn client/control.go:141; StartWorkConn server/proxy/proxy.go:152, server/service.go:643;
    NatHoleSid server/proxy/xtcp.go:79 (raw work conn); NewVisitorConn client/visitor/stcp.go:102,
    sudp.go:216; NewVisitorConnResp server/service.go:466,472; UDPPacket server/proxy/udp.go:167,
    client/proxy/udp.go:152, sudp.go:173, client/visitor/sudp.go (after the wrappers);
    everything else through the dispatcher. -/
def channel : MsgKind → Channel
  | .login => .rawControl
  | .loginResp => .rawControl
  | .newWorkConn => .rawWork
  | .startWorkConn => .rawWork
  | .natHoleSid => .rawWork
  | .newVisitorConn => .rawVisitor
  | .newVisitorConnResp => .rawVisitor
  | .udpPacket => .workStream
  | _ => .control

inductive Layer | tls | ctlCipher | proxyCipher
  deriving DecidableEq, Repr

/-- one client↔server path configuration -/
structure PathCfg where
  tls : Bool               -- the transport connection is a tls.Conn (clientDial.tls and sniff ∈ {tls, custom})
  internal : Bool          -- accepted on the in-process ssh-gateway listener (never on the network)
  useEncryption : Bool     -- proxy transport.useEncryption
  tokenEmpty : Bool := false
  deriving DecidableEq, Repr

/-- `RegisterControl`: `NewControl(…, ctlConn, !internal, …)`; client: `connEncrypted = true` unless
    clientSpec.Type == "ssh-tunnel" -/
def controlEncrypted (internal : Bool) : Bool := !internal

def layers (cfg : PathCfg) (ch : Channel) : List Layer :=
  (if cfg.tls && !cfg.internal then [.tls] else []) ++
  (match ch with
   | .control => if controlEncrypted cfg.internal then [.ctlCipher] else []
   | .workStream => if cfg.useEncryption then [.proxyCipher] else []
   | _ => [])

/-- the public listeners (tcp/kcp/quic/websocket/tls) are on the network; the ssh gateway's virtual
    client talks to `sshTunnelListener` through an in-process pipe -/
def onNetworkPath (cfg : PathCfg) : Bool := !cfg.internal

/-- content of message kind `k` is readable by an observer of the channel (no layer at all) -/
def contentClear (cfg : PathCfg) (k : MsgKind) : Bool := (layers cfg (channel k)).isEmpty

/-- secret `s` appears, in clear form, in some message that crosses the channel under no layer -/
def clearInChannel (cfg : PathCfg) (s : Secret) : Bool :=
  MsgKind.all.any fun k => (carries k).contains (s, .clear) && contentClear cfg k

def clearOnPath (cfg : PathCfg) (s : Secret) : Bool := onNetworkPath cfg && clearInChannel cfg s

/-- tunnelled payload is readable on the path -/
def payloadClear (cfg : PathCfg) : Bool := onNetworkPath cfg && (layers cfg .workStream).isEmpty

/-- layers whose key an observer cannot derive: the two AES-CFB layers are keyed by
    pbkdf2(token, "frp"), a public constant when the token is empty -/
def secretLayers (cfg : PathCfg) (ch : Channel) : List Layer :=
  (layers cfg ch).filter fun l => l == .tls || !cfg.tokenEmpty

def secretlyProtected (cfg : PathCfg) (s : Secret) : Bool :=
  MsgKind.all.all fun k => !(carries k).contains (s, .clear) || !(secretLayers cfg (channel k)).isEmpty

/-! ## 5. Per-proxy wrapper stacks (innermost = next to the work connection, first) -/

inductive StackLayer | limit | enc | comp
  deriving DecidableEq, Repr

/-- server/proxy/proxy.go handleUserTCPConnection: enc, then comp, then limiter -/
def serverStack (enc comp lim : Bool) : List StackLayer :=
  (if enc then [.enc] else []) ++ (if comp then [.comp] else []) ++ (if lim then [.limit] else [])

/-- client/proxy/proxy.go HandleTCPWorkConnection: limiter, then enc, then comp -/
def clientStack (enc comp lim : Bool) : List StackLayer :=
  (if lim then [.limit] else []) ++ (if enc then [.enc] else []) ++ (if comp then [.comp] else [])

/-- the transforming part of a stack (the limiter does not change bytes) -/
def transforming (st : List StackLayer) : List StackLayer := st.filter (· != .limit)

/-! ## 6. pkg/auth/token.go setters -/

inductive AuthField | empty | digest | clear
  deriving DecidableEq, Repr

/-- what the setter leaves in `PrivilegeKey`: Login always the digest; Ping / NewWorkConn the digest
    iff the scope is configured, else untouched (empty) -/
def authKeyField (k : MsgKind) (scopeHeartBeats scopeNewWorkConns : Bool) : AuthField :=
  match k with
  | .login => .digest
  | .ping => if scopeHeartBeats then .digest else .empty
  | .newWorkConn => if scopeNewWorkConns then .digest else .empty
  | _ => .empty

end Wire
end Frp
