import Frp.Model.Router
import Frp.Model.Host
/-
  Model of the CONNECTION level of the vhost http server (pkg/util/vhost/http.go), property C06:
  requests that share one client connection — HTTP/1.1 keep-alive, or the streams of an h2c connection
  (opened by the RFC 7540 section 3.2 `Upgrade: h2c` request or by the section 3.4 prior-knowledge preface) —
  interleaved with `Register` / `UnRegister`, and the connections to BACKENDS that the reverse proxy's
  transport keeps idle and re-uses.

  Go (NewHTTPReverseProxy, ServeHTTP, authorize, injectRequestInfoToCtx, CreateConnection):

    http.Server ──► ServeHTTP(req)                      every HTTP/1.1 request, incl. the one that opens an h2c connection
                      newreq := authorize(req)          = injectRequestInfoToCtx: RouteInfoKey ↦ RequestRouteInfo of req,
                                                          RouteConfigKey ↦ GetRouteConfig(canonical host, path, user) NOW
                      RouteConfig == nil → 404 page
                      else rp.proxy.ServeHTTP(newreq)   = h2c.NewHandler(H, …): upgrade / preface → hijack,
                                                          http2.Server.ServeConn(Context: newreq.Context(), Handler: H);
                                                          otherwise H(newreq)
    H(req)            the handler WRAPPED by h2c.NewHandler: every later stream of an h2c connection enters here
                      directly, with a context DERIVED FROM THE OPENING request's context (it already carries the
                      opening request's RequestRouteInfo and RouteConfig)
                      newreq := authorize(req)          again, for the request H was handed
                      RouteConfig == nil → 404 page
                      else httputil.ReverseProxy: Rewrite (pool key from the context's RouteConfig: domain, location,
                        user, regID) → http.Transport: an idle connection under that key, else
                        DialContext → CreateConnection(context's RequestRouteInfo) → getVhost NOW → CreateConnFn
-/
namespace Frp
namespace HttpConn
open Str Router

/-- a request as the server reads it -/
structure Req where
  host : Str        -- Host / :authority as written
  path : Str        -- URL.Path
  user : Str        -- basic-auth user ("" = none)
  peer : Nat        -- RemoteAddr (one per client connection)
deriving DecidableEq, Repr

/-- `RequestRouteInfo`: Host, URL, HTTPUser, RemoteAddr -/
structure Info where
  host : Str
  path : Str
  user : Str
  peer : Nat
deriving DecidableEq, Repr

/-- what a request context carries under `RouteInfoKey` / `RouteConfigKey`; `none` = nothing yet (the base
    context of a fresh connection); `some (info, none)` = resolved, no route (`(*RouteConfig)(nil)`) -/
abbrev Ctx := Option (Info × Option Route)

/-- `originalHost, _ := httppkg.CanonicalHost(host)`: the error is dropped, the host is "" then -/
def canon (h : Str) : Str := (Host.canonicalHost h).getD []

/-- the lookup of a request in the table as it is -/
def resolve (R : Routers) (q : Req) : Option Route := getVhost R (canon q.host) q.path q.user

/-- `injectRequestInfoToCtx` (= `authorize` without the credential check, which is C07's): both values are
    computed from THE REQUEST and the table as it is and stored over whatever the inherited context carries -/
def inject (R : Routers) (_inherited : Ctx) (q : Req) : Ctx :=
  some ({ host := q.host, path := q.path, user := q.user, peer := q.peer }, resolve R q)

/-- a policy by which a handler takes the route information of the context it was handed for the route of
    the request, instead of resolving it -/
abbrev Trust := Ctx → Req → Bool

/-- pkg/util/vhost/http.go as it is: no handler reads `RouteInfoKey` / `RouteConfigKey` before it has
    resolved them itself (regenerated: Gen/RouteCtxFacts) -/
def never : Trust := fun _ _ => false

/-- a handler that skips the resolution when the context's RequestRouteInfo names the request's host, path
    and peer (a "do not walk the table twice" shortcut) -/
def sameHostPathPeer : Trust := fun ctx q =>
  match ctx with
  | some (i, _) => i.host = q.host && i.path = q.path && i.peer = q.peer
  | none => false

/-- the server: the route table, `nextRegID`, and the transport's idle backend connections as
    (pool key = regID of the RouteConfig the request was rewritten with, registration whose backend is at the
    other end) -/
structure Srv where
  R    : Routers
  next : Nat
  pool : List (Nat × Nat)

def Srv.empty : Srv := { R := Router.empty, next := 1, pool := [] }

/-- `Register`: `routeCfg.regID = rp.nextRegID.Add(1)` (spent also when the route is refused), `Routers.Add`.
    The payload of a route IS its registration: a re-registered triple is another payload. -/
def register (S : Srv) (d l u : Str) : Srv × AddResult :=
  let r := add S.R d l u S.next
  ({ S with R := r.1, next := S.next + 1 }, r.2)

/-- `UnRegister`: `Routers.Del`; the transport is not told -/
def unregister (S : Srv) (d l u : Str) : Srv := { S with R := del S.R d l u }

/-- `httputil.ReverseProxy.ServeHTTP` with frp's `Rewrite` and `DialContext`, for a context that carries a
    route: the pool key is the CONTEXT's RouteConfig; `reuse` = the transport's choice to take an idle
    connection under that key if there is one (it may have timed out or been closed: any choice is a
    behaviour); otherwise `CreateConnection(context's RequestRouteInfo)` resolves again, in the table as it
    is, and the new connection is pooled under the key.  Answer: the registration whose backend served the
    request, `none` = nobody (`ErrNoRouteFound` → 404 page). -/
def forward (S : Srv) (info : Info) (rc : Route) (reuse : Bool) : Srv × Option Nat :=
  match (if reuse then S.pool.lookup rc.payload else none) with
  | some b => (S, some b)
  | none =>
    match getVhost S.R (canon info.host) info.path info.user with
    | some r => ({ S with pool := (rc.payload, r.payload) :: S.pool }, some r.payload)
    | none => (S, none)

/-- the handler wrapped by `h2c.NewHandler`, handed request `q` with context `ctx` -/
def wrapped (trust : Trust) (S : Srv) (ctx : Ctx) (q : Req) (reuse : Bool) : Srv × Option Nat :=
  match (if trust ctx q then ctx else inject S.R ctx q) with
  | some (info, some rc) => forward S info rc reuse
  | _ => (S, none)

/-- `ServeHTTP` for a non-CONNECT request: answer, and the context `rp.proxy` was handed (`none`: it was
    not reached, the 404 page was written by `ServeHTTP` itself) -/
def serveHTTP (trust : Trust) (S : Srv) (q : Req) (reuse : Bool) : Srv × Option Nat × Option Ctx :=
  match inject S.R none q with
  | some (info, some rc) =>
    let r := wrapped trust S (some (info, some rc)) q reuse
    (r.1, r.2, some (some (info, some rc)))
  | _ => (S, none, none)

/-- the route the wrapped handler forwards along, without the transport (what the driver replays) -/
def routeOf (trust : Trust) (R : Routers) (ctx : Ctx) (q : Req) : Option Route :=
  match (if trust ctx q then ctx else inject R ctx q) with
  | some (_, rc) => rc
  | none => none

/-! ### client connections -/

/-- a client connection: `none` = HTTP/1.1 (every request passes `ServeHTTP` with a fresh context);
    `some ctx` = an HTTP/2 connection whose streams enter the wrapped handler with the context `ctx` of the
    request that opened it -/
abbrev Conns := List (Nat × Option Ctx)

/-- the request `PRI * HTTP/2.0` net/http parses the prior-knowledge preface as: no Host, path "*", no header -/
def priReq (peer : Nat) : Req := { host := [], path := [star], user := [], peer := peer }

inductive Ev
  | reg (d l u : Str)
  | unreg (d l u : Str)
  /-- a request on client connection `c` (a new connection when `c` is not open); `upgrade`: it is an HTTP/1.1
      request that asks for `Upgrade: h2c` (ignored on a connection that is HTTP/2 already) -/
  | req (c : Nat) (upgrade : Bool) (q : Req) (reuse : Bool)
  /-- the prior-knowledge preface on a new connection `c` -/
  | pri (c : Nat)
  | close (c : Nat)

def setConn (cs : Conns) (c : Nat) (v : Option Ctx) : Conns := (c, v) :: cs.filter (fun e => e.1 ≠ c)

/-- one event: new state, new connection table, the answer when the event is a request
    (`some none` = answered, nobody served; `none` = not a request) -/
def step (trust : Trust) (S : Srv) (cs : Conns) : Ev → Srv × Conns × Option (Option Nat)
  | .reg d l u => ((register S d l u).1, cs, none)
  | .unreg d l u => (unregister S d l u, cs, none)
  | .close c => (S, cs.filter (fun e => e.1 ≠ c), none)
  | .pri c =>
    -- ServeHTTP resolves the pseudo request; only with a route the h2c wrapper sees the preface and the
    -- connection becomes HTTP/2 (otherwise 404 in HTTP/1.1 and the rest of the preface ends the connection)
    match inject S.R none (priReq c) with
    | some (info, some rc) => (S, setConn cs c (some (some (info, some rc))), none)
    | _ => (S, cs.filter (fun e => e.1 ≠ c), none)
  | .req c upgrade q reuse =>
    match cs.lookup c with
    | some (some ctx) =>                        -- a stream of an HTTP/2 connection: straight into the wrapped handler
      let r := wrapped trust S ctx q reuse
      (r.1, cs, some r.2)
    | _ =>                                      -- HTTP/1.1 (new or kept-alive connection)
      let r := serveHTTP trust S q reuse
      let cs' := match upgrade, r.2.2 with
        | true, some ctx => setConn cs c (some ctx)     -- 101 Switching Protocols: stream 1 is this request
        | _, _ => setConn cs c none
      (r.1, cs', some r.2.1)

/-- a history of events: the answers to its requests, in order -/
def run (trust : Trust) (S : Srv) (cs : Conns) : List Ev → List (Option Nat)
  | [] => []
  | e :: es =>
    let r := step trust S cs e
    match r.2.2 with
    | some a => a :: run trust r.1 r.2.1 es
    | none => run trust r.1 r.2.1 es

/-- the reference: no connections, no contexts, no pool — every request is looked up in the table as it is -/
def ref (R : Routers) (next : Nat) : List Ev → List (Option Nat)
  | [] => []
  | .reg d l u :: es => ref (add R d l u next).1 (next + 1) es
  | .unreg d l u :: es => ref (del R d l u) next es
  | .req _ _ q _ :: es => (resolve R q).map (·.payload) :: ref R next es
  | .pri _ :: es => ref R next es
  | .close _ :: es => ref R next es

end HttpConn
end Frp
