import Frp.Model.Str
/-
  Model of pkg/util/http/http.go `CanonicalHost` / `hasPort`, including Go's `net.SplitHostPort`.
  `none` = the Go function returns an error (callers ignore the error and use "").
-/
namespace Frp
namespace Host
open Str

def lbr : Nat := 91
def rbr : Nat := 93

def count (c : Nat) (s : Str) : Nat := (s.filter (· = c)).length

/-- `strings.Contains(host, "]:")` -/
def containsRbrColon : Str → Bool
  | a :: b :: rest => (a = rbr ∧ b = colon) || containsRbrColon (b :: rest)
  | _ => false

/-- `hasPort` -/
def hasPort (h : Str) : Bool :=
  let colons := count colon h
  if colons = 0 then false
  else if colons = 1 then true
  else h.head? = some lbr && containsRbrColon h

/-- index of the first occurrence -/
def indexOf (c : Nat) : Str → Option Nat
  | [] => none
  | x :: xs => if x = c then some 0 else (indexOf c xs).map (· + 1)

/-- index of the last occurrence -/
def lastIndexOf (c : Nat) (s : Str) : Option Nat :=
  (indexOf c s.reverse).map (fun i => s.length - 1 - i)

/-- `net.SplitHostPort`, host part only -/
def splitHostPort (hp : Str) : Option Str :=
  match lastIndexOf colon hp with
  | none => none
  | some i =>
    if hp.head? = some lbr then
      match indexOf rbr hp with
      | none => none
      | some e =>
        if e + 1 = hp.length then none
        else if e + 1 = i then
          let host := (hp.take e).drop 1
          if (hp.drop 1).contains lbr then none
          else if (hp.drop (e + 1)).contains rbr then none
          else some host
        else none
    else
      let host := hp.take i
      if host.contains colon then none
      else if hp.contains lbr then none
      else if hp.contains rbr then none
      else some host

/-- `strings.TrimSuffix(host, ".")` -/
def trimDot (h : Str) : Str :=
  match h.reverse with
  | c :: rest => if c = dot then rest.reverse else h
  | [] => h

/-- `CanonicalHost` -/
def canonicalHost (host : Str) : Option Str :=
  let h := toLower host
  if hasPort h then (splitHostPort h).map trimDot else some (trimDot h)

end Host
end Frp
