import Frp.Model.Wrapper
/-
  Small-step (interleaving) model of ONE client proxy wrapper — client/proxy/proxy_wrapper.go —
  with its goroutines and the mutex `pw.mu`.

  `Frp/Model/Wrapper.lean` treats every operation on a wrapper as one atomic `step`.  In the Go code
  the operations are critical sections under `pw.mu` executed by different goroutines:
    * the worker goroutine `checkWorker` (one loop iteration = `time.Now()`, an atomic load of
      `pw.health` OUTSIDE the lock, then `pw.mu.Lock()`, the phase test, the phase write, the
      hand-over of NewProxy / CloseProxy to `pw.handler`, `pw.mu.Unlock()`, then the select),
    * `Stop()` (called by Manager.UpdateAll / Manager.Close on the caller's goroutine),
    * `SetRunningStatus()` (the control connection's reader goroutine, through Manager.StartProxy),
    * the health monitor callbacks (monitor goroutine; atomic store, no lock).
  This file models them at the granularity of the individual statements that matter: lock
  acquisition, each write of `Phase`, each call of `pw.handler` (= the message goes on the wire, in
  this order), unlock.  A schedule is a list of `Label`s; a label that is not enabled (e.g. `Lock()`
  while another goroutine holds the mutex) is a stutter step, so "for all schedules" is "for all
  label lists".

  `Hold` says which goroutine holds `pw.mu` and where it stands inside its critical section.
  A goroutine blocked in `Lock()` is simply one that has not taken its `…Lock` label yet.
  `InWorkConn` / `GetStatus` only read and send nothing; they are not part of this model.

  `early = true` is NOT the code: it is the variant in which the worker releases the mutex after
  the phase write and hands NewProxy to the handler afterwards.  It exists only to show that the
  theorems of Props/C19 Part K discriminate (`C19.earlyUnlock_witness`).
-/
namespace Frp
namespace WrapperConc
open Wrapper

/-- who holds `pw.mu`, and the next statement it will execute -/
inductive Hold
  | free
  -- checkWorker
  | wLocked (now h : Nat)   -- Lock() returned; `h` is the pw.health value loaded before the lock
  | wSendNew                -- Phase = wait start and lastSendStartMsg = now are written; pw.handler(StartProxy) is next
  | wSendClose              -- unhealthy branch, phase running / wait start: pw.close() is next
  | wSetFailed              -- pw.close() returned; Phase = check failed is next
  | wUnlock
  -- Stop
  | sLocked
  | sSend                   -- channels closed, pxy.Close(), monitor.Stop(), Phase = closed done; pw.close() is next
  | sUnlock
  -- SetRunningStatus
  | rLocked (now : Nat) (respErr : Bool)
  | rSendClose (now : Nat)  -- pxy.Run() failed: pw.close() is next
  | rSetErr (now : Nat)     -- Phase = start error, lastStartErr = now is next
  | rUnlock
  deriving DecidableEq, Repr

def Hold.isW : Hold → Bool
  | .wLocked _ _ | .wSendNew | .wSendClose | .wSetFailed | .wUnlock => true
  | _ => false

/-- the worker goroutine outside / inside its critical section -/
inductive WPc
  | select                  -- parked in the select at the bottom of the loop (also: before the first iteration)
  | loaded (now h : Nat)    -- `now := time.Now()` and `atomic.LoadUint32(&pw.health)` done, Lock() not yet returned
  | crit                    -- inside the critical section (see `Hold.w…`)
  | pendingNew              -- ONLY with `early`: mutex released, pw.handler(StartProxy) still to come
  | exited                  -- returned through `<-pw.closeCh`
  deriving DecidableEq, Repr

inductive Label
  | wWake (now : Nat)       -- the select returns through time.After / healthNotifyCh; Now(); load of pw.health
  | wExit                   -- the select returns through closeCh (enabled once Stop closed it)
  | wLock                   -- the worker's Lock() returns (enabled iff the mutex is free)
  | wLate                   -- ONLY with `early`: the worker hands the pending NewProxy to the handler
  | hold                    -- the goroutine holding the mutex executes its next statement
  | stopLock                -- some goroutine calls Stop() and its Lock() returns
  | respLock (now : Nat) (respErr : Bool)   -- some goroutine calls SetRunningStatus and its Lock() returns
  | healthUp | healthDown   -- a monitor callback stores pw.health (lock-free)
  deriving DecidableEq, Repr

structure S where
  w : W
  wpc : WPc := .select
  hold : Hold := .free
  closeCh : Bool := false           -- close(pw.closeCh) happened
  wire : List Msg := []             -- messages handed to pw.handler so far, in that order
  /- ghost: the atomic events of Frp.Wrapper in the order of lock acquisition; health stores that
     happen between the worker's load and its Lock() are kept in `deferred` and placed after the
     worker's tick (they commute with every critical section: those read the loaded value) -/
  lin : List Event := []
  deferred : List Event := []
  deriving Repr

def init (w : W) : S := { w := w }

/-- a monitor callback: `atomic.StoreUint32(&pw.health, v)` (the non-blocking notification only
    makes the select return, which `wWake` may do at any time anyway) -/
def store (s : S) (v : Nat) (e : Event) : S :=
  match s.wpc with
  | .loaded _ _ => { s with w := { s.w with health := v }, deferred := s.deferred ++ [e] }
  | _ => { s with w := { s.w with health := v }, lin := s.lin ++ [e] }

/-- the next statement of the goroutine that holds the mutex -/
def holdStep (early : Bool) (s : S) : S :=
  match s.hold with
  | .free => s
  | .wLocked now h =>
    if h = 0 then
      if wantsStart s.w now then
        { s with w := { s.w with phase := .waitStart, lastSend := now }, hold := .wSendNew }
      else { s with hold := .wUnlock }
    else
      if s.w.phase = .running ∨ s.w.phase = .waitStart then { s with hold := .wSendClose }
      else { s with hold := .wUnlock }
  | .wSendNew =>
    if early then { s with hold := .free, wpc := .pendingNew }
    else { s with wire := s.wire ++ [.newProxy], hold := .wUnlock }
  | .wSendClose => { s with wire := s.wire ++ [.closeProxy], hold := .wSetFailed }
  | .wSetFailed => { s with w := { s.w with phase := .checkFailed }, hold := .wUnlock }
  | .wUnlock => { s with hold := .free, wpc := .select }
  | .sLocked =>
    -- close(pw.closeCh) panics when an earlier Stop closed it (the deferred Unlock still runs);
    -- the channel is closed exactly when an earlier Stop wrote Phase = closed
    if s.w.phase = .closed then { s with hold := .sUnlock }
    else { s with closeCh := true, w := { s.w with phase := .closed }, hold := .sSend }
  | .sSend => { s with wire := s.wire ++ [.closeProxy], hold := .sUnlock }
  | .sUnlock => { s with hold := .free }
  | .rLocked now respErr =>
    if s.w.phase ≠ .waitStart then { s with hold := .rUnlock }
    else if respErr then { s with w := { s.w with phase := .startErr, lastErr := now }, hold := .rUnlock }
    else if s.w.cfg.runFails then { s with hold := .rSendClose now }
    else { s with w := { s.w with phase := .running }, hold := .rUnlock }
  | .rSendClose now => { s with wire := s.wire ++ [.closeProxy], hold := .rSetErr now }
  | .rSetErr now => { s with w := { s.w with phase := .startErr, lastErr := now }, hold := .rUnlock }
  | .rUnlock => { s with hold := .free }

def sstepG (early : Bool) (s : S) : Label → S
  | .wWake now =>
    match s.wpc with
    | .select => { s with wpc := .loaded now s.w.health }
    | _ => s
  | .wExit =>
    match s.wpc with
    | .select => if s.closeCh then { s with wpc := .exited } else s
    | _ => s
  | .wLock =>
    match s.wpc, s.hold with
    | .loaded now h, .free =>
      { s with wpc := .crit, hold := .wLocked now h, lin := s.lin ++ [.tick now] ++ s.deferred, deferred := [] }
    | _, _ => s
  | .wLate =>
    match early, s.wpc with
    | true, .pendingNew => { s with wire := s.wire ++ [.newProxy], wpc := .select }
    | _, _ => s
  | .hold => holdStep early s
  | .stopLock =>
    match s.hold with
    | .free => { s with hold := .sLocked, lin := s.lin ++ [.stop] }
    | _ => s
  | .respLock now respErr =>
    match s.hold with
    | .free => { s with hold := .rLocked now respErr, lin := s.lin ++ [.startResp now respErr] }
    | _ => s
  | .healthUp => store s 0 .healthUp
  | .healthDown => store s 1 .healthDown

/-- the code as it is -/
def sstep (s : S) (l : Label) : S := sstepG false s l

def execG (early : Bool) : S → List Label → S
  | s, [] => s
  | s, l :: ls => execG early (sstepG early s l) ls

def exec (s : S) (ls : List Label) : S := execG false s ls

/-- what the goroutine holding the mutex will still do before it unlocks: the wrapper state at
    its Unlock() (other goroutines can only store `health` meanwhile) and the messages still to be sent -/
def fin (s : S) : W × List Msg :=
  match s.hold with
  | .free | .wUnlock | .sUnlock | .rUnlock => (s.w, [])
  | .wLocked now h =>
    let r := step { s.w with health := h } (.tick now)
    ({ r.1 with health := s.w.health }, r.2.1)
  | .wSendNew => (s.w, [.newProxy])
  | .wSendClose => ({ s.w with phase := .checkFailed }, [.closeProxy])
  | .wSetFailed => ({ s.w with phase := .checkFailed }, [])
  | .sLocked => ((step s.w .stop).1, (step s.w .stop).2.1)
  | .sSend => (s.w, [.closeProxy])
  | .rLocked now e => ((step s.w (.startResp now e)).1, (step s.w (.startResp now e)).2.1)
  | .rSendClose now => ({ s.w with phase := .startErr, lastErr := now }, [.closeProxy])
  | .rSetErr now => ({ s.w with phase := .startErr, lastErr := now }, [])

/-- the health value the linearised history has reached (the stores in `deferred` come later) -/
def hl (s : S) : Nat :=
  match s.wpc with
  | .loaded _ h => h
  | _ => s.w.health

def applyStores : List Event → Nat → Nat
  | [], h => h
  | .healthUp :: es, _ => applyStores es 0
  | .healthDown :: es, _ => applyStores es 1
  | _ :: es, h => applyStores es h

def isStore : Event → Bool
  | .healthUp | .healthDown => true
  | _ => false

end WrapperConc
end Frp
