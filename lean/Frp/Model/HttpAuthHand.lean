import Frp.Model.HttpAuthConn
/-
  Model of two further pieces of the credential gates (property C07):

  * the HAND-OFF in `Muxer.handle` (pkg/util/vhost/vhost.go): a connection that passed the lookup, the success
    hook and the credential check waits in `l.accept <- c` until the listener's owner calls `Accept`; the
    listener may be closed meanwhile (`Listener.Close`: `registryRouter.Del` + `close(l.accept)`), which makes
    the send panic; `handle` then closes the connection.  Small-step: listeners are made and closed,
    connections arrive and wait, owners accept — in any order.
  * http load-balancing groups (server/group/http.go `HTTPGroupController.Register/UnRegister`,
    `HTTPGroup.Register/UnRegister`): the credentials `CheckAuth` reads are those of the `RouteConfig` COPY the
    first member put into `vhost.Routers` (`tmp := routeConfig`); the group keeps its own `username` /
    `password` fields, against which a joining member is compared; every member is a proxy configured with
    its own httpUser / httpPassword.
-/
namespace Frp
namespace HttpAuth
open Str Router

/-! ### hand-off of an accepted CONNECT to its listener -/

/-- a connection inside `Muxer.handle`, past the checks -/
structure HoConn where
  cid : Nat
  q   : ConnectReq
  chk : Nat          -- listener object whose `username` / `password` the check was made against
  dst : Nat          -- listener object on whose `accept` channel the connection is sent

/-- one muxer: `T.R` = `registryRouter` (payload = number of the listener object), `T.creds` = the objects'
    `username` / `password`, `ls` = every listener object `Listen` ever made, `closed` = those whose
    `Close` ran, `parked` = connections blocked in `l.accept <- c`, `delivered` = connections an `Accept`
    took out -/
structure HoState where
  T         : Table
  ls        : List (Nat × TmListener)
  closed    : List Nat
  next      : Nat
  parked    : List HoConn
  delivered : List HoConn

def HoState.empty : HoState :=
  { T := { R := Router.empty, creds := [] }, ls := [], closed := [], next := 0, parked := [], delivered := [] }

/-- `Muxer.Listen`: a new listener object, `registryRouter.Add(cfg.Domain, cfg.Location, cfg.RouteByHTTPUser, l)` -/
def hoListen (S : HoState) (l : TmListener) : HoState × AddResult :=
  match add S.T.R l.name [] l.routeByHTTPUser S.next with
  | (R', .ok) =>
    ({ S with T := { R := R', creds := (S.next, ⟨l.username, l.password⟩) :: S.T.creds },
              ls := (S.next, l) :: S.ls, next := S.next + 1 }, .ok)
  | (_, .conflict) => (S, .conflict)

/-- `v.getListener(name, path, httpUser)` alone: the listener object a CONNECT resolves to -/
def muxLookup (T : Table) (q : ConnectReq) : Option Nat :=
  let u := match q.pauth with | some x => x.1 | none => []
  (getVhost T.R (toLower q.host) [] u).map (·.payload)

/-- `Muxer.handle` up to the send: ONE lookup, the check against THAT listener (`muxHandle`), then the
    connection waits at that listener's channel -/
def hoArrive (S : HoState) (cid : Nat) (q : ConnectReq) : HoState × MuxResp :=
  match muxHandle S.T q with
  | .accept n => ({ S with parked := S.parked ++ [⟨cid, q, n, n⟩] }, .accept n)
  | r => (S, r)

/-- `Listener.Close` of object `n`: the route is deleted, the channel closed; every send blocked on it
    panics.  `retry = false` is the code as it is (`handle` logs and closes the connection);
    `retry = true` is a `handle` that looks the route up AGAIN after the failed send and sends the
    connection to the listener found now, without a second check -/
def hoClose (retry : Bool) (S : HoState) (n : Nat) : HoState :=
  match S.ls.lookup n with
  | none => S
  | some l =>
    if S.closed.contains n then S else
    let T' : Table := { S.T with R := del S.T.R l.name [] l.routeByHTTPUser }
    let waiting := S.parked.filter (fun x => x.dst = n)
    let rest := S.parked.filter (fun x => x.dst ≠ n)
    let moved := if retry then
        waiting.filterMap (fun x =>
          match muxLookup T' x.q with
          | some n' => if n' = n then none else some { x with dst := n' }
          | none => none)
      else []
    { S with T := T', closed := n :: S.closed, parked := rest ++ moved }

/-- `Listener.Accept` of object `n` returns connection `cid` (which of the blocked senders the runtime
    wakes is not the muxer's choice) -/
def hoAccept (S : HoState) (n cid : Nat) : HoState :=
  match S.parked.find? (fun x => x.cid = cid ∧ x.dst = n) with
  | some x =>
    { S with parked := S.parked.filter (fun y => ¬ (y.cid = cid ∧ y.dst = n)), delivered := S.delivered ++ [x] }
  | none => S

inductive HoOp
  | listen (l : TmListener)
  | close (n : Nat)
  | arrive (cid : Nat) (q : ConnectReq)
  | accept (n cid : Nat)

def hoStep (retry : Bool) (S : HoState) : HoOp → HoState
  | .listen l => (hoListen S l).1
  | .close n => hoClose retry S n
  | .arrive cid q => (hoArrive S cid q).1
  | .accept n cid => hoAccept S n cid

def hoRun (retry : Bool) (ops : List HoOp) : HoState := ops.foldl (hoStep retry) HoState.empty

/-! ### http load-balancing groups -/

/-- a member: the proxy instance and the httpUser / httpPassword IT is configured with -/
structure HgMember where
  pid   : Nat
  creds : Creds
deriving DecidableEq, Repr

/-- `HTTPGroup`: the fields `Register` compares a joiner with, the group's own `username` / `password`, the
    number of the `RouteConfig` copy it put into the route table, its members in `pxyNames` order -/
structure HgGroup where
  name      : Str
  key       : Str
  domain    : Str
  location  : Str
  routeUser : Str
  username  : Str
  password  : Str
  routeId   : Nat
  members   : List HgMember
deriving Repr

/-- `T.R` = the `vhost.Routers` shared with the reverse proxy (payload = number of a stored `RouteConfig`),
    `T.creds` = `Username` / `Password` of each stored `RouteConfig` — what `CheckAuth` reads -/
structure HgState where
  T      : Table
  next   : Nat
  groups : List HgGroup

def HgState.empty : HgState := { T := { R := Router.empty, creds := [] }, next := 0, groups := [] }

structure HgJoin where
  pid       : Nat
  group     : Str
  key       : Str
  domain    : Str
  location  : Str
  routeUser : Str
  user      : Str
  pass      : Str
deriving Repr

inductive HgRes | ok | conflict | params | auth | repeated
deriving DecidableEq, Repr

def hgFind (gs : List HgGroup) (name : Str) : Option HgGroup := gs.find? (fun g => g.name = name)

def hgPut (gs : List HgGroup) (g : HgGroup) : List HgGroup := g :: gs.filter (fun x => x.name ≠ g.name)

/-- `HTTPGroupController.Register` → `HTTPGroup.Register`.  `chk` = a joiner's `Username` / `Password` are
    compared with the group's (`true` = the code as it is since c7cd280; `false` = before it) -/
def hgJoin (chk : Bool) (S : HgState) (j : HgJoin) : HgState × HgRes :=
  match hgFind S.groups j.group with
  | none =>
    -- `len(g.createFuncs) == 0`: tmp := routeConfig; vhostRouter.Add(…, &tmp); g.username = routeConfig.Username …
    match add S.T.R j.domain j.location j.routeUser S.next with
    | (R', .ok) =>
      ({ T := { R := R', creds := (S.next, ⟨j.user, j.pass⟩) :: S.T.creds }, next := S.next + 1,
         groups := hgPut S.groups
           { name := j.group, key := j.key, domain := j.domain, location := j.location, routeUser := j.routeUser,
             username := j.user, password := j.pass, routeId := S.next, members := [⟨j.pid, ⟨j.user, j.pass⟩⟩] } }, .ok)
    | (_, .conflict) => (S, .conflict)
  | some g =>
    if g.domain ≠ j.domain ∨ g.location ≠ j.location ∨ g.routeUser ≠ j.routeUser ∨
       (chk = true ∧ (g.username ≠ j.user ∨ g.password ≠ j.pass)) then (S, .params)
    else if g.key ≠ j.key then (S, .auth)
    else if g.members.any (fun m => m.pid = j.pid) then (S, .repeated)
    else ({ S with groups := hgPut S.groups { g with members := g.members ++ [⟨j.pid, ⟨j.user, j.pass⟩⟩] } }, .ok)

/-- `HTTPGroupController.UnRegister(proxyName, group)` → `HTTPGroup.UnRegister`: the last member's leaving deletes
    the route and the group -/
def hgLeave (S : HgState) (name : Str) (pid : Nat) : HgState :=
  match hgFind S.groups name with
  | none => S
  | some g =>
    let ms := g.members.filter (fun m => m.pid ≠ pid)
    if ms = [] then
      { S with T := { S.T with R := del S.T.R g.domain g.location g.routeUser },
               groups := S.groups.filter (fun x => x.name ≠ name) }
    else { S with groups := hgPut S.groups { g with members := ms } }

inductive HgOp
  | join (j : HgJoin)
  | leave (name : Str) (pid : Nat)

def hgStep (chk : Bool) (S : HgState) : HgOp → HgState
  | .join j => (hgJoin chk S j).1
  | .leave name pid => hgLeave S name pid

def hgRun (chk : Bool) (ops : List HgOp) : HgState := ops.foldl (hgStep chk) HgState.empty

/-- the group whose route copy has number `rid` -/
def hgByRoute (S : HgState) (rid : Nat) : Option HgGroup := S.groups.find? (fun g => g.routeId = rid)

end HttpAuth
end Frp
