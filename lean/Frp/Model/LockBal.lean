/-
  C16 (wedges): one session's use of `ctl.mu` (server/control.go).

  The dispatcher's read loop handles NewProxy and CloseProxy SYNCHRONOUSLY (handleNewProxy → RegisterProxy,
  handleCloseProxy → CloseProxy); both take `ctl.mu` — RegisterProxy for the max_ports_per_client accounting (when the
  limit is set) and for `ctl.proxies[name] = pxy`, CloseProxy for the lookup.  Ping does not touch it.  When the
  connection goes, `Control.worker` takes `ctl.mu` to close the session's proxies, then closes `doneCh`; a later login
  with the same run id waits for that (`RegisterControl` → `WaitClosed`).

  `leakOnRefusal` = the refusal branch of the accounting returns with `ctl.mu` still locked (a function that is NOT
  lock-balanced; translate/gen_lockbalance.go lists every such way out of every function of the tree).
-/
namespace Frp
namespace LockBal

inductive Msg
  | newProxy (ports : Nat)     -- a proxy that needs `ports` remote ports
  | closeProxy (ports : Nat)
  | ping
  | drop                       -- the control connection goes away
  deriving DecidableEq, Repr

structure Sess where
  muHeld : Bool := false       -- ctl.mu was left locked by a function that has returned
  stuck : Bool := false        -- the read loop stands in a Lock() that never returns
  used : Nat := 0              -- ctl.portsUsedNum
  handled : Nat := 0           -- messages the read loop has finished with
  refused : Nat := 0           -- … of which NewProxy refused for the limit
  gone : Bool := false         -- the connection is gone
  closed : Bool := false       -- teardown complete: proxies closed, doneCh closed, the run id can be taken over
  deriving DecidableEq, Repr

def step (leakOnRefusal : Bool) (max : Nat) (s : Sess) : Msg → Sess
  | .drop =>
    if s.gone then s
    else if s.muHeld || s.stuck then { s with gone := true }     -- worker: ctl.mu.Lock() never returns (or the read loop never ends)
    else { s with gone := true, closed := true }
  | .ping => if s.gone || s.stuck then s else { s with handled := s.handled + 1 }
  | .closeProxy n =>
    if s.gone || s.stuck then s
    else if s.muHeld then { s with stuck := true }
    else { s with used := s.used - n, handled := s.handled + 1 }
  | .newProxy n =>
    if s.gone || s.stuck then s
    else if s.muHeld then { s with stuck := true }
    else if max > 0 && s.used + n > max then
      { s with handled := s.handled + 1, refused := s.refused + 1, muHeld := leakOnRefusal }
    else { s with used := s.used + n, handled := s.handled + 1 }

def run (leak : Bool) (max : Nat) (s : Sess) (ms : List Msg) : Sess := ms.foldl (step leak max) s

/-- the schedule of the `maxports` op: fill the limit, one proxy too many, then `after`, then the connection drops -/
def opSchedule (max : Nat) (after : List Msg) : List Msg :=
  List.replicate max (.newProxy 1) ++ [.newProxy 1] ++ after ++ [.drop]

end LockBal
end Frp
