import Frp.Model.Wire
/-
  C05 — which encryption setting a RUNNING proxy uses over the life of an frpc: start, hot reloads
  (`frpc reload`, `GET /api/reload`, `Service.UpdateAllConfigurer`) and reconnects.

  Hand-written mirror of

    client/proxy/proxy_manager.go  Manager.UpdateAll            → `updateAll` (delete loop + add loop)
    client/proxy/proxy_wrapper.go  NewWrapper                   → `mk`  (`Cfg: cfg`, `NewProxy(pw.ctx, pw.Cfg, …)`)
    client/proxy/proxy.go          NewProxy / HandleTCPWorkConnection
                                                                → `Px.built` (`baseCfg: pxyConf.GetBaseConfig()`,
                                                                  `if baseCfg.Transport.UseEncryption {…}`)
    client/proxy/proxy_wrapper.go  checkWorker                  → NewProxy message = `pw.Cfg.MarshalToMsg` at start
    client/service.go              UpdateAllConfigurer / loopLoginUntilSuccess
                                                                → `step` (`svr.proxyCfgs = …; ctl.pm.UpdateAll`,
                                                                  a new session: new Control, new Manager,
                                                                  `ctl.Run(svr.proxyCfgs, …)`)

  The reload diff itself (which wrappers are stopped / started, in which order, duplicated names) is
  C19's subject (Frp/Model/Reconcile.lean, with the wrapper state machine); the same two loops are
  repeated here over the fields that matter for the wire: what is compared, and which configuration
  object the proxy that keeps running was BUILT from.
-/
namespace Frp
namespace WireReload
open Wire

/-- one `v1.ProxyConfigurer` as the reload sees it -/
structure PxCfg where
  name : Nat
  enc : Bool            -- Transport.UseEncryption
  comp : Bool           -- Transport.UseCompression
  limit : Nat           -- Transport.BandwidthLimit (0 = none)
  limitServer : Bool    -- Transport.BandwidthLimitMode == "server"
  other : Nat           -- every other field of the configurer (ports, addresses, metadata …) as one value
  deriving DecidableEq, Repr

/-- one entry of `pm.proxies` (a `*Wrapper` and the `Proxy` inside it) -/
structure Px where
  /-- `Wrapper.Cfg` (= `WorkingStatus.Cfg`): what the next reload compares with (`reflect.DeepEqual(pxy.Cfg,
      cfg)`), what the status API shows, what `MarshalToMsg` turns into the NewProxy registration -/
  cfg : PxCfg
  /-- the configurer `NewWrapper` handed to `NewProxy(pw.ctx, pw.Cfg, …)` when the object was made:
      `BaseProxy.baseCfg`, read for every work connection (`if baseCfg.Transport.UseEncryption`), and the
      content of the NewProxy message frps built its own proxy from -/
  built : PxCfg
  deriving DecidableEq, Repr

/-- `NewWrapper(ctx, cfg, …)`: `Cfg: cfg` and `pw.pxy = NewProxy(pw.ctx, pw.Cfg, …)` -/
def mk (c : PxCfg) : Px := { cfg := c, built := c }

/-- `lo.KeyBy(proxyCfgs, name)[n]`: the LAST entry wins for a duplicated name -/
def lookupLast (cfgs : List PxCfg) (n : Nat) : Option PxCfg := cfgs.reverse.find? (fun c => c.name == n)

/-- the delete loop keeps a wrapper iff `ok && reflect.DeepEqual(pxy.Cfg, cfg)` -/
def keeps (cfgs : List PxCfg) (p : Px) : Bool := lookupLast cfgs p.cfg.name == some p.cfg

def hasName (ps : List Px) (n : Nat) : Bool := ps.any (fun p => p.cfg.name == n)

/-- `cfg = proxyCfgsMap[name]` -/
def sel (all : List PxCfg) (c : PxCfg) : PxCfg :=
  match lookupLast all c.name with
  | some c' => c'
  | none => c

/-- the add loop: `if _, ok := pm.proxies[name]; !ok { cfg = proxyCfgsMap[name]; pxy := NewWrapper(cfg…) … }` -/
def addLoop (all : List PxCfg) : List Px → List PxCfg → List Px
  | ps, [] => ps
  | ps, c :: cs =>
    if hasName ps c.name then addLoop all ps cs
    else addLoop all (ps ++ [mk (sel all c)]) cs

/-- `Manager.UpdateAll(cfgs)` -/
def updateAll (ps : List Px) (cfgs : List PxCfg) : List Px :=
  addLoop cfgs (ps.filter (keeps cfgs)) cfgs

/-- what happens to a running frpc -/
inductive Ev
  | reload (cfgs : List PxCfg)   -- Service.UpdateAllConfigurer
  | reconnect                    -- the session ended; loopLoginUntilSuccess made a new Control
  deriving Repr

structure St where
  cfgs : List PxCfg := []        -- `svr.proxyCfgs`
  running : List Px := []        -- `svr.ctl.pm.proxies`
  deriving Repr

/-- `Service.Run` with the initial configuration: login, `ctl.Run(proxyCfgs, …)` → `pm.UpdateAll` on an
    empty manager -/
def start (cfgs : List PxCfg) : St := { cfgs := cfgs, running := updateAll [] cfgs }

def step (s : St) : Ev → St
  | .reload cfgs => { cfgs := cfgs, running := updateAll s.running cfgs }
  | .reconnect => { s with running := updateAll [] s.cfgs }

def run (s : St) (evs : List Ev) : St := evs.foldl step s

def find (s : St) (n : Nat) : Option Px := s.running.find? (fun p => p.cfg.name == n)

/-- the path configuration of a running proxy's work connections: the cipher layer is there iff the
    object was BUILT with useEncryption (both ends read the configuration they were created from) -/
def pathOf (tls : Bool) (p : Px) : PathCfg :=
  { tls := tls, internal := false, useEncryption := p.built.enc }

end WireReload
end Frp
