import Frp.Model.Backoff
/-
  The two nested loops of /repo/client/service.go, as seen from the server side:

    Run                   : loopLoginUntilSuccess(10 s, loginFailExit)   -- initial login
    keepControllerWorking : <-ctl.Done();
                            BackoffUntil(func{ loopLoginUntilSuccess(20 s,false); <-ctl.Done(); return err },
                                         FastBackoff(outerOpts), sliding, ctx.Done())
    loopLoginUntilSuccess : BackoffUntil(loginFunc, FastBackoff(loginOpts max), sliding, ctx.Done())
                            -- a NEW manager per call; loginFunc success ⇒ ctl.Run(proxyCfgs, visitorCfgs)
                            -- (pm.UpdateAll(proxyCfgs): every configured proxy is (re)sent) and `done`

  Events (what happened to the previous login attempt) and the wait the client then inserts before
  the next attempt.  `BackoffUntil` calls `f` first and waits afterwards, so the first attempt of every
  `loopLoginUntilSuccess` is immediate, and so is the first round of `keepControllerWorking`.
-/
namespace Frp
namespace Reconnect
open Backoff

inductive Ev
  | refused            -- login() returned an error (dial failed, LoginResp.Error, …)
  | sessionEnded       -- login succeeded, later the control closed (heartbeat timeout, connection lost, pong error)
deriving Repr, DecidableEq

structure St where
  initial : Bool := true                       -- still inside Run's first loopLoginUntilSuccess(10 s)
  inner   : Option (Backoff.St × Nat) := none  -- manager + last delay of the running loopLoginUntilSuccess; none = fresh
  outer   : Option (Backoff.St × Nat) := none  -- manager + last delay of keepControllerWorking's loop; none = not started
  registered : Bool := false                   -- a control is running with all configured proxies sent
deriving Repr, DecidableEq

def init : St := {}

def innerOpts (s : St) : Opts := loginOpts ((if s.initial then 10 else 20) * second)

/-- interval [lo, hi] of the wait before the next login attempt after event `e` at time `now`,
    and the new state.  `d` is the wait actually observed (fed back as `previousDuration`). -/
def step (s : St) (now : Nat) (e : Ev) (d : Nat) : St × Out :=
  match e with
  | .refused =>
    -- inside loopLoginUntilSuccess: loginFunc returned (false, err) ⇒ delay = Backoff(delay, true)
    let o := innerOpts s
    let (m, prev) := s.inner.getD (loopStart o now, 0)
    let r := Backoff.step o m now prev true
    ({ s with inner := some (r.1, d), registered := false }, r.2)
  | .sessionEnded =>
    -- loopLoginUntilSuccess returned (done); the control has now closed
    match s.outer with
    | none =>
      -- keepControllerWorking: `<-svr.ctl.Done()` then BackoffUntil calls f at once
      ({ s with initial := false, inner := none, outer := some (loopStart outerOpts now, 0), registered := false },
       { kind := .first, lo := 0, hi := 0 })
    | some (m, prev) =>
      -- f returned an error ("control is closed and try another loop") ⇒ delay = Backoff(delay, true)
      let r := Backoff.step outerOpts m now prev true
      ({ s with initial := false, inner := none, outer := some (r.1, d), registered := false }, r.2)

/-- a login attempt succeeded: loginFunc ran `ctl.Run(proxyCfgs, visitorCfgs)` and returned done -/
def loginOk (s : St) : St := { s with inner := none, registered := true }

end Reconnect
end Frp
