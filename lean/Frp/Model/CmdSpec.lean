import Frp.Model.ProxyMsg
import Frp.Model.Validate
/-
  What the real commands must be SEEN doing with one logical definition (engine "confcmd", C18).

  The definition is a record of Go field paths (client common: ServerAddr, ServerPort, User, Auth.Token,
  Transport.Protocol, Transport.TLS.Enable ("true" / "false" / absent), Transport.TLS.ServerName, Log.*, DNSServer;
  server: the fields RegisterServerConfigFlags has flags for).  The observation of a process is a list of
  `key = value`; the functions below give, for the keys the definition determines, the value that has to be
  observed — whether the definition reached the process as flags of `frpc <type>` / `frps` or as a file.

  Go sources mirrored here:
    pkg/config/v1/client.go   ClientCommonConfig.Complete (protocol "tcp", log level "info", tls.enable true)
    pkg/config/v1/server.go   ServerConfig.Complete (bind port 7000, auth method "token", log level "info")
    client/connector.go       realConnect: wss forces TLS; websocket = ws first, then TLS inside; the TLS server
                              name is transport.tls.serverName, else the server address (no SNI for an IP literal)
    pkg/util/log/log.go       InitLogger: colours only on the console and unless disabled; level filter
    server/dashboard_api.go   /api/serverinfo;   server/service.go  tls.force refuses a client without TLS
    pkg/config/v1/validation  ValidateClientCommonConfig / ValidateServerConfig come first: a refused definition
                              makes the command print the errors and exit before it touches the network
-/
namespace Frp
namespace CmdSpec
open ProxyMsg Validate

def S (s : String) : Str := Str.ofString s

def intOf : Value → Int
  | .int i => i
  | _ => 0

def strsOf : Value → List Str
  | .strs l => l
  | _ => []

def isTrue (v : Value) : Bool := v = .bool true

/-- `EmptyOr` on a string / number -/
def orS (s d : Str) : Str := if s = [] then d else s
def orI (n d : Int) : Int := if n = 0 then d else n

def webTLSOf (c : Rec Str) : Option (Str × Str) :=
  if c.get (S "WebServer.TLS") = .bool true
    then some (asStr (c.get (S "WebServer.TLS.CertFile")), asStr (c.get (S "WebServer.TLS.KeyFile"))) else none

/-- the server view of a k=v definition; `completed` = after `ServerConfig.Complete` (a definition that went
    through a file or the flags): auth method "token", log level "info", bind port 7000 when absent -/
def serverViewOf (c : Rec Str) (completed : Bool) : ServerView :=
  let d := fun (s : Str) (dv : String) => if completed then orS s (S dv) else s
  { authMethod := d (asStr (c.get (S "Auth.Method"))) "token", scopes := strsOf (c.get (S "Auth.AdditionalScopes")),
    logLevel := d (asStr (c.get (S "Log.Level"))) "info",
    webTLS := webTLSOf c,
    webPort := intOf (c.get (S "WebServer.Port")),
    bindPort := if completed then orI (intOf (c.get (S "BindPort"))) 7000 else intOf (c.get (S "BindPort")),
    kcpBindPort := intOf (c.get (S "KCPBindPort")), quicBindPort := intOf (c.get (S "QUICBindPort")),
    vhostHTTPPort := intOf (c.get (S "VhostHTTPPort")), vhostHTTPSPort := intOf (c.get (S "VhostHTTPSPort")),
    tcpmuxPort := intOf (c.get (S "TCPMuxHTTPConnectPort")) }

/-- the client common view; `completed` = after `ClientCommonConfig.Complete` (method "token", level "info",
    protocol "tcp"; the heartbeat numbers become -1 when absent, which the check treats like 0) -/
def clientCommonViewOf (c : Rec Str) (completed : Bool) : ClientCommonView :=
  let d := fun (s : Str) (dv : String) => if completed then orS s (S dv) else s
  { authMethod := d (asStr (c.get (S "Auth.Method"))) "token", scopes := strsOf (c.get (S "Auth.AdditionalScopes")),
    logLevel := d (asStr (c.get (S "Log.Level"))) "info",
    webTLS := webTLSOf c, webPort := intOf (c.get (S "WebServer.Port")),
    hbTimeout := intOf (c.get (S "Transport.HeartbeatTimeout")),
    hbInterval := intOf (c.get (S "Transport.HeartbeatInterval")),
    protocol := d (asStr (c.get (S "Transport.Protocol"))) "tcp" }

def serverErrTag : ServerErr → String
  | .auth => "auth" | .scopes => "scopes" | .log => "log" | .cert => "cert" | .key => "key"
  | .port 0 => "port:webServer.port" | .port 1 => "port:bindPort" | .port 2 => "port:kcpBindPort"
  | .port 3 => "port:quicBindPort" | .port 4 => "port:vhostHTTPPort" | .port 5 => "port:vhostHTTPSPort"
  | .port 6 => "port:tcpMuxHTTPConnectPort"
  | .port _ => "port:?"
  | .heartbeat => "heartbeat" | .protocol => "protocol"

def errTags (errs : List ServerErr) : String :=
  if errs.isEmpty then "ok" else ",".intercalate (errs.map serverErrTag)

abbrev Obs := List (Str × Value)

/-- what a command is to do with a definition: refuse it (print the validator's findings, exit) or run -/
inductive Spec
  | refuse (tags : String)
  | run (obs : Obs)


def str (s : String) : Value := .str (S s)

/-- log lines of level info are written: the level is trace, debug or info -/
def infoLevel (level : Str) : Bool := [S "trace", S "debug", S "info"].contains level

/-- what the client says first, by protocol and effective `tls.enable` (client/connector.go) -/
def wireOf (proto : Str) (tlsOn : Bool) : String :=
  if proto = S "kcp" then "kcp"
  else if proto = S "quic" then "quic"
  else if proto = S "wss" then "tls>ws"
  else if proto = S "websocket" then (if tlsOn then "ws>tls" else "ws>mux")
  else (if tlsOn then "tls>mux" else "mux")

/-- the tokens the harness knows; index 1 is the one the frps behind the fronts expects -/
def tokenPool : List Str := [[], S "tk-α1", S "other-token"]

def tokenIndex (t : Str) : Int :=
  if t = [] then 0 else if t = S "tk-α1" then 1 else if t = S "other-token" then 2 else -1

/-- log-related observations shared by both commands -/
def logSpec (c : Rec Str) : Obs :=
  let level := orS (asStr (c.get (S "Log.Level"))) (S "info")
  let toFile := asStr (c.get (S "Log.To")) = S "@file"
  let info := infoLevel level
  -- a log file exists once something was written to it: determined only when info lines are written
  (if !toFile then [(S "logto", str "console")] else if info then [(S "logto", str "file")] else []) ++
  [(S "I", .bool info)] ++
  (if info then [(S "color", .bool (!toFile && !isTrue (c.get (S "Log.DisablePrintColor"))))] else [])

/-- **frpc**: `c` the client common definition, `p` the proxy / visitor definition.  A refusal, or what the
    fronts, the server behind them and the process show. -/
def clientSpec (visitor : Bool) (ptype : Str) (c p : Rec Str) : Spec :=
  let errs := validateClientCommon (clientCommonViewOf c true)
  if !errs.isEmpty then .refuse (errTags errs)
  else if !visitor && asStr (p.get (S "Plugin.Type")) = [] && !validatePort (intOf (p.get (S "LocalPort"))) then
    .refuse "port:localPort"
  else .run <|
    let proto := orS (asStr (c.get (S "Transport.Protocol"))) (S "tcp")
    let tlsOn := asStr (c.get (S "Transport.TLS.Enable")) ≠ S "false"
    let wire := wireOf proto tlsOn
    let hello := wire = "tls>mux" || wire = "ws>tls" || wire = "tls>ws"
    let user := asStr (c.get (S "User"))
    let tok := tokenIndex (asStr (c.get (S "Auth.Token")))
    let loginOK := tok = 1
    let name := asStr (p.get (S "Name"))
    [(S "addr", c.get (S "ServerAddr")), (S "port", c.get (S "ServerPort")), (S "wire", str wire),
     (S "sni", if hello then c.get (S "Transport.TLS.ServerName") else .zero),
     (S "user", .str user), (S "tok", .int tok), (S "login", str (if loginOK then "ok" else "no"))] ++
    logSpec c ++
    (if !loginOK then []
     else if visitor then
       [(S "vbound", .str (orS (asStr (p.get (S "BindAddr"))) (S "127.0.0.1") ++ S "#" ++
          S (toString (intOf (p.get (S "BindPort"))))))]
     else
       [(S "np.proxy_type", .str ptype),
        (S "np.proxy_name", .str (if user = [] then name else user ++ S "." ++ name))])

/-- on which of the two loopback addresses a listener bound to `addr` answers -/
def addrSet (addr : Str) : String :=
  if addr = S "127.0.0.1" then "1" else if addr = S "127.0.0.2" then "2" else "12"

/-- **frps**: a refusal, or what the running server shows -/
def serverSpec (c : Rec Str) : Spec :=
  let errs := validateServer (serverViewOf c true)
  if !errs.isEmpty then .refuse (errTags errs)
  else .run <|
    let g := fun (k : String) => c.get (S k)
    let force := isTrue (g "Transport.TLS.Force")
    let allow := asStr (g "AllowPorts")
    let allowed := allow = [] || Validate.contains allow (S "@8") || allow = S "@1-@9"
    let pba := addrSet (asStr (g "ProxyBindAddr"))
    let dash : Obs :=
      if intOf (g "WebServer.Port") > 0 then
        [(S "dash", str (addrSet (asStr (g "WebServer.Addr")))), (S "dtls", .bool (isTrue (g "WebServer.TLS"))),
         (S "dauth", .int 200),
         (S "dother", .int (if asStr (g "WebServer.User") = [] && asStr (g "WebServer.Password") = [] then 200 else 401)),
         (S "prom", .int (if isTrue (g "EnablePrometheus") then 200 else 404)),
         (S "si.bindPort", .int (orI (intOf (g "BindPort")) 7000)), (S "si.kcpBindPort", g "KCPBindPort"),
         (S "si.quicBindPort", g "QUICBindPort"), (S "si.vhostHTTPPort", g "VhostHTTPPort"),
         (S "si.vhostHTTPSPort", g "VhostHTTPSPort"), (S "si.maxPortsPerClient", g "MaxPortsPerClient"),
         (S "si.subdomainHost", g "SubDomainHost"), (S "si.allowPortsStr", g "AllowPorts"),
         (S "si.tlsForce", .bool force)]
      else []
    [(S "bind", str (addrSet (asStr (g "BindAddr"))))] ++ dash ++
    [(S "udp.KCPBindPort", .bool (intOf (g "KCPBindPort") > 0)), (S "udp.QUICBindPort", .bool (intOf (g "QUICBindPort") > 0)),
     (S "tcp.VhostHTTPPort", if intOf (g "VhostHTTPPort") > 0 then str pba else .zero),
     (S "tcp.VhostHTTPSPort", if intOf (g "VhostHTTPSPort") > 0 then str pba else .zero),
     (S "login1", str "ok"), (S "login0", str (if force then "no" else "ok")), (S "loginw", str "no"),
     (S "pstart", str (if allowed then "ok" else "no")), (S "pbind", if allowed then str pba else .zero)] ++
    logSpec c

/-- is the specification a refusal? -/
def isRej : Spec → Bool
  | .refuse _ => true
  | .run _ => false

/-- the observation a specification demands: of a refused definition only the refusal is seen -/
def Spec.obs : Spec → Obs
  | .refuse tags => [(S "rej", str tags)]
  | .run o => o

end CmdSpec
end Frp
