import Frp.Model.Watchdog
/-
  Which events refresh a liveness clock.

  server/control.go  lastPing is stored by NewControl (login) and by handlePing AFTER the Ping plugins and
                     authVerifier.VerifyPing accepted the ping; a rejected ping is answered with Pong{Error} and
                     returns before the store.  handleNewProxy, handleCloseProxy, the NatHole* handlers do not
                     touch it: whatever else a peer sends, only a verified Ping counts.
  client/control.go  lastPong is stored by NewControl and by handlePong AFTER `if inMsg.Error != "" { closeSession;
                     return }`.  handleReqWorkConn, handleNewProxyResp, handleNatHoleResp do not touch it: a server
                     that stops answering Pings is detected however many other messages it still emits.

  The `Policy` says which handlers store the clock; frp's is `strict` (read from the source on every run by
  translate/gen_sessfacts_clock.go: every store of lastPing / lastPong, the handler it is reachable from and
  its position relative to the rejection branch).  The watchdog of `Frp/Model/Watchdog.lean` is the strict
  instance with the other traffic removed (`strict_refines`).
-/
namespace Frp
namespace Liveness

/-- which handlers store the clock -/
structure Policy where
  early  : Bool := false      -- the heartbeat handler stores the clock BEFORE (or inside) its rejection branch
  others : List Nat := []     -- kinds of non-heartbeat messages whose handler stores the clock
deriving Repr, DecidableEq

/-- frp: only an accepted heartbeat counts -/
def Policy.strict (p : Policy) : Bool := !p.early && p.others.isEmpty

inductive Ev
  | beat (valid : Bool)     -- server: Ping (valid = plugins and VerifyPing passed); client: Pong (valid = Error == "")
  | other (k : Nat)         -- any other control message, by kind (index in registerMsgHandlers)
  | check                   -- one firing of the 1 s checker
deriving Repr, DecidableEq

/-- one event at time `t` -/
def step (p : Policy) (c : Watchdog.Cfg) (s : Watchdog.St) (t : Nat) : Ev → Watchdog.St
  | .beat true  => if s.closed.isSome then s else { s with last := t }
  | .beat false =>
    if s.closed.isSome then s else
      let s1 : Watchdog.St := if p.early then { s with last := t } else s
      if c.closeOnBad then { s1 with closed := some (t, .badPong) } else s1
  | .other k    => if s.closed.isSome then s else if p.others.contains k then { s with last := t } else s
  | .check      => Watchdog.step c s t .check

def run (p : Policy) (c : Watchdog.Cfg) : Watchdog.St → List (Nat × Ev) → Watchdog.St
  | s, [] => s
  | s, (t, e) :: es => run p c (step p c s t e) es

/-- the history as the bare watchdog sees it: the other traffic removed -/
def proj : List (Nat × Ev) → List (Nat × Watchdog.Ev)
  | [] => []
  | (t, .beat v) :: es => (t, .beat v) :: proj es
  | (t, .check) :: es => (t, .check) :: proj es
  | (_, .other _) :: es => proj es

/-- does this event store the clock under policy `p` (on an open session)? -/
def refreshes (p : Policy) : Ev → Bool
  | .beat true => true
  | .beat false => p.early
  | .other k => p.others.contains k
  | .check => false

/-- every event is at most `I` after the most recent refreshing one (`last`) -/
def fedBy (p : Policy) (I : Nat) : Nat → List (Nat × Ev) → Bool
  | _, [] => true
  | last, (t, e) :: es => decide (t ≤ last + I) && fedBy p I (if refreshes p e then t else last) es

/-- no valid heartbeat in the history -/
def noValidBeat (es : List (Nat × Ev)) : Prop := ∀ x ∈ es, x.2 ≠ .beat true

end Liveness
end Frp
