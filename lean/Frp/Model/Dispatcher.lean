import Frp.Model.Frame
import Frp.Model.MsgObj
/-
  `msg.Dispatcher` (pkg/msg/handler.go): the read loop, the send loop, the handler table, the default
  handler and `Done`, as a small transition system on top of the framing model (Model/Frame.lean)
  and the JSON object model (Model/MsgObj.lean).

  ```
  func (d *Dispatcher) readLoop() {
      for {
          m, err := ReadMsg(d.rw)
          if err != nil { close(d.doneCh); return }
          if handler, ok := d.msgHandlers[reflect.TypeOf(m)]; ok { handler(m)
          } else if d.defaultHandler != nil { d.defaultHandler(m) }
      }
  }
  ```

  What is trusted (supplied as an `Oracle`, all theorems hold for EVERY oracle): encoding/json's text
  level (`parse`: which byte strings are a JSON text and which tree they denote) and net.IP's text
  form (`ipOk`).  What is modelled here: which JSON trees encoding/json stores into the registered Go
  struct WITHOUT error — member lookup (exact name, then case-folded), the JSON type each field kind
  accepts, integer syntax and range, element types of slices and maps, nested structs — i.e. the
  `*json.UnmarshalTypeError` cases of decode.go `d.object / d.array / d.literalStore`.
-/
namespace Frp
namespace Dispatcher
open Frame MsgObj

/-! ## 1. the body verdict: `json.Unmarshal(buffer, &msg)` for a registered struct -/

/-- encoding/json `foldName` (fold.go `appendFoldedName`), on the UTF-8 bytes of a member name: ASCII letters
    fold to one case; a multi-byte rune folds to the smallest rune of its simple-folding orbit (`foldRune`) —
    only TWO non-ASCII runes have an ASCII letter in their orbit: U+212A KELVIN SIGN (E2 84 AA, orbit K k) and
    U+017F LATIN SMALL LETTER LONG S (C5 BF, orbit S s); every other non-ASCII rune folds to a non-ASCII rune and
    so never equals a (pure ASCII, `schema_names_lowercase`) field name — its bytes are kept as they are.
    (The name has passed `unquote`, i.e. it is valid UTF-8: the byte patterns below occur only as those runes.) -/
def lowerB (b : Nat) : Nat := if 65 ≤ b ∧ b ≤ 90 then b + 32 else b
def lower : Str → Str
  | 226 :: 132 :: 170 :: r => 107 :: lower r
  | 197 :: 191 :: r => 115 :: lower r
  | b :: r => lowerB b :: lower r
  | [] => []

/-- decode.go `d.object`: `f := fields.byExactName[key]; if f == nil { f = fields.byFoldedName[fold(key)] }`
    (the first field in declaration order wins a folded clash) -/
def findField (fs : List FieldS) (k : Str) : Option FieldS :=
  match fs.find? (fun f => f.json == k) with
  | some f => some f
  | none => fs.find? (fun f => lower f.json == lower k)

/-- element of a `[]string` / value of a `map[string]string`: a JSON string, or `null` (leaves "") -/
def isStrOrNull : J → Bool
  | .str _ => true
  | .null => true
  | _ => false

/-- `net.UDPAddr` has no JSON tags: members `IP`, `Port`, `Zone`, matched exactly, else folded -/
def udpFieldOf (k : Str) : Option Nat :=
  if k == kIP then some 0 else if k == kPort then some 1 else if k == kZone then some 2
  else if lower k == lower kIP then some 0 else if lower k == lower kPort then some 1
  else if lower k == lower kZone then some 2 else none

/-- the JSON number text `-0` -/
def negZero : Str := [45, 48]

def int64Lo : Int := -9223372036854775808
def int64Hi : Int := 9223372036854775807

/-- one member of a `*net.UDPAddr` object: `IP` is a `net.IP` (encoding.TextUnmarshaler: only a JSON
    string, whose text `ipOk` judges), `Port` an `int`, `Zone` a `string`; `null` is always a no-op;
    unknown members are skipped -/
def udpMemberFits (ipOk : Str → Bool) (kv : Str × J) : Bool :=
  match udpFieldOf kv.1, kv.2 with
  | none, _ => true
  | some _, .null => true
  | some 0, .str s => ipOk s
  | some 1, .num i => decide (int64Lo ≤ i) && decide (i ≤ int64Hi)
  | some 1, .real t => t == negZero      -- `Port` is an `int`: `-0` is 0
  | some 2, .str _ => true
  | some _, _ => false

/-- does encoding/json store the JSON value `j` into a field of kind `f.kind` without a type error
    (decode.go `literalStore`, `array`, `object`); `subFits n ms` = the same question for the members
    `ms` of an object stored into the nested struct `n`.
    `null` into anything is a no-op; a number must be an integer literal (`strconv.ParseInt/ParseUint`)
    within the range of the Go type (`OverflowInt/OverflowUint`).  The one JSON number text that is an integer
    literal for `ParseInt` without being one of `J.num`'s is `-0` (kept as `.real "-0"`): a signed field takes
    it as 0, `ParseUint` refuses the sign (uint16 fields: `lo = 0`). -/
def fitsF (ipOk : Str → Bool) (subFits : String → List (Str × J) → Bool) (f : FieldS) : J → Bool
  | .null => true
  | j =>
    match f.kind, j with
    | .str, .str _ => true
    | .bool, .bool _ => true
    | .int, .num i => decide (f.lo ≤ i) && decide (i ≤ f.hi)
    | .int, .real t => t == negZero && decide (f.lo < 0)
    | .strs, .arr l => l.all isStrOrNull
    | .smap, .obj ms => ms.all (fun kv => isStrOrNull kv.2)
    | .udp, .obj ms => ms.all (udpMemberFits ipOk)
    | .sub n, .obj ms => subFits n ms
    | .subs n, .arr l => l.all (fun e => match e with
        | .null => true
        | .obj ms => subFits n ms
        | _ => false)
    | _, _ => false

/-- decode.go `d.object` into a struct: every member in text order; a member whose name matches no
    field is skipped; ONE member that does not fit makes `Unmarshal` return an error (`d.saveError`
    keeps the first, decoding of the remaining members goes on, the error is returned at the end) -/
def membersFit (ipOk : Str → Bool) (subFits : String → List (Str × J) → Bool) (fs : List FieldS)
    (ms : List (Str × J)) : Bool :=
  ms.all (fun kv => match findField fs kv.1 with
    | some f => fitsF ipOk subFits f kv.2
    | none => true)

/-- the three nesting levels of Model/MsgObj -/
def fits0 (ipOk : Str → Bool) (sch : Schema) (n : String) (ms : List (Str × J)) : Bool :=
  membersFit ipOk (fun _ _ => false) (sch.fieldsOf n) ms
def fits1 (ipOk : Str → Bool) (sch : Schema) (n : String) (ms : List (Str × J)) : Bool :=
  membersFit ipOk (fits0 ipOk sch) (sch.fieldsOf n) ms
def fits2 (ipOk : Str → Bool) (sch : Schema) (n : String) (ms : List (Str × J)) : Bool :=
  membersFit ipOk (fits1 ipOk sch) (sch.fieldsOf n) ms

/-- the protocol as the decoder sees it: golib `typeMap` (type byte ↦ struct), the field table, the
    length bound -/
structure Env where
  reg : List (Nat × String)
  sch : Schema
  max : Nat

def Env.structOf (e : Env) (t : Nat) : Option String := e.reg.lookup t
def Env.known (e : Env) (t : Nat) : Bool := (e.structOf t).isSome

/-- trusted library verdicts -/
structure Oracle where
  parse : Str → Option J      -- encoding/json scanner + generic decode: none = not a JSON text
  ipOk : Str → Bool           -- net.IP.UnmarshalText accepts the text

/-- golib pack.go `unpack`: `msg = reflect.New(t).Interface(); err = json.Unmarshal(buffer, &msg)` leaves
    a message and no error.  Not a JSON text ⇒ `*json.SyntaxError`; top-level value that is not an
    object ⇒ `*json.UnmarshalTypeError` (Field ""); an object ⇒ member by member (`fits2`).
    The literal `null` makes `Unmarshal` set the interface to nil without an error; pkg/msg/ctl.go
    `ReadMsg` turns that into `ErrInvalidBody` — for the caller of `msg.ReadMsg` it is an error like
    the others, so it is `false` here (and `Frame.readMsg` checks the literal once more by its text). -/
def bodyOk (e : Env) (o : Oracle) (s : String) (body : Str) : Bool :=
  match o.parse body with
  | some (.obj ms) => fits2 o.ipOk e.sch s ms
  | _ => false

/-! ## 2. one `ReadMsg` on the bytes the peer has sent so far -/

inductive Read
  | msg (s : String) (body rest : Str) (c : Nat)   -- a message of struct `s`; `c` bytes consumed, `rest` unread
  | wait (c : Nat)       -- the header or body is incomplete: the read blocks; when the peer closes it
                         -- fails with EOF / ErrUnexpectedEOF after the `c` bytes that were there
  | reject (c : Nat)     -- `ReadMsg` returns an error after consuming `c` bytes
  deriving DecidableEq, Repr

def needMore : Err → Bool
  | .eof => true
  | .unexpectedEOF => true
  | _ => false

/-- `msg.ReadMsg` (pkg/msg/ctl.go) = `Frame.readMsg`, with encoding/json's verdict computed by `bodyOk` -/
def readStep (e : Env) (o : Oracle) (inp : Str) : Read :=
  let d := decodeFull e.max e.known inp
  match d.res with
  | .ok t body rest =>
    let jsonOk := match e.structOf t with
      | some s => bodyOk e o s body
      | none => false
    match (Frame.readMsg e.max e.known e.structOf jsonOk inp).1 with
    | .msg s => .msg s body rest d.consumed
    | _ => .reject d.consumed
  | .err er => if needMore er then .wait d.consumed else .reject d.consumed

/-! ## 3. the dispatcher -/

/-- one handler call: which registered func, for a message of which struct, decoded from which body -/
structure Delivery where
  handler : Nat
  sname : String
  body : Str
  deriving DecidableEq, Repr

/-- `sendCh` capacity (`make(chan Message, 100)`) -/
def sendCap : Nat := 100

structure Disp where
  handlers : List (String × Nat) := []   -- msgHandlers, keyed by reflect.Type = struct name; newest first
  dflt : Option Nat := none              -- defaultHandler
  done : Bool := false                   -- doneCh closed
  peerClosed : Bool := false             -- the peer has closed its side of rw
  buf : Str := []                        -- bytes the peer has written and no completed ReadMsg has consumed
  consumed : Nat := 0                    -- bytes taken from rw by the read loop
  log : List Delivery := []              -- handler calls, in call order
  sendq : List Str := []                 -- sendCh (frames)
  wire : List Str := []                  -- frames the send loop has written to rw, in order
  accepted : List Str := []              -- ghost: the frames of all `Send` calls that returned nil, in order
  senderExited : Bool := false           -- sendLoop has returned
  deriving DecidableEq, Repr

/-- `if handler, ok := d.msgHandlers[reflect.TypeOf(m)]; ok {…} else if d.defaultHandler != nil {…}` -/
def target (d : Disp) (s : String) : Option Nat :=
  match d.handlers.lookup s with
  | some h => some h
  | none => d.dflt

def dispatch (d : Disp) (s : String) (body : Str) : Disp :=
  match target d s with
  | some h => { d with log := d.log ++ [⟨h, s, body⟩] }
  | none => d

/-- `readLoop` on what has arrived: as many iterations as complete (`fuel` bounds them; one frame is at
    least 9 bytes, see `recv`). -/
def readLoop (e : Env) (o : Oracle) : Nat → Disp → Disp
  | 0, d => d
  | fuel + 1, d =>
    if d.done then d else
    match readStep e o d.buf with
    | .msg s body rest c =>
      readLoop e o fuel (dispatch { d with buf := rest, consumed := d.consumed + c } s body)
    | .wait c =>
      if d.peerClosed then { d with done := true, consumed := d.consumed + c, buf := [] } else d
    | .reject c => { d with done := true, consumed := d.consumed + c, buf := d.buf.drop c }

/-- bytes the read loop has taken from the connection: those of completed `ReadMsg` calls, plus — while it
    is blocked in the middle of a frame — the part of that frame that has arrived (the model keeps it in
    `buf` and parses it again when more arrives; the real reader already holds it) -/
def taken (e : Env) (o : Oracle) (d : Disp) : Nat :=
  if d.done then d.consumed else
  match readStep e o d.buf with
  | .wait c => d.consumed + c
  | _ => d.consumed

inductive Op
  | register (s : String) (h : Nat)      -- RegisterHandler
  | registerDefault (h : Nat)            -- RegisterDefaultHandler
  | recv (bytes : Str)                   -- the peer writes bytes; the read loop runs as far as it can
  | peerClose                            -- the peer closes: a blocked read fails
  | send (frame : Str) (ok : Bool)       -- Send(m) with the observed return: nil (true) / io.EOF (false)
  | pump                                 -- one send-loop iteration that takes a message and writes it
  | senderExit                           -- the send loop sees doneCh and returns
  deriving DecidableEq, Repr

/-- `Send`: `select { case <-d.doneCh: return io.EOF; case d.sendCh <- m: return nil }` — which returns are
    possible (both cases ready ⇒ Go picks either) -/
def sendAllowed (d : Disp) (ok : Bool) : Bool :=
  if ok then decide (d.sendq.length < sendCap) else d.done

def step (e : Env) (o : Oracle) (d : Disp) : Op → Disp
  | .register s h => { d with handlers := (s, h) :: d.handlers }
  | .registerDefault h => { d with dflt := some h }
  | .recv bytes =>
    if d.peerClosed then d else
    readLoop e o (d.buf.length + bytes.length + 1) { d with buf := d.buf ++ bytes }
  | .peerClose => readLoop e o 1 { d with peerClosed := true }
  | .send frame ok =>
    if sendAllowed d ok && ok then { d with sendq := d.sendq ++ [frame], accepted := d.accepted ++ [frame] } else d
  | .pump =>
    if d.senderExited then d else
    match d.sendq with
    | [] => d
    | m :: q => { d with sendq := q, wire := d.wire ++ [m] }
  | .senderExit => if d.done then { d with senderExited := true } else d

def run (e : Env) (o : Oracle) (d : Disp) (ops : List Op) : Disp := ops.foldl (step e o) d

/-- the byte stream of a list of (type byte, body) frames -/
def frames : List (Nat × Str) → Str
  | [] => []
  | g :: gs => encode g.1 g.2 ++ frames gs

/-! ## 4. `msg.ReadMsgInto` and the nat-hole message codec (pkg/nathole/utils.go) -/

/-- golib `ReadMsgInto(c, m)` → `unpack(typeByte, buffer, m)` with the caller's `*T`: the frame as for
    `ReadMsg` (the type byte only has to be REGISTERED, it does not select the struct), then
    `json.Unmarshal(buffer, &msg)` where `msg` is a local interface holding the caller's pointer: the
    literal `null` sets that local interface to nil and is NOT an error (the caller's struct stays as it was). -/
def intoOk (e : Env) (o : Oracle) (s : String) (body : Str) : Bool :=
  match o.parse body with
  | some .null => true
  | some (.obj ms) => fits2 o.ipOk e.sch s ms
  | _ => false

inductive IntoRes
  | ok (body rest : Str) (c : Nat)
  | err (er : Option Err) (c : Nat)     -- a framing error, or (none) a body-level one
  deriving DecidableEq, Repr

def intoStep (e : Env) (o : Oracle) (s : String) (inp : Str) : IntoRes :=
  let d := decodeFull e.max e.known inp
  match d.res with
  | .ok _ body rest => if intoOk e o s body then .ok body rest d.consumed else .err none d.consumed
  | .err er => .err (some er) d.consumed

/-- the cipher under the nat-hole messages (golib crypto.Encode / Decode: AES-128-CFB, random iv in front,
    no authentication) — trusted, abstract: `dec` = none when the data is shorter than an iv -/
structure Cipher where
  enc : Str → Str → Str → Str        -- key, iv, plain
  dec : Str → Str → Option Str       -- key, data

/-- `EncodeMessage(m, key)`: `crypto.Encode(WriteMsg(m), key)` -/
def nhEncode (c : Cipher) (key iv : Str) (t : Nat) (body : Str) : Str := c.enc key iv (encode t body)

/-- `DecodeMessageInto(data, key, m)`: `crypto.Decode`, then `ReadMsgInto` on exactly those bytes -/
def nhDecodeInto (e : Env) (o : Oracle) (c : Cipher) (key : Str) (s : String) (data : Str) : IntoRes :=
  match c.dec key data with
  | none => .err none 0
  | some p => intoStep e o s p

end Dispatcher
end Frp
