import Frp.Model.UdpWire
import Frp.Gen.UdpWire
/-
  The configuration of the typed-stream machine as the source has it: REGENERATED facts (Frp/Gen/UdpWire.lean, translate
  UdpWire) put into the shape of `UdpWire.Cfg`.  Nothing is written by hand here except the pairing of the ends.
-/
namespace Frp
namespace UdpWire

/-- udp work connection: frps end (server/proxy/udp.go Run) / frpc end (client/proxy/udp.go InWorkConn) -/
def genCfg : Cfg :=
  { srv := { writes := Gen.UdpWire.srvUdpWrites, untyped := Gen.UdpWire.srvUdpUntyped, handles := Gen.UdpWire.srvUdpHandles }
    cli := { writes := Gen.UdpWire.cliUdpWrites, untyped := Gen.UdpWire.cliUdpUntyped, handles := Gen.UdpWire.cliUdpHandles } }

/-- sudp: the visitor end (client/visitor/sudp.go worker; in the role of `srv`: it sends the users' datagrams) / the
    sudp proxy's end in frpc (client/proxy/sudp.go InWorkConn); frps relays the bytes -/
def genSudpCfg : Cfg :=
  { srv := { writes := Gen.UdpWire.visSudpWrites, untyped := Gen.UdpWire.visSudpUntyped, handles := Gen.UdpWire.visSudpHandles }
    cli := { writes := Gen.UdpWire.cliSudpWrites, untyped := Gen.UdpWire.cliSudpUntyped, handles := Gen.UdpWire.cliSudpHandles } }

end UdpWire
end Frp
