import Frp.Gen.ProxyMsg
import Frp.Model.ConfNum
/-
  Generic record model of the client → server proxy definition hand-over.

  A configuration is a finite map  field path → Value,  a `msg.NewProxy` a finite map
  message field → Value.  `marshal` / `unmarshal` *interpret the regenerated assignment tables*
  (`Frp/Gen/ProxyMsg.lean`, extracted from pkg/config/v1/proxy.go on every run) statement by
  statement, in order; `complete` interprets the regenerated `Complete` steps; `serverRecon` is
  `config.NewProxyConfigurerFromMsg` (pkg/config/load.go) without the validation call.
-/
namespace Frp
namespace ProxyMsg
open Gen.ProxyMsg ConfNum

/-- a field value.  `zero` is the Go zero value of whatever type the field has
    ("" / false / 0 / nil slice / nil map / BandwidthQuantity{}). -/
inductive Value
  | zero
  | str (s : Str)
  | bool (b : Bool)
  | int (i : Int)
  | strs (l : List Str)                 -- non-nil []string
  | smap (m : List (Str × Str))         -- non-nil map[string]string, sorted by key
  | bw (s : Str) (bytes : Int)          -- types.BandwidthQuantity{s, i}
  deriving DecidableEq, Repr

/-- the string content of a value (`""` for anything that is not a non-empty string) -/
def asStr : Value → Str
  | .str s => s
  | _ => []

@[simp] theorem asStr_zero : asStr .zero = [] := rfl
@[simp] theorem asStr_str (s : Str) : asStr (.str s) = s := rfl

structure Rec (K : Type) where
  items : List (K × Value)

namespace Rec
variable {K : Type} [DecidableEq K]

def lookupD : List (K × Value) → K → Value
  | [], _ => .zero
  | (k', v) :: rest, k => if k = k' then v else lookupD rest k

def empty : Rec K := ⟨[]⟩
def get (r : Rec K) (k : K) : Value := lookupD r.items k
def set (r : Rec K) (k : K) (v : Value) : Rec K := ⟨(k, v) :: r.items⟩

theorem get_empty (k : K) : (empty : Rec K).get k = .zero := rfl

theorem get_set (r : Rec K) (k k' : K) (v : Value) :
    (r.set k v).get k' = if k' = k then v else r.get k' := by
  simp only [get, set, lookupD]

/-- run a list of (possibly skipped) assignments, first to last -/
def runAssign (r : Rec K) : List (K × Option Value) → Rec K
  | [] => r
  | (k, some v) :: rest => runAssign (r.set k v) rest
  | (_, none) :: rest => runAssign r rest

end Rec

/-! ## MarshalToMsg -/

/-- `BandwidthQuantity.String()` -/
def bwString : Value → Value
  | .bw s _ => .str s
  | _ => .str []

/-- one marshal statement evaluated on configuration `c`: the message field and the value
    written (none = the guarded assignment is skipped) -/
def evalM (c : Rec CF) (e : MEntry) : MF × Option Value :=
  (e.msg,
    match e.x with
    | .copy => some (c.get e.cfg)
    | .callString => some (bwString (c.get e.cfg))
    | .copyUnlessEq lit => if asStr (c.get e.cfg) = lit then none else some (c.get e.cfg))

/-- `MarshalToMsg` into a fresh `msg.NewProxy{}` -/
def marshal (table : List MEntry) (c : Rec CF) : Rec MF :=
  Rec.runAssign Rec.empty (table.map (evalM c))

/-! ## UnmarshalFromMsg -/

/-- `q, _ := types.NewBandwidthQuantity(s)` (zero quantity on error) -/
def bwParse (v : Value) : Value :=
  match parseBW (asStr v) with
  | .ok s i => .bw s i
  | _ => .zero

def evalU (m : Rec MF) (e : UEntry) : CF × Option Value :=
  (e.cfg,
    match e.x with
    | .copy => some (m.get e.msg)
    | .copyIfNonEmpty => if asStr (m.get e.msg) = [] then none else some (m.get e.msg)
    | .parseBandwidth => some (bwParse (m.get e.msg))
    | .parseBandwidthIfNonEmpty => if asStr (m.get e.msg) = [] then none else some (bwParse (m.get e.msg)))

/-- `UnmarshalFromMsg` into configuration `c0` -/
def unmarshal (table : List UEntry) (m : Rec MF) (c0 : Rec CF) : Rec CF :=
  Rec.runAssign c0 (table.map (evalU m))

/-! ## Complete, NewProxyConfigurerByType, NewProxyConfigurerFromMsg -/

def applyComplete (namePrefix : Str) (c : Rec CF) : CompleteStep → Rec CF
  | .prefixName =>
    if namePrefix = [] then c      -- "" + c.Name
    else c.set .cName (.str (namePrefix ++ Str.dot :: asStr (c.get .cName)))
  | .emptyOr f d => if asStr (c.get f) = [] then c.set f (.str d) else c
  | .pluginComplete => c

/-- `ProxyBaseConfig.Complete(namePrefix)` -/
def complete (namePrefix : Str) (c : Rec CF) : Rec CF :=
  completeSteps.foldl (applyComplete namePrefix) c

/-- `NewProxyConfigurerByType(t)`: all-zero struct with the Type field set -/
def zeroCfg (t : PT) : Rec CF :=
  if newByTypeSetsType then Rec.empty.set .cType (.str t.bytes) else Rec.empty

def typeOfStr (s : Str) : Option PT := PT.all.find? (fun t => t.bytes = s)

/-- the default of `m.ProxyType = util.EmptyOr(m.ProxyType, …)` as the code has it now -/
def defaultTypeStr : Str :=
  match reconSteps.head? with
  | some (.defaultType t) => t
  | _ => []

/-- `NewProxyConfigurerFromMsg` up to (not including) the validation call; none = unknown type -/
def serverRecon (m : Rec MF) : Option (PT × Rec CF) :=
  let ts := if asStr (m.get .mProxyType) = [] then defaultTypeStr else asStr (m.get .mProxyType)
  let m' := m.set .mProxyType (.str ts)
  match typeOfStr ts with
  | none => none
  | some t => some (t, complete [] (unmarshal (unmarshalTable t) m' (zeroCfg t)))

/-! ## canonical form used when comparing with the implementation -/

/-- identify the several spellings of a zero value -/
def Value.canon : Value → Value
  | .str [] => .zero
  | .bool false => .zero
  | .int 0 => .zero
  | .bw [] 0 => .zero
  | v => v

end ProxyMsg
end Frp
