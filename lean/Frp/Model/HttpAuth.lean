import Frp.Model.Router
import Frp.Model.Host
/-
  Model of the credential gates (property C07).

  * `HTTPReverseProxy.ServeHTTP` / `CheckAuth` / `injectRequestInfoToCtx` / `CreateConnection`
    (pkg/util/vhost/http.go)
  * `Muxer.handle` + `HTTPConnectTCPMuxer.auth` (pkg/util/vhost/vhost.go, pkg/util/tcpmux/httpconnect.go)
  * `HTTPAuthMiddleware.Middleware` (pkg/util/net/http.go) — dashboard, admin API, static_file
  * `HTTPProxy.Auth` (pkg/plugin/client/http_proxy.go)

  Header parsing (`req.BasicAuth`, `ParseBasicAuth`: base64 + split at ':') is done by net/http /
  encoding/base64; a request of THIS file carries the *parsed* pairs (`none` = header absent or
  unparsable).  The parsing itself, from the header bytes, is modelled in Frp/Model/WebAuth.lean
  (`parseBasicAuth`) together with the web endpoints (middleware + gorilla/mux router + handlers).
-/
namespace Frp
namespace HttpAuth
open Str Router

/-- credentials configured on a route: (Username, Password) of RouteConfig, keyed by payload id -/
structure Creds where
  user : Str
  pass : Str
deriving DecidableEq, Repr

structure Table where
  R     : Routers
  creds : List (Nat × Creds)          -- payload id ↦ configured credentials

def Table.credsOf (T : Table) (id : Nat) : Creds :=
  match T.creds.lookup id with
  | some c => c
  | none => ⟨[], []⟩

structure Req where
  host     : Str                      -- req.Host
  urlHost  : Str                      -- req.URL.Host ("" for origin-form)
  path     : Str                      -- req.URL.Path
  auth     : Option (Str × Str)       -- req.BasicAuth()
  pauth    : Option (Str × Str)       -- ParseBasicAuth(Proxy-Authorization)

inductive Resp
  | unauthorized                      -- 401 + WWW-Authenticate
  | forward (id : Nat)                -- CreateConnFn of route `id` is called
  | notFound                          -- 404 page
deriving DecidableEq, Repr

def canon (h : Str) : Str := (Host.canonicalHost h).getD []

/-- `CheckAuth(domain, location, routeByHTTPUser, user, passwd)` -/
def checkAuth (T : Table) (domain loc routeUser user pass : Str) : Bool :=
  match getVhost T.R domain loc routeUser with
  | some r =>
    let c := T.credsOf r.payload
    !((c.user ≠ [] ∨ c.pass ≠ []) ∧ (c.user ≠ user ∨ c.pass ≠ pass))
  | none => true

/-- the user that `injectRequestInfoToCtx` puts into RequestRouteInfo.HTTPUser -/
def routeUser (q : Req) : Str :=
  let basicUser := match q.auth with | some (u, _) => u | none => []
  let u := if q.urlHost ≠ [] then (match q.pauth with | some (u, _) => u | none => []) else []
  if u = [] then basicUser else u

def forwardOf (T : Table) (q : Req) : Resp :=
  match getVhost T.R (canon q.host) q.path (routeUser q) with
  | some r => .forward r.payload
  | none => .notFound

/-- `ServeHTTP` as in the pinned tree c9fd674: the credential check is keyed by the
    `Authorization` user, the forwarding by `routeUser` -/
def serveOld (T : Table) (q : Req) : Resp :=
  let (user, pass) := match q.auth with | some p => p | none => ([], [])
  if !checkAuth T (canon q.host) q.path user user pass then .unauthorized
  else forwardOf T q

/-- `ServeHTTP` after the repair: the credential check uses the same route key as forwarding -/
def serve (T : Table) (q : Req) : Resp :=
  let (user, pass) := match q.auth with | some p => p | none => ([], [])
  if !checkAuth T (canon q.host) q.path (routeUser q) user pass then .unauthorized
  else forwardOf T q

/-! ### the request as it is on the wire

  `ServeHTTP` sees `req.URL.Path`, which net/http obtains from the request target by
  `url.ParseRequestURI` → `setPath` → `unescape(p, encodePath)`: percent-decoding and nothing else — no
  dot-segment removal, no merging of empty segments (the handler is installed directly in the
  `http.Server`, there is no `ServeMux` in front of it).  Both `CheckAuth` and
  `injectRequestInfoToCtx`/`CreateConnection` read that same decoded string. -/

def pct : Nat := 37

def hexv (c : Nat) : Option Nat :=
  if 48 ≤ c ∧ c ≤ 57 then some (c - 48)
  else if 97 ≤ c ∧ c ≤ 102 then some (c - 87)
  else if 65 ≤ c ∧ c ≤ 70 then some (c - 55)
  else none

/-- net/url `unescape(s, encodePath)`; `none` = `EscapeError` (the server answers 400 Bad Request
    before any handler runs) -/
def unescapePath : Str → Option Str
  | [] => some []
  | c :: rest =>
    if c = pct then
      match rest with
      | a :: b :: rest' =>
        match hexv a, hexv b with
        | some x, some y => (unescapePath rest').map (fun r => (x * 16 + y) :: r)
        | _, _ => none
      | _ => none
    else (unescapePath rest).map (fun r => c :: r)

/-- a request as sent: `target` is the path part of the request target, still percent-encoded
    (origin-form `GET <target>`, absolute-form `GET http://<host><target>`, CONNECT: empty) -/
structure WireReq where
  host     : Str
  proxied  : Bool                     -- absolute-form or CONNECT: req.URL.Host = host
  target   : Str
  auth     : Option (Str × Str)
  pauth    : Option (Str × Str)

/-- what net/http hands to the handler; `none` = rejected with 400 by the server -/
def WireReq.parse (w : WireReq) : Option Req :=
  (unescapePath w.target).map (fun p =>
    { host := w.host, urlHost := if w.proxied then w.host else [], path := p, auth := w.auth, pauth := w.pauth })

/-- `http.Server` + `ServeHTTP`; `none` = 400 from the server, no handler ran -/
def serveWire (T : Table) (w : WireReq) : Option Resp := w.parse.map (serve T)

/-! ### tcpmux (HTTP CONNECT) -/

structure ConnectReq where
  host  : Str                         -- canonical host of the CONNECT target
  pauth : Option (Str × Str)          -- ParseBasicAuth(Proxy-Authorization)

inductive MuxResp
  | notFound | proxyAuthRequired | accept (id : Nat)
deriving DecidableEq, Repr

/-- `Muxer.handle` for tcpmux: route by CONNECT user, `checkAuth` iff the listener has a username -/
def muxHandle (T : Table) (q : ConnectReq) : MuxResp :=
  let (u, p) := match q.pauth with | some x => x | none => ([], [])
  match getVhost T.R (toLower q.host) [] u with
  | none => .notFound
  | some r =>
    let c := T.credsOf r.payload
    if c.user ≠ [] then
      if c.user = u ∧ c.pass = p then .accept r.payload else .proxyAuthRequired
    else .accept r.payload

/-! ### middleware and http_proxy plugin -/

/-- `HTTPAuthMiddleware.Middleware`: true = next handler is called -/
def middleware (cfg : Creds) (auth : Option (Str × Str)) : Bool :=
  (cfg.user = [] ∧ cfg.pass = []) ||
  (match auth with
   | some (u, p) => u = cfg.user ∧ p = cfg.pass
   | none => false)

/-- `HTTPProxy.Auth` after header decoding: `pair` = the (user, password) obtained from
    `SplitN(base64decode(SplitN(header," ",2)[1]), ":", 2)`, none if any step fails -/
def pluginAuth (cfg : Creds) (pair : Option (Str × Str)) : Bool :=
  (cfg.user = [] ∧ cfg.pass = []) ||
  (match pair with
   | some (u, p) => u = cfg.user ∧ p = cfg.pass
   | none => false)

/-! ### http_proxy plugin: what happens to the requests of one work connection

  pkg/plugin/client/http_proxy.go.  `Handle` reads the first 7 bytes of the work connection: if they
  spell CONNECT (any casing) the request is parsed and given to `handleConnectReq`; otherwise the
  connection is queued to the embedded `http.Server`, whose handler `ServeHTTP` then sees every
  request of the connection in turn (keep-alive), a CONNECT among them included, until a handler
  hijacks the connection. -/

def upperB (c : Nat) : Nat := if 97 ≤ c ∧ c ≤ 122 then c - 32 else c

def mCONNECT : Str := [67, 79, 78, 78, 69, 67, 84]

/-- `strings.ToUpper(string(firstBytes)) == "CONNECT"` on the first 7 bytes of `<method> SP …`
    (a method is a token: it contains no space) -/
def sniffConnect (method : Str) : Bool := (method.take 7).map upperB = mCONNECT

/-- `req.Method == http.MethodConnect` -/
def isConnect (method : Str) : Bool := method = mCONNECT

structure PlReq where
  method : Str
  pair   : Option (Str × Str)         -- as in `pluginAuth`

/-- what the plugin does with one request -/
inductive PlAct
  | refuseClose     -- handleConnectReq: getBadResponse (407, Connection: close), connection closed, nothing dialled
  | challenge       -- ServeHTTP: 407 + Proxy-Authenticate: Basic, no handler runs, connection kept
  | tunnel          -- handleConnectReq / ConnectHandler: net.Dial(req.URL.Host), "200 OK", join
  | fetch           -- HTTPHandler: http.DefaultTransport.RoundTrip(req)
deriving DecidableEq, Repr

/-- the request reached what the plugin protects (a connection was dialled / a request sent on) -/
def PlAct.reaches : PlAct → Bool
  | .tunnel => true
  | .fetch => true
  | _ => false

/-- `HTTPProxy.ServeHTTP`: Auth first, then the dispatch on the method -/
def pluginServeHTTP (cfg : Creds) (q : PlReq) : PlAct :=
  if !pluginAuth cfg q.pair then .challenge
  else if isConnect q.method then .tunnel      -- hp.ConnectHandler
  else .fetch                                  -- hp.HTTPHandler

/-- `HTTPProxy.handleConnectReq` -/
def pluginHandleConnect (cfg : Creds) (q : PlReq) : PlAct :=
  if !pluginAuth cfg q.pair then .refuseClose else .tunnel

/-- the embedded `http.Server` on one connection: each request goes through `ServeHTTP`; after a
    hijack (`ConnectHandler`) the server no longer reads the connection -/
def pluginServeConn (cfg : Creds) : List PlReq → List PlAct
  | [] => []
  | q :: rest =>
    let a := pluginServeHTTP cfg q
    a :: (if a = .tunnel then [] else pluginServeConn cfg rest)

/-- `HTTPProxy.Handle` on a work connection carrying the requests `qs` (answers in order; the list
    ends where the plugin stops reading requests) -/
def pluginHandle (cfg : Creds) : List PlReq → List PlAct
  | [] => []
  | q :: rest =>
    if sniffConnect q.method then [pluginHandleConnect cfg q]
    else pluginServeConn cfg (q :: rest)

end HttpAuth
end Frp
