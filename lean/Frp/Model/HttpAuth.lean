import Frp.Model.Router
import Frp.Model.Host
/-
  Model of the credential gates (property C07).

  * `HTTPReverseProxy.ServeHTTP` / `CheckAuth` / `injectRequestInfoToCtx` / `CreateConnection`
    (pkg/util/vhost/http.go)
  * `Muxer.handle` + `HTTPConnectTCPMuxer.auth` (pkg/util/vhost/vhost.go, pkg/util/tcpmux/httpconnect.go)
  * `HTTPAuthMiddleware.Middleware` (pkg/util/net/http.go) — dashboard, admin API, static_file
  * `HTTPProxy.Auth` (pkg/plugin/client/http_proxy.go)

  Header parsing (`req.BasicAuth`, `ParseBasicAuth`: base64 + split at ':') is done by net/http /
  encoding/base64; a request carries the *parsed* pairs.  `none` = header absent or unparsable.
-/
namespace Frp
namespace HttpAuth
open Str Router

/-- credentials configured on a route: (Username, Password) of RouteConfig, keyed by payload id -/
structure Creds where
  user : Str
  pass : Str
deriving DecidableEq, Repr

structure Table where
  R     : Routers
  creds : List (Nat × Creds)          -- payload id ↦ configured credentials

def Table.credsOf (T : Table) (id : Nat) : Creds :=
  match T.creds.lookup id with
  | some c => c
  | none => ⟨[], []⟩

structure Req where
  host     : Str                      -- req.Host
  urlHost  : Str                      -- req.URL.Host ("" for origin-form)
  path     : Str                      -- req.URL.Path
  auth     : Option (Str × Str)       -- req.BasicAuth()
  pauth    : Option (Str × Str)       -- ParseBasicAuth(Proxy-Authorization)

inductive Resp
  | unauthorized                      -- 401 + WWW-Authenticate
  | forward (id : Nat)                -- CreateConnFn of route `id` is called
  | notFound                          -- 404 page
deriving DecidableEq, Repr

def canon (h : Str) : Str := (Host.canonicalHost h).getD []

/-- `CheckAuth(domain, location, routeByHTTPUser, user, passwd)` -/
def checkAuth (T : Table) (domain loc routeUser user pass : Str) : Bool :=
  match getVhost T.R domain loc routeUser with
  | some r =>
    let c := T.credsOf r.payload
    !((c.user ≠ [] ∨ c.pass ≠ []) ∧ (c.user ≠ user ∨ c.pass ≠ pass))
  | none => true

/-- the user that `injectRequestInfoToCtx` puts into RequestRouteInfo.HTTPUser -/
def routeUser (q : Req) : Str :=
  let basicUser := match q.auth with | some (u, _) => u | none => []
  let u := if q.urlHost ≠ [] then (match q.pauth with | some (u, _) => u | none => []) else []
  if u = [] then basicUser else u

def forwardOf (T : Table) (q : Req) : Resp :=
  match getVhost T.R (canon q.host) q.path (routeUser q) with
  | some r => .forward r.payload
  | none => .notFound

/-- `ServeHTTP` as in the pinned tree c9fd674: the credential check is keyed by the
    `Authorization` user, the forwarding by `routeUser` -/
def serveOld (T : Table) (q : Req) : Resp :=
  let (user, pass) := match q.auth with | some p => p | none => ([], [])
  if !checkAuth T (canon q.host) q.path user user pass then .unauthorized
  else forwardOf T q

/-- `ServeHTTP` after the repair: the credential check uses the same route key as forwarding -/
def serve (T : Table) (q : Req) : Resp :=
  let (user, pass) := match q.auth with | some p => p | none => ([], [])
  if !checkAuth T (canon q.host) q.path (routeUser q) user pass then .unauthorized
  else forwardOf T q

/-! ### tcpmux (HTTP CONNECT) -/

structure ConnectReq where
  host  : Str                         -- canonical host of the CONNECT target
  pauth : Option (Str × Str)          -- ParseBasicAuth(Proxy-Authorization)

inductive MuxResp
  | notFound | proxyAuthRequired | accept (id : Nat)
deriving DecidableEq, Repr

/-- `Muxer.handle` for tcpmux: route by CONNECT user, `checkAuth` iff the listener has a username -/
def muxHandle (T : Table) (q : ConnectReq) : MuxResp :=
  let (u, p) := match q.pauth with | some x => x | none => ([], [])
  match getVhost T.R (toLower q.host) [] u with
  | none => .notFound
  | some r =>
    let c := T.credsOf r.payload
    if c.user ≠ [] then
      if c.user = u ∧ c.pass = p then .accept r.payload else .proxyAuthRequired
    else .accept r.payload

/-! ### middleware and http_proxy plugin -/

/-- `HTTPAuthMiddleware.Middleware`: true = next handler is called -/
def middleware (cfg : Creds) (auth : Option (Str × Str)) : Bool :=
  (cfg.user = [] ∧ cfg.pass = []) ||
  (match auth with
   | some (u, p) => u = cfg.user ∧ p = cfg.pass
   | none => false)

/-- `HTTPProxy.Auth` after header decoding: `pair` = the (user, password) obtained from
    `SplitN(base64decode(SplitN(header," ",2)[1]), ":", 2)`, none if any step fails -/
def pluginAuth (cfg : Creds) (pair : Option (Str × Str)) : Bool :=
  (cfg.user = [] ∧ cfg.pass = []) ||
  (match pair with
   | some (u, p) => u = cfg.user ∧ p = cfg.pass
   | none => false)

end HttpAuth
end Frp
