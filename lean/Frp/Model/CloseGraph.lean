import Frp.Model.Layers
/-
  C01 — who closes what.  Wrappers are nodes; a node's close action is a list of `Close()` calls on
  *references*.  A reference is either a fixed node (a Go closure over a parameter or over a
  variable that is never assigned again) or a VARIABLE that is looked up when the closure RUNS —
  exactly what `func() error { return local.Close() }` does after `local = Wrap(…, thatClosure)`.

    golib io.WrapReadWriteCloser / ReadWriteCloser.Close   guard `closed`, then closeFn  → `Node.guard`
    golib io.WithEncryption / WithCompression(FromPool)    closeFn = `rwc.Close()` (parameter)
    server/proxy/proxy.go  handleUserTCPConnection         limiter closeFn = `local.Close()` (VARIABLE `local`,
                                                           reassigned to the limiter wrapper itself)
    server/proxy/http.go   GetRealConn                     limiter closeFn = `rwc.Close()` (VARIABLE `rwc`)
    client/proxy/proxy.go  HandleTCPWorkConnection         limiter closeFn = `workConn.Close()` (never reassigned)
    pkg/util/net/conn.go   ContextConn, WrapReadWriteCloserConn (delegate), StatsConn (guard `closed`),
                           CloseNotifyConn.Close: `err = cc.Close()` — calls ITSELF, not `cc.Conn`
    golib io.Join                                          two copiers, `defer to.Close(); defer from.Close()`

  The two boolean switches select the repaired code (hooks/C01-fix-limiter-close.patch,
  hooks/C01-fix-closenotify.patch); both are `false` = the code as it is in /repo now.
-/
namespace Frp
namespace CloseGraph
open Layers

/-- `true` once hooks/C01-fix-limiter-close.patch is applied to /repo (closure captures the value) -/
def limiterCloseIsFixed : Bool := true

/-- `true` once hooks/C01-fix-closenotify.patch is applied (`cc.Conn.Close()`) -/
def closeNotifyIsFixed : Bool := true

inductive Ref
  | node (i : Nat)      -- a value fixed when the closure was built
  | var (v : Nat)       -- a variable, read when the closure runs
  deriving DecidableEq, Repr

structure Node where
  guard : Bool          -- close-once flag checked/set before the action
  calls : List Ref      -- `Close()` calls the action makes, in order
  transport : Bool      -- the real connection: every `Close()` that reaches it is counted
  deriving DecidableEq, Repr

structure Graph where
  nodes : List Node
  vars : List Nat       -- value of each variable when `Close` runs (after all assignments)
  top : Nat             -- what `Join` / the caller holds
  deriving DecidableEq, Repr

structure St where
  flags : List Nat := []   -- nodes whose guard is set
  count : Nat := 0         -- `Close()` calls that reached the transport
  deriving DecidableEq, Repr

def Graph.resolve (g : Graph) : Ref → Nat
  | .node i => i
  | .var v => g.vars.getD v 0

/-- `Close()` on node `i`.  `none` = out of fuel: an unguarded cycle (unbounded recursion in Go). -/
def close (g : Graph) : Nat → Nat → St → Option St
  | 0, _, _ => none
  | fuel + 1, i, st =>
    match g.nodes[i]? with
    | none => some st
    | some nd =>
      if nd.guard && st.flags.contains i then some st
      else
        let st1 : St :=
          { flags := if nd.guard then i :: st.flags else st.flags
          , count := if nd.transport then st.count + 1 else st.count }
        nd.calls.foldlM (fun s r => close g fuel (g.resolve r) s) st1

def fuel0 : Nat := 32

/-- `Close()` on the top, `k` times (Join's two copiers each close both ends; deferred closes) -/
def closeTop (g : Graph) : Nat → St → Option St
  | 0, st => some st
  | k + 1, st => (close g fuel0 g.top st).bind (closeTop g k)

/-- transport `Close()` calls after closing the top `k` times -/
def closeCount (g : Graph) (k : Nat) : Option Nat := (closeTop g k {}).map (·.count)

/-! ### builders: the statements of the Go functions, in order -/

structure B where
  nodes : List Node
  cur : Nat              -- current value of the variable (`local` / `remote` / `rwc`)

def B.start : B := { nodes := [{ guard := false, calls := [], transport := true }], cur := 0 }

/-- `x = Wrap(x, closeFn)` where closeFn closes `r` -/
def B.wrap (b : B) (guard : Bool) (r : Ref) : B :=
  { nodes := b.nodes ++ [{ guard := guard, calls := [r], transport := false }], cur := b.nodes.length }

def B.wrapIf (b : B) (c : Bool) (guard : Bool) (r : B → Ref) : B := if c then b.wrap guard (r b) else b

def B.done (b : B) : Graph := { nodes := b.nodes, vars := [b.cur], top := b.cur }

/-- `pxy.GetWorkConnFromPool`: `workConn = netpkg.NewContextConn(pxy.ctx, workConn)` (delegates) -/
def B.contextConn (b : B) : B := b.wrap false (.node b.cur)

/-- handleUserTCPConnection.  `fixed = false`: the limiter's closeFn reads the variable `local`. -/
def serverGraph (o : Opts) (fixed : Bool := limiterCloseIsFixed) : Graph :=
  let b := B.start.contextConn
  let b := b.wrapIf o.enc true (fun b => .node b.cur)        -- WithEncryption(local): rwc.Close()
  let b := b.wrapIf o.comp true (fun b => .node b.cur)       -- WithCompressionFromPool(local): rwc.Close()
  let b := b.wrapIf o.limSrv true (fun b => if fixed then .node b.cur else .var 0)
  b.done

/-- GetRealConn (http): same wrappers, then WrapReadWriteCloserToConn (delegates), WrapStatsConn (guard) -/
def httpRealConnGraph (o : Opts) (fixed : Bool := limiterCloseIsFixed) : Graph :=
  let b := B.start.contextConn
  let b := b.wrapIf o.enc true (fun b => .node b.cur)
  let b := b.wrapIf o.comp true (fun b => .node b.cur)
  let b := b.wrapIf o.limSrv true (fun b => if fixed then .node b.cur else .var 0)
  let rwcFinal := b.cur
  let b := b.wrap false (.node b.cur)                         -- WrapReadWriteCloserToConn(rwc, tmpConn)
  let b := b.wrap true (.node b.cur)                          -- WrapStatsConn
  { nodes := b.nodes, vars := [rwcFinal], top := b.cur }

/-- HandleTCPWorkConnection: limiter closeFn = `workConn.Close()` (the parameter, never reassigned) -/
def clientGraph (o : Opts) : Graph :=
  let b := B.start
  let b := b.wrapIf o.limCli true (fun _ => .node 0)
  let b := b.wrapIf o.enc true (fun b => .node b.cur)
  let b := b.wrapIf o.comp true (fun b => .node b.cur)
  b.done

/-- stcp / xtcp visitor handleConn -/
def visitorGraph (enc comp : Bool) : Graph :=
  let b := B.start
  let b := b.wrapIf enc true (fun b => .node b.cur)
  let b := b.wrapIf comp true (fun b => .node b.cur)
  b.done

/-- visitor.Manager.NewConn: enc, comp, WrapReadWriteCloserToConn -/
def visitorServerGraph (enc comp : Bool) : Graph :=
  let b := B.start
  let b := b.wrapIf enc true (fun b => .node b.cur)
  let b := b.wrapIf comp true (fun b => .node b.cur)
  let b := b.wrap false (.node b.cur)
  b.done

/-- WrapCloseNotifyConn(c, closeFn): guard, then `cc.Close()` (itself) — or `cc.Conn.Close()` when repaired —
    then closeFn (not a connection close) -/
def closeNotifyGraph (fixed : Bool := closeNotifyIsFixed) : Graph :=
  { nodes := [ { guard := false, calls := [], transport := true }
             , { guard := true, calls := [if fixed then .node 0 else .node 1], transport := false } ]
  , vars := [], top := 1 }

/-- WrapStatsConn(c, f) -/
def statsGraph : Graph := (B.start.wrap true (.node 0)).done

/-- WrapReadWriteCloserToConn(rwc, under) directly over a transport -/
def rwcConnGraph : Graph := (B.start.wrap false (.node 0)).done

/-- does closing the top (once) reach the transport? -/
def reaches (g : Graph) : Bool := (closeCount g 1).any (0 < ·)

/-! ### golib io.Join, small-step -/

inductive JEv
  | eofA     -- a Read on endpoint A returns EOF / error (its peer finished or closed)
  | eofB
  deriving DecidableEq, Repr

structure JState where
  c1done : Bool := false      -- copier A → B returned
  c2done : Bool := false      -- copier B → A returned
  aClosed : Bool := false     -- A's transport really closed
  bClosed : Bool := false
  aCloseCalls : Nat := 0      -- `Close()` calls on the endpoint Join holds
  bCloseCalls : Nat := 0
  deriving DecidableEq, Repr

/-- a copier returns: `defer from.Close(); defer to.Close()` (both endpoints, every time) -/
def JState.finish (ra rb : Bool) (s : JState) (first : Bool) : JState :=
  let s := if first then { s with c1done := true } else { s with c2done := true }
  { s with aClosed := s.aClosed || ra, bClosed := s.bClosed || rb
         , aCloseCalls := s.aCloseCalls + 1, bCloseCalls := s.bCloseCalls + 1 }

/-- a copier blocked in `Read` of a really-closed transport gets an error and returns
    (also when its `Write` target is closed and data arrives — not needed here) -/
def JState.settle (ra rb : Bool) (s : JState) : JState :=
  let s := if !s.c1done && s.aClosed then s.finish ra rb true else s
  let s := if !s.c2done && s.bClosed then s.finish ra rb false else s
  if !s.c1done && s.aClosed then s.finish ra rb true else s

/-- `ra` / `rb`: closing the endpoint Join holds really closes A's / B's transport -/
def jstep (ra rb : Bool) (s : JState) : JEv → JState
  | .eofA => if s.c1done then s else ((s.finish ra rb true).settle ra rb)
  | .eofB => if s.c2done then s else ((s.finish ra rb false).settle ra rb)

def jrun (ra rb : Bool) : JState → List JEv → JState
  | s, [] => s
  | s, e :: es => jrun ra rb (jstep ra rb s e) es

def JState.returned (s : JState) : Bool := s.c1done && s.c2done

end CloseGraph
end Frp
