import Frp.Model.Layers
/-
  C02 — one work connection served by the http.Server of a client plugin (http2http, http2https, https2http,
  https2https).  Hand-written mirror of

    net/http server.go   conn.serve            per exchange: readRequest, handler, w.finishRequest(), then
                                               `c.bufr.Peek(4)` waits for the next request
                         finishRequest         … w.conn.r.abortPendingRead()
                         connReader.abortPendingRead   a background Read is in flight (started when the request body
                                               hit EOF / at once for a body-less request): it is interrupted with
                                               `SetReadDeadline(aLongTimeAgo)`, the timeout error of THAT Read is ignored
    pkg/util/net/conn.go WrapReadWriteCloserToConn.SetReadDeadline   → the underlying work connection
    golib crypto/decode.go  Reader.Read        `if r.err != nil { return 0, r.err }` … `r.err = errRet`   (sticky)
    snappy decode.go        Reader.Read/fill   `if r.err != nil { return 0, r.err }` … `r.err = …`         (sticky)

  The interrupted Read of the work connection travels up through the wrappers of
  client/proxy/proxy.go HandleTCPWorkConnection: a bare connection (or only a limiter) forgets a timeout, the
  encryption and the compression reader keep it forever.
-/
namespace Frp
namespace ConnReader
open Layers

structure Rd where
  sticky : Bool     -- some wrapper keeps the first error (useEncryption or useCompression)
  err : Bool        -- an error is stored
  deriving DecidableEq, Repr

inductive REv
  | data     -- a Read while bytes of the next request are there
  | abort    -- the pending background Read is interrupted by the past deadline
  deriving DecidableEq, Repr

/-- the Bool: this Read delivered bytes -/
def rstep (r : Rd) : REv → Rd × Bool
  | .data => (r, !r.err)
  | .abort => ({ r with err := r.err || r.sticky }, false)

/-- conn.serve over `n` requests offered on one connection: how many are answered before the server gives
    the connection up (a failed Read ends `serve`, the connection is closed) -/
def serve (r : Rd) : Nat → Nat
  | 0 => 0
  | n + 1 =>
    let (r1, ok) := rstep r .data
    if ok then 1 + serve (rstep r1 .abort).1 n else 0

/-- client/proxy/proxy.go: which wrappers of the work connection keep an error -/
def wrapperSticky (o : Opts) : Bool := o.enc || o.comp

/-- exchanges answered out of `n` offered back to back on ONE work connection handled by an HTTP client plugin -/
def pluginConnServes (o : Opts) (n : Nat) : Nat := serve { sticky := wrapperSticky o, err := false } n

end ConnReader
end Frp
