import Frp.Model.Str
/-
  Textual quantities of the configuration layer.

  Go sources mirrored here:
    strings.TrimSpace (ASCII part), strconv.ParseInt(s, 10, 64), strconv.Itoa
    pkg/config/types/types.go   PortsRangeSlice.String, NewPortsRangeSliceFromString,
                                BandwidthQuantity.UnmarshalString / String
    pkg/util/util/util.go       ParseRangeNumbers
    pkg/config/template.go      parseNumberRangePair

  Domain: ASCII input.  `strconv.ParseFloat` is modelled only for plain decimals `d*[.d*]` with at
  most 9 digits in total (for these `int64(f * base)` equals the exact floor, see `bwBytes`);
  everything else is answered `unsupported` and skipped by the driver.
-/
namespace Frp
namespace ConfNum
open Str

def comma : Nat := 44
def dash : Nat := 45
def plus : Nat := 43

/-- ASCII white space as `strings.TrimSpace` sees it: \t \n \v \f \r and space -/
def isSpace (c : Nat) : Bool := c = 32 || (9 ≤ c && c ≤ 13)

def trimLeft (s : Str) : Str := s.dropWhile isSpace
def trimRight (s : Str) : Str := (s.reverse.dropWhile isSpace).reverse
/-- `strings.TrimSpace` -/
def trim (s : Str) : Str := trimRight (trimLeft s)

def isDigit (c : Nat) : Bool := 48 ≤ c && c ≤ 57

/-- decimal digits, most significant first (`strconv.Itoa` on a non-negative number) -/
def printNat (n : Nat) : Str :=
  if n < 10 then [48 + n] else printNat (n / 10) ++ [48 + n % 10]
decreasing_by omega

/-- `strconv.Itoa` -/
def printInt (i : Int) : Str := if i < 0 then dash :: printNat (-i).toNat else printNat i.toNat

def parseDigits (acc : Nat) : Str → Option Nat
  | [] => some acc
  | c :: cs => if isDigit c then parseDigits (acc * 10 + (c - 48)) cs else none

/-- magnitude of a non-empty digit string -/
def parseMag (s : Str) : Option Nat := if s = [] then none else parseDigits 0 s

/-- `strconv.ParseInt(s, 10, 64)`: optional sign, at least one digit, int64 range -/
def parseInt (s : Str) : Option Int :=
  match s with
  | [] => none
  | c :: ds =>
    if c = plus then (parseMag ds).bind (fun n => if n < 2 ^ 63 then some (n : Int) else none)
    else if c = dash then (parseMag ds).bind (fun n => if n ≤ 2 ^ 63 then some (-(n : Int)) else none)
    else (parseMag (c :: ds)).bind (fun n => if n < 2 ^ 63 then some (n : Int) else none)

/-! ## types.PortsRange -/

structure PortsRange where
  start : Int
  stop : Int
  single : Int
  deriving DecidableEq, Repr

/-- one element of `PortsRangeSlice.String` -/
def printRange (r : PortsRange) : Str :=
  if r.single > 0 then printInt r.single else printInt r.start ++ dash :: printInt r.stop

/-- `PortsRangeSlice.String` (`""` for the empty slice, else the elements joined by ",") -/
def printRanges (rs : List PortsRange) : Str := joinWith comma (rs.map printRange)

/-- one comma-separated piece, split on "-" -/
def parseRange (piece : Str) : Option PortsRange :=
  match splitOn dash piece with
  | [a] => (parseInt (trim a)).map (fun n => ⟨0, 0, n⟩)
  | [a, b] =>
    match parseInt (trim a), parseInt (trim b) with
    | some lo, some hi => if hi < lo then none else some ⟨lo, hi, 0⟩
    | _, _ => none
  | _ => none

def parseAll : List Str → Option (List PortsRange)
  | [] => some []
  | p :: ps =>
    match parseRange p with
    | none => none
    | some r => (parseAll ps).map (r :: ·)

/-- `NewPortsRangeSliceFromString` (none = error) -/
def parseRanges (s : Str) : Option (List PortsRange) := parseAll (splitOn comma (trim s))

/-! ## util.ParseRangeNumbers -/

/-- one piece of ParseRangeNumbers: a single number or every number of `lo-hi` -/
def parseNumbersPiece (piece : Str) : Option (List Int) :=
  match splitOn dash piece with
  | [a] => (parseInt (trim a)).map (fun n => [n])
  | [a, b] =>
    match parseInt (trim a), parseInt (trim b) with
    | some lo, some hi =>
      if hi < lo then none else some ((List.range (hi - lo + 1).toNat).map (fun (k : Nat) => lo + (k : Int)))
    | _, _ => none
  | _ => none

def parseNumbersAll : List Str → Option (List Int)
  | [] => some []
  | p :: ps =>
    match parseNumbersPiece p with
    | none => none
    | some ns => (parseNumbersAll ps).map (ns ++ ·)

/-- `util.ParseRangeNumbers` -/
def parseRangeNumbers (s : Str) : Option (List Int) := parseNumbersAll (splitOn comma (trim s))

/-- `parseNumberRangePair` (pkg/config/template.go) -/
def parseNumberRangePair (a b : Str) : Option (List (Int × Int)) :=
  match parseRangeNumbers a, parseRangeNumbers b with
  | some xs, some ys => if xs.length ≠ ys.length then none else some (xs.zip ys)
  | _, _ => none

/-! ## types.BandwidthQuantity -/

inductive BW
  | ok (s : Str) (bytes : Int)     -- q.s, q.i
  | empty                          -- "" after trimming: nil error, q stays zero
  | err
  | unsupported                    -- number syntax outside the modelled decimal fragment
  deriving DecidableEq, Repr

def KB : Nat := 1024
def MB : Nat := 1024 * 1024

/-- split `d*[.d*]` into (integer digits, fraction digits); none if another character occurs -/
def splitDecimal : Str → Option (Str × Str)
  | [] => some ([], [])
  | c :: cs =>
    if c = 46 then (if cs.all isDigit then some ([], cs) else none)
    else if isDigit c then (splitDecimal cs).map (fun (i, f) => (c :: i, f))
    else none

/-- `int64(f * float64(base))` for the decimal `ip.fp`; exact floor (the float product differs from
    the exact one by < 10^-k relative to a grid of 10^-k, see the comment on top) -/
def bwBytes (ip fp : Str) (base : Nat) : Option Int :=
  match parseDigits 0 (ip ++ fp) with
  | some n => some ((n * base / 10 ^ fp.length : Nat) : Int)
  | none => none

def bwNumber (f : Str) (base : Nat) (s : Str) : BW :=
  if f = [] then .err
  else match splitDecimal f with
    | none => .unsupported
    | some (ip, fp) =>
      if ip.length + fp.length = 0 then .err           -- "." alone
      else if ip.length + fp.length > 9 then .unsupported
      else match bwBytes ip fp base with
        | some b => .ok s b
        | none => .unsupported

def hasSuffix (s suf : Str) : Bool := suf.reverse.isPrefixOf s.reverse
def dropSuffix (s : Str) (n : Nat) : Str := s.take (s.length - n)

def sufMB : Str := [77, 66]
def sufKB : Str := [75, 66]

/-- the part of `UnmarshalString` after `strings.TrimSpace` -/
def parseBWTrimmed (s : Str) : BW :=
  if s = [] then .empty
  else if hasSuffix s sufMB then bwNumber (dropSuffix s 2) MB s
  else if hasSuffix s sufKB then bwNumber (dropSuffix s 2) KB s
  else .err

/-- `BandwidthQuantity.UnmarshalString` / `NewBandwidthQuantity` -/
def parseBW (s : Str) : BW := parseBWTrimmed (trim s)

/-! ## facts -/

theorem dropWhile_self_of_head {p : Nat → Bool} : ∀ {l : List Nat},
    (∀ c, l.head? = some c → p c = false) → l.dropWhile p = l
  | [], _ => rfl
  | c :: cs, h => by
    have := h c rfl
    simp [List.dropWhile, this]

theorem head_dropWhile {p : Nat → Bool} : ∀ (l : List Nat) c, (l.dropWhile p).head? = some c → p c = false
  | [], c, h => by simp at h
  | a :: as, c, h => by
    simp only [List.dropWhile] at h
    split at h
    · exact head_dropWhile as c h
    · simp only [List.head?_cons, Option.some.injEq] at h
      subst h
      simp_all

theorem dropWhile_idem (p : Nat → Bool) (l : List Nat) : (l.dropWhile p).dropWhile p = l.dropWhile p :=
  dropWhile_self_of_head (head_dropWhile l)

end ConfNum
end Frp
