import Frp.Model.Str
import Frp.Gen.KeyFacts
/-
  The client half of "re-login with the run id it was given" (property C12)
    client/service.go  Service.login()               Login.RunID = svr.runID;  svr.runID = loginRespMsg.RunID
                       Service.loopLoginUntilSuccess  SessionContext.RunID = svr.runID (→ NewWorkConn.RunID)
  and the key every table operation of a proxy registration uses on the server
    server/control.go  RegisterProxy / CloseProxy / worker;  pkg/config/load.go NewProxyConfigurerFromMsg;
    pkg/config/v1/proxy.go ProxyBaseConfig.Complete;  server/proxy/proxy.go NewProxy / BaseProxy.GetName

  Both are straight-line code; the models are parametrised by the facts the translator reads from the source
  (`Frp/Gen/KeyFacts.lean`), so that a reordered statement or another key expression is a broken obligation.
-/
namespace Frp
namespace ClientLogin

/-- how a login attempt ends, seen from `login()` -/
inductive Resp
  | ioErr                   -- dial / write / read error, unreadable answer: `login` returns before there is a LoginResp
  | refused (rid : Str)     -- LoginResp.Error ≠ "" (rid = LoginResp.RunID; frps sends none)
  | accepted (rid : Str)    -- LoginResp.Error = ""
deriving DecidableEq, Repr

/-- `Service.runID` -/
structure Cl where
  runID : Str := []
deriving DecidableEq, Repr

/-- `loginMsg.RunID` of the next login -/
def presents (c : Cl) : Str := c.runID

/-- the effect of the answer on `svr.runID`.  `early` = the assignment `svr.runID = loginRespMsg.RunID` stands
    before the `if loginRespMsg.Error != "" { … return }` check (it does not: `KeyFacts.runIDAssignAfterErrCheck`) -/
def onResp (early : Bool) (c : Cl) : Resp → Cl
  | .ioErr => c
  | .refused rid => if early then { runID := rid } else c
  | .accepted rid => { runID := rid }

/-- the run ids of the logins of a history: login i is answered by `rs[i]`; the last element is the login
    that follows the last answer -/
def sent (early : Bool) : Cl → List Resp → List Str
  | c, [] => [presents c]
  | c, r :: rs => presents c :: sent early (onResp early c r) rs

/-- the run id the server side assigned last (`cur` before the history) -/
def lastAssigned : Str → List Resp → Str
  | cur, [] => cur
  | _, .accepted rid :: rs => lastAssigned rid rs
  | cur, _ :: rs => lastAssigned cur rs

/-- the run id of the work connections of the session an accepted login starts (`SessionContext.RunID`) -/
def workRunID (early : Bool) (c : Cl) (r : Resp) : Str := (onResp early c r).runID

/-- where the source puts the assignment (regenerated facts: the assignment is a top-level statement of `login()`
    after the top-level `if loginRespMsg.Error != "" { … return }`), as the model's parameter -/
def srcEarly : Bool := !(Gen.KeyFacts.runIDAssignAfterErrCheck && Gen.KeyFacts.errCheckReturns)

/-- the executable predicate the driver evaluates on the run id the real frpc presented: it is the id the server
    side assigned last (`lastAssigned` of the answers so far) -/
def presentsOK (assigned presented : Str) : Bool := presented == assigned

end ClientLogin

namespace NameKey

/-- `ProxyBaseConfig.Complete(namePrefix)`: `c.Name = lo.Ternary(namePrefix == "", "", namePrefix+".") + c.Name` -/
def complete (pfx name : Str) : Str := (if pfx = [] then [] else pfx ++ [46]) ++ name

/-- the name of the proxy object frps builds for a NewProxy message: `UnmarshalFromMsg` (`c.Name = m.ProxyName`),
    `Complete("")`, `NewProxy` (`name: configurer.GetBaseConfig().Name`), `GetName` (`return pxy.name`) -/
def serverName (raw : Str) : Str := complete [] raw

/-- the two expressions that key table operations in server/control.go -/
inductive KeyExpr
  | msgName     -- pxyMsg.ProxyName / closeMsg.ProxyName: the name as the client sent it
  | pxyName     -- pxy.GetName()
deriving DecidableEq, Repr

def key (e : KeyExpr) (raw : Str) : Str :=
  match e with
  | .msgName => raw
  | .pxyName => serverName raw

def classify (src : String) : Option KeyExpr :=
  if src = "pxyMsg.ProxyName" || src = "closeMsg.ProxyName" then some .msgName
  else if src = "pxy.GetName()" then some .pxyName
  else none

end NameKey
end Frp
