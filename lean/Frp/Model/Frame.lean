import Frp.Model.Str
/-
  Control-protocol framing, as implemented by the vendored module
  github.com/fatedier/golib@v0.5.1/msg/json (pack.go, process.go, msg.go), which frp uses through
  pkg/msg/ctl.go (`msg.ReadMsg`, `msg.ReadMsgInto`, `msg.WriteMsg`); `ReadMsg` adds one check of its own
  (see `readMsg` below).

  Bytes are `Nat`s (< 256 for real inputs; the theorems that need it say so), byte strings are
  `Frp.Str = List Nat`.  The JSON text of a body (encoding/json) is NOT modelled: it is trusted.
  Whether encoding/json accepts a body is an oracle bit supplied by the implementation's own run.
-/
namespace Frp
namespace Frame

/-- `defaultMaxMsgLength` (golib msg/json/msg.go); frp never calls `SetMaxMsgLength`. -/
def maxLen : Nat := 10240

/-- `binary.Write(buffer, binary.BigEndian, int64(n))` for `0 ≤ n` (pack.go `Pack`): 8 bytes, most
    significant first. -/
def be64 (n : Nat) : Str :=
  [ n / 72057594037927936 % 256, n / 281474976710656 % 256, n / 1099511627776 % 256,
    n / 4294967296 % 256, n / 16777216 % 256, n / 65536 % 256, n / 256 % 256, n % 256 ]

/-- the unsigned value of big-endian bytes (`binary.BigEndian.Uint64`) -/
def unbe64 (bs : Str) : Nat := bs.foldl (fun a b => a * 256 + b) 0

/-- reinterpretation `int64(uint64)` done by `binary.Read(c, binary.BigEndian, &length)` with
    `var length int64` (process.go `readMsg`): two's complement. -/
def toInt64 (u : Nat) : Int := if u < 9223372036854775808 then (u : Int) else (u : Int) - 18446744073709551616

/-- pack.go `Pack`: type byte, `int64(len(content))` big-endian, content. -/
def encode (t : Nat) (body : Str) : Str := t :: (be64 body.length ++ body)

/-- error values of process.go + the two io errors `readMsg` can return -/
inductive Err
  | eof             -- io.EOF: nothing to read where a read started (first byte / header / body)
  | unexpectedEOF   -- io.ErrUnexpectedEOF: header or body ended in the middle (io.ReadFull)
  | msgType         -- ErrMsgType: type byte not registered
  | maxLen          -- ErrMaxMsgLength: length > maxMsgLength
  | negLen          -- ErrMsgLength: length < 0
  deriving DecidableEq, Repr

inductive Res
  | ok (t : Nat) (body rest : Str)
  | err (e : Err)
  deriving DecidableEq, Repr

/-- what `readMsg` did: result, bytes taken from the reader, size of the body buffer it allocated
    (`make([]byte, length)`; 0 when that line is not reached).  Fixed allocations besides it: the
    1-byte type buffer and the 8 bytes of `binary.Read`. -/
structure Out where
  res : Res
  consumed : Nat
  bodyAlloc : Nat
  deriving DecidableEq, Repr

/-- process.go `readMsg`, statement by statement, on a reader that holds exactly `inp` and then
    reports EOF.

    ```
    buffer = make([]byte, 1); _, err = c.Read(buffer); if err != nil { return }       -- (1)
    typeByte = buffer[0]; if _, ok := typeMap[typeByte]; !ok { err = ErrMsgType }      -- (2)
    var length int64; err = binary.Read(c, BigEndian, &length); if err != nil {return} -- (3)
    if length > maxMsgLength { ErrMaxMsgLength } else if length < 0 { ErrMsgLength }   -- (4)
    buffer = make([]byte, length); n, err := io.ReadFull(c, buffer); if err != nil     -- (5)
    ```
    `io.ReadFull` gives `io.EOF` when it got no byte at all and `io.ErrUnexpectedEOF` when it got
    some but not all; with a zero-length buffer it succeeds without reading. -/
def decodeFull (max : Nat) (known : Nat → Bool) (inp : Str) : Out :=
  match inp with
  | [] => ⟨.err .eof, 0, 0⟩                                                            -- (1)
  | t :: r1 =>
    if !known t then ⟨.err .msgType, 1, 0⟩                                             -- (2)
    else if r1.length < 8 then                                                         -- (3)
      ⟨.err (if r1.isEmpty then .eof else .unexpectedEOF), 1 + r1.length, 0⟩
    else
      let length := toInt64 (unbe64 (r1.take 8))
      let r2 := r1.drop 8
      if length > (max : Int) then ⟨.err .maxLen, 9, 0⟩                                -- (4)
      else if length < 0 then ⟨.err .negLen, 9, 0⟩
      else
        let n := length.toNat
        if r2.length < n then                                                          -- (5)
          ⟨.err (if r2.isEmpty then .eof else .unexpectedEOF), 9 + r2.length, n⟩
        else ⟨.ok t (r2.take n) (r2.drop n), 9 + n, n⟩

def decode (max : Nat) (known : Nat → Bool) (inp : Str) : Res := (decodeFull max known inp).res

/-! ### message level (pack.go `unpack`, process.go `ReadMsg`) -/

/-- JSON insignificant whitespace (encoding/json scanner `isSpace`) -/
def isWs (b : Nat) : Bool := b == 32 || b == 9 || b == 13 || b == 10

def trimWs (s : Str) : Str := ((s.dropWhile isWs).reverse.dropWhile isWs).reverse

/-- the body is the JSON literal `null` (possibly surrounded by whitespace) -/
def isNullLit (body : Str) : Bool := trimWs body == [110, 117, 108, 108]

/-- what `ReadMsg` hands to its caller -/
inductive Msg
  | msg (structName : String)   -- `*T` for the registered struct `T`, err == nil
  | nilMsg                      -- msg == nil AND err == nil
  | errFrame (e : Err)
  | errJson                     -- body-level error: from json.Unmarshal, or pkg/msg `ErrInvalidBody`
  deriving DecidableEq, Repr

/-- golib process.go `ReadMsg` = `readMsg` then pack.go `unpack(typeByte, buffer, nil)`:
    `msg = reflect.New(t).Interface(); err = json.Unmarshal(buffer, &msg)`.
    `jsonOk` is encoding/json's verdict on the body for that struct (trusted, supplied by the run).
    `&msg` is a pointer to an *interface* holding `*T`: for the JSON literal `null` encoding/json
    (decode.go `indirect` with `decodingNull`) stops at the interface and sets it to nil, so the
    caller receives `(nil, nil)` — no message and no error.  Mirrored as it is (the vendored
    dependency is unchanged). -/
def readMsgGolib (max : Nat) (known : Nat → Bool) (structOf : Nat → Option String)
    (jsonOk : Bool) (inp : Str) : Msg × Nat × Nat :=
  let o := decodeFull max known inp
  match o.res with
  | .err e => (.errFrame e, o.consumed, o.bodyAlloc)
  | .ok t body _ =>
    if !jsonOk then (.errJson, o.consumed, o.bodyAlloc)
    else if isNullLit body then (.nilMsg, o.consumed, o.bodyAlloc)
    else match structOf t with
      | some s => (.msg s, o.consumed, o.bodyAlloc)
      | none => (.errFrame .msgType, o.consumed, o.bodyAlloc)   -- unreachable when known = structOf.isSome

/-- frp pkg/msg/ctl.go `ReadMsg` (after the repair of finding C17-null-body):
    ```
    msg, err = msgCtl.ReadMsg(c)
    if err == nil && msg == nil { err = ErrInvalidBody }
    ```
    "no message and no error" is turned into a body-level error; everything else passes through. -/
def readMsg (max : Nat) (known : Nat → Bool) (structOf : Nat → Option String)
    (jsonOk : Bool) (inp : Str) : Msg × Nat × Nat :=
  match readMsgGolib max known structOf jsonOk inp with
  | (.nilMsg, c, a) => (.errJson, c, a)
  | r => r

end Frame
end Frp
