import Frp.Model.Str
/-
  Line protocol shared by all driver engines.
  A trace line is `op tok … => implResult`.  An engine consumes the tokens and the implementation's
  result and answers with a `Verdict`.
-/
namespace Frp
namespace Proto

def hexVal (c : Char) : Option Nat :=
  if '0' ≤ c ∧ c ≤ '9' then some (c.toNat - 48)
  else if 'a' ≤ c ∧ c ≤ 'f' then some (c.toNat - 87)
  else if 'A' ≤ c ∧ c ≤ 'F' then some (c.toNat - 55)
  else none

def unhexAux : List Char → Option (List Nat)
  | [] => some []
  | a :: b :: rest => do
    let x ← hexVal a
    let y ← hexVal b
    let r ← unhexAux rest
    pure ((x * 16 + y) :: r)
  | _ => none

/-- decode a `"x"+hex` token -/
def unhx (t : String) : Option Str :=
  match t.toList with
  | 'x' :: rest => unhexAux rest
  | _ => none

def hexDigit (n : Nat) : Char := if n < 10 then Char.ofNat (48 + n) else Char.ofNat (87 + n)

def hx (s : Str) : String :=
  String.ofList ('x' :: s.flatMap (fun b => [hexDigit (b / 16), hexDigit (b % 16)]))

/-- what the driver says about one trace line -/
inductive Verdict
  | agree                                   -- model result = implementation result
  | skip (why : String)                     -- outside the model's stated domain; counted, not compared
  | diff (model : String) (propHolds : Option Bool)
      -- behaviour differs; `propHolds` = the property predicate evaluated on the implementation's
      -- result (none = the predicate does not speak about this op)
  | bad (why : String)                      -- malformed line

def Verdict.render : Verdict → String
  | .agree => "ok"
  | .skip w => s!"skip {w}"
  | .diff m (some true) => s!"DIFF model={m} prop=holds"
  | .diff m (some false) => s!"DIFF model={m} prop=FAILS"
  | .diff m none => s!"DIFF model={m} prop=na"
  | .bad w => s!"BAD {w}"

/-- compare and classify -/
def verdictOf (model impl : String) (propHolds : Option Bool := none) : Verdict :=
  if model = impl then
    (match propHolds with
     | some false => .diff model (some false)   -- both agree and the property fails on it
     | _ => .agree)
  else .diff model propHolds

structure Engine where
  State : Type
  init : State
  step : State → List String → String → State × Verdict

end Proto
end Frp
