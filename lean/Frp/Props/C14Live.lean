import Frp.Model.SessLive
import Frp.Model.HbConf
import Frp.Props.C14Heal
import Frp.Gen.SessFacts
/-
  C14, parts I and J (imported by Frp/Props/C14.lean).

  Part I: a dead session is torn down WITH LIVE TRAFFIC -- the teardown of `worker()` neither waits for nor depends on
          the user connections that are being served through the session's proxies when the peer falls silent or
          the connection is cut (Frp/Model/SessLive.lean over Frp/Model/SessEnd.lean); were `pxy.Close()` to wait for
          the connection handlers, one idle user connection bridged to a silent peer keeps the name, the port and the
          session for ever.
  Part J: the timeout a watchdog applies is the timeout WRITTEN in the configuration: `Complete` only fills in what is
          not written (Frp/Model/HbConf.lean; the statements of the two Complete methods are read from the source).
-/
namespace Frp
namespace C14

section PartI
open SessLive

/-! ## Part I — teardown with live user connections (server/proxy/proxy.go, server/control.go) -/

theorem step_closeWaits (s : St) (l : Lbl) : (step s l).closeWaits = s.closeWaits := by
  cases l with
  | base b => cases b <;> simp only [step] <;> (try split) <;> rfl
  | userConn p => simp only [step]; split <;> rfl
  | userEnd i => rfl

/-- **Nothing the session does ends a user connection**: every step of the peer, the read loop, the handler, the
    watchdog and `worker()` -- the teardown included -- leaves the connections being served as they are. -/
theorem base_step_live (s : St) (l : SessEnd.Lbl) : (step s (.base l)).live = s.live := by
  cases l <;> simp only [step] <;> (try split) <;> rfl

theorem step_base_refines (s : St) (h : s.closeWaits = false) (l : SessEnd.Lbl) :
    (step s (.base l)).base = SessEnd.step s.base l := by
  cases l <;> simp only [step, walkBlocked, h, Bool.false_and, Bool.and_false, Bool.false_eq_true, if_false]

theorem step_user_base (s : St) (l : Lbl) (h : ∀ b, l ≠ .base b) : (step s l).base = s.base := by
  cases l with
  | base b => exact absurd rfl (h b)
  | userConn p => simp only [step]; split <;> rfl
  | userEnd i => rfl

/-- **Without a wait in `Close`, live traffic is invisible to the teardown**: for every schedule of the session and
    of its users (connecting, staying, leaving, in any order) the session part of the state is the one the
    session-end model reaches on the session's own steps. -/
theorem live_refines : ∀ (ls : List Lbl) (s : St), s.closeWaits = false →
    (run s ls).base = SessEnd.run s.base (lower ls) := by
  intro ls
  induction ls with
  | nil => intro s _; rfl
  | cons l ls ih =>
    intro s h
    have h' : (step s l).closeWaits = false := by rw [step_closeWaits]; exact h
    cases l with
    | base b =>
      simp only [run, lower, SessEnd.run]
      rw [ih _ h', step_base_refines s h b]
    | userConn p =>
      simp only [run, lower]
      rw [ih _ h', step_user_base s _ (by intro b hb; cases hb)]
    | userEnd i =>
      simp only [run, lower]
      rw [ih _ h', step_user_base s _ (by intro b hb; cases hb)]

/-- **A torn-down session holds nothing, whatever traffic it carried.**  For every interleaving of the peer, the read
    loop, the NewProxy handler, the watchdog, `worker()` AND users connecting to / staying on / leaving the session's
    remote ports: once `worker()` has walked `ctl.proxies`, no remote port and no proxy name of the session is left. -/
theorem live_teardown_releases (ls : List Lbl) :
    (run (SessLive.init false false) ls).base.torn = true →
      SessEnd.Released (run (SessLive.init false false) ls).base := by
  rw [live_refines ls _ rfl]
  exact teardown_releases (lower ls)

theorem lower_map_base (bs : List SessEnd.Lbl) : lower (bs.map Lbl.base) = bs := by
  induction bs with
  | nil => rfl
  | cons b bs ih => simp only [List.map, lower, ih]

theorem run_base_live : ∀ (bs : List SessEnd.Lbl) (s : St), (run s (bs.map Lbl.base)).live = s.live := by
  intro bs
  induction bs with
  | nil => intro s; rfl
  | cons b bs ih => intro s; simp only [List.map, run]; rw [ih, base_step_live]

theorem noUserEnd_map_base (bs : List SessEnd.Lbl) : noUserEnd (bs.map Lbl.base) = true := by
  induction bs with
  | nil => rfl
  | cons b bs ih => simp only [List.map, noUserEnd, ih]

/-- **The teardown does not depend on user connections ending.**  From every reachable state of a session whose
    connection has ended (silence + watchdog, or a cut), with ANY number of user connections still bridged to work
    connections the silent peer keeps open, the session's own goroutines reach the end of `worker()` in at most
    4 + 2 steps; the schedule contains no end of a user connection, every user connection is still there afterwards,
    and nothing of the session is held. -/
theorem teardown_reached_live (s : St) (hw : s.closeWaits = false) (h : SInv s.base)
    (hc : s.base.connOpen = false) :
    let fin := (finish s.base.reader).map Lbl.base
    (run s fin).base.torn = true ∧ SessEnd.Released (run s fin).base ∧ (run s fin).live = s.live ∧
      noUserEnd fin = true ∧ fin.length ≤ 6 := by
  intro fin
  have hb : (run s fin).base = SessEnd.run s.base (finish s.base.reader) := by
    show (run s ((finish s.base.reader).map Lbl.base)).base = _
    rw [live_refines _ s hw, lower_map_base]
  have ht := teardown_reached s.base h hc
  refine ⟨by rw [hb]; exact ht.1, by rw [hb]; exact ht.2.1, run_base_live _ s, noUserEnd_map_base _, ?_⟩
  show ((finish s.base.reader).map Lbl.base).length ≤ 6
  rw [List.length_map]; exact ht.2.2

/-! ### a `Close` that waits for the connection handlers -/

/-- the walk of `worker()` is about to start (the read loop has exited), `p` is a registered proxy of the session
    with a user connection inside `libio.Join`, and `pxy.Close()` waits for the handlers -/
structure Stuck (s : St) (p : Nat) : Prop where
  waits : s.closeWaits = true
  done : s.base.dispDone = true
  exited : s.base.reader = .exited
  notTorn : s.base.torn = false
  liveOn : p ∈ s.live
  inCtl : p ∈ s.base.res.ctlPx
  inMgr : p ∈ s.base.res.mgr

theorem adv_keeps (t : SessEnd.Res) (r : SessEnd.Reg) (f : Bool) (p : Nat) :
    (p ∈ t.ctlPx → p ∈ (SessEnd.adv t r f).1.ctlPx) ∧ (p ∈ t.mgr → p ∈ (SessEnd.adv t r f).1.mgr) := by
  obtain ⟨n, ph⟩ := r
  cases ph <;> simp only [SessEnd.adv] <;> (try split) <;> (try split) <;>
    simp_all [List.mem_cons]

theorem stuck_blocked (s : St) (p : Nat) (h : Stuck s p) : walkBlocked s = true := by
  simp only [walkBlocked, h.waits, Bool.true_and, List.any_eq_true]
  exact ⟨p, h.liveOn, by simp [h.inCtl]⟩

/-- one step of anybody but a leaving user keeps the walk stuck -/
theorem stuck_step (s : St) (p : Nat) (h : Stuck s p) (l : Lbl) (hl : ∀ i, l ≠ .userEnd i) : Stuck (step s l) p := by
  cases l with
  | userEnd i => exact absurd rfl (hl i)
  | userConn q =>
    simp only [step]
    split
    · exact ⟨h.waits, h.done, h.exited, h.notTorn, List.mem_append_left _ h.liveOn, h.inCtl, h.inMgr⟩
    · exact h
  | base b =>
    cases b with
    | teardown =>
      have hb := stuck_blocked s p h
      have : step s (.base .teardown) = s := by
        simp only [step, h.done, h.notTorn, hb, Bool.not_false, Bool.and_self, if_true]
      rw [this]; exact h
    | send m =>
      simp only [step, SessEnd.step]
      split
      · exact ⟨h.waits, h.done, h.exited, h.notTorn, h.liveOn, h.inCtl, h.inMgr⟩
      · exact ⟨h.waits, h.done, h.exited, h.notTorn, h.liveOn, h.inCtl, h.inMgr⟩
    | cut => exact ⟨h.waits, h.done, h.exited, h.notTorn, h.liveOn, h.inCtl, h.inMgr⟩
    | read e =>
      have : SessEnd.step s.base (.read e) = s.base := by simp only [SessEnd.step, h.exited]
      simp only [step, this]
      exact ⟨h.waits, h.done, h.exited, h.notTorn, h.liveOn, h.inCtl, h.inMgr⟩
    | adv f =>
      have : SessEnd.step s.base (.adv f) = s.base := by simp only [SessEnd.step, h.exited]
      simp only [step, this]
      exact ⟨h.waits, h.done, h.exited, h.notTorn, h.liveOn, h.inCtl, h.inMgr⟩
    | advFly i f =>
      simp only [step, SessEnd.step]
      split
      · rename_i r _
        have hk := adv_keeps s.base.res r f p
        split <;> exact ⟨h.waits, h.done, h.exited, h.notTorn, h.liveOn, hk.1 h.inCtl, hk.2 h.inMgr⟩
      · exact ⟨h.waits, h.done, h.exited, h.notTorn, h.liveOn, h.inCtl, h.inMgr⟩

/-- **A `Close` that waits for its connection handlers never lets go of a silent peer's session.**  Once the walk is
    stuck at a proxy with a live user connection, EVERY schedule in which that user stays (and a silent peer never
    ends the connection from its side) leaves the session not torn down, the proxy's name taken and the session's
    bookkeeping in place -- for ever: every extension of such a schedule is such a schedule. -/
theorem close_waits_stuck : ∀ (ls : List Lbl) (s : St) (p : Nat), Stuck s p → noUserEnd ls = true →
    Stuck (run s ls) p ∧ (run s ls).base.torn = false ∧ ¬ SessEnd.Released (run s ls).base := by
  intro ls
  induction ls with
  | nil =>
    intro s p h _
    refine ⟨h, h.notTorn, ?_⟩
    intro hr
    have hm : s.base.res.mgr = [] := hr.2
    have := h.inMgr
    rw [hm] at this
    cases this
  | cons l ls ih =>
    intro s p h hn
    cases l with
    | userEnd i => simp [noUserEnd] at hn
    | userConn q => exact ih _ p (stuck_step s p h _ (by intro i hi; cases hi)) (by simpa [noUserEnd] using hn)
    | base b => exact ih _ p (stuck_step s p h _ (by intro i hi; cases hi)) (by simpa [noUserEnd] using hn)

/-- the schedule of the seeded scenario: a proxy is registered, a user connects and stays, the peer falls silent (the
    watchdog cuts the connection), the read fails, `worker()` tries to walk -- as often as one likes -/
def silentPeerWithUser : List Lbl :=
  [.base (.send (.newProxy 1)), .base (.read false), .base (.adv false), .base (.adv false), .base (.adv false),
   .base (.adv false), .userConn 1, .base .cut, .base (.read true), .base .teardown, .base .teardown, .base .teardown]

/-- **Witness (the stuck state is reachable).**  With a waiting `Close` the schedule above ends with the session not
    torn down, name and port still taken; with frp's `Close` the same schedule ends torn down with nothing held. -/
theorem close_waits_witness :
    let w := run (SessLive.init true false) silentPeerWithUser
    let ok := run (SessLive.init false false) silentPeerWithUser
    (w.base.torn = false ∧ w.base.res.mgr = [1] ∧ w.base.res.bound = [1] ∧ w.live = [1]) ∧
    (ok.base.torn = true ∧ ok.base.res.mgr = [] ∧ ok.base.res.bound = []) := by decide

/-- **Observation (frp as it is): the user connections of a dead session outlive it.**  Nothing in `worker()` /
    `Close()` ends a connection that is bridged to a work connection of a silent peer: after the teardown the user
    connection of the schedule above is still being served.  (The property's "all resources released" is stated and
    observed for the session's names, ports and table entries; see the assumptions.) -/
theorem live_conns_survive_witness :
    let ok := run (SessLive.init false false) silentPeerWithUser
    ok.base.torn = true ∧ ok.live = [1] := by decide

/-! ### tie to the source (translate/gen_sessfacts_live.go, regenerated on every run) -/

/-- some `Close` method of server/proxy/*.go, or `worker()` after `Done()`, contains a wait (channel receive, select,
    Wait / WaitClosed / Join / Sleep call, range over a channel other than the drained pool) -/
def codeCloseWaits : Bool :=
  Gen.SessFacts.proxyCloseWaits.any (fun x => !x.2.isEmpty) || !Gen.SessFacts.workerWaitsAfterDone.isEmpty ||
    !Gen.SessFacts.workerDrainsClosedPool

/-- in the source as it is: no `Close` of a server proxy and nothing in `worker()`'s walk waits; connection handlers
    are goroutines of their own -/
theorem code_close_no_wait :
    codeCloseWaits = false ∧ Gen.SessFacts.handlerSpawned = true ∧
      (Gen.SessFacts.proxyCloseWaits.lookup "BaseProxy") = some [] := by
  decide +kernel

/-- `live_teardown_releases` and `teardown_reached_live` for the `Close` found in the source -/
theorem live_teardown_releases_code (ls : List Lbl) :
    (run (SessLive.init codeCloseWaits codeAsync) ls).base.torn = true →
      SessEnd.Released (run (SessLive.init codeCloseWaits codeAsync) ls).base := by
  rw [code_close_no_wait.1, code_handlers_plain.1]
  exact live_teardown_releases ls

/-! ### non-vacuity -/

-- a session with two proxies, three users on them, a cut: torn down in the model with every user still connected
example :
    let s := run (SessLive.init false false)
      [.base (.send (.newProxy 1)), .base (.read false), .base (.adv false), .base (.adv false), .base (.adv false),
       .base (.adv false), .userConn 1, .userConn 1, .base (.send (.newProxy 2)), .base (.read false),
       .base (.adv false), .base (.adv false), .userConn 2, .base .cut]
    SInv s.base ∧ s.base.connOpen = false ∧ s.live = [1, 1, 2] ∧ s.base.res.bound = [2, 1] := by
  refine ⟨?_, by decide, by decide, by decide⟩
  rw [live_refines _ _ rfl]
  exact sinv_run _ _ sinv_init

-- `Stuck` is met by the state the witness schedule reaches before the walk
example : Stuck (run (SessLive.init true false) (silentPeerWithUser.take 9)) 1 := by
  refine ⟨by decide, by decide, by decide, by decide, by decide, by decide, by decide⟩

end PartI

section PartJ
open Watchdog HbConf

/-! ## Part J — the configured timeout is the written timeout (pkg/config/v1/client.go, server.go: Complete) -/

/-- **`Complete` never changes a written value**: a non-zero interval / timeout comes out as it went in, tcpMux or
    not; only what is not written is filled in. -/
theorem complete_keeps_written (mux : Bool) (i t : Int) :
    (i ≠ 0 → (clientComplete mux i t).1 = i) ∧ (t ≠ 0 → (clientComplete mux i t).2 = t) ∧
      (t ≠ 0 → serverComplete mux t = t) := by
  refine ⟨?_, ?_, ?_⟩ <;> intro h <;> cases mux <;> simp [clientComplete, serverComplete, h]

/-- **The client's watchdog is the one of the written values**: with a positive written interval and timeout the
    checker runs with exactly the written timeout, whatever tcpMux says. -/
theorem client_cfg_written (mux : Bool) (i t : Int) (u : Nat) (hi : 0 < i) (ht : 0 < t) :
    clientCfg (clientComplete mux i t).1 (clientComplete mux i t).2 u =
      { enabled := true, T := t.toNat * u, closeOnBad := true } := by
  have h := complete_keeps_written mux i t
  rw [h.1 (by omega), h.2.1 (by omega)]
  simp [clientCfg, hi, ht]

theorem server_cfg_written (mux : Bool) (t : Int) (u : Nat) (ht : 0 < t) :
    serverCfg (serverComplete mux t) u = { enabled := true, T := t.toNat * u, closeOnBad := false } := by
  rw [(complete_keeps_written mux 0 t).2.2 (by omega)]
  simp [serverCfg, ht]

/-- what the configuration promises (`clientPromise`: written value, else the documented default) is what the
    completed configuration makes the watchdog do -/
theorem promise_is_completed (mux : Bool) (i t : Int) (u : Nat) :
    let c := clientCfg (clientComplete mux i t).1 (clientComplete mux i t).2 u
    (clientPromise mux i t u = none ↔ c.enabled = false) ∧
      (∀ T, clientPromise mux i t u = some T → c.enabled = true ∧ c.T = T) := by
  cases mux <;> by_cases hi : i = 0 <;> by_cases ht : t = 0 <;>
    simp [clientPromise, clientComplete, clientCfg, hi, ht] <;> omega

theorem server_promise_is_completed (mux : Bool) (t : Int) (u : Nat) :
    let c := serverCfg (serverComplete mux t) u
    (serverPromise mux t u = none ↔ c.enabled = false) ∧
      (∀ T, serverPromise mux t u = some T → c.enabled = true ∧ c.T = T) := by
  cases mux <;> by_cases ht : t = 0 <;>
    simp [serverPromise, serverComplete, serverCfg, ht] <;> omega

/-- a written non-positive interval or timeout switches the client's check off (never a liveness close) -/
theorem written_nonpositive_disables (mux : Bool) (i t : Int) (u : Nat) (h : i < 0 ∨ t < 0) :
    (clientCfg (clientComplete mux i t).1 (clientComplete mux i t).2 u).enabled = false := by
  cases mux <;> by_cases hi : i = 0 <;> by_cases ht : t = 0 <;>
    simp [clientComplete, clientCfg, hi, ht] <;> omega

/-! ### tie to the source: the statements of the two Complete methods, interpreted -/

/-- **The hand-written `clientComplete` is what the extracted statements compute**, for every tcpMux, interval and
    timeout: each statement of (*ClientTransportConfig).Complete that touches a heartbeat field is an
    `x = util.EmptyOr(x, default)` under `if lo.FromPtr(c.TCPMux)` / its else -- nothing raises, lowers or couples the
    two values. -/
theorem code_client_complete (mux : Bool) (i t : Int) :
    interp Gen.SessFacts.clientHbAssigns mux (i, t) = some (clientComplete mux i t) := by
  cases mux <;> by_cases hi : i = 0 <;> by_cases ht : t = 0 <;>
    simp [Gen.SessFacts.clientHbAssigns, interp, applyAsg, guardOn, emptyOr, clientComplete, hi, ht]

theorem code_server_complete (mux : Bool) (t : Int) :
    interp Gen.SessFacts.serverHbAssigns mux (0, t) = some (0, serverComplete mux t) := by
  cases mux <;> by_cases ht : t = 0 <;>
    simp [Gen.SessFacts.serverHbAssigns, interp, applyAsg, guardOn, emptyOr, serverComplete, ht]

/-- nothing else in pkg/config, client, server, cmd writes the two fields, except the field-to-field copies of the
    legacy (ini) conversion -/
theorem code_hb_writers : Gen.SessFacts.hbWriters.all (fun w => w.2.2 == "copy") = true := by decide +kernel

/-- `complete_keeps_written` for the statements found in the source -/
theorem complete_keeps_written_code (mux : Bool) (i t : Int) (hi : 0 < i) (ht : 0 < t) :
    interp Gen.SessFacts.clientHbAssigns mux (i, t) = some (i, t) ∧
      interp Gen.SessFacts.serverHbAssigns mux (0, t) = some (0, t) := by
  have h := complete_keeps_written mux i t
  rw [code_client_complete, code_server_complete, (complete_keeps_written mux 0 t).2.2 (by omega)]
  refine ⟨?_, rfl⟩
  have h1 := h.1 (by omega)
  have h2 := h.2.1 (by omega)
  rw [show clientComplete mux i t = ((clientComplete mux i t).1, (clientComplete mux i t).2) from rfl, h1, h2]

/-- **A `Complete` that raises the timeout to two intervals breaks the promise** (the interpretation of such a
    statement list is not the model: the translator reports the statement as `other`, which has no interpretation) -/
theorem raised_timeout_uninterpreted :
    interp (Gen.SessFacts.clientHbAssigns ++
      [("HeartbeatTimeout", "if:c.HeartbeatTimeout < 2*c.HeartbeatInterval", "other:2 * c.HeartbeatInterval", 0)])
      false (2, 3) = none := by decide +kernel

/-! ### non-vacuity -/

example : clientPromise false 2 3 1000 = some 3000 ∧ clientPromise true 2 2 1000 = some 2000 ∧
    clientPromise true 0 0 1000 = none ∧ clientPromise false 0 0 1000 = some 90000 ∧
    clientPromise false 5 0 1000 = some 90000 ∧ clientPromise false (-1) 5 1000 = none ∧
    clientValid 3 2 = false ∧ clientValid 2 2 = true ∧ clientValid (-1) 2 = true := by decide

end PartJ

end C14
end Frp
