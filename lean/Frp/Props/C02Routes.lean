import Frp.Model.HttpRewrite
import Frp.Model.HttpGroup
import Frp.Model.HttpErr
import Frp.Gen.HttpFacts
/-
  C02, continued (imported by Frp/Props/C02.lean; same namespace).

  * section Group (Frp/Model/HttpGroup.lean): GROUPING IS TRANSPARENT TO EVERY ROUTE OPTION.  The route a
    load-balancing group registers is the first member's route with only the connection source replaced
    (`group_source_route`: Gen/HttpFacts.groupCarried, read from server/group/http.go, names every option field;
    `group_source_fields`: the field list of vhost.RouteConfig, read from pkg/util/vhost/vhost.go, is exactly
    the modelled options + the three connection functions + regID), hence for EVERY member route, request,
    credentials and answer the backend and the user observe through the group what they observe without it
    (`grouping_transparent`).  A route built field by field is transparent IFF it carries every option field
    (`group_route_by_eq_iff`); the one without RewriteHost loses a declared Host rewrite (`group_drops_rewrite_witness`).
  * section Err (Frp/Model/HttpErr.lean): THE ERROR ANSWER DOES NOT WAIT FOR THE REQUEST BODY.  The not-found sites
    of pkg/util/vhost/http.go do not touch req.Body (`err_source_no_body_read`, regenerated), so the answer is held
    back only by net/http's own post-handler read of at most 256 KiB + 1 bytes: it goes out at once for
    Expect: 100-continue and for ≥ 256 KiB of unread Content-Length body (`err_answer_at_once`; after a failed dial,
    where the Transport closes the body first: `err_dialled_answer_at_once`, `err_dialled_expect_waits_witness`), not later than the
    arrival of the first 256 KiB + 1 bytes whatever follows them and whether or not the body ever ends
    (`err_answer_bound_any_tail`), not later than the end of the body (`err_answer_by_end`).  A handler that drains
    the body first never answers an open stream and has no bound at all (`err_drain_open_stream_hangs`,
    `err_drain_unbounded`).
-/
namespace Frp
namespace C02

section Group
open HttpRewrite HttpGroup

theorem carry_of_mem {α : Type} {carried : List String} {f : String} (h : carried.contains f = true) (v z : α) :
    carry carried f v z = v := by
  unfold carry
  rw [if_pos h]

/-- a field-by-field route that carries every option field is the copy with the connection source replaced -/
theorem group_route_by_all (carried : List String) (h : ∀ f ∈ optionFields, carried.contains f = true)
    (g : Nat) (m : Route) : groupRouteBy carried g m = groupRoute g m := by
  have h1 := h "Domain" (by decide)
  have h2 := h "Location" (by decide)
  have h3 := h "RewriteHost" (by decide)
  have h4 := h "Username" (by decide)
  have h5 := h "Password" (by decide)
  have h6 := h "Headers" (by decide)
  have h7 := h "ResponseHeaders" (by decide)
  have h8 := h "RouteByHTTPUser" (by decide)
  obtain ⟨⟨d, l, u, rw, hs, rhs⟩, usr, pw, src⟩ := m
  simp [groupRouteBy, groupRoute, carry_of_mem h1, carry_of_mem h2, carry_of_mem h3, carry_of_mem h4,
    carry_of_mem h5, carry_of_mem h6, carry_of_mem h7, carry_of_mem h8]

/-- a member route with every option set to something -/
def fullMember : Route :=
  { rc := { domain := [1], location := [1], routeUser := [1], rewriteHost := [1], headers := [([1], [1])],
            respHeaders := [([1], [1])] }, httpUser := [1], httpPassword := [1], src := .own 0 }

theorem carry_ne_zero {α : Type} {carried : List String} {f : String} {v z : α} (hne : z ≠ v)
    (h : carry carried f v z = v) : carried.contains f = true := by
  unfold carry at h
  by_cases hc : carried.contains f = true
  · exact hc
  · rw [if_neg hc] at h; exact absurd h hne

/-- … and ONLY then: every option field matters -/
theorem group_route_by_eq_iff (carried : List String) (g : Nat) :
    (∀ m, groupRouteBy carried g m = groupRoute g m) ↔ ∀ f ∈ optionFields, carried.contains f = true := by
  constructor
  · intro h f hf
    have e := h fullMember
    have e1 : carry carried "Domain" ([1] : Str) [] = [1] := congrArg (·.rc.domain) e
    have e2 : carry carried "Location" ([1] : Str) [] = [1] := congrArg (·.rc.location) e
    have e3 : carry carried "RewriteHost" ([1] : Str) [] = [1] := congrArg (·.rc.rewriteHost) e
    have e4 : carry carried "Username" ([1] : Str) [] = [1] := congrArg (·.httpUser) e
    have e5 : carry carried "Password" ([1] : Str) [] = [1] := congrArg (·.httpPassword) e
    have e6 : carry carried "Headers" ([(([1] : Str), ([1] : Str))]) [] = [([1], [1])] := congrArg (·.rc.headers) e
    have e7 : carry carried "ResponseHeaders" ([(([1] : Str), ([1] : Str))]) [] = [([1], [1])] := congrArg (·.rc.respHeaders) e
    have e8 : carry carried "RouteByHTTPUser" ([1] : Str) [] = [1] := congrArg (·.rc.routeUser) e
    simp only [optionFields, List.mem_cons, List.not_mem_nil, or_false] at hf
    rcases hf with rfl | rfl | rfl | rfl | rfl | rfl | rfl | rfl
    · exact carry_ne_zero (by decide) e1
    · exact carry_ne_zero (by decide) e2
    · exact carry_ne_zero (by decide) e3
    · exact carry_ne_zero (by decide) e4
    · exact carry_ne_zero (by decide) e5
    · exact carry_ne_zero (by decide) e6
    · exact carry_ne_zero (by decide) e7
    · exact carry_ne_zero (by decide) e8
  · intro h m
    exact group_route_by_all carried h g m

/-- the field list of vhost.RouteConfig read from pkg/util/vhost/vhost.go is what the model contains: the eight
    options, the three connection functions, the registration id -/
theorem group_source_fields :
    Gen.HttpFacts.routeConfigFields = optionFields ++ connFields ++ ["regID"] := by decide

/-- server/group/http.go as read from the source: every option field is carried, only connection functions are
    replaced -/
theorem group_source_carries_all :
    (∀ f ∈ optionFields, Gen.HttpFacts.groupCarried.contains f = true) ∧
    (∀ f ∈ Gen.HttpFacts.groupReplaced, f ∈ connFields) := by decide

/-- so the route the source builds IS `groupRoute` -/
theorem group_source_route (g : Nat) (m : Route) :
    groupRouteBy Gen.HttpFacts.groupCarried g m = groupRoute g m :=
  group_route_by_all _ group_source_carries_all.1 g m

/-- GROUPING IS TRANSPARENT TO EVERY ROUTE OPTION: through the group's route (as the source builds it) the router
    key, the credentials check, what the backend receives and what the user receives are those of the member's own
    route — for all members, groups, requests, credentials, peers, answers -/
theorem grouping_transparent (g : Nat) (m : Route) (q : Req) (user pass ip : Str) (resp : Resp) :
    let gr := groupRouteBy Gen.HttpFacts.groupCarried g m
    (gr.rc.domain, gr.rc.location, gr.rc.routeUser) = (m.rc.domain, m.rc.location, m.rc.routeUser) ∧
    authOk gr user pass = authOk m user pass ∧
    exchange gr q user pass ip resp = exchange m q user pass ip resp := by
  simp only [group_source_route]
  exact ⟨rfl, rfl, rfl⟩

/-- what a later member of a group gets is what the first one got (members of one group carry the same options) -/
theorem grouping_member_independent (g : Nat) (m m' : Route) (h : m.rc = m'.rc ∧ m.httpUser = m'.httpUser ∧
    m.httpPassword = m'.httpPassword) (q : Req) (user pass ip : Str) (resp : Resp) :
    exchange (groupRouteBy Gen.HttpFacts.groupCarried g m) q user pass ip resp = exchange m' q user pass ip resp := by
  rw [(grouping_transparent g m q user pass ip resp).2.2]
  obtain ⟨rc, u, p, s⟩ := m
  obtain ⟨rc', u', p', s'⟩ := m'
  obtain ⟨h1, h2, h3⟩ := h
  simp only at h1 h2 h3
  subst h1 h2 h3
  rfl

def rwMember : Route :=
  { rc := { domain := Str.ofString "g.example.com", location := [], routeUser := [], rewriteHost := Str.ofString "internal.local",
            headers := [], respHeaders := [] }, httpUser := [], httpPassword := [], src := .own 1 }

def rwReq : Req :=
  { method := Str.ofString "GET", absForm := false, path := [47], query := none, host := Str.ofString "g.example.com",
    hdr := [], chunked := false, body := [] }

/-- a group route that lists every field except RewriteHost: the declared Host rewrite is lost, the backend gets
    the user's Host -/
theorem group_drops_rewrite_witness :
    let carried := ["Domain", "Location", "Username", "Password", "Headers", "ResponseHeaders", "RouteByHTTPUser"]
    (backendSees (some (groupRouteBy carried 0 rwMember).rc) rwReq none false).host = Str.ofString "g.example.com" ∧
    (backendSees (some rwMember.rc) rwReq none false).host = Str.ofString "internal.local" := by
  decide +kernel

/-- the predicate of the engine: the backend that answered is a member of the route's group (the proxy itself
    without a group), and the request / answer clauses hold for the options THE MEMBER DECLARES — evaluated by the
    engine with `reqHolds` / `respHolds` of Frp/Props/C02.lean (`reqOk`, `respOk`) -/
def groupHolds (members : List Nat) (be : Nat) (reqOk respOk : Bool) : Bool :=
  members.contains be && reqOk && respOk

theorem groupHolds_sound (members : List Nat) (be : Nat) (reqOk respOk : Bool) :
    groupHolds members be reqOk respOk = true ↔ (be ∈ members ∧ reqOk = true ∧ respOk = true) := by
  simp [groupHolds, and_assoc]

end Group

section Err
open HttpErr

theorem arrival_ge (need t : Nat) (ps : List (Nat × Nat)) (T : Nat) (h : arrival need t ps = some T) : t ≤ T := by
  induction ps generalizing need t with
  | nil =>
    cases need with
    | zero => simp [arrival] at h; omega
    | succ n => simp [arrival] at h
  | cons p ps ih =>
    obtain ⟨g, n⟩ := p
    cases need with
    | zero => simp [arrival] at h; omega
    | succ k =>
      simp only [arrival] at h
      have := ih _ _ h
      omega

theorem arrival_le_sum (need t : Nat) (ps : List (Nat × Nat)) (T : Nat) (h : arrival need t ps = some T) :
    T ≤ t + (ps.map (·.1)).sum := by
  induction ps generalizing need t with
  | nil =>
    cases need with
    | zero => simp [arrival] at h; omega
    | succ n => simp [arrival] at h
  | cons p ps ih =>
    obtain ⟨g, n⟩ := p
    cases need with
    | zero => simp [arrival] at h; simp; omega
    | succ k =>
      simp only [arrival] at h
      have := ih _ _ h
      simp only [List.map_cons, List.sum_cons]
      omega

/-- once the needed bytes have arrived nothing that follows matters -/
theorem arrival_append (need t : Nat) (ps tail : List (Nat × Nat)) (T : Nat) (h : arrival need t ps = some T) :
    arrival need t (ps ++ tail) = some T := by
  induction ps generalizing need t with
  | nil =>
    cases need with
    | zero => cases tail <;> simpa [arrival] using h
    | succ n => simp [arrival] at h
  | cons p ps ih =>
    obtain ⟨g, n⟩ := p
    cases need with
    | zero => simpa [arrival] using h
    | succ k =>
      simp only [arrival, List.cons_append] at h ⊢
      exact ih _ _ h

/-- the not-found sites of pkg/util/vhost/http.go as read from the source: there are some, none touches req.Body -/
theorem err_source_no_body_read :
    Gen.HttpFacts.notFoundSites ≠ [] ∧ Gen.HttpFacts.notFoundSites.all (fun s => !s.readsBody) = true := by decide

/-- so the handler of the source is `frpHandler` -/
theorem err_source_handler : ({ drains := Gen.HttpFacts.notFoundSites.any (·.readsBody) } : Handler) = frpHandler := by
  decide

/-- no route: Expect: 100-continue, or ≥ 256 KiB of an announced body still unread — the answer goes out at once,
    whatever the body does afterwards -/
theorem err_answer_at_once (t : Nat) (u : Upload)
    (h : u.expect100 = true ∨ (u.chunked = false ∧ postRead ≤ u.unread)) : answerAt frpHandler false t u = some t := by
  unfold answerAt frpHandler serverReply
  rcases h with h | ⟨h1, h2⟩
  · simp [h]
  · by_cases he : u.expect100 = true
    · simp [he]
    · simp [he, h1, h2]

/-- dial error: more than 256 KiB of an announced body still unread — at once, Expect or not -/
theorem err_dialled_answer_at_once (t : Nat) (u : Upload) (h : u.chunked = false ∧ postRead < u.unread) :
    answerAt frpHandler true t u = some t := by
  simp [answerAt, frpHandler, closeReply, h.1, h.2]

theorem omin_le_left (a : Nat) (o : Option Nat) : ∃ x, omin (some a) o = some x ∧ x ≤ a := by
  cases o with
  | none => exact ⟨a, rfl, Nat.le_refl _⟩
  | some b => exact ⟨min a b, rfl, Nat.min_le_left _ _⟩

theorem omin_le_right (o : Option Nat) (b : Nat) : ∃ x, omin o (some b) = some x ∧ x ≤ b := by
  cases o with
  | none => exact ⟨b, rfl, Nat.le_refl _⟩
  | some a => exact ⟨min a b, rfl, Nat.min_le_right _ _⟩

/-- once `need` bytes are there the wait is over, whatever follows and whether or not the body ever ends -/
theorem waitFor_bound_any_tail (need t : Nat) (u : Upload) (T : Nat) (h : arrival need t u.pieces = some T)
    (tail : List (Nat × Nat)) (e : Bool) :
    ∃ a, waitFor need t { u with pieces := u.pieces ++ tail, ends := e } = some a ∧ a ≤ T := by
  unfold waitFor
  simp only [arrival_append _ _ _ tail _ h]
  exact omin_le_left _ _

/-- THE BOUND DOES NOT DEPEND ON THE REST OF THE BODY: if the first pieces of the upload bring 256 KiB + 1 bytes
    (256 KiB after a failed dial) by time `T`, the answer is out by `T` — for every continuation of the upload and
    whether or not it ever ends.  (After a failed dial a user that waits for 100 Continue sends nothing: excluded.) -/
theorem err_answer_bound_any_tail (dialled : Bool) (t : Nat) (u : Upload) (T : Nat)
    (hx : dialled = true → u.expect100 = false)
    (h : arrival (if dialled then postRead else postRead + 1) t u.pieces = some T) (tail : List (Nat × Nat)) (e : Bool) :
    ∃ a, answerAt frpHandler dialled t { u with pieces := u.pieces ++ tail, ends := e } = some a ∧ a ≤ T := by
  have hT := arrival_ge _ _ _ _ h
  cases dialled with
  | true =>
    simp only [if_true] at h
    have hw := waitFor_bound_any_tail _ t u T h tail e
    unfold answerAt frpHandler closeReply
    simp only [Bool.false_eq_true, if_false, if_true, hx rfl]
    split
    · exact ⟨t, rfl, hT⟩
    · exact hw
  | false =>
    simp only [Bool.false_eq_true, if_false] at h
    have hw := waitFor_bound_any_tail _ t u T h tail e
    unfold answerAt frpHandler serverReply
    simp only [Bool.false_eq_true, if_false]
    split
    · exact ⟨t, rfl, hT⟩
    · split
      · exact ⟨t, rfl, hT⟩
      · exact hw

/-- a body that ends is never waited for beyond its end -/
theorem err_answer_by_end (dialled : Bool) (t : Nat) (u : Upload) (T : Nat) (hx : dialled = true → u.expect100 = false)
    (h : endTime t u = some T) : ∃ a, answerAt frpHandler dialled t u = some a ∧ a ≤ T := by
  have hT : t ≤ T := by
    unfold endTime at h
    by_cases he : u.ends = true
    · simp [he] at h; omega
    · simp [he] at h
  cases dialled with
  | true =>
    unfold answerAt frpHandler closeReply waitFor
    simp only [Bool.false_eq_true, if_false, if_true, hx rfl, h]
    split
    · exact ⟨t, rfl, hT⟩
    · exact omin_le_right _ _
  | false =>
    unfold answerAt frpHandler serverReply waitFor
    simp only [Bool.false_eq_true, if_false, h]
    split
    · exact ⟨t, rfl, hT⟩
    · split
      · exact ⟨t, rfl, hT⟩
      · exact omin_le_right _ _

/-- what net/http does to a user that insists on its 100 Continue when the dial fails: the Transport's close of the
    request body waits for bytes that user never sends (any real client sends them after its own expect timeout) -/
theorem err_dialled_expect_waits_witness :
    answerAt frpHandler true 0 { chunked := false, unread := 1000, expect100 := true, pieces := [], ends := false } = none := by
  decide

/-- a handler that reads the rest of the body before it answers never answers a stream that stays open … -/
theorem err_drain_open_stream_hangs (dialled : Bool) (t : Nat) (u : Upload) (h : u.ends = false) :
    answerAt { drains := true } dialled t u = none := by
  simp [answerAt, endTime, h]

/-- … and has no bound at all: for every `B` there is a complete upload whose first 256 KiB + 1 bytes are there at
    once, which frp answers at time 0 and the draining handler after `B` -/
theorem err_drain_unbounded (B : Nat) :
    ∃ u : Upload, answerAt frpHandler false 0 u = some 0 ∧ ∃ a, answerAt { drains := true } false 0 u = some a ∧ B < a := by
  refine ⟨{ chunked := true, unread := 0, expect100 := false, pieces := [(0, postRead + 1), (B + 1, 1)], ends := true }, ?_, B + 1, ?_, by omega⟩
  · simp [answerAt, frpHandler, serverReply, waitFor, arrival, endTime, omin]
  · simp [answerAt, endTime]

/-- the predicate of the engine on an error-path exchange (no backend answered): when the model says the answer
    comes (`ans ≠ none`) the user must hold it inside the engine's bound — status 404 with the page, or the
    connection ended (`cutOk`: only where a backend had been dialled and died) -/
def errHolds (ans : Option Nat) (answered : Bool) (st : Nat) (page cut cutOk : Bool) : Bool :=
  match ans with
  | none => true
  | some _ => (answered && st == 404 && page) || (cutOk && cut)

theorem errHolds_sound (a : Nat) (answered : Bool) (st : Nat) (page cut : Bool) :
    errHolds (some a) answered st page cut false = true ↔ (answered = true ∧ st = 404 ∧ page = true) := by
  simp [errHolds, and_assoc]

/-- every upload class the engine generates on the no-route path is answered at time 0 of the model: Expect,
    ≥ 256 KiB unread Content-Length, a stream that has delivered 256 KiB + 1 bytes and stays open, a complete body -/
theorem err_classes_answered (u : Upload)
    (h : u.expect100 = true ∨ (u.chunked = false ∧ postRead ≤ u.unread) ∨
         arrival (postRead + 1) 0 u.pieces = some 0 ∨ endTime 0 u = some 0) :
    answerAt frpHandler false 0 u = some 0 := by
  rcases h with h | h | h | h
  · exact err_answer_at_once 0 u (Or.inl h)
  · exact err_answer_at_once 0 u (Or.inr h)
  · have := err_answer_bound_any_tail false 0 u 0 (by intro h; cases h) h [] u.ends
    simp only [List.append_nil] at this
    obtain ⟨a, ha, hle⟩ := this
    have : a = 0 := by omega
    subst this
    exact ha
  · obtain ⟨a, ha, hle⟩ := err_answer_by_end false 0 u 0 (by intro h; cases h) h
    have : a = 0 := by omega
    subst this
    exact ha

end Err

end C02
end Frp
