import Frp.Props.C07Conn
import Frp.Model.HttpAuthHand
import Frp.Lemmas.Router
import Frp.Gen.CredFacts
/-
  C07, two further clauses (model: Frp/Model/HttpAuthHand.lean).

  (1) Hand-off in `Muxer.handle`: over EVERY history of listeners made and closed, connections arriving and
      waiting, owners accepting, a connection comes out of a listener only if that listener is the one its
      credentials were checked against, and — when the listener has a user name — only if it carried exactly
      that listener's user name and password.
  (2) http load-balancing groups: over EVERY history of joins and leaves, the credentials `CheckAuth` reads for
      a group's route, the group's own `username` / `password` and the httpUser / httpPassword every member is
      configured with are the same; so a request handed to member m carried m's OWN credentials.
-/
namespace Frp
namespace C07
open Str Router HttpAuth

/-! ### route tables whose payload numbers stay below a bound -/

def Bounded (R : Routers) (k : Nat) : Prop := ∀ d u r, r ∈ R d u → r.payload < k

theorem bounded_empty (k : Nat) : Bounded Router.empty k := by
  intro d u r h
  simp [Router.empty, Routers.bucket] at h

theorem bounded_mono {R : Routers} {k k' : Nat} (h : Bounded R k) (hk : k ≤ k') : Bounded R k' :=
  fun d u r hr => Nat.lt_of_lt_of_le (h d u r hr) hk

theorem bounded_add {R : Routers} {k : Nat} (h : Bounded R k) (domain location user : Str) :
    Bounded (add R domain location user k).1 (k + 1) := by
  unfold add
  simp only
  split
  · exact bounded_mono h (Nat.le_succ k)
  · intro d u r hr
    by_cases e : d = toLower domain ∧ u = user
    · obtain ⟨rfl, rfl⟩ := e
      rw [upd_same] at hr
      rw [mem_sortDesc, List.mem_append] at hr
      rcases hr with hr | hr
      · exact Nat.lt_succ_of_lt (h _ _ r hr)
      · simp only [List.mem_singleton] at hr
        subst hr
        exact Nat.lt_succ_self k
    · rw [upd_other _ _ _ _ _ _ e] at hr
      exact Nat.lt_succ_of_lt (h d u r hr)

theorem bounded_del {R : Routers} {k : Nat} (h : Bounded R k) (domain location user : Str) :
    Bounded (del R domain location user) k := by
  unfold del
  simp only
  intro d u r hr
  by_cases e : d = toLower domain ∧ u = user
  · obtain ⟨rfl, rfl⟩ := e
    rw [upd_same] at hr
    exact h _ _ r (List.mem_filter.mp hr).1
  · rw [upd_other _ _ _ _ _ _ e] at hr
    exact h d u r hr

theorem get_mem {R : Routers} {host path user : Str} {r : Route} (h : Router.get R host path user = some r) :
    r ∈ R (toLower host) user := by
  unfold Router.get at h
  exact List.mem_of_find?_eq_some h

theorem getVhost_mem {R : Routers} {host path user : Str} {r : Route} (h : getVhost R host path user = some r) :
    ∃ d u, r ∈ R d u := by
  unfold getVhost at h
  obtain ⟨d, _, hd⟩ := List.exists_of_findSome?_eq_some h
  unfold findRouter at hd
  split at hd
  · rename_i r' hg
    cases hd
    exact ⟨_, _, get_mem hg⟩
  · exact ⟨_, _, get_mem hd⟩

theorem credsOf_cons_ne (R : Routers) (cs : List (Nat × Creds)) (k n : Nat) (c : Creds) (h : n ≠ k) :
    Table.credsOf { R := R, creds := (k, c) :: cs } n = Table.credsOf { R := R, creds := cs } n := by
  have hb : (n == k) = false := by simpa using h
  simp [Table.credsOf, List.lookup_cons, hb]

theorem credsOf_R (R R' : Routers) (cs : List (Nat × Creds)) (n : Nat) :
    Table.credsOf { R := R, creds := cs } n = Table.credsOf { R := R', creds := cs } n := rfl

/-! ### (1) hand-off -/

/-- the CONNECT carried exactly the credentials `c` (or `c` has no user name: `handle` makes no check) -/
def CredsFor (c : Creds) (q : ConnectReq) : Prop := c.user ≠ [] → q.pauth = some (c.user, c.pass)

theorem muxHandle_lookup {T : Table} {q : ConnectReq} {n : Nat} (h : muxHandle T q = .accept n) :
    muxLookup T q = some n := by
  unfold muxHandle at h
  unfold muxLookup
  have fin : ∀ (u p : Str) (o : Option Route),
      (match o with
        | none => MuxResp.notFound
        | some r =>
          let c := T.credsOf r.payload
          if c.user ≠ [] then
            if c.user = u ∧ c.pass = p then MuxResp.accept r.payload else MuxResp.proxyAuthRequired
          else MuxResp.accept r.payload) = MuxResp.accept n →
      o.map (·.payload) = some n := by
    intro u p o ho
    cases o with
    | none => cases ho
    | some r =>
      simp only at ho
      split at ho
      · split at ho
        · injection ho with ho; simp [ho]
        · cases ho
      · injection ho with ho; simp [ho]
  cases hq : q.pauth with
  | none => rw [hq] at h; exact fin _ _ _ h
  | some x => rw [hq] at h; exact fin _ _ _ h

theorem muxLookup_bounded {T : Table} {q : ConnectReq} {n k : Nat} (hb : Bounded T.R k)
    (h : muxLookup T q = some n) : n < k := by
  unfold muxLookup at h
  simp only [Option.map_eq_some_iff] at h
  obtain ⟨r, hr, rfl⟩ := h
  obtain ⟨d, u, hm⟩ := getVhost_mem hr
  exact hb d u r hm

/-- invariant of every reachable muxer state (code as it is) -/
structure HoInv (S : HoState) : Prop where
  bounded : Bounded S.T.R S.next
  agree   : ∀ n l, S.ls.lookup n = some l → S.T.credsOf n = ⟨l.username, l.password⟩
  parked  : ∀ x ∈ S.parked, x.dst = x.chk ∧ x.dst < S.next ∧ CredsFor (S.T.credsOf x.dst) x.q
  deliv   : ∀ x ∈ S.delivered, x.dst = x.chk ∧ x.dst < S.next ∧ CredsFor (S.T.credsOf x.dst) x.q

theorem hoInv_empty : HoInv HoState.empty :=
  ⟨bounded_empty 0, fun n l h => by simp [HoState.empty] at h,
   fun x h => by simp [HoState.empty] at h, fun x h => by simp [HoState.empty] at h⟩

theorem hoListen_inv (S : HoState) (l : TmListener) (h : HoInv S) : HoInv (hoListen S l).1 := by
  unfold hoListen
  split
  · rename_i R' hadd
    have hb := bounded_add h.bounded l.name [] l.routeByHTTPUser
    rw [hadd] at hb
    have keep : ∀ x : HoConn, x.dst = x.chk ∧ x.dst < S.next ∧ CredsFor (S.T.credsOf x.dst) x.q →
        x.dst = x.chk ∧ x.dst < S.next + 1 ∧
          CredsFor (Table.credsOf { R := R', creds := (S.next, ⟨l.username, l.password⟩) :: S.T.creds } x.dst) x.q := by
      intro x ⟨h1, h2, h3⟩
      refine ⟨h1, Nat.lt_succ_of_lt h2, ?_⟩
      rw [credsOf_cons_ne _ _ _ _ _ (Nat.ne_of_lt h2)]
      exact h3
    refine ⟨hb, ?_, fun x hx => keep x (h.parked x hx), fun x hx => keep x (h.deliv x hx)⟩
    intro n l' hn
    simp only at hn ⊢
    by_cases e : n = S.next
    · subst e
      simp only [List.lookup_cons, beq_self_eq_true, Option.some.injEq] at hn
      subst hn
      simp [Table.credsOf]
    · have hbq : (n == S.next) = false := by simpa using e
      simp only [List.lookup_cons, hbq] at hn
      rw [credsOf_cons_ne _ _ _ _ _ e]
      exact h.agree n l' hn
  · exact h

theorem hoArrive_inv (S : HoState) (cid : Nat) (q : ConnectReq) (h : HoInv S) : HoInv (hoArrive S cid q).1 := by
  unfold hoArrive
  split
  · rename_i n hacc
    refine ⟨h.bounded, h.agree, ?_, h.deliv⟩
    intro x hx
    simp only [List.mem_append, List.mem_singleton] at hx
    rcases hx with hx | hx
    · exact h.parked x hx
    · subst hx
      refine ⟨rfl, muxLookup_bounded h.bounded (muxHandle_lookup hacc), ?_⟩
      intro hu
      exact muxHandle_sound S.T q n hacc hu
  · exact h

theorem hoClose_inv (S : HoState) (n : Nat) (h : HoInv S) : HoInv (hoClose false S n) := by
  unfold hoClose
  split
  · exact h
  · rename_i l hl
    split
    · exact h
    · simp only [Bool.false_eq_true, if_false, List.append_nil]
      refine ⟨bounded_del h.bounded _ _ _, h.agree, ?_, h.deliv⟩
      intro x hx
      exact h.parked x (List.mem_filter.mp hx).1

theorem hoAccept_inv (S : HoState) (n cid : Nat) (h : HoInv S) : HoInv (hoAccept S n cid) := by
  unfold hoAccept
  split
  · rename_i x hf
    refine ⟨h.bounded, h.agree, fun y hy => h.parked y (List.mem_filter.mp hy).1, ?_⟩
    intro y hy
    simp only [List.mem_append, List.mem_singleton] at hy
    rcases hy with hy | hy
    · exact h.deliv y hy
    · subst hy
      exact h.parked _ (List.mem_of_find?_eq_some hf)
  · exact h

theorem hoStep_inv (S : HoState) (op : HoOp) (h : HoInv S) : HoInv (hoStep false S op) := by
  cases op with
  | listen l => exact hoListen_inv S l h
  | close n => exact hoClose_inv S n h
  | arrive cid q => exact hoArrive_inv S cid q h
  | accept n cid => exact hoAccept_inv S n cid h

theorem hoInv_reach (ops : List HoOp) : HoInv (hoRun false ops) := by
  unfold hoRun
  suffices h : ∀ S, HoInv S → HoInv (ops.foldl (hoStep false) S) from h _ hoInv_empty
  induction ops with
  | nil => intro S hS; exact hS
  | cons op rest ih => intro S hS; exact ih _ (hoStep_inv S op hS)

/-- **one lookup, one check, one destination**: after any history, a connection that came out of a listener
    came out of the listener its credentials were checked against -/
theorem ho_delivered_same_listener (ops : List HoOp) :
    ∀ x ∈ (hoRun false ops).delivered, x.dst = x.chk :=
  fun x hx => ((hoInv_reach ops).deliv x hx).1

/-- **hand-off, end to end**: after any history of listeners made and closed (also while connections wait at
    them), connections arriving and owners accepting, a connection that came out of listener object `x.dst`,
    made by `Listen` from configuration `l` with a user name, carried exactly `l`'s user name and password -/
theorem ho_delivered_checked (ops : List HoOp) (x : HoConn) (l : TmListener)
    (hx : x ∈ (hoRun false ops).delivered) (hl : (hoRun false ops).ls.lookup x.dst = some l)
    (hu : l.username ≠ []) : x.q.pauth = some (l.username, l.password) := by
  have inv := hoInv_reach ops
  have hc := (inv.deliv x hx).2.2
  rw [inv.agree x.dst l hl] at hc
  exact hc hu

/-- a connection that still waits was checked against the listener it waits at -/
theorem ho_parked_checked (ops : List HoOp) (x : HoConn) (l : TmListener)
    (hx : x ∈ (hoRun false ops).parked) (hl : (hoRun false ops).ls.lookup x.dst = some l)
    (hu : l.username ≠ []) : x.q.pauth = some (l.username, l.password) := by
  have inv := hoInv_reach ops
  have hc := (inv.parked x hx).2.2
  rw [inv.agree x.dst l hl] at hc
  exact hc hu

/-- a failed hand-off ends the connection: closing a listener leaves nobody waiting at it -/
theorem hoClose_drops (S : HoState) (n : Nat) (l : TmListener) (hl : S.ls.lookup n = some l)
    (hc : S.closed.contains n = false) : ∀ x ∈ (hoClose false S n).parked, x.dst ≠ n := by
  unfold hoClose
  rw [hl]
  simp only [hc, Bool.false_eq_true, if_false, List.append_nil]
  intro x hx
  simpa using (List.mem_filter.mp hx).2

/-- non-vacuity and the excluded design: alice's user-routed listener (alice / pw1) and the unrestricted one
    on the same name (bob / pw2); a CONNECT with alice / pw1 waits at the first, which is closed -/
def hoA : TmListener := ⟨s "h.example.com", s "alice", s "alice", s "pw1"⟩
def hoB : TmListener := ⟨s "h.example.com", [], s "bob", s "pw2"⟩
def hoQ : ConnectReq := { host := s "h.example.com", pauth := some (s "alice", s "pw1") }
def hoOps : List HoOp := [.listen hoA, .listen hoB, .arrive 1 hoQ, .close 0, .accept 1 1]

/-- the code as it is: the connection is closed, listener 1 has nothing to accept -/
theorem ho_head_example :
    ((hoRun false (hoOps.take 3)).parked.map (fun x => (x.cid, x.dst))) = [(1, 0)] ∧
    (hoRun false hoOps).parked.isEmpty = true ∧ (hoRun false hoOps).delivered.isEmpty = true := by
  decide +kernel

/-- **witness for the second lookup**: a `handle` that looks the route up again after the failed send hands
    the connection checked against listener 0 (alice / pw1) to listener 1 (bob / pw2) -/
theorem ho_retry_witness :
    ((hoRun true hoOps).delivered.map (fun x => (x.cid, x.chk, x.dst, decide (x.q.pauth = some (hoB.username, hoB.password))))) =
      [(1, 0, 1, false)] := by
  decide +kernel

/-- executable predicate: a connection carrying `pauth` came out of a listener made from configuration `l` -/
def hoHoldsOn (l : TmListener) (pauth : Option (Str × Str)) : Bool :=
  decide (l.username ≠ [] → pauth = some (l.username, l.password))

theorem hoHoldsOn_sound (l : TmListener) (pauth : Option (Str × Str)) :
    hoHoldsOn l pauth = true ↔ (l.username ≠ [] → pauth = some (l.username, l.password)) := by
  simp only [hoHoldsOn, decide_eq_true_eq]

theorem model_hoHoldsOn (ops : List HoOp) (x : HoConn) (l : TmListener)
    (hx : x ∈ (hoRun false ops).delivered) (hl : (hoRun false ops).ls.lookup x.dst = some l) :
    hoHoldsOn l x.q.pauth = true :=
  (hoHoldsOn_sound _ _).mpr (ho_delivered_checked ops x l hx hl)

/-! ### (2) http load-balancing groups -/

/-- invariant of every reachable group table (joins compare credentials) -/
structure HgInv (S : HgState) : Prop where
  fresh   : ∀ g ∈ S.groups, g.routeId < S.next
  fields  : ∀ g ∈ S.groups, S.T.credsOf g.routeId = ⟨g.username, g.password⟩
  uniform : ∀ g ∈ S.groups, ∀ m ∈ g.members, m.creds = ⟨g.username, g.password⟩

theorem hgInv_empty : HgInv HgState.empty :=
  ⟨fun g h => by simp [HgState.empty] at h, fun g h => by simp [HgState.empty] at h,
   fun g h => by simp [HgState.empty] at h⟩

theorem mem_hgPut {gs : List HgGroup} {g x : HgGroup} (h : x ∈ hgPut gs g) : x = g ∨ x ∈ gs := by
  unfold hgPut at h
  simp only [List.mem_cons] at h
  rcases h with h | h
  · exact Or.inl h
  · exact Or.inr (List.mem_filter.mp h).1

theorem hgFind_mem {gs : List HgGroup} {name : Str} {g : HgGroup} (h : hgFind gs name = some g) : g ∈ gs :=
  List.mem_of_find?_eq_some h

theorem hgJoin_inv (S : HgState) (j : HgJoin) (h : HgInv S) : HgInv (hgJoin true S j).1 := by
  unfold hgJoin
  split
  · -- the first member: the route copy and the group's fields are written from the same configuration
    split
    · rename_i R' hadd
      refine ⟨?_, ?_, ?_⟩
      · intro g hg
        rcases mem_hgPut hg with rfl | hg
        · exact Nat.lt_succ_self _
        · exact Nat.lt_succ_of_lt (h.fresh g hg)
      · intro g hg
        rcases mem_hgPut hg with rfl | hg
        · simp [Table.credsOf]
        · simp only
          rw [credsOf_cons_ne _ _ _ _ _ (Nat.ne_of_lt (h.fresh g hg))]
          exact h.fields g hg
      · intro g hg m hm
        rcases mem_hgPut hg with rfl | hg
        · simp only [List.mem_singleton] at hm
          subst hm
          rfl
        · exact h.uniform g hg m hm
    · exact h
  · rename_i g hfind
    have hg := hgFind_mem hfind
    split
    · exact h
    · rename_i hcmp
      split
      · exact h
      · split
        · exact h
        · -- a joiner that passed the comparison is configured as the group is
          have hcr : g.username = j.user ∧ g.password = j.pass := by
            simp only [not_or, Decidable.not_not, true_and] at hcmp
            exact ⟨hcmp.2.2.2.1, hcmp.2.2.2.2⟩
          refine ⟨?_, ?_, ?_⟩
          · intro x hx
            rcases mem_hgPut hx with rfl | hx
            · exact h.fresh g hg
            · exact h.fresh x hx
          · intro x hx
            rcases mem_hgPut hx with rfl | hx
            · exact h.fields g hg
            · exact h.fields x hx
          · intro x hx m hm
            rcases mem_hgPut hx with rfl | hx
            · simp only [List.mem_append, List.mem_singleton] at hm
              rcases hm with hm | hm
              · exact h.uniform g hg m hm
              · subst hm
                simp [hcr.1, hcr.2]
            · exact h.uniform x hx m hm

theorem hgLeave_inv (S : HgState) (name : Str) (pid : Nat) (h : HgInv S) : HgInv (hgLeave S name pid) := by
  unfold hgLeave
  split
  · exact h
  · rename_i g hfind
    have hg := hgFind_mem hfind
    simp only
    split
    · exact ⟨fun x hx => h.fresh x (List.mem_filter.mp hx).1,
             fun x hx => h.fields x (List.mem_filter.mp hx).1,
             fun x hx => h.uniform x (List.mem_filter.mp hx).1⟩
    · refine ⟨?_, ?_, ?_⟩
      · intro x hx
        rcases mem_hgPut hx with rfl | hx
        · exact h.fresh g hg
        · exact h.fresh x hx
      · intro x hx
        rcases mem_hgPut hx with rfl | hx
        · exact h.fields g hg
        · exact h.fields x hx
      · intro x hx m hm
        rcases mem_hgPut hx with rfl | hx
        · exact h.uniform g hg m (List.mem_filter.mp hm).1
        · exact h.uniform x hx m hm

theorem hgStep_inv (S : HgState) (op : HgOp) (h : HgInv S) : HgInv (hgStep true S op) := by
  cases op with
  | join j => exact hgJoin_inv S j h
  | leave name pid => exact hgLeave_inv S name pid h

theorem hgInv_reach (ops : List HgOp) : HgInv (hgRun true ops) := by
  unfold hgRun
  suffices h : ∀ S, HgInv S → HgInv (ops.foldl (hgStep true) S) from h _ hgInv_empty
  induction ops with
  | nil => intro S hS; exact hS
  | cons op rest ih => intro S hS; exact ih _ (hgStep_inv S op hS)

/-- **the two copies agree**: in every reachable state the credentials of the route copy `CheckAuth` reads
    equal the group's own `username` / `password` -/
theorem hg_fields_agree (ops : List HgOp) :
    ∀ g ∈ (hgRun true ops).groups, (hgRun true ops).T.credsOf g.routeId = ⟨g.username, g.password⟩ :=
  (hgInv_reach ops).fields

/-- **CheckAuth's credentials = the member's own**: for every reachable group state and every member m of a
    group, the credentials checked for the group's route are the httpUser / httpPassword m is configured with -/
theorem hg_member_checked (ops : List HgOp) :
    ∀ g ∈ (hgRun true ops).groups, ∀ m ∈ g.members, (hgRun true ops).T.credsOf g.routeId = m.creds := by
  intro g hg m hm
  rw [(hgInv_reach ops).fields g hg, (hgInv_reach ops).uniform g hg m hm]

/-- **http groups, end to end**: after any history of joins and leaves, a request that `ServeHTTP` forwards
    along a group's route — to be handed to ANY member m of that group — carried exactly the user name and
    password m itself is configured with (or m is configured with none) -/
theorem hg_serve_sound (ops : List HgOp) (q : Req) (g : HgGroup) (m : HgMember)
    (h : serve (hgRun true ops).T q = .forward g.routeId) (hg : g ∈ (hgRun true ops).groups)
    (hm : m ∈ g.members) :
    (m.creds.user = [] ∧ m.creds.pass = []) ∨ q.auth = some (m.creds.user, m.creds.pass) := by
  have hs := serve_sound _ q _ h
  unfold CredsOK at hs
  simp only at hs
  rw [hg_member_checked ops g hg m hm] at hs
  exact hs

/-- non-vacuity and the excluded design: an unprotected proxy opens the group, a protected one joins -/
def hgJ (pid : Nat) (u p : String) : HgJoin :=
  { pid := pid, group := s "g", key := s "k", domain := s "p.example.com", location := [], routeUser := [],
    user := s u, pass := s p }

/-- the code as it is refuses the protected joiner (and serves the group without credentials: its only
    member has none) -/
theorem hg_head_example :
    (hgJoin true (hgRun true [.join (hgJ 1 "" "")]) (hgJ 2 "carol" "s3cret")).2 = .params ∧
    (hgJoin true (hgRun true [.join (hgJ 1 "carol" "s3cret")]) (hgJ 2 "carol" "s3cret")).2 = .ok := by
  decide +kernel

/-- **witness for joins that do not compare credentials**: the protected member is in the group, the route
    copy has no credentials -/
theorem hg_unchecked_witness :
    ((hgRun false [.join (hgJ 1 "" ""), .join (hgJ 2 "carol" "s3cret")]).groups.map
      (fun g => (g.members.map (fun m => (m.pid, decide (m.creds = ⟨g.username, g.password⟩))),
                 decide ((hgRun false [.join (hgJ 1 "" ""), .join (hgJ 2 "carol" "s3cret")]).T.credsOf g.routeId = ⟨[], []⟩)))) =
      [([(1, true), (2, false)], true)] := by
  decide +kernel

/-- executable predicate: a request with basic-auth pair `auth` was answered by the backend of a member
    configured with `own` -/
def hgHoldsOn (own : Creds) (auth : Option (Str × Str)) : Bool :=
  decide ((own.user = [] ∧ own.pass = []) ∨ auth = some (own.user, own.pass))

theorem hgHoldsOn_sound (own : Creds) (auth : Option (Str × Str)) :
    hgHoldsOn own auth = true ↔ ((own.user = [] ∧ own.pass = []) ∨ auth = some (own.user, own.pass)) := by
  simp only [hgHoldsOn, decide_eq_true_eq]

theorem model_hgHoldsOn (ops : List HgOp) (q : Req) (g : HgGroup) (m : HgMember)
    (h : serve (hgRun true ops).T q = .forward g.routeId) (hg : g ∈ (hgRun true ops).groups)
    (hm : m ∈ g.members) : hgHoldsOn m.creds q.auth = true :=
  (hgHoldsOn_sound _ _).mpr (hg_serve_sound ops q g m h hg hm)

/-! ### ties to the source (regenerated on every run by translate/gen_credfacts.go) -/

def increasing : List Nat → Bool
  | a :: b :: rest => a < b && increasing (b :: rest)
  | _ => true

/-- `Muxer.handle` as the model has it: exactly ONE call of `getListener`, bound to `l`, never reassigned; the only
    `checkAuth` call compares `l.username` / `l.password`, under the guard the model uses, and its failure branch
    returns; the only send on a listener's accept channel is on `l.accept`; they come in this order at the top
    level of the function; the branch after a failed send closes the connection -/
def handleCodeShape : Bool :=
  Gen.CredFacts.handleEvents.map (fun e => (e.1, e.2.1)) == [("lookup", "l"), ("check", "l"), ("send", "l")] &&
  increasing (Gen.CredFacts.handleEvents.map (·.2.2)) &&
  Gen.CredFacts.checkGuard == "l.mux.checkAuth != nil && l.username != \"\"" &&
  Gen.CredFacts.checkFail.getLast? == some "return" &&
  Gen.CredFacts.sendFail.contains "_ = c.Close()"

theorem handle_code_shape : handleCodeShape = true := by decide +kernel

/-- `HTTPGroup.Register` as the model has it: `g.username` / `g.password` are written in the first-member branch
    only, from `routeConfig.Username` / `.Password`; the route registered there is `&tmp` with `tmp := routeConfig`,
    whose `Username` / `Password` are not assigned afterwards (the route copy and the group's fields start equal and
    neither is written again); the join branch refuses (`ErrGroupParamsInvalid`) a `routeConfig` whose `Username` or
    `Password` differs from the group's -/
def groupCodeShape : Bool :=
  Gen.CredFacts.credWrites == [("first", "g.username", "routeConfig.Username"), ("first", "g.password", "routeConfig.Password")] &&
  Gen.CredFacts.routeAdds == [("first", "&tmp")] && Gen.CredFacts.tmpInit == "tmp := routeConfig" &&
  !Gen.CredFacts.tmpWrites.contains "Username" && !Gen.CredFacts.tmpWrites.contains "Password" &&
  Gen.CredFacts.joinCompares.contains ("g.username", "routeConfig.Username") &&
  Gen.CredFacts.joinCompares.contains ("g.password", "routeConfig.Password")

theorem group_code_shape : groupCodeShape = true := by decide +kernel

end C07
end Frp
