import Frp.Model.PoolEnd
/-
  C11, the end of the pool — "when a session ends ALL its pooled connections are closed; a work connection
  arriving for an ending session is closed, not parked".

  For EVERY program of the worker that meets the decidable condition `willDrain` (a blocking drain after the
  close), for ALL interleavings of RegisterWorkConn / GetWorkConn / other holders of ctl.mu / worker steps
  (`PoolEnd.Reach`): once the worker has finished, every connection ever offered is handed to a user connection
  or closed, the channel is closed and empty, and every later offer is closed.  The program of the frp source
  (regenerated: Frp/Gen/PoolFacts.lean) meets the condition (`source_program_drains`, `decide`): moving the drain
  before the lock / the close, dropping it, or making it non-blocking breaks that obligation.  For the program
  "non-blocking drain, lock, close, unlock" a kernel-checked schedule leaves a connection parked for ever.
-/
namespace Frp
namespace C11
namespace End
open PoolEnd
open Pool (Tbl)

theorem willDrain_lock (c : Bool) (tl : List WI) : willDrain c (.lock :: tl) = willDrain c tl := by
  cases c <;> rfl
theorem willDrain_unlock (c : Bool) (tl : List WI) : willDrain c (.unlock :: tl) = willDrain c tl := by
  cases c <;> rfl
theorem willDrain_nbDrain (tl : List WI) : willDrain false (.nbDrain :: tl) = willDrain false tl := rfl
theorem willDrain_nil (c : Bool) : willDrain c [] = false := by cases c <;> rfl

/-- the invariant -/
structure Inv (cfg : Cfg) (s : St) : Prop where
  pooledIn : ∀ c, s.c.get c = some .pooled → c ∈ s.buf
  drains : willDrain s.closed s.rest = true ∨ (s.closed = true ∧ s.buf = [])
  noLimbo : cfg.recoverErr = true → ∀ c, s.c.get c ≠ some .limbo

theorem inv_init (cfg : Cfg) (cap : Nat) (prog : List WI) (hp : willDrain false prog = true) :
    Inv cfg (init cap prog) := by
  refine ⟨?_, Or.inl hp, ?_⟩
  · intro c h; simp [init, Tbl.get] at h
  · intro _ c h; simp [init, Tbl.get] at h

/-- closing the head of the buffer (a drain round) or handing it out (a take) keeps the invariant -/
theorem inv_pop {cfg : Cfg} {s : St} {c : Nat} {r : List Nat} (v : C) (hv : v ≠ .pooled) (hl : v ≠ .limbo)
    (h : Inv cfg s) (hb : s.buf = c :: r) : Inv cfg { s with buf := r, c := s.c.set c v } := by
  refine ⟨?_, ?_, ?_⟩
  · intro c' hc'
    simp only [Tbl.get_set] at hc'
    by_cases e : c' = c
    · simp only [e, if_true, Option.some.injEq] at hc'; exact absurd hc' hv
    · simp only [e, if_false] at hc'
      have := h.pooledIn c' hc'
      rw [hb] at this
      cases this with
      | head => exact absurd rfl e
      | tail _ hm => exact hm
  · cases h.drains with
    | inl hw => exact Or.inl hw
    | inr hc => rw [hb] at hc; exact absurd hc.2 (by simp)
  · intro hr c' hc'
    simp only [Tbl.get_set] at hc'
    by_cases e : c' = c
    · simp only [e, if_true, Option.some.injEq] at hc'; exact absurd hc' hl
    · simp only [e, if_false] at hc'; exact h.noLimbo hr c' hc'

/-- a step that leaves channel, buffer and table alone and moves the worker over a step that `willDrain` skips -/
theorem inv_skip {cfg : Cfg} {s : St} {i : WI} {tl : List WI} (m : Mu) (h : Inv cfg s) (hr : s.rest = i :: tl)
    (hw : ∀ c, willDrain c (i :: tl) = willDrain c tl) : Inv cfg { s with mu := m, rest := tl } := by
  refine ⟨h.pooledIn, ?_, h.noLimbo⟩
  cases h.drains with
  | inl hd => rw [hr, hw] at hd; exact Or.inl hd
  | inr hc => exact Or.inr hc

theorem eq_false_of_ne_true' {b : Bool} (h : ¬ b = true) : b = false := by cases b <;> simp_all

theorem inv_step {cfg : Cfg} {s s' : St} {l : Label} {r : Res} (h : Inv cfg s)
    (hs : step cfg s l = some (s', r)) : Inv cfg s' := by
  -- a fresh connection set to a value that is neither pooled nor (with the recover) limbo
  have fresh : ∀ (c : Nat) (v : C), v ≠ .pooled → (cfg.recoverErr = true → v ≠ .limbo) →
      Inv cfg { s with c := s.c.set c v } := by
    intro c v hv hl
    refine ⟨?_, h.drains, ?_⟩
    · intro c' hc'
      simp only [Tbl.get_set] at hc'
      by_cases e : c' = c
      · simp only [e, if_true, Option.some.injEq] at hc'; exact absurd hc' hv
      · simp only [e, if_false] at hc'; exact h.pooledIn c' hc'
    · intro hr c' hc'
      simp only [Tbl.get_set] at hc'
      by_cases e : c' = c
      · simp only [e, if_true, Option.some.injEq] at hc'; exact absurd hc' (hl hr)
      · simp only [e, if_false] at hc'; exact h.noLimbo hr c' hc'
  cases l with
  | offer c =>
    simp only [step] at hs
    split at hs
    · cases hs
    · split at hs
      · split at hs
        · cases hs; exact fresh c .closed (by decide) (fun _ => by decide)
        · rename_i hre
          cases hs; exact fresh c .limbo (by decide) (fun x => absurd x hre)
      · rename_i hc
        have hc' := eq_false_of_ne_true' hc
        split at hs
        · cases hs
          refine ⟨?_, ?_, ?_⟩
          · intro c' hcc
            simp only [Tbl.get_set] at hcc
            by_cases e : c' = c
            · simp [e]
            · simp only [e, if_false] at hcc
              exact List.mem_append_left _ (h.pooledIn c' hcc)
          · cases h.drains with
            | inl hw => exact Or.inl hw
            | inr hx => rw [hc'] at hx; exact absurd hx.1 (by decide)
          · intro hr c' hcc
            simp only [Tbl.get_set] at hcc
            by_cases e : c' = c
            · simp only [e, if_true, Option.some.injEq] at hcc; exact absurd hcc (by decide)
            · simp only [e, if_false] at hcc; exact h.noLimbo hr c' hcc
        · cases hs; exact fresh c .closed (by decide) (fun _ => by decide)
  | take =>
    simp only [step] at hs
    split at hs
    · rename_i c r hb
      cases hs
      exact inv_pop .handed (by decide) (by decide) h hb
    · cases hs
  | otherLock =>
    simp only [step] at hs
    split at hs
    · cases hs; exact ⟨h.pooledIn, h.drains, h.noLimbo⟩
    · cases hs
  | otherUnlock =>
    simp only [step] at hs
    split at hs
    · cases hs; exact ⟨h.pooledIn, h.drains, h.noLimbo⟩
    · cases hs
  | worker =>
    simp only [step] at hs
    split at hs
    · cases hs
    · rename_i tl hr
      split at hs
      · cases hs; exact inv_skip .worker h hr (fun c => willDrain_lock c tl)
      · cases hs
    · rename_i tl hr
      split at hs
      · cases hs; exact inv_skip .free h hr (fun c => willDrain_unlock c tl)
      · cases hs
    · rename_i tl hr
      split at hs
      · cases hs
      · rename_i hc
        have hc' := eq_false_of_ne_true' hc
        cases hs
        refine ⟨h.pooledIn, ?_, h.noLimbo⟩
        cases h.drains with
        | inl hw => rw [hr, hc'] at hw; exact Or.inl hw
        | inr hx => rw [hc'] at hx; exact absurd hx.1 (by decide)
    · rename_i tl hr
      split at hs
      · rename_i c r hb
        cases hs
        exact inv_pop .closed (by decide) (by decide) h hb
      · rename_i hb
        split at hs
        · rename_i hc
          cases hs
          exact ⟨h.pooledIn, Or.inr ⟨hc, hb⟩, h.noLimbo⟩
        · cases hs
    · rename_i tl hr
      split at hs
      · rename_i c r hb
        cases hs
        exact inv_pop .closed (by decide) (by decide) h hb
      · rename_i hb
        cases hs
        refine ⟨h.pooledIn, ?_, h.noLimbo⟩
        by_cases hc : s.closed = true
        · exact Or.inr ⟨hc, hb⟩
        · have hc' := eq_false_of_ne_true' hc
          cases h.drains with
          | inl hw => rw [hr, hc', willDrain_nbDrain] at hw; rw [← hc'] at hw; exact Or.inl hw
          | inr hx => exact Or.inr hx
    · cases hs

theorem inv_reach {cfg : Cfg} {cap : Nat} {prog : List WI} (hp : willDrain false prog = true) {s : St}
    (h : Reach cfg cap prog s) : Inv cfg s := by
  induction h with
  | init => exact inv_init cfg cap prog hp
  | step _ hs ih => exact inv_step ih hs

/-- the worker has finished ⇒ the channel is closed and empty — in every interleaving -/
theorem closed_and_empty_at_end {cfg : Cfg} {cap : Nat} {prog : List WI} (hp : willDrain false prog = true)
    {s : St} (h : Reach cfg cap prog s) (hend : s.rest = []) : s.closed = true ∧ s.buf = [] := by
  cases (inv_reach hp h).drains with
  | inl hw => rw [hend, willDrain_nil] at hw; exact absurd hw (by decide)
  | inr hx => exact hx

/-- THE CLAUSE: in every state of every interleaving in which the worker has finished, every connection ever
    offered has been handed to a user connection or closed -/
theorem none_parked_at_end {cfg : Cfg} {cap : Nat} {prog : List WI} (hp : willDrain false prog = true)
    (hre : cfg.recoverErr = true) {s : St} (h : Reach cfg cap prog s) (hend : s.rest = []) :
    ∀ c v, s.c.get c = some v → v = .handed ∨ v = .closed := by
  intro c v hv
  have inv := inv_reach hp h
  have he := closed_and_empty_at_end hp h hend
  cases v with
  | pooled => have := inv.pooledIn c hv; rw [he.2] at this; cases this
  | handed => exact Or.inl rfl
  | closed => exact Or.inr rfl
  | limbo => exact absurd hv (inv.noLimbo hre c)

/-- a work connection that arrives after the end is closed, not parked -/
theorem late_offer_closed {cfg : Cfg} {cap : Nat} {prog : List WI} (hp : willDrain false prog = true)
    (hre : cfg.recoverErr = true) {s s' : St} {c : Nat} {r : Res} (h : Reach cfg cap prog s) (hend : s.rest = [])
    (hs : step cfg s (.offer c) = some (s', r)) : s'.c.get c = some .closed ∧ s'.buf = [] := by
  have he := closed_and_empty_at_end hp h hend
  simp only [step] at hs
  by_cases h0 : (s.c.get c).isSome
  · simp [h0] at hs
  · simp only [h0, he.1, hre, if_true, Bool.false_eq_true, if_false, Option.some.injEq, Prod.mk.injEq] at hs
    obtain ⟨rfl, _⟩ := hs
    exact ⟨by simp [Tbl.get_set], he.2⟩

/-! ### progress: the worker is never stuck -/

/-- running a drain loop (blocking or not) to the empty buffer: worker steps only -/
theorem drain_rounds (cfg : Cfg) (i : WI) (hi : i = .rangeDrain ∨ i = .nbDrain) (tl : List WI) :
    ∀ (buf : List Nat) (s : St), s.buf = buf → s.rest = i :: tl →
      ∃ n s', run cfg s (List.replicate n .worker) = some s' ∧ s'.buf = [] ∧ s'.rest = i :: tl ∧
        s'.closed = s.closed ∧ s'.mu = s.mu := by
  intro buf
  induction buf with
  | nil => intro s hb hr; exact ⟨0, s, rfl, hb, hr, rfl, rfl⟩
  | cons c r ih =>
    intro s hb hr
    have hstep : step cfg s .worker =
        some ({ s with buf := r, c := s.c.set c .closed }, .drained c) := by
      cases hi with
      | inl h => subst h; simp only [step, hr, hb]
      | inr h => subst h; simp only [step, hr, hb]
    obtain ⟨n, s', hrun, h1, h2, h3, h4⟩ := ih { s with buf := r, c := s.c.set c .closed } rfl hr
    exact ⟨n + 1, s', by simp only [List.replicate_succ, run, hstep]; exact hrun, h1, h2, h3, h4⟩

theorem run_append (cfg : Cfg) : ∀ (l1 l2 : List Label) (s s1 : St), run cfg s l1 = some s1 →
    run cfg s (l1 ++ l2) = run cfg s1 l2 := by
  intro l1
  induction l1 with
  | nil => intro l2 s s1 h; simp only [run, Option.some.injEq] at h; subst h; rfl
  | cons a t ih =>
    intro l2 s s1 h
    simp only [run, List.cons_append] at h ⊢
    cases hs : step cfg s a with
    | none => simp [hs] at h
    | some x => simp only [hs] at h ⊢; exact ih l2 _ _ h

/-- PROGRESS: a program that `runsThrough` is never stuck — from any state in which nobody else holds ctl.mu
    the worker alone (whatever was offered or taken before) reaches its end -/
theorem worker_finishes (cfg : Cfg) : ∀ (rest : List WI) (s : St), s.rest = rest → s.mu ≠ .other →
    runsThrough s.closed (decide (s.mu = .worker)) rest = true →
    ∃ n s', run cfg s (List.replicate n .worker) = some s' ∧ s'.rest = [] := by
  intro rest
  induction rest with
  | nil => intro s hr _ _; exact ⟨0, s, rfl, hr⟩
  | cons i tl ih =>
    intro s hr hmu hgo
    -- one worker step (after the drain rounds, for the loops) to a state that still runs through
    have one : ∀ (s0 s1 : St) (k : Nat), run cfg s (List.replicate k .worker) = some s0 →
        step cfg s0 .worker = some (s1, .none) → s1.rest = tl → s1.mu ≠ .other →
        runsThrough s1.closed (decide (s1.mu = .worker)) tl = true →
        ∃ n s', run cfg s (List.replicate n .worker) = some s' ∧ s'.rest = [] := by
      intro s0 s1 k h0 h1 h2 h3 h4
      obtain ⟨n, s', hrun, hend⟩ := ih s1 h2 h3 h4
      refine ⟨k + (1 + n), s', ?_, hend⟩
      rw [← List.replicate_append_replicate, run_append cfg _ _ s s0 h0, ← List.replicate_append_replicate]
      simp only [List.replicate_one, List.cons_append, List.nil_append, run, h1]
      exact hrun
    cases i with
    | lock =>
      cases hm : s.mu with
      | other => exact absurd hm hmu
      | worker => cases hc : s.closed <;> simp [hm, hc, runsThrough] at hgo
      | free =>
        have hgo' : runsThrough s.closed true tl = true := by
          cases hc : s.closed <;> simp [hm, hc, runsThrough] at hgo ⊢ <;> exact hgo
        exact one s { s with mu := .worker, rest := tl } 0 rfl (by simp [step, hr, hm]) rfl (by simp) (by simpa using hgo')
    | unlock =>
      cases hm : s.mu with
      | other => exact absurd hm hmu
      | free => cases hc : s.closed <;> simp [hm, hc, runsThrough] at hgo
      | worker =>
        have hgo' : runsThrough s.closed false tl = true := by
          cases hc : s.closed <;> simp [hm, hc, runsThrough] at hgo ⊢ <;> exact hgo
        exact one s { s with mu := .free, rest := tl } 0 rfl (by simp [step, hr, hm]) rfl (by simp) (by simpa using hgo')
    | closeCh =>
      cases hc : s.closed with
      | true => cases hd : decide (s.mu = .worker) <;> simp [hc, hd, runsThrough] at hgo
      | false =>
        have hgo' : runsThrough true (decide (s.mu = .worker)) tl = true := by
          cases hd : decide (s.mu = .worker) <;> simp [hc, hd, runsThrough] at hgo ⊢ <;> exact hgo
        exact one s { s with closed := true, rest := tl } 0 rfl (by simp [step, hr, hc]) rfl hmu (by simpa using hgo')
    | rangeDrain =>
      cases hc : s.closed with
      | false => cases hd : decide (s.mu = .worker) <;> simp [hc, hd, runsThrough] at hgo
      | true =>
        have hgo' : runsThrough true (decide (s.mu = .worker)) tl = true := by
          cases hd : decide (s.mu = .worker) <;> simp [hc, hd, runsThrough] at hgo ⊢ <;> exact hgo
        obtain ⟨k, s0, h0, hb0, hr0, hc0, hm0⟩ := drain_rounds cfg .rangeDrain (Or.inl rfl) tl s.buf s rfl hr
        have hc0' : s0.closed = true := by rw [hc0, hc]
        exact one s0 { s0 with rest := tl } k h0 (by simp [step, hr0, hb0, hc0']) rfl (by simpa [hm0] using hmu)
          (by simpa [hm0, hc0'] using hgo')
    | nbDrain =>
      have hgo' : runsThrough s.closed (decide (s.mu = .worker)) tl = true := by
        cases hc : s.closed <;> cases hd : decide (s.mu = .worker) <;> simp [hc, hd, runsThrough] at hgo ⊢ <;> exact hgo
      obtain ⟨k, s0, h0, hb0, hr0, hc0, hm0⟩ := drain_rounds cfg .nbDrain (Or.inr rfl) tl s.buf s rfl hr
      exact one s0 { s0 with rest := tl } k h0 (by simp [step, hr0, hb0]) rfl (by simpa [hm0] using hmu)
        (by simpa [hm0, hc0] using hgo')
    | unknown =>
      cases hc : s.closed <;> cases hd : decide (s.mu = .worker) <;> simp [hc, hd, runsThrough] at hgo

/-- the worker's position agrees with the channel and the mutex: what is left of the program still runs through -/
def RT (s : St) : Prop := runsThrough s.closed (decide (s.mu = .worker)) s.rest = true

theorem rt_step {cfg : Cfg} {s s' : St} {l : Label} {r : Res} (h : RT s)
    (hs : step cfg s l = some (s', r)) : RT s' := by
  unfold RT at h ⊢
  cases l with
  | offer c =>
    simp only [step] at hs
    repeat' split at hs
    all_goals first
      | (cases hs; exact h)
      | cases hs
  | take =>
    simp only [step] at hs
    split at hs
    · cases hs; exact h
    · cases hs
  | otherLock =>
    simp only [step] at hs
    split at hs
    · rename_i hm; cases hs; simpa [hm] using h
    · cases hs
  | otherUnlock =>
    simp only [step] at hs
    split at hs
    · rename_i hm; cases hs; simpa [hm] using h
    · cases hs
  | worker =>
    simp only [step] at hs
    split at hs
    · cases hs
    · rename_i tl hr
      split at hs
      · rename_i hm; cases hs
        rw [hr] at h
        cases hc : s.closed <;> simp [hm, hc, runsThrough] at h ⊢ <;> exact h
      · cases hs
    · rename_i tl hr
      split at hs
      · rename_i hm; cases hs
        rw [hr] at h
        cases hc : s.closed <;> simp [hm, hc, runsThrough] at h ⊢ <;> exact h
      · cases hs
    · rename_i tl hr
      split at hs
      · cases hs
      · rename_i hc
        cases hs
        rw [hr] at h
        cases hc' : s.closed
        · cases hd : decide (s.mu = .worker) <;> simp [hc', hd, runsThrough] at h ⊢ <;> exact h
        · exact absurd hc' hc
    · rename_i tl hr
      split at hs
      · cases hs; exact h
      · split at hs
        · rename_i hc
          cases hs
          rw [hr] at h
          cases hd : decide (s.mu = .worker) <;> simp [hc, hd, runsThrough] at h ⊢ <;> exact h
        · cases hs
    · rename_i tl hr
      split at hs
      · cases hs; exact h
      · cases hs
        rw [hr] at h
        cases hc : s.closed <;> cases hd : decide (s.mu = .worker) <;> simp [hc, hd, runsThrough] at h ⊢ <;> exact h
    · cases hs

theorem rt_reach {cfg : Cfg} {cap : Nat} {prog : List WI} (hp : runsThrough false false prog = true) {s : St}
    (h : Reach cfg cap prog s) : RT s := by
  induction h with
  | init => exact hp
  | step _ hs ih => exact rt_step ih hs

/-! ### the program of the frp source tree (regenerated on every run) -/

/-- THE TIE: the worker of the source closes the pool and THEN drains it with a blocking loop, runs through
    (lock discipline, one close), and the registration path turns the closed pool into an error on which the
    caller closes; the send is the non-blocking `select … default` -/
theorem source_program_drains :
    willDrain false sourceProg = true ∧ runsThrough false false sourceProg = true ∧
    sourceCfg.recoverErr = true ∧ Gen.PoolFacts.registerSend = "select-default" := by
  decide +kernel

theorem source_none_parked {cap : Nat} {s : St} (h : Reach sourceCfg cap sourceProg s) (hend : s.rest = []) :
    (s.closed = true ∧ s.buf = []) ∧ ∀ c v, s.c.get c = some v → v = .handed ∨ v = .closed :=
  ⟨closed_and_empty_at_end source_program_drains.1 h hend,
   none_parked_at_end source_program_drains.1 source_program_drains.2.2.1 h hend⟩

/-- … and the worker of the source always gets there: from every reachable state, once whoever else holds
    ctl.mu has released it, the worker's own steps reach the end (no interleaving leaves it stuck) -/
theorem source_worker_finishes {cap : Nat} {s : St} (h : Reach sourceCfg cap sourceProg s) :
    ∃ ls s', run sourceCfg s ls = some s' ∧ s'.rest = [] := by
  have rt := rt_reach source_program_drains.2.1 h
  by_cases hm : s.mu = .other
  · have hstep : step sourceCfg s .otherUnlock = some ({ s with mu := .free }, .none) := by simp [step, hm]
    have rt' : RT { s with mu := .free } := rt_step rt hstep
    obtain ⟨n, s', hr, he⟩ := worker_finishes sourceCfg _ { s with mu := .free } rfl (by simp) rt'
    exact ⟨.otherUnlock :: List.replicate n .worker, s', by simp only [run, hstep]; exact hr, he⟩
  · obtain ⟨n, s', hr, he⟩ := worker_finishes sourceCfg _ s rfl hm rt
    exact ⟨_, s', hr, he⟩

/-! ### why the order matters: kernel-checked schedules for other programs -/

/-- "release the pooled connections first, without the lock": drain (non-blocking), lock, close, unlock -/
def earlyDrainProg : List WI := [.nbDrain, .lock, .closeCh, .unlock]

theorem earlyDrain_not_willDrain : willDrain false earlyDrainProg = false := by decide

/-- connection 0 is pooled while the session lives; the worker drains; connection 1 is offered while somebody
    else holds ctl.mu (any time before the close does); the worker locks, closes, unlocks: finished, channel
    closed, connection 1 parked in it for ever -/
def earlyDrainSchedule : List Label :=
  [.offer 0, .otherLock, .worker, .worker, .offer 1, .otherUnlock, .worker, .worker, .worker]

theorem earlyDrain_strands_witness :
    ∃ s, run ⟨true⟩ (init 10 earlyDrainProg) earlyDrainSchedule = some s ∧ s.rest = [] ∧ s.closed = true ∧
      s.c.get 0 = some .closed ∧ s.c.get 1 = some .pooled ∧ noneParked s = false := by
  refine ⟨_, rfl, ?_⟩
  decide

/-- … and nothing ever takes it out: no label but `take` (GetWorkConn — which no user connection calls once the
    session's proxies are closed) changes the buffer of a finished session -/
theorem finished_buffer_stable {cfg : Cfg} {s s' : St} {l : Label} {r : Res} (hend : s.rest = [])
    (hc : s.closed = true) (hl : l ≠ .take) (hs : step cfg s l = some (s', r)) :
    s'.buf = s.buf ∧ s'.rest = [] ∧ s'.closed = true := by
  cases l with
  | take => exact absurd rfl hl
  | offer c =>
    simp only [step] at hs
    repeat' split at hs
    all_goals first
      | contradiction
      | (cases hs; exact ⟨rfl, hend, hc⟩)
      | cases hs
  | otherLock =>
    simp only [step] at hs
    by_cases hm : s.mu = .free
    · simp only [hm, if_true, Option.some.injEq, Prod.mk.injEq] at hs
      obtain ⟨rfl, _⟩ := hs; exact ⟨rfl, hend, hc⟩
    · simp [hm] at hs
  | otherUnlock =>
    simp only [step] at hs
    by_cases hm : s.mu = .other
    · simp only [hm, if_true, Option.some.injEq, Prod.mk.injEq] at hs
      obtain ⟨rfl, _⟩ := hs; exact ⟨rfl, hend, hc⟩
    · simp [hm] at hs
  | worker => simp [step, hend] at hs

/-- the same program with the blocking drain kept after the close is fine (the early drain is harmless) -/
theorem earlyDrain_plus_range_ok : willDrain false [.nbDrain, .lock, .closeCh, .rangeDrain, .unlock] = true := by
  decide

/-- a drain before the close that blocks never ends; a close without a drain parks what is pooled; a
    non-blocking drain AFTER the close is as good as the blocking one -/
theorem other_orders_rejected :
    willDrain false [.lock, .rangeDrain, .closeCh, .unlock] = false ∧
    willDrain false [.lock, .closeCh, .unlock] = false ∧
    willDrain false [.lock, .nbDrain, .closeCh, .unlock] = false ∧
    willDrain false [.lock, .closeCh, .nbDrain, .unlock] = true := by
  decide

end End
end C11
end Frp
