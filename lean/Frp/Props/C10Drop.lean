import Frp.Model.SessDrop
import Frp.Props.C10
/-
  C10 — session end RACING the session's own registration (Frp/Model/SessDrop.lean).

  Clause: "released on every termination path … every point at which the control connection can drop".
  The connection may drop while `RegisterProxy` of the same session is parked between two of its
  sections.  For every schedule of all sessions (induction over op lists):

    dinv_reachable          tables / quota accounting stay consistent, and a session whose teardown is
                            pending is still inside its registration (the teardown never overtakes it)
    drop_idle_spec          connection drops while the session is idle = `sessionEnd` (C10.Conc.sessionEnd_spec)
    drop_pending_unchanged  connection drops during a registration: nothing changes yet
    gone_clean              when the registration's last section is over, NOTHING of the session is left —
                            whatever the outcome of the registration was (ok, conflict, name in use):
                            no owned proxy, no name, no key, counter 0, no flight — and every other
                            session's proxies, names, keys, flights and counters are exactly as the
                            registration step left them
    gone_within_two         a pending teardown completes after at most two more sections of the registration
    quiescent_empty         no registration in flight ⇒ no teardown pending; and with no proxy owned all
                            tables are empty and all counters 0 (the census after everything ended)
-/
namespace Frp
namespace C10
namespace Drop
open Release RegSteps SessDrop Conc

structure DInv (s : DState) : Prop where
  conc       : Conc.Inv s.c
  endingBusy : ∀ sid ∈ s.ending, s.c.busy sid = true

theorem dinv_init (m : Nat) : DInv (DState.init m) :=
  ⟨Conc.inv_init m, by intro sid h; cases h⟩

/-! ### `busy` across the steps of the underlying model -/

theorem any_filter_other (l : List Flight) (sid x : Nat) (h : x ≠ sid) :
    (l.filter (fun g => g.sid ≠ sid)).any (fun f => f.sid = x) = l.any (fun f => f.sid = x) := by
  induction l with
  | nil => rfl
  | cons f fs ih =>
    rw [List.filter_cons]
    by_cases e : f.sid = sid
    · have : decide (f.sid ≠ sid) = false := by simp [e]
      rw [this]
      simp only [Bool.false_eq_true, if_false, List.any_cons, ih]
      have : decide (f.sid = x) = false := by simp [e]; exact fun e2 => h e2.symm
      rw [this, Bool.false_or]
    · have : decide (f.sid ≠ sid) = true := by simp [e]
      rw [this]
      simp only [if_true, List.any_cons, ih]

theorem any_filter_self (l : List Flight) (sid : Nat) :
    (l.filter (fun g => g.sid ≠ sid)).any (fun f => f.sid = sid) = false := by
  induction l with
  | nil => rfl
  | cons f fs ih =>
    rw [List.filter_cons]
    by_cases e : f.sid = sid
    · have : decide (f.sid ≠ sid) = false := by simp [e]
      rw [this]; simp
    · have : decide (f.sid ≠ sid) = true := by simp [e]
      rw [this]
      simp only [if_true, List.any_cons, ih, Bool.or_false]
      simpa using e

theorem step_busy_other (s : CState) (sid x : Nat) (h : x ≠ sid) : (s.step sid).1.busy x = s.busy x := by
  rcases step_cases s sid with ⟨_, e⟩ | ⟨f, held', k, _, _, _, e⟩ | ⟨f, held', hf, _, _, e⟩ | ⟨f, _, _, _, e⟩ | ⟨f, _, _, _, e⟩
  · rw [e]
  · rw [e]; unfold CState.busy
    simp only [refund_flights, CState.dropFlight]
    exact any_filter_other _ _ _ h
  · rw [e]; unfold CState.busy
    have hs : f.sid = sid := (find_flight hf).2
    simp only [List.any_cons]
    rw [any_filter_other _ _ _ h]
    have : decide (f.sid = x) = false := by simp [hs]; exact fun e2 => h e2.symm
    rw [this, Bool.false_or]
  · rw [e]; unfold CState.busy
    simp only [refund_flights, CState.dropFlight]
    exact any_filter_other _ _ _ h
  · rw [e]; unfold CState.busy
    simp only [CState.dropFlight]
    exact any_filter_other _ _ _ h

/-- a registration step that does not park again leaves the session outside `RegisterProxy` -/
theorem step_terminal_idle (s : CState) (sid : Nat) (h : ∀ pc, (s.step sid).2 ≠ .parked pc)
    (hn : (s.step sid).2 ≠ .noflight) : (s.step sid).1.busy sid = false := by
  rcases step_cases s sid with ⟨_, e⟩ | ⟨f, held', k, _, _, _, e⟩ | ⟨f, held', hf, _, _, e⟩ | ⟨f, _, _, _, e⟩ | ⟨f, _, _, _, e⟩
  · rw [e] at hn; exact absurd rfl hn
  · rw [e]; unfold CState.busy
    simp only [refund_flights, CState.dropFlight]
    exact any_filter_self _ _
  · rw [e] at h; exact absurd rfl (h .ran)
  · rw [e]; unfold CState.busy
    simp only [refund_flights, CState.dropFlight]
    exact any_filter_self _ _
  · rw [e]; unfold CState.busy
    simp only [CState.dropFlight]
    exact any_filter_self _ _

theorem begin_busy_mono (s : CState) (sid : Nat) (name : Str) (keys : List Key) (n : Nat) (x : Nat)
    (h : s.busy x = true) : (s.begin sid name keys n).1.busy x = true := by
  rcases begin_cases s sid name keys n with ⟨_, e⟩ | ⟨_, _, e⟩ | ⟨_, _, _, e⟩ | ⟨_, _, _, e⟩
  · rw [e]; exact h
  · rw [e]; exact h
  · rw [e]; unfold CState.busy at h ⊢; simpa using h
  · rw [e]; unfold CState.busy at h ⊢
    simp only [charge_flights, List.any_cons, h, Bool.or_true]

theorem close_flights (s : CState) (sid : Nat) (name : Str) : (s.close sid name).1.flights = s.flights := by
  rcases close_cases s sid name with ⟨_, e⟩ | ⟨_, _, e⟩ | ⟨o, _, _, _, _, e⟩
  · rw [e]
  · rw [e]
  · rw [e]; simp [CState.dropProxy]

theorem sessionEnd_flights {s : CState} (h : Conc.Inv s) (sid : Nat) : (s.sessionEnd sid).1.flights = s.flights := by
  rcases sessionEnd_cases s sid with ⟨_, e⟩ | ⟨hb, _⟩
  · rw [e]
  · exact (Conc.sessionEnd_spec h sid hb).2.2.2.1

theorem busy_congr {s t : CState} (h : t.flights = s.flights) (x : Nat) : t.busy x = s.busy x := by
  unfold CState.busy; rw [h]

/-! ### the invariant, op by op -/

theorem dinv_begin {s : DState} (h : DInv s) (sid : Nat) (name : Str) (keys : List Key) (n : Nat) :
    DInv (s.begin sid name keys n).1 :=
  ⟨Conc.inv_begin h.conc sid name keys n, fun x hx => begin_busy_mono s.c sid name keys n x (h.endingBusy x hx)⟩

theorem dinv_close {s : DState} (h : DInv s) (sid : Nat) (name : Str) : DInv (s.close sid name).1 :=
  ⟨Conc.inv_close h.conc sid name, fun x hx => by
    show (s.c.close sid name).1.busy x = true
    rw [busy_congr (close_flights s.c sid name) x]; exact h.endingBusy x hx⟩

theorem dinv_drop {s : DState} (h : DInv s) (sid : Nat) : DInv (s.drop sid).1 := by
  unfold DState.drop
  by_cases hb : s.c.busy sid = true
  · rw [if_pos hb]
    refine ⟨h.conc, ?_⟩
    intro x hx
    simp only at hx
    split at hx
    · exact h.endingBusy x hx
    · rcases List.mem_cons.mp hx with rfl | hx
      · exact hb
      · exact h.endingBusy x hx
  · rw [if_neg hb]
    refine ⟨Conc.inv_sessionEnd h.conc sid, ?_⟩
    intro x hx
    show (s.c.sessionEnd sid).1.busy x = true
    rw [busy_congr (sessionEnd_flights h.conc sid) x]; exact h.endingBusy x hx

theorem dinv_step {s : DState} (h : DInv s) (sid : Nat) : DInv (s.step sid).1 := by
  unfold DState.step
  have hi : Conc.Inv (s.c.step sid).1 := Conc.inv_step h.conc sid
  by_cases hc : (s.ending.contains sid && !(s.c.step sid).1.busy sid) = true
  · simp only [hc, if_true]
    refine ⟨Conc.inv_sessionEnd hi sid, ?_⟩
    intro x hx
    obtain ⟨hx1, hx2⟩ := List.mem_filter.mp hx
    have hne : x ≠ sid := by simpa using hx2
    show ((s.c.step sid).1.sessionEnd sid).1.busy x = true
    rw [busy_congr (sessionEnd_flights hi sid) x, step_busy_other s.c sid x hne]
    exact h.endingBusy x hx1
  · simp only [hc, Bool.false_eq_true, if_false]
    refine ⟨hi, ?_⟩
    intro x hx
    show (s.c.step sid).1.busy x = true
    by_cases e : x = sid
    · subst e
      have hm : s.ending.contains x = true := by simpa using hx
      rw [hm, Bool.true_and] at hc
      simpa using hc
    · rw [step_busy_other s.c sid x e]; exact h.endingBusy x hx

/-- **every schedule** of begin / step / close / connection drop of all sessions -/
theorem dinv_reachable (m : Nat) (ops : List SessDrop.Op) : DInv (ops.foldl SessDrop.apply (DState.init m)) := by
  suffices hh : ∀ s, DInv s → DInv (ops.foldl SessDrop.apply s) from hh _ (dinv_init m)
  induction ops with
  | nil => intro s h; exact h
  | cons op ops ih =>
    intro s h
    apply ih
    cases op with
    | begin sid name keys n => exact dinv_begin h sid name keys n
    | step sid => exact dinv_step h sid
    | close sid name => exact dinv_close h sid name
    | drop sid => exact dinv_drop h sid

/-! ## Theorems -/

/-- the connection drops while the session is idle: exactly `Control.worker`'s teardown -/
theorem drop_idle_spec (s : DState) (sid : Nat) (hb : s.c.busy sid = false) :
    s.drop sid = ({ s with c := (s.c.sessionEnd sid).1 }, .r .done) := by
  unfold DState.drop; rw [if_neg (by simp [hb])]

/-- the connection drops during the session's own registration: no table, counter or flight changes —
    `worker` is blocked until the dispatcher's handler returns -/
theorem drop_pending_unchanged (s : DState) (sid : Nat) (hb : s.c.busy sid = true) :
    (s.drop sid).2 = .pending ∧ (s.drop sid).1.c = s.c ∧ sid ∈ (s.drop sid).1.ending := by
  unfold DState.drop; rw [if_pos hb]
  refine ⟨rfl, rfl, ?_⟩
  simp only
  split
  · rename_i hm; simpa using hm
  · exact List.mem_cons_self

/-- **nothing of a session survives its end**, also when the end raced the session's own registration:
    when the step answers `gone`, the session owns no proxy, no name, holds no key, has no flight and its
    counter is 0 — whatever the registration's outcome was — and every other session keeps exactly what
    the registration step left it -/
theorem gone_clean {s : DState} (h : DInv s) (sid : Nat) (hg : (s.step sid).2 = .gone) :
    let c1 := (s.c.step sid).1
    let t := (s.step sid).1
    t.c.own = c1.own.filter (fun o => o.sid ≠ sid) ∧
    t.c.names = c1.names.filter (fun e => e.2 ≠ sid) ∧
    t.c.held = c1.held.filter (fun e => e.2.sid ≠ sid) ∧
    t.c.flights = c1.flights ∧ t.c.busy sid = false ∧
    (∀ x, t.c.quotaOf x = if x = sid then 0 else c1.quotaOf x) ∧
    sid ∉ t.ending := by
  have hi : Conc.Inv (s.c.step sid).1 := Conc.inv_step h.conc sid
  unfold DState.step at hg ⊢
  by_cases hc : (s.ending.contains sid && !(s.c.step sid).1.busy sid) = true
  · simp only [hc, if_true]
    have hb : (s.c.step sid).1.busy sid = false := by
      have := (Bool.and_eq_true _ _).mp hc
      simpa using this.2
    obtain ⟨a1, a2, a3, a4, a5, _⟩ := Conc.sessionEnd_spec hi sid hb
    refine ⟨a1, a2, a3, a4, ?_, a5, ?_⟩
    · rw [busy_congr a4 sid]; exact hb
    · intro hm; have := (List.mem_filter.mp hm).2; simp at this
  · simp only [hc, Bool.false_eq_true, if_false] at hg
    cases hg

theorem step_gone_of (t : DState) (sid : Nat) (hm : sid ∈ t.ending) (hb : (t.c.step sid).1.busy sid = false) :
    (t.step sid).2 = .gone := by
  unfold DState.step
  have hcont : t.ending.contains sid = true := by simpa using hm
  simp only [hcont, hb, Bool.not_false, Bool.and_self, if_true]

/-- a pending teardown completes after at most two more sections of the registration -/
theorem gone_within_two {s : DState} (h : DInv s) (sid : Nat) (hm : sid ∈ s.ending) :
    (s.step sid).2 = .gone ∨ ((s.step sid).1.step sid).2 = .gone := by
  have key : ∀ t : DState, DInv t → sid ∈ t.ending →
      (t.step sid).2 = .gone ∨ ((t.step sid).2 = .r (.parked .ran) ∧ sid ∈ (t.step sid).1.ending ∧
        ∃ f, (t.step sid).1.c.flights.find? (fun f => f.sid = sid) = some f ∧ f.pc = .ran) := by
    intro t ht hmt
    have hbusy := ht.endingBusy sid hmt
    have hcont : t.ending.contains sid = true := by simpa using hmt
    rcases step_cases t.c sid with ⟨hn, _⟩ | ⟨f, held', k, _, _, _, e⟩ | ⟨f, held', hf, _, _, e⟩ | ⟨f, _, _, _, e⟩ | ⟨f, _, _, _, e⟩
    · exfalso
      unfold CState.busy at hbusy
      simp only [List.any_eq_true, decide_eq_true_eq] at hbusy
      obtain ⟨g, hg, eg⟩ := hbusy
      have := List.find?_eq_none.mp hn g hg
      simp [eg] at this
    · left
      have hb : (t.c.step sid).1.busy sid = false :=
        step_terminal_idle t.c sid (by intro pc; rw [e]; simp) (by rw [e]; simp)
      exact step_gone_of t sid hmt hb
    · right
      have hs : f.sid = sid := (find_flight hf).2
      have hb : (t.c.step sid).1.busy sid = true := by
        rw [e]; unfold CState.busy; simp [hs]
      unfold DState.step
      simp only [hcont, hb, Bool.not_true, Bool.and_false, Bool.false_eq_true, if_false]
      refine ⟨by rw [e], hmt, { f with pc := .ran }, ?_, rfl⟩
      rw [e]; simp [hs]
    · left
      have hb : (t.c.step sid).1.busy sid = false :=
        step_terminal_idle t.c sid (by intro pc; rw [e]; simp) (by rw [e]; simp)
      exact step_gone_of t sid hmt hb
    · left
      have hb : (t.c.step sid).1.busy sid = false :=
        step_terminal_idle t.c sid (by intro pc; rw [e]; simp) (by rw [e]; simp)
      exact step_gone_of t sid hmt hb
  rcases key s h hm with g | ⟨_, hm2, f, hf, hpc⟩
  · left; exact g
  · right
    have h2 := dinv_step h sid
    have hcont : (s.step sid).1.ending.contains sid = true := by simpa using hm2
    -- second step: the flight is at `ran`, so the step is `ok` or `inuse`, both terminal
    have hterm : ((s.step sid).1.c.step sid).1.busy sid = false := by
      apply step_terminal_idle
      · intro pc hp
        rcases step_cases (s.step sid).1.c sid with ⟨hn, _⟩ | ⟨g, _, _, hg, hgpc, _, _⟩ | ⟨g, _, hg, hgpc, _, _⟩ | ⟨g, _, _, _, e⟩ | ⟨g, _, _, _, e⟩
        · rw [hn] at hf; cases hf
        · rw [hg] at hf; cases hf; rw [hpc] at hgpc; cases hgpc
        · rw [hg] at hf; cases hf; rw [hpc] at hgpc; cases hgpc
        · rw [e] at hp; cases hp
        · rw [e] at hp; cases hp
      · intro hp
        rcases step_cases (s.step sid).1.c sid with ⟨hn, _⟩ | ⟨g, _, _, _, _, _, e⟩ | ⟨g, _, _, _, _, e⟩ | ⟨g, _, _, _, e⟩ | ⟨g, _, _, _, e⟩
        · rw [hn] at hf; cases hf
        · rw [e] at hp; cases hp
        · rw [e] at hp; cases hp
        · rw [e] at hp; cases hp
        · rw [e] at hp; cases hp
    exact step_gone_of _ sid hm2 hterm

/-- with no registration in flight no teardown is pending; if moreover no proxy is owned, the census is
    empty: no key, no name, every counter 0 -/
theorem quiescent_empty {s : DState} (h : DInv s) (hf : s.c.flights = []) :
    s.ending = [] ∧ (s.c.own = [] → s.c.held = [] ∧ s.c.names = [] ∧ ∀ x, s.c.quotaOf x = 0) := by
  refine ⟨?_, fun ho => Conc.quiescent_clean h.conc hf ho⟩
  apply List.eq_nil_iff_forall_not_mem.mpr
  intro x hx
  have := h.endingBusy x hx
  unfold CState.busy at this
  rw [hf] at this
  cases this

/-! non-vacuity: session 1's connection drops while its registration is parked after `Run`; the
    registration then succeeds — and the teardown removes the proxy it has just stored -/
def raceOps : List SessDrop.Op :=
  [.begin 1 (C10.s "p") [Conc.pA] 1, .step 1, .drop 1]

example : ((raceOps.foldl SessDrop.apply (DState.init 1)).ending) = [1] := by decide +kernel
example : ((raceOps.foldl SessDrop.apply (DState.init 1)).step 1).2 = .gone := by decide +kernel
example : (((raceOps.foldl SessDrop.apply (DState.init 1)).step 1).1.c.names) = [] := by decide +kernel
example : (((raceOps.foldl SessDrop.apply (DState.init 1)).step 1).1.c.held.map (·.1)) = [] := by decide +kernel
example : (((raceOps.foldl SessDrop.apply (DState.init 1)).step 1).1.c.quotaOf 1) = 0 := by decide +kernel
/-- the same port is free for another session afterwards -/
example : let t := ((raceOps.foldl SessDrop.apply (DState.init 1)).step 1).1
          ((t.begin 2 (C10.s "p") [Conc.pA] 1).1.step 2).2 = .r (.parked .ran) := by decide +kernel

end Drop
end C10
end Frp
