import Frp.Props.C17
import Frp.Model.Dispatcher
/-
  C17, session level — "malformed bodies are errors; the read loop ends the session on any decode
  error" (pkg/msg/handler.go `Dispatcher.readLoop`), hence: nothing decoded from a malformed frame
  ever reaches a handler.

  For ALL handler tables, ALL byte streams and BOTH trusted oracles (JSON text level, IP text form):
  handlers receive exactly the messages of the well-formed prefix of the stream, in order, each
  from the handler registered for its type (else the default handler, else nobody); the first frame
  that `msg.ReadMsg` rejects — unknown type byte, negative or oversized length, body that is not a
  JSON text, `null`, a top-level value that is not an object, or ONE member (at any nesting level)
  whose JSON type / integer range does not fit its field — closes `Done` with nothing dispatched from
  it or from anything after it.
-/
namespace Frp
namespace C17
open Frame MsgObj Dispatcher

/-! ## 1. one `ReadMsg` -/

theorem known_of_structOf {e : Env} {t : Nat} {s : String} (h : e.structOf t = some s) : e.known t = true := by
  simp [Env.known, h]

/-- a well-formed frame with an accepted body is read as that message, consuming exactly the frame -/
theorem readStep_good (e : Env) (o : Oracle) (t : Nat) (s : String) (body rest : Str)
    (hs : e.structOf t = some s) (hl : body.length ≤ e.max) (hmax : e.max < 9223372036854775808)
    (hok : bodyOk e o s body = true) (hnn : isNullLit body = false) :
    readStep e o (encode t body ++ rest) = .msg s body rest (9 + body.length) := by
  have hd := decode_encode e.max e.known t body rest (known_of_structOf hs) hl hmax
  simp only [readStep, Frame.readMsg, readMsgGolib, hd, hs, hok, hnn, Bool.not_true, Bool.false_eq_true,
    if_false]

/-- … with a body that `json.Unmarshal` does not store into the struct without error, or the literal
    `null`: an error, after consuming exactly the frame -/
theorem readStep_bad_body (e : Env) (o : Oracle) (t : Nat) (s : String) (body rest : Str)
    (hs : e.structOf t = some s) (hl : body.length ≤ e.max) (hmax : e.max < 9223372036854775808)
    (hbad : bodyOk e o s body = false ∨ isNullLit body = true) :
    readStep e o (encode t body ++ rest) = .reject (9 + body.length) := by
  have hd := decode_encode e.max e.known t body rest (known_of_structOf hs) hl hmax
  rcases hbad with hb | hb
  · simp only [readStep, Frame.readMsg, readMsgGolib, hd, hs, hb, Bool.not_false, if_true]
  · cases hok : bodyOk e o s body
    · simp only [readStep, Frame.readMsg, readMsgGolib, hd, hs, hok, Bool.not_false, if_true]
    · simp only [readStep, Frame.readMsg, readMsgGolib, hd, hs, hok, hb, Bool.not_true,
        Bool.false_eq_true, if_false, if_true]

/-- unknown type byte: an error after one byte, whatever follows -/
theorem readStep_unknown_type (e : Env) (o : Oracle) (t : Nat) (r : Str) (hk : e.known t = false) :
    readStep e o (t :: r) = .reject 1 := by
  have hd := decode_unknown_type e.max e.known t r hk
  simp only [readStep, hd, needMore, Bool.false_eq_true, if_false]

/-- negative length: an error after the header, whatever follows -/
theorem readStep_negative (e : Env) (o : Oracle) (t b0 : Nat) (tl r : Str)
    (hk : e.known t = true) (hl : tl.length = 7) (hb : IsBytes (b0 :: tl)) (htop : 128 ≤ b0) :
    readStep e o (t :: ((b0 :: tl) ++ r)) = .reject 9 := by
  have hd := decode_negative e.max e.known t b0 tl r hk hl hb htop
  simp only [readStep, hd, needMore, Bool.false_eq_true, if_false]

/-- oversized length: an error after the header, whatever follows (the body is never waited for) -/
theorem readStep_oversize (e : Env) (o : Oracle) (t n : Nat) (r : Str)
    (hk : e.known t = true) (hn : e.max < n) (hn2 : n < 9223372036854775808) :
    readStep e o (t :: (be64 n ++ r)) = .reject 9 := by
  have hd := decode_oversize e.max e.known t n r hk hn hn2
  simp only [readStep, hd, needMore, Bool.false_eq_true, if_false]

/-- `readStep` never reports a message for an input on which `Frame.readMsg` does not: the tie to the
    decoder model of §6 of Props/C17 (same function, json verdict := `bodyOk`) -/
theorem readStep_msg_sound (e : Env) (o : Oracle) (inp : Str) (s : String) (body rest : Str) (c : Nat)
    (h : readStep e o inp = .msg s body rest c) :
    ∃ t, (decodeFull e.max e.known inp) = ⟨.ok t body rest, c, (decodeFull e.max e.known inp).bodyAlloc⟩
      ∧ e.structOf t = some s ∧ bodyOk e o s body = true ∧ isNullLit body = false := by
  unfold readStep at h
  cases hres : (decodeFull e.max e.known inp).res with
  | err er =>
    simp only [hres] at h
    split at h <;> cases h
  | ok t body' rest' =>
    simp only [hres] at h
    cases hs : e.structOf t with
    | none =>
      simp only [Frame.readMsg, readMsgGolib, hres, hs, Bool.not_false, if_true] at h
      cases h
    | some s' =>
      cases hok : bodyOk e o s' body' with
      | false =>
        simp only [Frame.readMsg, readMsgGolib, hres, hs, hok, Bool.not_false, if_true] at h
        cases h
      | true =>
        cases hn : isNullLit body' with
        | true =>
          simp only [Frame.readMsg, readMsgGolib, hres, hs, hok, hn, Bool.not_true, Bool.false_eq_true,
            if_false, if_true] at h
          cases h
        | false =>
          simp only [Frame.readMsg, readMsgGolib, hres, hs, hok, hn, Bool.not_true, Bool.false_eq_true,
            if_false] at h
          injection h with h1 h2 h3 h4
          subst h1; subst h2; subst h3
          refine ⟨t, ?_, hs, hok, hn⟩
          cases hd : decodeFull e.max e.known inp with
          | mk r c' a =>
            rw [hd] at hres h4
            simp only at hres h4
            subst hres; subst h4
            rfl

/-! ## 2. reasons for which a body is rejected (each makes `bodyOk` false) -/

/-- not a JSON text (syntax error, trailing garbage inside the declared length, empty body, …) -/
theorem bodyOk_syntax (e : Env) (o : Oracle) (s : String) (body : Str) (h : o.parse body = none) :
    bodyOk e o s body = false := by
  simp [bodyOk, h]

/-- a JSON text whose top-level value is not an object (`null`, number, string, bool, array) -/
theorem bodyOk_toplevel (e : Env) (o : Oracle) (s : String) (body : Str) (j : J)
    (h : o.parse body = some j) (hno : ∀ ms, j ≠ .obj ms) : bodyOk e o s body = false := by
  unfold bodyOk
  rw [h]
  cases j with
  | obj ms => exact absurd rfl (hno ms)
  | _ => rfl

/-- FIELD level: one member that matches a field of the struct and does not fit it makes the whole body
    an error — whatever the other members are, wherever it stands -/
theorem membersFit_bad_member (ipOk : Str → Bool) (subFits : String → List (Str × J) → Bool)
    (fs : List FieldS) (ms : List (Str × J)) (k : Str) (v : J) (f : FieldS)
    (hm : (k, v) ∈ ms) (hf : findField fs k = some f) (hbad : fitsF ipOk subFits f v = false) :
    membersFit ipOk subFits fs ms = false := by
  unfold membersFit
  rw [List.all_eq_false]
  exact ⟨(k, v), hm, by simp [hf, hbad]⟩

theorem bodyOk_bad_field (e : Env) (o : Oracle) (s : String) (body : Str) (ms : List (Str × J))
    (k : Str) (v : J) (f : FieldS)
    (h : o.parse body = some (.obj ms)) (hm : (k, v) ∈ ms) (hf : findField (e.sch.fieldsOf s) k = some f)
    (hbad : fitsF o.ipOk (fits1 o.ipOk e.sch) f v = false) : bodyOk e o s body = false := by
  unfold bodyOk fits2
  rw [h]
  exact membersFit_bad_member _ _ _ ms k v f hm hf hbad

/-- the JSON type a field kind accepts (besides `null`) -/
inductive JT
  | str | bool | num | arr | obj | null
  deriving DecidableEq, Repr

def jtype : J → JT
  | .null => .null
  | .bool _ => .bool
  | .num _ => .num
  | .real _ => .num
  | .str _ => .str
  | .arr _ => .arr
  | .obj _ => .obj

def kindJT : Kind → JT
  | .str => .str
  | .bool => .bool
  | .int => .num
  | .strs => .arr
  | .smap => .obj
  | .udp => .obj
  | .sub _ => .obj
  | .subs _ => .arr
  | .unknown => .null

/-- a value of the WRONG JSON TYPE for its field (string ↔ number ↔ bool ↔ object ↔ array; e.g.
    `"remote_port":"6000"`, `"timestamp":"1700000000"`, `"always_auth_pass":"yes"`) never fits -/
theorem fitsF_wrong_type (ipOk : Str → Bool) (subFits : String → List (Str × J) → Bool) (f : FieldS) (j : J)
    (hn : jtype j ≠ .null) (hw : jtype j ≠ kindJT f.kind) : fitsF ipOk subFits f j = false := by
  cases j <;> cases hk : f.kind <;> simp_all [fitsF, jtype, kindJT]

/-- a number that is not an integer literal (fraction, exponent) fits no field -/
theorem fitsF_real (ipOk : Str → Bool) (subFits : String → List (Str × J) → Bool) (f : FieldS) (t : Str)
    (ht : t ≠ negZero) : fitsF ipOk subFits f (.real t) = false := by
  cases hk : f.kind <;> simp [fitsF, hk, ht]

/-- `-0`: an integer literal for a signed field (`strconv.ParseInt`, value 0), refused for an unsigned one
    (`strconv.ParseUint` takes no sign) and for every other kind -/
theorem fitsF_neg_zero (ipOk : Str → Bool) (subFits : String → List (Str × J) → Bool) (f : FieldS) :
    fitsF ipOk subFits f (.real negZero) = (decide (f.kind = .int) && decide (f.lo < 0)) := by
  cases hk : f.kind <;> simp [fitsF, hk]

/-- member names fold as encoding/json folds them: ASCII case, and the two non-ASCII runes whose folding orbit
    holds an ASCII letter -/
theorem lower_examples :
    lower (Str.ofString "Proxy_Name") = Str.ofString "proxy_name"
    ∧ lower [226, 132, 170] = [107] ∧ lower [197, 191] = [115]          -- KELVIN SIGN ↦ k, LONG S ↦ s
    ∧ lower [195, 137] = [195, 137] := by decide +kernel                -- É stays (never an ASCII name)

/-- an integer outside the range of the Go type (int64 / uint16) does not fit -/
theorem fitsF_out_of_range (ipOk : Str → Bool) (subFits : String → List (Str × J) → Bool) (f : FieldS) (i : Int)
    (h : i < f.lo ∨ f.hi < i) : fitsF ipOk subFits f (.num i) = false := by
  cases hk : f.kind <;> simp [fitsF, hk]
  omega

/-- a wrong-typed element inside a `[]string` / a wrong-typed value inside a `map[string]string` -/
theorem fitsF_bad_element (ipOk : Str → Bool) (subFits : String → List (Str × J) → Bool) (f : FieldS)
    (l : List J) (x : J) (hk : f.kind = .strs) (hx : x ∈ l) (hbad : isStrOrNull x = false) :
    fitsF ipOk subFits f (.arr l) = false := by
  simp only [fitsF, hk]
  rw [List.all_eq_false]
  exact ⟨x, hx, by simp [hbad]⟩

theorem fitsF_bad_map_value (ipOk : Str → Bool) (subFits : String → List (Str × J) → Bool) (f : FieldS)
    (ms : List (Str × J)) (kv : Str × J) (hk : f.kind = .smap) (hx : kv ∈ ms) (hbad : isStrOrNull kv.2 = false) :
    fitsF ipOk subFits f (.obj ms) = false := by
  simp only [fitsF, hk]
  rw [List.all_eq_false]
  exact ⟨kv, hx, by simp [hbad]⟩

/-- NESTED: a member of a nested struct (`client_spec`, `detect_behavior`) that does not fit makes the
    outer field not fit (and so, by `bodyOk_bad_field`, the whole body an error) -/
theorem fitsF_bad_nested (ipOk : Str → Bool) (sch : Schema) (f : FieldS) (n : String)
    (ms : List (Str × J)) (k : Str) (v : J) (g : FieldS)
    (hk : f.kind = .sub n) (hm : (k, v) ∈ ms) (hg : findField (sch.fieldsOf n) k = some g)
    (hbad : fitsF ipOk (fits0 ipOk sch) g v = false) :
    fitsF ipOk (fits1 ipOk sch) f (.obj ms) = false := by
  simp only [fitsF, hk, fits1]
  exact membersFit_bad_member _ _ _ ms k v g hm hg hbad

/-! ## 3. the read loop -/

/-- a (type byte, body) pair that `ReadMsg` accepts -/
def Good (e : Env) (o : Oracle) (g : Nat × Str) : Prop :=
  ∃ s, e.structOf g.1 = some s ∧ g.2.length ≤ e.max ∧ bodyOk e o s g.2 = true ∧ isNullLit g.2 = false

def targetOf (hs : List (String × Nat)) (df : Option Nat) (s : String) : Option Nat :=
  match hs.lookup s with
  | some h => some h
  | none => df

/-- the handler calls a list of accepted frames gives rise to, under a handler table: one per frame whose
    struct has a handler or for which a default handler exists, in stream order -/
def deliveries (e : Env) (hs : List (String × Nat)) (df : Option Nat) (gs : List (Nat × Str)) : List Delivery :=
  gs.filterMap (fun g => match e.structOf g.1 with
    | some s => (targetOf hs df s).map (fun h => ⟨h, s, g.2⟩)
    | none => none)

theorem target_eq (d : Disp) (s : String) : target d s = targetOf d.handlers d.dflt s := rfl

theorem frames_length_ge (gs : List (Nat × Str)) : gs.length ≤ (frames gs).length := by
  induction gs with
  | nil => simp [frames]
  | cons g gs ih =>
    simp only [frames, List.length_cons, List.length_append, encode_length]
    omega

/-- once `Done` is closed, the read loop does nothing any more -/
theorem readLoop_done (e : Env) (o : Oracle) (n : Nat) (d : Disp) (h : d.done = true) :
    readLoop e o n d = d := by
  cases n with
  | zero => rfl
  | succ n => simp [readLoop, h]

/-- blocked in the middle of a frame with the peer still there: the read loop stays where it is -/
theorem readLoop_wait (e : Env) (o : Oracle) (n : Nat) (d : Disp) (c : Nat) (hd : d.done = false)
    (hp : d.peerClosed = false) (hw : readStep e o d.buf = .wait c) : readLoop e o n d = d := by
  cases n with
  | zero => rfl
  | succ n => simp [readLoop, hd, hp, hw]

/-- the well-formed prefix: every accepted frame is consumed exactly and handed to its target, in order -/
theorem readLoop_goods (e : Env) (o : Oracle) (hmax : e.max < 9223372036854775808) (rest : Str) :
    ∀ (gs : List (Nat × Str)) (d : Disp) (fuel : Nat), (∀ g ∈ gs, Good e o g) → d.done = false →
      d.buf = frames gs ++ rest →
      readLoop e o (gs.length + fuel) d
        = readLoop e o fuel { d with buf := rest, consumed := d.consumed + (frames gs).length,
                                     log := d.log ++ deliveries e d.handlers d.dflt gs } := by
  intro gs
  induction gs with
  | nil =>
    intro d fuel _ _ hb
    simp only [frames, List.nil_append] at hb
    simp only [List.length_nil, Nat.zero_add, frames, Nat.add_zero, deliveries, List.filterMap_nil,
      List.append_nil]
    rw [← hb]
  | cons g gs ih =>
    intro d fuel hg hd hb
    obtain ⟨s, hs, hl, hok, hnn⟩ := hg g List.mem_cons_self
    have hstep := readStep_good e o g.1 s g.2 (frames gs ++ rest) hs hl hmax hok hnn
    have hlen : (g :: gs).length + fuel = (gs.length + fuel) + 1 := by simp only [List.length_cons]; omega
    have hg' : ∀ x ∈ gs, Good e o x := fun x hx => hg x (List.mem_cons_of_mem _ hx)
    obtain ⟨b1, b2, b3, b4, b5, b6, b7, b8, b9, b10, b11⟩ := d
    simp only at hd hb
    subst hd
    have hb' : b5 = encode g.1 g.2 ++ (frames gs ++ rest) := by
      rw [hb]; simp only [frames, List.append_assoc]
    subst hb'
    rw [hlen]
    simp only [readLoop, Bool.false_eq_true, if_false, hstep]
    cases ht : targetOf b1 b2 s with
    | none =>
      simp only [dispatch, target_eq, ht]
      rw [ih _ fuel hg' rfl rfl]
      congr 1
      simp only [Disp.mk.injEq, true_and, and_true, frames, List.length_append, encode_length,
        deliveries, List.filterMap_cons, hs, ht, Option.map_none]
      omega
    | some h =>
      simp only [dispatch, target_eq, ht]
      rw [ih _ fuel hg' rfl rfl]
      congr 1
      simp only [Disp.mk.injEq, true_and, and_true, frames, List.length_append, encode_length,
        deliveries, List.filterMap_cons, hs, ht, Option.map_some, List.append_assoc, List.singleton_append]
      omega

/-- MAIN (a rejected frame ends the session): the peer has sent accepted frames `gs`, then bytes `rest`
    on which `ReadMsg` fails (for ANY reason, `readStep … = .reject c`), then — inside `rest` — anything.
    Then `Done` is closed; the handler calls are exactly those of `gs`, in order — nothing from the rejected
    frame, nothing from what follows it; exactly `|frames gs| + c` bytes were taken from the connection. -/
theorem reject_ends_session (e : Env) (o : Oracle) (hmax : e.max < 9223372036854775808)
    (d : Disp) (gs : List (Nat × Str)) (rest : Str) (c : Nat)
    (hg : ∀ g ∈ gs, Good e o g) (hd : d.done = false) (hp : d.peerClosed = false) (hb : d.buf = [])
    (hr : readStep e o rest = .reject c) :
    let d' := step e o d (.recv (frames gs ++ rest))
    d'.done = true ∧ d'.log = d.log ++ deliveries e d.handlers d.dflt gs
      ∧ d'.consumed = d.consumed + (frames gs).length + c
      ∧ d'.handlers = d.handlers ∧ d'.dflt = d.dflt
      ∧ taken e o d' = d.consumed + (frames gs).length + c := by
  obtain ⟨b1, b2, b3, b4, b5, b6, b7, b8, b9, b10, b11⟩ := d
  simp only at hd hp hb
  subst hd; subst hp; subst hb
  have hfuel : ([] : Str).length + (frames gs ++ rest).length + 1
      = gs.length + ((frames gs).length - gs.length + rest.length + 1) := by
    have := frames_length_ge gs
    simp only [List.length_nil, List.length_append]; omega
  simp only [step, Bool.false_eq_true, if_false]
  rw [hfuel, readLoop_goods e o hmax rest gs _ _ hg rfl (by simp)]
  simp only [readLoop, Bool.false_eq_true, if_false, hr, taken, if_true]
  exact ⟨trivial, trivial, trivial, trivial, trivial, trivial⟩

/-- after that, whatever else the peer sends or does is never looked at: no further handler call -/
theorem nothing_after_done (e : Env) (o : Oracle) (d : Disp) (hd : d.done = true) (bytes : Str) :
    (step e o d (.recv bytes)).log = d.log ∧ (step e o d (.recv bytes)).done = true
      ∧ (step e o d .peerClose).log = d.log := by
  refine ⟨?_, ?_, ?_⟩
  · simp only [step]; split
    · rfl
    · rw [readLoop_done e o _ _ (by exact hd)]
  · simp only [step]; split
    · exact hd
    · rw [readLoop_done e o _ _ (by exact hd)]; exact hd
  · simp only [step]; rw [readLoop_done e o _ _ (by exact hd)]

/-- MAIN (a well-formed stream keeps the session): accepted frames followed by an incomplete frame (or
    nothing) and a peer that is still there — every frame dispatched, `Done` not closed, the loop waits
    with the incomplete bytes unread … -/
theorem wellformed_keeps_session (e : Env) (o : Oracle) (hmax : e.max < 9223372036854775808)
    (d : Disp) (gs : List (Nat × Str)) (rest : Str) (c : Nat)
    (hg : ∀ g ∈ gs, Good e o g) (hd : d.done = false) (hp : d.peerClosed = false) (hb : d.buf = [])
    (hr : readStep e o rest = .wait c) :
    let d' := step e o d (.recv (frames gs ++ rest))
    d'.done = false ∧ d'.log = d.log ++ deliveries e d.handlers d.dflt gs
      ∧ d'.consumed = d.consumed + (frames gs).length ∧ d'.buf = rest
      ∧ taken e o d' = d.consumed + (frames gs).length + c := by
  obtain ⟨b1, b2, b3, b4, b5, b6, b7, b8, b9, b10, b11⟩ := d
  simp only at hd hp hb
  subst hd; subst hp; subst hb
  have hfuel : ([] : Str).length + (frames gs ++ rest).length + 1
      = gs.length + ((frames gs).length - gs.length + rest.length + 1) := by
    have := frames_length_ge gs
    simp only [List.length_nil, List.length_append]; omega
  simp only [step, Bool.false_eq_true, if_false]
  rw [hfuel, readLoop_goods e o hmax rest gs _ _ hg rfl (by simp)]
  rw [readLoop_wait e o _ _ c rfl rfl (by exact hr)]
  refine ⟨rfl, rfl, rfl, rfl, ?_⟩
  simp only [taken, Bool.false_eq_true, if_false, hr]

/-- … and when the peer then closes, the blocked read fails and `Done` closes, with no further call -/
theorem peer_close_ends_session (e : Env) (o : Oracle) (d : Disp) (c : Nat) (hd : d.done = false)
    (hr : readStep e o d.buf = .wait c) :
    (step e o d .peerClose).done = true ∧ (step e o d .peerClose).log = d.log
      ∧ (step e o d .peerClose).consumed = d.consumed + c := by
  simp only [step, readLoop, hd, Bool.false_eq_true, if_false, hr, if_true]
  exact ⟨trivial, trivial, trivial⟩

/-- an empty buffer waits (so the two theorems above cover "only whole frames so far") -/
theorem readStep_nil (e : Env) (o : Oracle) : readStep e o [] = .wait 0 := by
  simp [readStep, decodeFull, needMore]

/-- every handler call is for a struct the handler was registered for, or a call of the default
    handler for a struct without one: a message is never handed to the handler of another type -/
theorem deliveries_target (e : Env) (hs : List (String × Nat)) (df : Option Nat) (gs : List (Nat × Str))
    (x : Delivery) (hx : x ∈ deliveries e hs df gs) :
    (hs.lookup x.sname = some x.handler) ∨ (hs.lookup x.sname = none ∧ df = some x.handler) := by
  simp only [deliveries, List.mem_filterMap] at hx
  obtain ⟨g, _, hg⟩ := hx
  cases hs' : e.structOf g.1 with
  | none => simp [hs'] at hg
  | some s =>
    simp only [hs', Option.map_eq_some_iff] at hg
    obtain ⟨h, ht, rfl⟩ := hg
    simp only [targetOf] at ht
    cases hl : hs.lookup s with
    | none => rw [hl] at ht; right; exact ⟨rfl, ht⟩
    | some h' => rw [hl] at ht; left; exact ht

/-- EVERY byte stream splits into accepted frames followed by a remainder on which `ReadMsg` either fails
    or waits: together with `reject_ends_session` / `wellformed_keeps_session` this decides the
    dispatcher's behaviour on all inputs -/
theorem stream_decomposition (e : Env) (o : Oracle) (hmax : e.max < 9223372036854775808) :
    ∀ (n : Nat) (inp : Str), inp.length ≤ n → IsBytes inp →
      ∃ gs rest c, inp = frames gs ++ rest ∧ (∀ g ∈ gs, Good e o g)
        ∧ (readStep e o rest = .reject c ∨ readStep e o rest = .wait c) := by
  intro n
  induction n with
  | zero =>
    intro inp hl _
    have : inp = [] := List.eq_nil_of_length_eq_zero (by omega)
    subst this
    exact ⟨[], [], 0, rfl, by simp, Or.inr (readStep_nil e o)⟩
  | succ n ih =>
    intro inp hl hb
    cases hr : readStep e o inp with
    | reject c => exact ⟨[], inp, c, rfl, by simp, Or.inl hr⟩
    | wait c => exact ⟨[], inp, c, rfl, by simp, Or.inr hr⟩
    | msg s body rest c =>
      obtain ⟨t, hd, hs, hok, hnn⟩ := readStep_msg_sound e o inp s body rest c hr
      have hres : (decodeFull e.max e.known inp).res = .ok t body rest := by rw [hd]
      obtain ⟨_, hlen, hinp, _, _⟩ := decode_ok_sound e.max e.known inp t body rest hb hmax hres
      have hrl : rest.length ≤ n := by
        have := congrArg List.length hinp
        rw [List.length_append, encode_length] at this
        omega
      have hrb : IsBytes rest := fun b hm => hb b (by rw [hinp]; exact List.mem_append_right _ hm)
      obtain ⟨gs, rest', c', h1, h2, h3⟩ := ih rest hrl hrb
      refine ⟨(t, body) :: gs, rest', c', ?_, ?_, h3⟩
      · rw [hinp, h1]; simp only [frames, List.append_assoc]
      · intro g hg
        rcases List.mem_cons.mp hg with rfl | hg
        · exact ⟨s, hs, hlen, hok, hnn⟩
        · exact h2 g hg

/-! ### the result does not depend on how the peer's bytes are cut into writes -/

/-- a definite framing error (unknown type, negative / oversized length) is decided by the bytes that
    are there: whatever arrives later changes nothing -/
theorem decodeFull_err_stable (max : Nat) (known : Nat → Bool) (inp x : Str) (er : Err)
    (h : (decodeFull max known inp).res = .err er) (hn : needMore er = false) :
    decodeFull max known (inp ++ x) = decodeFull max known inp := by
  match inp with
  | [] => simp [decodeFull] at h; subst h; simp [needMore] at hn
  | t :: r1 =>
    simp only [List.cons_append, decodeFull] at h ⊢
    by_cases hk : (!known t) = true
    · simp only [hk, if_true]
    · simp only [hk, Bool.false_eq_true, if_false] at h ⊢
      by_cases h8 : r1.length < 8
      · simp only [h8, if_true] at h
        injection h with h
        subst h
        split at hn <;> simp [needMore] at hn
      · have h8' : ¬ ((r1 ++ x).length < 8) := by rw [List.length_append]; omega
        have htk : (r1 ++ x).take 8 = r1.take 8 := List.take_append_of_le_length (by omega)
        simp only [h8, h8', htk, if_false] at h ⊢
        by_cases hgt : toInt64 (unbe64 (r1.take 8)) > (max : Int)
        · simp only [hgt, if_true]
        · simp only [hgt, if_false] at h ⊢
          by_cases hneg : toInt64 (unbe64 (r1.take 8)) < 0
          · simp only [hneg, if_true]
          · simp only [hneg, if_false] at h ⊢
            by_cases hs : (r1.drop 8).length < (toInt64 (unbe64 (r1.take 8))).toNat
            · simp only [hs, if_true] at h
              injection h with h
              subst h
              split at hn <;> simp [needMore] at hn
            · simp only [hs, if_false] at h
              cases h

theorem readStep_msg_stable (e : Env) (o : Oracle) (hmax : e.max < 9223372036854775808) (inp x : Str)
    (hb : IsBytes inp) (s : String) (body rest : Str) (c : Nat) (h : readStep e o inp = .msg s body rest c) :
    readStep e o (inp ++ x) = .msg s body (rest ++ x) c
      ∧ inp = (encode (inp.headD 0) body) ++ rest ∧ c = 9 + body.length := by
  obtain ⟨t, hd, hs, hok, hnn⟩ := readStep_msg_sound e o inp s body rest c h
  have hres : (decodeFull e.max e.known inp).res = .ok t body rest := by rw [hd]
  obtain ⟨_, hlen, hinp, hc, _⟩ := decode_ok_sound e.max e.known inp t body rest hb hmax hres
  have hc' : c = 9 + body.length := by rw [hd] at hc; exact hc
  refine ⟨?_, ?_, hc'⟩
  · rw [hinp, List.append_assoc, hc']
    exact readStep_good e o t s body (rest ++ x) hs hlen hmax hok hnn
  · have : inp.headD 0 = t := by rw [hinp]; simp [encode]
    rw [this]; exact hinp

theorem readStep_reject_stable (e : Env) (o : Oracle) (hmax : e.max < 9223372036854775808) (inp x : Str)
    (hb : IsBytes inp) (c : Nat) (h : readStep e o inp = .reject c) :
    readStep e o (inp ++ x) = .reject c ∧ c ≤ inp.length := by
  have hle := (decode_bounded e.max e.known inp).2
  cases hres : (decodeFull e.max e.known inp).res with
  | err er =>
    have h' := h
    simp only [readStep, hres] at h'
    by_cases hn : needMore er = true
    · simp [hn] at h'
    · have hn' : needMore er = false := by simpa using hn
      simp only [hn', Bool.false_eq_true, if_false] at h'
      injection h' with h'
      have hst := decodeFull_err_stable e.max e.known inp x er hres hn'
      refine ⟨?_, by omega⟩
      simp only [readStep, hst, hres, hn', Bool.false_eq_true, if_false, h']
  | ok t body rest =>
    obtain ⟨hk, hlen, hinp, hc, _⟩ := decode_ok_sound e.max e.known inp t body rest hb hmax hres
    obtain ⟨s, hs⟩ := Option.isSome_iff_exists.mp hk
    have hc2 : c = 9 + body.length := by
      have h' := h
      simp only [readStep, hres] at h'
      split at h'
      · cases h'
      · injection h' with h'; omega
    by_cases hgood : bodyOk e o s body = true ∧ isNullLit body = false
    · have := readStep_good e o t s body rest hs hlen hmax hgood.1 hgood.2
      rw [← hinp, h] at this
      cases this
    · have hbad : bodyOk e o s body = false ∨ isNullLit body = true := by
        cases h1 : bodyOk e o s body <;> cases h2 : isNullLit body <;> simp_all
      refine ⟨?_, by omega⟩
      rw [hinp, List.append_assoc, hc2]
      exact readStep_bad_body e o t s body (rest ++ x) hs hlen hmax hbad

theorem dispatch_buf (d : Disp) (s : String) (body b : Str) :
    dispatch { d with buf := b } s body = { dispatch d s body with buf := b } := by
  simp only [dispatch, target]
  split <;> rfl

theorem dispatch_fields (d : Disp) (s : String) (body : Str) :
    (dispatch d s body).buf = d.buf ∧ (dispatch d s body).done = d.done
      ∧ (dispatch d s body).peerClosed = d.peerClosed := by
  simp only [dispatch]
  split <;> exact ⟨rfl, rfl, rfl⟩

/-- with more fuel than bytes the result of the read loop does not depend on the fuel -/
theorem readLoop_fuel (e : Env) (o : Oracle) (hmax : e.max < 9223372036854775808) :
    ∀ (n m : Nat) (d : Disp), d.buf.length < n → d.buf.length < m → IsBytes d.buf →
      readLoop e o n d = readLoop e o m d := by
  intro n
  induction n with
  | zero => intro m d h; omega
  | succ n ih =>
    intro m d hn hm hb
    cases m with
    | zero => omega
    | succ m =>
      simp only [readLoop]
      split
      · rfl
      · cases hr : readStep e o d.buf with
        | wait c => rfl
        | reject c => rfl
        | msg s body rest c =>
          simp only
          obtain ⟨_, hinp, _⟩ := readStep_msg_stable e o hmax d.buf [] hb s body rest c hr
          have hl : rest.length + 9 ≤ d.buf.length := by
            have := congrArg List.length hinp
            rw [List.length_append, encode_length] at this; omega
          have hrb : IsBytes rest := fun b hm' => hb b (by rw [hinp]; exact List.mem_append_right _ hm')
          have hf := dispatch_fields { d with buf := rest, consumed := d.consumed + c } s body
          apply ih
          · rw [hf.1]; simp only; omega
          · rw [hf.1]; simp only; omega
          · rw [hf.1]; exact hrb

theorem readLoop_append (e : Env) (o : Oracle) (hmax : e.max < 9223372036854775808) (x : Str) :
    ∀ (n : Nat) (d : Disp), d.buf.length < n → IsBytes d.buf → IsBytes x → d.peerClosed = false →
      readLoop e o ((readLoop e o n d).buf.length + x.length + 1)
          { readLoop e o n d with buf := (readLoop e o n d).buf ++ x }
        = readLoop e o (n + x.length) { d with buf := d.buf ++ x } := by
  intro n
  induction n with
  | zero => intro d h; omega
  | succ n ih =>
    intro d hn hb hx hp
    have hbx : IsBytes (d.buf ++ x) := fun b hm => by
      rcases List.mem_append.mp hm with h | h
      · exact hb b h
      · exact hx b h
    obtain ⟨b1, b2, b3, b4, b5, b6, b7, b8, b9, b10, b11⟩ := d
    simp only at hn hb hp hbx
    subst hp
    cases b3 with
    | true =>
      rw [readLoop_done e o (n + 1) _ rfl, readLoop_done e o _ _ rfl, readLoop_done e o _ _ rfl]
    | false =>
      cases hr : readStep e o b5 with
      | wait c =>
        rw [readLoop_wait e o (n + 1) _ c rfl rfl hr]
        apply readLoop_fuel e o hmax
        · simp only [List.length_append]; omega
        · simp only [List.length_append]; omega
        · exact hbx
      | reject c =>
        obtain ⟨hst, hcl⟩ := readStep_reject_stable e o hmax b5 x hb c hr
        have h2 : n + 1 + x.length = (n + x.length) + 1 := by omega
        rw [h2]
        simp only [readLoop, Bool.false_eq_true, if_false, hr, hst, if_true]
        rw [List.drop_append_of_le_length hcl]
      | msg s body rest c =>
        obtain ⟨hst, hinp, _⟩ := readStep_msg_stable e o hmax b5 x hb s body rest c hr
        have hl : rest.length + 9 ≤ b5.length := by
          have := congrArg List.length hinp
          rw [List.length_append, encode_length] at this; omega
        have hrb : IsBytes rest := fun b hm' => hb b (by rw [hinp]; exact List.mem_append_right _ hm')
        have hf := dispatch_fields ⟨b1, b2, false, false, rest, b6 + c, b7, b8, b9, b10, b11⟩ s body
        have h1 : readLoop e o (n + 1) ⟨b1, b2, false, false, b5, b6, b7, b8, b9, b10, b11⟩
            = readLoop e o n (dispatch ⟨b1, b2, false, false, rest, b6 + c, b7, b8, b9, b10, b11⟩ s body) := by
          simp only [readLoop, Bool.false_eq_true, if_false, hr]
        have h3 : readLoop e o (n + 1 + x.length) ⟨b1, b2, false, false, b5 ++ x, b6, b7, b8, b9, b10, b11⟩
            = readLoop e o (n + x.length)
                (dispatch ⟨b1, b2, false, false, rest ++ x, b6 + c, b7, b8, b9, b10, b11⟩ s body) := by
          have h2 : n + 1 + x.length = (n + x.length) + 1 := by omega
          rw [h2]
          simp only [readLoop, Bool.false_eq_true, if_false, hst]
        rw [h1, h3]
        rw [ih (dispatch ⟨b1, b2, false, false, rest, b6 + c, b7, b8, b9, b10, b11⟩ s body)
          (by rw [hf.1]; simp only; omega) (by rw [hf.1]; exact hrb) hx (by rw [hf.2.2])]
        congr 1
        simp only [dispatch, target]
        split <;> rfl

/-- CHUNKING: the peer's bytes arriving in two writes `a`, `b` (cut anywhere — in the middle of a header, of
    a body, between frames) leave the dispatcher in the same state as their arrival in one write; by
    induction the same for any number of writes -/
theorem recv_append (e : Env) (o : Oracle) (hmax : e.max < 9223372036854775808) (d : Disp) (a b : Str)
    (hp : d.peerClosed = false) (hbuf : IsBytes d.buf) (ha : IsBytes a) (hb : IsBytes b) :
    step e o (step e o d (.recv a)) (.recv b) = step e o d (.recv (a ++ b)) := by
  have hpc : ∀ (n : Nat) (d0 : Disp), (readLoop e o n d0).peerClosed = d0.peerClosed := by
    intro n
    induction n with
    | zero => intro d0; rfl
    | succ n ih =>
      intro d0
      simp only [readLoop]
      split
      · rfl
      · split
        · rename_i s body rest c _
          rw [ih, (dispatch_fields _ s body).2.2]
        · split <;> rfl
        · rfl
  have hba : IsBytes (d.buf ++ a) := fun x hm => by
    rcases List.mem_append.mp hm with h | h
    · exact hbuf x h
    · exact ha x h
  have hbab : IsBytes (d.buf ++ a ++ b) := fun x hm => by
    rcases List.mem_append.mp hm with h | h
    · exact hba x h
    · exact hb x h
  obtain ⟨b1, b2, b3, b4, b5, b6, b7, b8, b9, b10, b11⟩ := d
  simp only at hp hbuf hba hbab
  subst hp
  have h2 : ∀ (d1 : Disp) (y : Str), d1.peerClosed = false →
      step e o d1 (.recv y) = readLoop e o (d1.buf.length + y.length + 1) { d1 with buf := d1.buf ++ y } := by
    intro d1 y h; simp only [step, h, Bool.false_eq_true, if_false]
  rw [h2 _ a rfl, h2 _ (a ++ b) rfl]
  have hp1 := hpc (b5.length + a.length + 1) ⟨b1, b2, b3, false, b5 ++ a, b6, b7, b8, b9, b10, b11⟩
  rw [h2 _ b hp1]
  have := readLoop_append e o hmax b (b5.length + a.length + 1) ⟨b1, b2, b3, false, b5 ++ a, b6, b7, b8, b9, b10, b11⟩
    (by simp only [List.length_append]; omega) hba hb rfl
  rw [this]
  simp only [List.append_assoc]
  apply readLoop_fuel e o hmax
  · simp only [List.length_append]; omega
  · simp only [List.length_append]; omega
  · simp only; rw [← List.append_assoc]; exact hbab

/-! ### the executable predicate, evaluated by the driver on what the REAL dispatcher did -/

/-- what the harness observes of one real `msg.Dispatcher` fed a byte stream: the handler calls in call
    order (which registered func, struct of the message), whether `Done()` is closed once the stream has
    been taken in, and how many bytes the dispatcher took from the connection -/
structure DObs where
  calls : List (Nat × String)
  done : Bool
  consumed : Nat
  deriving DecidableEq, Repr

def erase (l : List Delivery) : List (Nat × String) := l.map (fun x => (x.handler, x.sname))

/-- The property on one observed run: the handler calls are exactly those of the accepted prefix, in
    order; `Done` is closed iff the prefix is followed by something `ReadMsg` rejects (then exactly the
    prefix and the rejected bytes were consumed and NOTHING of the rejected frame or after it was
    dispatched); otherwise the session is kept and exactly the prefix was consumed -/
def DispSpec (e : Env) (o : Oracle) (hs : List (String × Nat)) (df : Option Nat) (stream : Str) (ob : DObs) : Prop :=
  ∃ gs rest c, stream = frames gs ++ rest ∧ (∀ g ∈ gs, Good e o g)
    ∧ ob.calls = erase (deliveries e hs df gs)
    ∧ ((readStep e o rest = .reject c ∧ ob.done = true ∧ ob.consumed = (frames gs).length + c)
       ∨ (readStep e o rest = .wait c ∧ ob.done = false ∧ ob.consumed = (frames gs).length + c))

def dispHoldsOn (e : Env) (o : Oracle) (hs : List (String × Nat)) (df : Option Nat) (stream : Str) (ob : DObs) : Bool :=
  let d' := step e o { handlers := hs, dflt := df } (.recv stream)
  ob.calls == erase d'.log && ob.done == d'.done && ob.consumed == taken e o d'

theorem dispHoldsOn_sound (e : Env) (o : Oracle) (hmax : e.max < 9223372036854775808)
    (hs : List (String × Nat)) (df : Option Nat) (stream : Str) (ob : DObs) (hb : IsBytes stream)
    (h : dispHoldsOn e o hs df stream ob = true) : DispSpec e o hs df stream ob := by
  obtain ⟨gs, rest, c, h1, h2, h3⟩ := stream_decomposition e o hmax stream.length stream (Nat.le_refl _) hb
  simp only [dispHoldsOn, Bool.and_eq_true, beq_iff_eq] at h
  obtain ⟨⟨hc, hd⟩, hn⟩ := h
  refine ⟨gs, rest, c, h1, h2, ?_, ?_⟩
  · rcases h3 with h3 | h3
    · have := reject_ends_session e o hmax { handlers := hs, dflt := df } gs rest c h2 rfl rfl rfl h3
      rw [hc, h1, this.2.1]; rfl
    · have := wellformed_keeps_session e o hmax { handlers := hs, dflt := df } gs rest c h2 rfl rfl rfl h3
      rw [hc, h1, this.2.1]; rfl
  · rcases h3 with h3 | h3
    · have := reject_ends_session e o hmax { handlers := hs, dflt := df } gs rest c h2 rfl rfl rfl h3
      left; refine ⟨h3, ?_, ?_⟩
      · rw [hd, h1, this.1]
      · rw [hn, h1, this.2.2.2.2.2]; simp
    · have := wellformed_keeps_session e o hmax { handlers := hs, dflt := df } gs rest c h2 rfl rfl rfl h3
      right; refine ⟨h3, ?_, ?_⟩
      · rw [hd, h1, this.1]
      · rw [hn, h1, this.2.2.2.2]; simp

/-- Handlers wrapped in `msg.AsyncHandler` (`func(m) { go f(m) }`; frps: the three nat-hole messages, frpc:
    ReqWorkConn): every call runs on a goroutine of its own, so the calls are observed as a MULTISET.  The
    property is the same with "in order" weakened to "up to a permutation": still exactly one call per accepted
    frame, to the handler of its type, none for the rejected frame or anything after it. -/
def DispSpecAsync (e : Env) (o : Oracle) (hs : List (String × Nat)) (df : Option Nat) (stream : Str) (ob : DObs) : Prop :=
  ∃ gs rest c, stream = frames gs ++ rest ∧ (∀ g ∈ gs, Good e o g)
    ∧ ob.calls.Perm (erase (deliveries e hs df gs))
    ∧ ((readStep e o rest = .reject c ∧ ob.done = true ∧ ob.consumed = (frames gs).length + c)
       ∨ (readStep e o rest = .wait c ∧ ob.done = false ∧ ob.consumed = (frames gs).length + c))

def dispHoldsOnAsync (e : Env) (o : Oracle) (hs : List (String × Nat)) (df : Option Nat) (stream : Str) (ob : DObs) : Bool :=
  let d' := step e o { handlers := hs, dflt := df } (.recv stream)
  ob.calls.isPerm (erase d'.log) && ob.done == d'.done && ob.consumed == taken e o d'

theorem dispHoldsOnAsync_sound (e : Env) (o : Oracle) (hmax : e.max < 9223372036854775808)
    (hs : List (String × Nat)) (df : Option Nat) (stream : Str) (ob : DObs) (hb : IsBytes stream)
    (h : dispHoldsOnAsync e o hs df stream ob = true) : DispSpecAsync e o hs df stream ob := by
  simp only [dispHoldsOnAsync, Bool.and_eq_true, beq_iff_eq] at h
  obtain ⟨⟨hc, hd⟩, hn⟩ := h
  have hsync : dispHoldsOn e o hs df stream
      ⟨erase (step e o { handlers := hs, dflt := df } (.recv stream)).log, ob.done, ob.consumed⟩ = true := by
    simp [dispHoldsOn, hd, hn]
  obtain ⟨gs, rest, c, h1, h2, h3, h4⟩ := dispHoldsOn_sound e o hmax hs df stream _ hb hsync
  refine ⟨gs, rest, c, h1, h2, ?_, h4⟩
  rw [← h3]
  exact List.isPerm_iff.mp hc

/-- the model's own run always meets the property (for every handler table, stream and oracle) -/
theorem model_dispHolds (e : Env) (o : Oracle) (hmax : e.max < 9223372036854775808)
    (hs : List (String × Nat)) (df : Option Nat) (stream : Str) (hb : IsBytes stream) :
    let d' := step e o { handlers := hs, dflt := df } (.recv stream)
    DispSpec e o hs df stream ⟨erase d'.log, d'.done, taken e o d'⟩ :=
  dispHoldsOn_sound e o hmax hs df stream _ hb (by simp [dispHoldsOn])

/-! ## 4. the send side: FIFO, nothing invented, nothing reordered -/

def SendInv (d : Disp) : Prop := d.wire ++ d.sendq = d.accepted

theorem readLoop_send_fields (e : Env) (o : Oracle) : ∀ (n : Nat) (d : Disp),
    (readLoop e o n d).wire = d.wire ∧ (readLoop e o n d).sendq = d.sendq
      ∧ (readLoop e o n d).accepted = d.accepted := by
  intro n
  induction n with
  | zero => intro d; exact ⟨rfl, rfl, rfl⟩
  | succ n ih =>
    intro d
    simp only [readLoop]
    split
    · exact ⟨rfl, rfl, rfl⟩
    · split
      · rename_i s body rest c _
        have h := ih (dispatch { d with buf := rest, consumed := d.consumed + c } s body)
        have hd : ∀ d0 : Disp, (dispatch d0 s body).wire = d0.wire ∧ (dispatch d0 s body).sendq = d0.sendq
            ∧ (dispatch d0 s body).accepted = d0.accepted := by
          intro d0; unfold dispatch; split <;> exact ⟨rfl, rfl, rfl⟩
        have h2 := hd { d with buf := rest, consumed := d.consumed + c }
        exact ⟨h.1.trans h2.1, h.2.1.trans h2.2.1, h.2.2.trans h2.2.2⟩
      · split <;> exact ⟨rfl, rfl, rfl⟩
      · exact ⟨rfl, rfl, rfl⟩

/-- for every op sequence: what has been written to the connection followed by what still waits in
    `sendCh` is exactly the sequence of messages `Send` accepted, in the order of the `Send` calls -/
theorem send_fifo (e : Env) (o : Oracle) (ops : List Op) (d : Disp) (h : SendInv d) :
    SendInv (run e o d ops) := by
  induction ops generalizing d with
  | nil => exact h
  | cons op ops ih =>
    apply ih
    unfold SendInv at h ⊢
    cases op with
    | register s hh => exact h
    | registerDefault hh => exact h
    | recv bytes =>
      simp only [step]
      split
      · exact h
      · have := readLoop_send_fields e o (d.buf.length + bytes.length + 1) { d with buf := d.buf ++ bytes }
        rw [this.1, this.2.1, this.2.2]; exact h
    | peerClose =>
      simp only [step]
      have := readLoop_send_fields e o 1 { d with peerClosed := true }
      rw [this.1, this.2.1, this.2.2]; exact h
    | send frame ok =>
      simp only [step]
      split
      · simp only [← h, List.append_assoc]
      · exact h
    | pump =>
      simp only [step]
      split
      · exact h
      · split
        · exact h
        · rename_i m q hq
          rw [hq] at h
          simp only [← h, List.append_assoc, List.singleton_append]
    | senderExit =>
      simp only [step]
      split <;> exact h

/-- before `Done`, with room in `sendCh`, `Send` cannot fail; after the loop ended AND `sendCh` is full it
    cannot succeed -/
theorem send_outcomes (d : Disp) :
    (d.done = false → sendAllowed d false = false)
    ∧ (sendCap ≤ d.sendq.length → sendAllowed d true = false) := by
  refine ⟨fun h => by simp [sendAllowed, h], fun h => ?_⟩
  simp only [sendAllowed, if_true, decide_eq_false_iff_not]
  omega

/-! ## 4b. the nat-hole message codec: encode ∘ encrypt, decrypt ∘ ReadMsgInto -/

/-- for EVERY cipher that decrypts what it encrypted: a message of a registered type with a body within the
    bound that fits the receiver's struct comes back, consuming exactly the frame, nothing left over -/
theorem nh_roundtrip (e : Env) (o : Oracle) (c : Cipher) (key iv : Str) (t : Nat) (s : String) (body : Str)
    (hc : ∀ p, c.dec key (c.enc key iv p) = some p)
    (hk : e.known t = true) (hl : body.length ≤ e.max) (hmax : e.max < 9223372036854775808)
    (hok : intoOk e o s body = true) :
    nhDecodeInto e o c key s (nhEncode c key iv t body) = .ok body [] (9 + body.length) := by
  have hd := decode_encode e.max e.known t body [] hk hl hmax
  rw [List.append_nil] at hd
  simp only [nhDecodeInto, nhEncode, hc, intoStep, hd, hok, if_true]

/-- whatever the decrypted bytes are (wrong key, tampered or truncated data): a message only when they start
    with a well-formed frame of a registered type whose body fits the receiver's struct — otherwise an error -/
theorem nh_decode_sound (e : Env) (o : Oracle) (c : Cipher) (key : Str) (s : String) (data body rest : Str) (n : Nat)
    (hmax : e.max < 9223372036854775808)
    (h : nhDecodeInto e o c key s data = .ok body rest n) :
    ∃ p t, c.dec key data = some p ∧ (IsBytes p → p = encode t body ++ rest ∧ e.known t = true ∧ body.length ≤ e.max)
      ∧ intoOk e o s body = true := by
  unfold nhDecodeInto at h
  cases hp : c.dec key data with
  | none => rw [hp] at h; cases h
  | some p =>
    rw [hp] at h
    simp only [intoStep] at h
    cases hres : (decodeFull e.max e.known p).res with
    | err er => rw [hres] at h; cases h
    | ok t body' rest' =>
      rw [hres] at h
      simp only at h
      split at h
      · rename_i hok
        injection h with h1 h2 h3
        subst h1; subst h2
        refine ⟨p, t, rfl, ?_, hok⟩
        intro hb
        obtain ⟨hk, hl, hinp, _, _⟩ := decode_ok_sound e.max e.known p t body' rest' hb hmax hres
        exact ⟨hinp, hk, hl⟩
      · cases h

/-! ## 5. the released protocol (registry and field table regenerated from pkg/msg/msg.go) -/

def env : Env := ⟨Gen.MsgSchema.registry, schema, maxLen⟩

theorem env_structOf (t : Nat) : env.structOf t = structOf t := rfl
theorem env_max : env.max < 9223372036854775808 := by decide

/-- every JSON member name of the protocol consists of lower-case ASCII letters, digits and `_`: a member
    whose name has no upper-case letter can match a field only exactly (the driver's value comparison
    relies on it; `findField` itself implements the folded lookup) -/
theorem schema_names_lowercase :
    ∀ r ∈ schema.rows, ∀ f ∈ r.2,
      f.json.all (fun b => (decide (97 ≤ b) && decide (b ≤ 122)) || (decide (48 ≤ b) && decide (b ≤ 57)) || b == 95) = true := by
  decide +kernel

/-- the integer ranges in the table are those of int / int64 / uint16 -/
theorem schema_int_ranges :
    ∀ r ∈ schema.rows, ∀ f ∈ r.2, f.kind = .int →
      (f.lo = -9223372036854775808 ∧ f.hi = 9223372036854775807) ∨ (f.lo = 0 ∧ f.hi = 65535) := by
  decide +kernel

/-! ### non-vacuity: the frames of the seeded change's class, on the real table -/

def exPing : Str := Str.ofString "{\"timestamp\":1}"
def exPingBad : Str := Str.ofString "{\"privilege_key\":\"k\",\"timestamp\":\"1700000000\"}"
def exProxyBad : Str := Str.ofString "{\"proxy_name\":\"p\",\"remote_port\":\"6000\"}"
def exLoginBad : Str := Str.ofString "{\"client_spec\":{\"always_auth_pass\":\"yes\"}}"
def exPortRange : Str := Str.ofString "{\"src_port\":65536}"

def exTable : List (Str × J) :=
  [ (exPing, .obj [(Str.ofString "timestamp", .num 1)]),
    (exPingBad, .obj [(Str.ofString "privilege_key", .str [107]), (Str.ofString "timestamp", .str (Str.ofString "1700000000"))]),
    (exProxyBad, .obj [(Str.ofString "proxy_name", .str [112]), (Str.ofString "remote_port", .str (Str.ofString "6000"))]),
    (exLoginBad, .obj [(Str.ofString "client_spec", .obj [(Str.ofString "always_auth_pass", .str (Str.ofString "yes"))])]),
    (exPortRange, .obj [(Str.ofString "src_port", .num 65536)]) ]

def exOracle : Oracle := ⟨fun b => exTable.lookup b, fun _ => true⟩

def exDisp : Disp := { handlers := [("Ping", 1), ("NewProxy", 2)], dflt := some 0 }

-- a good Ping is accepted and handed to the Ping handler; the session stays
example : Good env exOracle (104, exPing) := ⟨"Ping", by decide +kernel, by decide +kernel, by decide +kernel, by decide +kernel⟩
example : (step env exOracle exDisp (.recv (encode 104 exPing))).log = [⟨1, "Ping", exPing⟩]
    ∧ (step env exOracle exDisp (.recv (encode 104 exPing))).done = false := by decide +kernel
-- a string where the protocol has an int64 / an int / a nested bool, an out-of-range uint16: rejected
example : bodyOk env exOracle "Ping" exPingBad = false ∧ bodyOk env exOracle "NewProxy" exProxyBad = false
    ∧ bodyOk env exOracle "Login" exLoginBad = false ∧ bodyOk env exOracle "StartWorkConn" exPortRange = false := by
  decide +kernel
-- Ping, then NewProxy with `"remote_port":"6000"`, then another good Ping: one call, Done closed, the
-- third frame is never read (consumed = first two frames)
example :
    let d := step env exOracle exDisp (.recv (encode 104 exPing ++ encode 112 exProxyBad ++ encode 104 exPing))
    d.log = [⟨1, "Ping", exPing⟩] ∧ d.done = true
      ∧ d.consumed = (encode 104 exPing).length + (encode 112 exProxyBad).length := by decide +kernel
-- the type check accepts what the encoder writes for a (three-level) message value
example : (match toObj2 schema "NatHoleResp" sampleResp with
    | .obj ms => fits2 (fun _ => true) schema "NatHoleResp" ms
    | _ => false) = true := by decide +kernel
-- a message without a registered handler goes to the default handler; without one, to nobody
example : (step env exOracle exDisp (.recv (encode 52 exPing))).log = [⟨0, "Pong", exPing⟩] := by decide +kernel
example : (step env exOracle { exDisp with dflt := none } (.recv (encode 52 exPing))).log = [] := by decide +kernel
-- delivery in two chunks, split in the middle of the header, gives the same result
example : run env exOracle exDisp [.recv ((encode 104 exPing).take 4), .recv ((encode 104 exPing).drop 4)]
    = step env exOracle exDisp (.recv (encode 104 exPing)) := by decide +kernel
-- the predicate is not trivially true: it rejects a run that dispatched the half-decoded NewProxy
example : dispHoldsOn env exOracle exDisp.handlers exDisp.dflt (encode 104 exPing ++ encode 112 exProxyBad)
    ⟨[(1, "Ping")], true, (encode 104 exPing).length + (encode 112 exProxyBad).length⟩ = true := by decide +kernel
example : dispHoldsOn env exOracle exDisp.handlers exDisp.dflt (encode 104 exPing ++ encode 112 exProxyBad)
    ⟨[(1, "Ping"), (2, "NewProxy")], false, (encode 104 exPing).length + (encode 112 exProxyBad).length⟩ = false := by
  decide +kernel

end C17
end Frp
