import Frp.Model.Wire
import Frp.Model.WireReload
import Frp.Model.WireConfig
import Frp.Model.WireHist
import Frp.Gen.AuthFacts
/-
  C05 — Configured encryption really protects the wire; TLS identity rules are enforced.   (PARTIAL)

  Model: Frp/Model/Wire.lean.  What is proved is about WHICH layers every message / payload byte
  passes before it reaches the socket, for every configuration, and about the decisions
  (first-byte sniff, forced TLS, tls.Config fields).  That a TLS / AES-CFB layer hides its plaintext
  is cryptography and is not expressible here; the engine `wire` observes marker absence on a
  recording relay between a real frpc and a real frps.

  `C05Full` (below) is the property as written; the proved clauses are its layer-level reading.

  The forced-TLS / trusted-CA / client-identity clauses are stated per LISTENER (§B2: tcp, tls-muxed,
  kcp, websocket, quic — the QUIC listener has its own tls.Config, `quicServerTls`, a clone of
  `svr.tlsConfig`) and per CONTROL TRANSPORT at session level (§C2), not only for the default tcp path.
-/
namespace Frp
namespace C05
open Wire

/-- The property as written (not provable in this setting: "does not appear" quantifies over the
    bytes AES/TLS produce).  Kept visible; the theorems below prove its layer-level reading. -/
def C05Full : Prop :=
  ∀ (cfg : PathCfg), onNetworkPath cfg = true →
    (cfg.tls = true → ∀ k, contentClear cfg k = false) ∧
    (cfg.useEncryption = true → payloadClear cfg = false) ∧
    (∀ s, clearOnPath cfg s = false)

/-! ## A. first-byte sniff: exact partition of the byte space -/

theorem sniff_custom_iff (b : Nat) (f : Bool) : sniff b f = .customTLS ↔ b = 0x17 := by
  unfold sniff; split
  · simp [*]
  · split
    · simp [*]
    · split <;> simp [*]

theorem sniff_tls_iff (b : Nat) (f : Bool) : sniff b f = .tls ↔ b = 0x16 := by
  unfold sniff; split
  · rename_i h; subst h; simp
  · split
    · simp [*]
    · split <;> simp [*]

theorem sniff_plain_iff (b : Nat) (f : Bool) :
    sniff b f = .plain ↔ b ≠ 0x17 ∧ b ≠ 0x16 ∧ f = false := by
  unfold sniff; split
  · simp [*]
  · split
    · simp [*]
    · split <;> simp [*]

theorem sniff_refuse_iff (b : Nat) (f : Bool) :
    sniff b f = .refuse ↔ b ≠ 0x17 ∧ b ≠ 0x16 ∧ f = true := by
  unfold sniff; split
  · simp [*]
  · split
    · simp [*]
    · split <;> simp [*]

/-- **forced TLS**: whatever the first byte (all 256 values and beyond), a forcing server never
    treats the connection as plaintext. -/
theorem sniff_force_never_plain (b : Nat) : sniff b true ≠ .plain := by
  intro h
  have := (sniff_plain_iff b true).mp h
  simp at this

/-- without force nothing is refused at the sniff -/
theorem sniff_noforce_never_refuse (b : Nat) : sniff b false ≠ .refuse := by
  intro h
  have := (sniff_refuse_iff b false).mp h
  simp at this

/-- the sniffed byte is swallowed exactly for the custom byte -/
theorem firstByte_consumed_iff (b : Nat) (f : Bool) (h : sniff b f ≠ .refuse) :
    firstByteReplayed (sniff b f) = false ↔ b = 0x17 := by
  rw [← sniff_custom_iff b f]
  cases hs : sniff b f <;> simp_all [firstByteReplayed]

/-! ## B. forced TLS / trusted CA on the server -/

/-- `ServerTransportConfig.Complete`: force ∨ trusted CA -/
theorem serverForce_iff (s : ServerCfg) :
    serverForce s = true ↔ s.force = true ∨ s.trustedCA = true := by
  simp [serverForce, ServerCfg.complete]

/-- **a peer without TLS gets no protocol message interpreted by a forcing server** — for every
    first byte: `handleConnection`/`msg.ReadMsg` is never reached, no reply frame is produced. -/
theorem forced_plain_peer_uninterpreted (s : ServerCfg) (b : Nat) (h : serverForce s = true) :
    reachesReadMsg s b false = false ∧ rawReply s b = none := by
  have hr : reachesReadMsg s b false = false := by
    unfold reachesReadMsg
    rw [h]
    cases hs : sniff b true <;> simp
    exact absurd hs (sniff_force_never_plain b)
  exact ⟨hr, by simp [rawReply, hr]⟩

/-- `NewServerTLSConfig`: RequireAndVerifyClientCert iff a CA is configured (and then TLS is forced) -/
theorem serverTls_clientAuth_iff (s : ServerCfg) :
    (serverTls s).clientAuth = .requireAndVerify ↔ s.trustedCA = true := by
  cases h : s.trustedCA <;> simp [serverTls, serverTlsOf, h]

theorem ca_forces_and_requires (s : ServerCfg) (h : s.trustedCA = true) :
    serverForce s = true ∧ (serverTls s).clientAuth = .requireAndVerify ∧
      (serverTls s).hasClientCAs = true := by
  refine ⟨(serverForce_iff s).mpr (Or.inr h), (serverTls_clientAuth_iff s).mpr h, ?_⟩
  simp [serverTls, serverTlsOf, h]

/-- **trusted CA**: a peer that presents no certificate, or one not signed by the server's CA,
    gets nothing interpreted whatever first byte it sends and however it configures its side. -/
theorem ca_peer_without_acceptable_cert_uninterpreted (s : ServerCfg) (ct : ClientTls) (p : Pki)
    (b : Nat) (hca : s.trustedCA = true)
    (hbad : ct.hasCert = false ∨ p.cliCertIssuer ≠ some p.srvClientCA) :
    reachesReadMsg s b (handshakeOk s ct p) = false := by
  have hf := (ca_forces_and_requires s hca).1
  have hc : clientCertAccepted (serverTls s) ct p = false := by
    unfold clientCertAccepted
    rw [(serverTls_clientAuth_iff s).mpr hca]
    rcases hbad with h | h
    · simp [h]
    · simp [h]
  have hh : handshakeOk s ct p = false := by simp [handshakeOk, hc]
  rw [hh]
  exact (forced_plain_peer_uninterpreted s b hf).1

/-! ## B2. the same two rules on EVERY listener (tcp, tls-muxed, kcp, websocket, quic) -/

theorem listeners_complete (l : Listener) : l ∈ Listener.all := by
  cases l <;> decide

/-- every listener on the network is either sniffed by `HandleListener(l, false)` or is the QUIC
    listener; the only un-gated listener is the in-process one -/
theorem public_listener_gate (l : Listener) :
    (l.isPublic = true ↔ l.gate ≠ .internal) ∧
    (l.gate = .quicTls ↔ l = .quic) ∧ (l.gate = .internal ↔ l = .sshTunnel) := by
  cases l <;> simp [Listener.isPublic, Listener.gate]

/-- `quicTLSCfg = tlsConfig.Clone()` + NextProtos: the QUIC listener's config has the SAME client
    authentication mode, client CA pool and certificate as `svr.tlsConfig`; only ALPN differs -/
theorem quic_tls_inherits_identity (s : ServerCfg) :
    (quicServerTls s).clientAuth = (serverTls s).clientAuth ∧
    (quicServerTls s).hasClientCAs = (serverTls s).hasClientCAs ∧
    (quicServerTls s).randomCert = (serverTls s).randomCert ∧
    (quicServerTls s).nextProtos = [frpALPN] ∧
    { quicServerTls s with nextProtos := (serverTls s).nextProtos } = serverTls s := by
  simp [quicServerTls, ServerTls.clone]

/-- on every public listener the config a handshake runs with requires and verifies a client
    certificate iff a trusted CA is configured -/
theorem listenerTls_clientAuth_iff (l : Listener) (s : ServerCfg) (hl : l.isPublic = true) :
    ∃ st, listenerTls l s = some st ∧
      (st.clientAuth = .requireAndVerify ↔ s.trustedCA = true) ∧
      (st.hasClientCAs = true ↔ s.trustedCA = true) := by
  cases l <;> simp [Listener.isPublic] at hl <;>
    simp [listenerTls, Listener.gate, quicServerTls, ServerTls.clone, serverTls, serverTlsOf] <;>
    cases s.trustedCA <;> simp

/-- on the sniffed listeners with no ALPN in play the per-listener handshake is `handshakeOk` -/
theorem handshakeOkOn_sniff (l : Listener) (s : ServerCfg) (ct : ClientTls) (p : Pki)
    (hg : l.gate = .sniff) (ha : ct.nextProtos = []) :
    handshakeOkOn l s ct p = handshakeOk s ct p := by
  simp [handshakeOkOn, listenerTls, hg, alpnOk, ha, handshakeOk, serverTls, serverTlsOf]

/-- QUIC is never plaintext: a peer that does not complete the TLS handshake gets nothing
    interpreted, with or without `force` -/
theorem quic_never_plain (s : ServerCfg) (b : Nat) : reachesReadMsgOn .quic s b false = false := rfl

/-- **forced TLS, every listener**: on no public listener does a forcing server interpret a
    message of a peer without TLS, whatever first byte it sends -/
theorem forced_plain_peer_uninterpreted_every_listener (l : Listener) (s : ServerCfg) (b : Nat)
    (hl : l.isPublic = true) (h : serverForce s = true) :
    reachesReadMsgOn l s b false = false := by
  cases l <;> simp [Listener.isPublic] at hl <;>
    simp [reachesReadMsgOn, Listener.gate, (forced_plain_peer_uninterpreted s b h).1]

/-- a handshake with a config that requires a verified client certificate fails for a peer
    without an acceptable one, on every listener -/
theorem handshakeOkOn_requires_cert (l : Listener) (s : ServerCfg) (ct : ClientTls) (p : Pki)
    (hca : s.trustedCA = true)
    (hbad : ct.hasCert = false ∨ p.cliCertIssuer ≠ some p.srvClientCA) :
    handshakeOkOn l s ct p = false := by
  have hc : ∀ st : ServerTls, st.clientAuth = .requireAndVerify → clientCertAccepted st ct p = false := by
    intro st hst
    unfold clientCertAccepted
    rw [hst]
    rcases hbad with h | h <;> simp [h]
  cases l <;>
    simp [handshakeOkOn, listenerTls, Listener.gate, quicServerTls, ServerTls.clone, serverTls,
      serverTlsOf, hca, hc]

/-- **trusted CA, every listener**: a peer that presents no certificate, or one not signed by the
    server's CA, gets nothing interpreted on any public listener — tcp, the tls-muxed one, kcp,
    websocket and QUIC — whatever first byte it sends and however it configures its side. -/
theorem ca_peer_without_acceptable_cert_uninterpreted_every_listener (l : Listener) (s : ServerCfg)
    (ct : ClientTls) (p : Pki) (b : Nat) (hl : l.isPublic = true) (hca : s.trustedCA = true)
    (hbad : ct.hasCert = false ∨ p.cliCertIssuer ≠ some p.srvClientCA) :
    reachesReadMsgOn l s b (handshakeOkOn l s ct p) = false := by
  rw [handshakeOkOn_requires_cert l s ct p hca hbad]
  exact forced_plain_peer_uninterpreted_every_listener l s b hl
    ((ca_forces_and_requires s hca).1)

/-- converse direction (non-vacuity of the rule): with a CA the gate opens exactly for a completed
    handshake, so what decides is the certificate check of that listener's config -/
theorem ca_reaches_iff_handshake (l : Listener) (s : ServerCfg) (b : Nat) (hs : Bool)
    (hl : l.isPublic = true) (hca : s.trustedCA = true) :
    reachesReadMsgOn l s b hs = true → hs = true := by
  intro h
  cases hs
  · rw [forced_plain_peer_uninterpreted_every_listener l s b hl ((ca_forces_and_requires s hca).1)] at h
    exact h
  · rfl

/-! ## C. client side: dial options and identity -/

/-- `NewClientTLSConfig`: InsecureSkipVerify iff no CA; ServerName always set -/
theorem clientTlsOf_fields (cert ca : Bool) (sn : Str) :
    (clientTlsOf cert ca sn).insecureSkipVerify = !ca ∧ (clientTlsOf cert ca sn).serverName = sn ∧
      (clientTlsOf cert ca sn).hasRootCAs = ca ∧ (clientTlsOf cert ca sn).hasCert = cert := by
  simp [clientTlsOf]

/-- a client with TLS on and a trusted CA verifies the chain and the name (every protocol) -/
theorem client_ca_verifies (c : ClientCfg) (ht : c.tlsEnable = true) (hca : c.trustedCA = true) :
    ∃ ct, clientTls c = some ct ∧ ct.insecureSkipVerify = false ∧ ct.hasRootCAs = true ∧
      ct.serverName = effServerName c ∧
      (c.serverName ≠ [] → ct.serverName = c.serverName) := by
  have hn : c.serverName ≠ [] → effServerName c = c.serverName := by
    intro hne; simp [effServerName, hne]
  cases hp : c.protocol
  case quic =>
    exact ⟨{ clientTlsOf c.certGiven true (effServerName c) with nextProtos := [frpALPN] },
      by simp [clientTls, hp, ht, hca], by simp [clientTlsOf], by simp [clientTlsOf],
      by simp [clientTlsOf], by simpa [clientTlsOf] using hn⟩
  all_goals
    exact ⟨clientTlsOf c.certGiven true (effServerName c),
      by simp [clientTls, hp, ht, hca], by simp [clientTlsOf], by simp [clientTlsOf],
      by simp [clientTlsOf], by simpa [clientTlsOf] using hn⟩

/-- as coded: without a CA the client accepts any server certificate -/
theorem client_no_ca_skips_verification (c : ClientCfg) (ct : ClientTls) (hca : c.trustedCA = false)
    (h : clientTls c = some ct) : ct.insecureSkipVerify = true := by
  cases hp : c.protocol <;> cases ht : c.tlsEnable <;>
    simp [clientTls, hp, ht, hca, clientTlsOf] at h <;> (subst h; rfl)

/-- as coded (observation): over QUIC with tls.enable = false the configured CA is ignored -/
theorem quic_tls_disabled_ignores_ca (c : ClientCfg) (hp : c.protocol = .quic)
    (ht : c.tlsEnable = false) :
    clientTls c = some { clientTlsOf false false (effServerName c) with nextProtos := [frpALPN] } := by
  simp [clientTls, hp, ht]

theorem clientDial_tls_iff (c : ClientCfg) :
    (clientDial c).tls = true ↔ (c.tlsEnable = true ∨ c.protocol = .wss ∨ c.protocol = .quic) := by
  cases hp : c.protocol <;> cases ht : c.tlsEnable <;>
    simp [clientDial, clientHooks, clientTls, hp, ht] <;>
    cases c.disableCustomFirstByte <;> simp

theorem clientDial_customByte_iff (c : ClientCfg) :
    (clientDial c).customByte = true ↔
      (c.tlsEnable = true ∧ c.disableCustomFirstByte = false ∧
        (c.protocol = .tcp ∨ c.protocol = .kcp ∨ c.protocol = .websocket)) := by
  cases hp : c.protocol <;> cases ht : c.tlsEnable <;> cases hd : c.disableCustomFirstByte <;>
    simp [clientDial, clientHooks, clientTls, hp, ht, hd]

/-- the default client (Complete()d, nothing configured) dials TLS without the custom byte -/
theorem default_client_dials_tls (a : Str) :
    clientDial (ClientCfg.default a) = { tls := true, customByte := false } ∧
      clientFirstBytes (ClientCfg.default a) = [0x16] := by
  constructor <;> rfl

/-- websocket: the custom byte and TLS come AFTER the websocket upgrade (TLS inside websocket);
    wss: TLS first, no custom byte -/
theorem hooks_order (c : ClientCfg) (ht : c.tlsEnable = true) :
    (c.protocol = .websocket → clientHooks c =
        [.websocket] ++ (if c.disableCustomFirstByte then [] else [.customByte]) ++ [.tls]) ∧
    (c.protocol = .wss → clientHooks c = [.tls, .websocket]) ∧
    (c.protocol = .tcp → clientHooks c =
        (if c.disableCustomFirstByte then [] else [.customByte]) ++ [.tls]) := by
  refine ⟨?_, ?_, ?_⟩ <;> intro hp <;> cases hd : c.disableCustomFirstByte <;>
    simp [clientHooks, clientTls, hp, ht, hd]

/-- what the client sends first and what the server's sniff makes of it agree (protocol tcp):
    the connection is treated as TLS by the server iff the client dialled TLS -/
theorem client_first_byte_class (c : ClientCfg) (f : Bool) (b : Nat) (hp : c.protocol = .tcp)
    (hb : b ∈ clientFirstBytes c) :
    (sniff b f).isTLS = (clientDial c).tls ∧
      (sniff b f = .customTLS ↔ (clientDial c).customByte = true) := by
  cases ht : c.tlsEnable <;> cases hd : c.disableCustomFirstByte <;> cases hm : c.tcpMux <;>
    simp [clientFirstBytes, clientDial, clientHooks, clientTls, hp, ht, hd, hm] at hb ⊢ <;>
    (try (rcases hb with rfl | rfl | rfl)) <;> (try subst hb) <;>
    cases f <;> simp [sniff, SniffClass.isTLS]

/-- **a client given a trusted CA (and a server name) refuses a server presenting another
    identity**: no session, whatever the server's configuration. -/
theorem client_refuses_other_identity (s : ServerCfg) (c : ClientCfg) (p : Pki)
    (hp : c.protocol = .tcp) (ht : c.tlsEnable = true) (hca : c.trustedCA = true)
    (hbad : s.certGiven = false ∨ p.srvCertIssuer ≠ some p.cliRootCA ∨
            certMatchesName p (effServerName c) = false) :
    sessionUp s c p = false := by
  have hacc : serverCertAccepted s (clientTlsOf c.certGiven true (effServerName c)) p = false := by
    unfold serverCertAccepted
    rcases hbad with h | h | h
    · simp [clientTlsOf, h]
    · simp [clientTlsOf, h]
    · simp [clientTlsOf, h]
  have hh : handshakeOk s (clientTlsOf c.certGiven true (effServerName c)) p = false := by
    simp [handshakeOk, hacc]
  cases hd : c.disableCustomFirstByte <;>
    simp [sessionUp, clientFirstBytes, clientDial, clientHooks, clientTls, hp, ht, hca, hd, sniff, hh]

/-- a client that does not dial TLS gets a session iff the server does not force TLS -/
theorem plain_client_session_iff (s : ServerCfg) (c : ClientCfg) (p : Pki)
    (hp : c.protocol = .tcp) (ht : c.tlsEnable = false) :
    sessionUp s c p = true ↔ serverForce s = false := by
  cases hm : c.tcpMux <;> cases hf : serverForce s <;>
    simp [sessionUp, clientFirstBytes, clientDial, clientHooks, clientTls, hp, ht, hm, sniff, hf]

/-- a TLS client gets a session iff the handshake is acceptable to both ends (force irrelevant) -/
theorem tls_client_session_iff (s : ServerCfg) (c : ClientCfg) (p : Pki)
    (hp : c.protocol = .tcp) (ht : c.tlsEnable = true) :
    sessionUp s c p =
      handshakeOk s (clientTlsOf c.certGiven c.trustedCA (effServerName c)) p := by
  cases hd : c.disableCustomFirstByte <;>
    simp [sessionUp, clientFirstBytes, clientDial, clientHooks, clientTls, hp, ht, hd, sniff]

/-! ## C2. sessions on every control transport -/

/-- tcp, kcp and websocket clients are decided by the sniffed path -/
theorem sessionUpOn_sniffed (s : ServerCfg) (c : ClientCfg) (p : Pki)
    (hp : c.protocol = .tcp ∨ c.protocol = .kcp ∨ c.protocol = .websocket) :
    sessionUpOn s c p = sessionUp s c p := by
  rcases hp with h | h | h <;> simp [sessionUpOn, h]

/-- frps does not terminate wss: no session, whatever the configuration (and no message read) -/
theorem wss_no_session (s : ServerCfg) (c : ClientCfg) (p : Pki) (hp : c.protocol = .wss) :
    sessionUpOn s c p = false := by
  cases hm : s.tcpMux <;> simp [sessionUpOn, hp, innerAccepts, hm]

/-- a QUIC client gets a session iff the handshake between `quicServerTls` and the client's config
    is acceptable to both ends: the server's `force` flag and tcpMux play no role, the identity
    rules are those of `svr.tlsConfig`; with tls.enable = false the client side has neither
    certificate nor CA -/
theorem quic_client_session_iff (s : ServerCfg) (c : ClientCfg) (p : Pki) (hp : c.protocol = .quic) :
    sessionUpOn s c p =
      handshakeOk s (clientTlsOf (c.tlsEnable && c.certGiven) (c.tlsEnable && c.trustedCA)
        (effServerName c)) p := by
  cases ht : c.tlsEnable <;>
    simp [sessionUpOn, hp, clientTls, ht, reachesReadMsgOn, Listener.gate, handshakeOkOn, listenerTls,
      quicServerTls, ServerTls.clone, alpnOk, handshakeOk, serverCertAccepted, clientCertAccepted,
      clientTlsOf, serverTls, serverTlsOf]

/-- **trusted CA, session level, every control transport**: if frps has a trusted CA, a client
    that gets a session — over tcp, kcp, websocket, wss or quic — dialled TLS and presented a
    certificate signed by that CA. -/
theorem ca_session_requires_cert_every_protocol (s : ServerCfg) (c : ClientCfg) (p : Pki)
    (hca : s.trustedCA = true) (h : sessionUpOn s c p = true) :
    c.tlsEnable = true ∧ c.certGiven = true ∧ p.cliCertIssuer = some p.srvClientCA := by
  cases hp : c.protocol
  case wss => rw [wss_no_session s c p hp] at h; exact absurd h (by decide)
  case quic =>
    rw [quic_client_session_iff s c p hp] at h
    cases ht : c.tlsEnable <;> cases hc : c.certGiven <;>
      simp_all [handshakeOk, clientCertAccepted, serverTls, serverTlsOf, clientTlsOf]
  all_goals
    rw [sessionUpOn_sniffed s c p (by simp [hp])] at h
    cases ht : c.tlsEnable <;> cases hd : c.disableCustomFirstByte <;> cases hm : c.tcpMux <;>
      cases hc : c.certGiven <;>
      simp_all [sessionUp, clientFirstBytes, clientDial, clientHooks, clientTls, sniff, serverForce,
        ServerCfg.complete, handshakeOk, clientCertAccepted, serverTls, serverTlsOf, clientTlsOf]

/-- **a client given a trusted CA refuses a server presenting another identity — on every
    control transport** (tls.enable on; over QUIC with tls.enable off the CA is ignored, see
    `quic_tls_disabled_ignores_ca`) -/
theorem client_refuses_other_identity_every_protocol (s : ServerCfg) (c : ClientCfg) (p : Pki)
    (ht : c.tlsEnable = true) (hca : c.trustedCA = true)
    (hbad : s.certGiven = false ∨ p.srvCertIssuer ≠ some p.cliRootCA ∨
            certMatchesName p (effServerName c) = false) :
    sessionUpOn s c p = false := by
  have hacc : serverCertAccepted s (clientTlsOf c.certGiven true (effServerName c)) p = false := by
    unfold serverCertAccepted
    rcases hbad with h | h | h <;> simp [clientTlsOf, h]
  have hh : handshakeOk s (clientTlsOf c.certGiven true (effServerName c)) p = false := by
    simp [handshakeOk, hacc]
  cases hp : c.protocol
  case wss => exact wss_no_session s c p hp
  case quic => rw [quic_client_session_iff s c p hp]; simpa [ht, hca] using hh
  all_goals
    rw [sessionUpOn_sniffed s c p (by simp [hp])]
    cases hd : c.disableCustomFirstByte <;>
      simp [sessionUp, clientFirstBytes, clientDial, clientHooks, clientTls, hp, ht, hca, hd, sniff, hh]

/-- **forced TLS, session level, every control transport**: a client that gets a session from a
    forcing server dialled TLS -/
theorem force_session_requires_tls_every_protocol (s : ServerCfg) (c : ClientCfg) (p : Pki)
    (hf : serverForce s = true) (h : sessionUpOn s c p = true) : (clientDial c).tls = true := by
  cases hp : c.protocol
  case wss => rw [wss_no_session s c p hp] at h; exact absurd h (by decide)
  case quic => simp [clientDial, clientHooks, hp]
  all_goals
    rw [sessionUpOn_sniffed s c p (by simp [hp])] at h
    cases ht : c.tlsEnable <;> cases hd : c.disableCustomFirstByte <;> cases hm : c.tcpMux <;>
      simp_all [sessionUp, clientFirstBytes, clientDial, clientHooks, clientTls, sniff]

/-- executable predicate for one observed connection attempt of a real client: `interpreted` = frps
    answered with a frame (LoginResp with or without an error text) -/
def interpretedOk (s : ServerCfg) (c : ClientCfg) (p : Pki) (interpreted : Bool) : Bool :=
  !interpreted || sessionUpOn s c p

/-- what an accepted observation means: under a trusted CA the peer dialled TLS with a certificate
    of that CA; under force it dialled TLS -/
theorem interpretedOk_sound (s : ServerCfg) (c : ClientCfg) (p : Pki)
    (h : interpretedOk s c p true = true) :
    (s.trustedCA = true →
      c.tlsEnable = true ∧ c.certGiven = true ∧ p.cliCertIssuer = some p.srvClientCA) ∧
    (serverForce s = true → (clientDial c).tls = true) := by
  have hs : sessionUpOn s c p = true := by simpa [interpretedOk] using h
  exact ⟨fun hca => ca_session_requires_cert_every_protocol s c p hca hs,
         fun hf => force_session_requires_tls_every_protocol s c p hf hs⟩

/-! ## C3. WHICH identity a verifying client insists on: DNS names, IP literals, the defaulted name -/

/-- `sn := cfg.Transport.TLS.ServerName; if sn == "" { sn = cfg.ServerAddr }` -/
theorem effServerName_default (c : ClientCfg) (h : c.serverName = []) : effServerName c = c.serverAddr := by
  simp [effServerName, h]

/-- whatever the control transport, the name in the client's tls.Config is the configured name, or
    `serverAddr` when none is configured -/
theorem client_verified_name (c : ClientCfg) (ct : ClientTls) (h : clientTls c = some ct) :
    ct.serverName = effServerName c := by
  cases hp : c.protocol <;> cases ht : c.tlsEnable <;>
    simp [clientTls, hp, ht, clientTlsOf] at h <;> (subst h; rfl)

/-- Go's x509 rule (`VerifyHostname`): a name that parses as an IP address is matched against the
    IP SANs ONLY … -/
theorem certMatchesName_ip (p : Pki) (n : Str) (h : isIPv4 n = true) :
    certMatchesName p n = p.srvCertIPs.contains n := by
  simp [certMatchesName, h]

/-- … and any other name against the DNS SANs only -/
theorem certMatchesName_dns (p : Pki) (n : Str) (h : isIPv4 n = false) :
    certMatchesName p n = p.srvCertDNS.contains n := by
  simp [certMatchesName, h]

/-- a certificate without IP SANs is valid for NO IP-literal name, whatever DNS names it lists
    (a certificate "of somebody else" issued by the same CA included) -/
theorem ip_name_needs_ip_san (p : Pki) (n : Str) (h : isIPv4 n = true) (hno : p.srvCertIPs = []) :
    certMatchesName p n = false := by
  simp [certMatchesName, h, hno]

/-- a certificate without DNS SANs is valid for no host name -/
theorem dns_name_needs_dns_san (p : Pki) (n : Str) (h : isIPv4 n = false) (hno : p.srvCertDNS = []) :
    certMatchesName p n = false := by
  simp [certMatchesName, h, hno]

/-- **a session comes up only if the presented identity matches**: a client with TLS on and a
    trusted CA that gets a session — over any control transport, with the server name given or
    defaulted from serverAddr, DNS name or IP literal — was shown a configured certificate, issued
    by that CA, whose SANs of the name's own kind contain the name. -/
theorem session_requires_matching_identity (s : ServerCfg) (c : ClientCfg) (p : Pki)
    (ht : c.tlsEnable = true) (hca : c.trustedCA = true) (h : sessionUpOn s c p = true) :
    s.certGiven = true ∧ p.srvCertIssuer = some p.cliRootCA ∧
      certMatchesName p (effServerName c) = true := by
  refine ⟨?_, ?_, ?_⟩
  · cases hc : s.certGiven
    · rw [client_refuses_other_identity_every_protocol s c p ht hca (Or.inl hc)] at h
      exact absurd h (by decide)
    · rfl
  · cases hi : decide (p.srvCertIssuer = some p.cliRootCA)
    · have hne : p.srvCertIssuer ≠ some p.cliRootCA := by simpa using hi
      rw [client_refuses_other_identity_every_protocol s c p ht hca (Or.inr (Or.inl hne))] at h
      exact absurd h (by decide)
    · simpa using hi
  · cases hm : certMatchesName p (effServerName c)
    · rw [client_refuses_other_identity_every_protocol s c p ht hca (Or.inr (Or.inr hm))] at h
      exact absurd h (by decide)
    · rfl

/-- the IP-literal case spelled out: the name (given, or `serverAddr`) must be among the IP SANs -/
theorem session_ip_name_requires_ip_san (s : ServerCfg) (c : ClientCfg) (p : Pki)
    (ht : c.tlsEnable = true) (hca : c.trustedCA = true) (hip : isIPv4 (effServerName c) = true)
    (h : sessionUpOn s c p = true) : effServerName c ∈ p.srvCertIPs := by
  have hm := (session_requires_matching_identity s c p ht hca h).2.2
  rw [certMatchesName_ip p _ hip] at hm
  simpa using hm

/-- the DNS case: the name must be among the DNS SANs -/
theorem session_dns_name_requires_dns_san (s : ServerCfg) (c : ClientCfg) (p : Pki)
    (ht : c.tlsEnable = true) (hca : c.trustedCA = true) (hip : isIPv4 (effServerName c) = false)
    (h : sessionUpOn s c p = true) : effServerName c ∈ p.srvCertDNS := by
  have hm := (session_requires_matching_identity s c p ht hca h).2.2
  rw [certMatchesName_dns p _ hip] at hm
  simpa using hm

/-- the common deployment: no `tls.serverName`, `serverAddr` an IP address.  A certificate that
    carries DNS names only — whoever it was issued to — gives no session. -/
theorem defaulted_ip_name_refuses_dns_only_cert (s : ServerCfg) (c : ClientCfg) (p : Pki)
    (ht : c.tlsEnable = true) (hca : c.trustedCA = true) (hsn : c.serverName = [])
    (hip : isIPv4 c.serverAddr = true) (hno : p.srvCertIPs = []) : sessionUpOn s c p = false := by
  apply client_refuses_other_identity_every_protocol s c p ht hca
  refine Or.inr (Or.inr ?_)
  rw [effServerName_default c hsn]
  exact ip_name_needs_ip_san p _ hip hno

/-- an accepted observation of the certificate lattice (`interpretedOk`) of a verifying client
    means the identity matched -/
theorem interpretedOk_identity (s : ServerCfg) (c : ClientCfg) (p : Pki)
    (ht : c.tlsEnable = true) (hca : c.trustedCA = true) (h : interpretedOk s c p true = true) :
    s.certGiven = true ∧ p.srvCertIssuer = some p.cliRootCA ∧
      certMatchesName p (effServerName c) = true :=
  session_requires_matching_identity s c p ht hca (by simpa [interpretedOk] using h)

/-- executable predicate for one handshake of a tls.Config built by the real `NewClientTLSConfig(cert,
    key, ca, sn)` against a server presenting the certificate described by `p` (op `ident`):
    with a CA, acceptance implies chain and identity -/
def identOk (ca : Bool) (sn : Str) (p : Pki) (accepted : Bool) : Bool :=
  !(accepted && ca) || (p.srvCertIssuer == some p.cliRootCA && certMatchesName p sn)

/-- the model's own answer (`serverCertAccepted` on `clientTlsOf`) satisfies the predicate, and an
    accepted observation means what the property says -/
theorem identOk_sound (cert ca : Bool) (sn : Str) (p : Pki) :
    identOk ca sn p
      (serverCertAccepted { force := false, trustedCA := false, certGiven := true } (clientTlsOf cert ca sn) p) = true ∧
    (identOk ca sn p true = true → ca = true →
      p.srvCertIssuer = some p.cliRootCA ∧ certMatchesName p sn = true) := by
  constructor
  · cases ca
    · simp [identOk, serverCertAccepted, clientTlsOf]
    · cases hi : (p.srvCertIssuer == some p.cliRootCA) <;> cases hm : certMatchesName p sn <;>
        simp [identOk, serverCertAccepted, clientTlsOf, hi, hm]
  · intro h hca
    simpa [identOk, hca] using h

/-! ## C4. wss: TLS whatever `transport.tls.enable` says; the identity rule against the endpoint that
      terminates it (a TLS reverse proxy in front of frps — frps itself has no wss listener) -/

/-- the connector builds a tls.Config exactly when tls.enable is on OR the transport is TLS by itself
    (wss: `if protocol == "wss" { tlsEnable = true }`; quic: always a config) -/
theorem clientTls_isSome_iff (c : ClientCfg) :
    (clientTls c).isSome = (c.tlsEnable || tlsRequired c.protocol) := by
  cases hp : c.protocol <;> cases ht : c.tlsEnable <;> simp [clientTls, hp, ht, tlsRequired]

/-- wss: the FULL configured tls.Config — certificate, trusted CA, server name — whether
    `transport.tls.enable` is true or false -/
theorem wss_tls_config_ignores_enable (c : ClientCfg) (hp : c.protocol = .wss) :
    clientTls c = some (clientTlsOf c.certGiven c.trustedCA (effServerName c)) := by
  simp [clientTls, hp]

/-- a wss client with a trusted CA verifies chain and name, tls.enable on or off -/
theorem wss_ca_always_verifies (c : ClientCfg) (hp : c.protocol = .wss) (hca : c.trustedCA = true) :
    ∃ ct, clientTls c = some ct ∧ ct.insecureSkipVerify = false ∧ ct.hasRootCAs = true ∧
      ct.serverName = effServerName c :=
  ⟨_, wss_tls_config_ignores_enable c hp, by simp [clientTlsOf, hca], by simp [clientTlsOf, hca],
    by simp [clientTlsOf]⟩

/-- behind the terminator frps sees a plain websocket client: a session iff it does not force TLS -/
theorem behindTerminator_session_iff (s : ServerCfg) (c : ClientCfg) (p : Pki) :
    sessionUp s (behindTerminator c) p = !serverForce s := by
  cases hm : c.tcpMux <;> cases hf : serverForce s <;>
    simp [sessionUp, behindTerminator, clientFirstBytes, clientDial, clientHooks, clientTls, hm, sniff, hf]

/-- a wss session through a terminator: the client's verdict on the terminator's certificate under the
    FULL configured tls.Config, and a frps that does not force TLS on the stream it gets -/
theorem wssSessionVia_eq (s : ServerCfg) (c : ClientCfg) (p : Pki) (t : Terminator) :
    wssSessionVia s c p t =
      (terminatorAccepted (clientTlsOf c.certGiven c.trustedCA (effServerName c)) t p && !serverForce s) := by
  simp [wssSessionVia, clientTls, effServerName, behindTerminator_session_iff]

/-- `transport.tls.enable` plays no role for wss -/
theorem wss_tls_enable_irrelevant (s : ServerCfg) (c : ClientCfg) (p : Pki) (t : Terminator) (b : Bool) :
    wssSessionVia s { c with tlsEnable := b } p t = wssSessionVia s c p t := by
  rw [wssSessionVia_eq, wssSessionVia_eq]
  simp [effServerName]

/-- **a wss client given a trusted CA (and a server name, or `serverAddr` by default) refuses an
    endpoint that presents another identity** — a certificate of another CA, or one of the trusted CA
    for another name —, with `transport.tls.enable` true or false -/
theorem wss_client_refuses_other_identity (s : ServerCfg) (c : ClientCfg) (p : Pki) (t : Terminator)
    (hca : c.trustedCA = true)
    (hbad : t.issuer ≠ p.cliRootCA ∨ certMatchesName (t.pki p) (effServerName c) = false) :
    wssSessionVia s c p t = false := by
  rw [wssSessionVia_eq]
  have : terminatorAccepted (clientTlsOf c.certGiven c.trustedCA (effServerName c)) t p = false := by
    rcases hbad with h | h
    · simp [terminatorAccepted, serverCertAccepted, clientTlsOf, hca, Terminator.pki, h]
    · simp [terminatorAccepted, serverCertAccepted, clientTlsOf, hca, h]
  simp [this]

/-- a wss session of a verifying client implies the matching identity (and a non-forcing frps) -/
theorem wss_session_requires_matching_identity (s : ServerCfg) (c : ClientCfg) (p : Pki) (t : Terminator)
    (hca : c.trustedCA = true) (h : wssSessionVia s c p t = true) :
    t.issuer = p.cliRootCA ∧ certMatchesName (t.pki p) (effServerName c) = true ∧ serverForce s = false := by
  refine ⟨?_, ?_, ?_⟩
  · cases hi : decide (t.issuer = p.cliRootCA)
    · have hne : t.issuer ≠ p.cliRootCA := by simpa using hi
      rw [wss_client_refuses_other_identity s c p t hca (Or.inl hne)] at h
      exact absurd h (by decide)
    · simpa using hi
  · cases hm : certMatchesName (t.pki p) (effServerName c)
    · rw [wss_client_refuses_other_identity s c p t hca (Or.inr hm)] at h
      exact absurd h (by decide)
    · rfl
  · rw [wssSessionVia_eq] at h
    cases hf : serverForce s
    · rfl
    · simp [hf] at h

/-- executable predicate for one observed wss connection attempt through a terminator: frps answers
    with a frame only for a client the model gives a session -/
def interpretedOkWss (s : ServerCfg) (c : ClientCfg) (p : Pki) (t : Terminator) (interpreted : Bool) : Bool :=
  !interpreted || wssSessionVia s c p t

theorem interpretedOkWss_identity (s : ServerCfg) (c : ClientCfg) (p : Pki) (t : Terminator)
    (hca : c.trustedCA = true) (h : interpretedOkWss s c p t true = true) :
    t.issuer = p.cliRootCA ∧ certMatchesName (t.pki p) (effServerName c) = true :=
  have h' := wss_session_requires_matching_identity s c p t hca (by simpa [interpretedOkWss] using h)
  ⟨h'.1, h'.2.1⟩

/-! ## D. what crosses the path -/

theorem msgKinds_complete (k : MsgKind) : k ∈ MsgKind.all := by
  cases k <;> decide

theorem msgKinds_count : MsgKind.all.length = 18 := rfl

/-- quantifier elimination over the finite tables (core Lean has no Fintype) -/
instance {P : MsgKind → Prop} [DecidablePred P] : Decidable (∀ k, P k) :=
  decidable_of_iff (∀ k ∈ MsgKind.all, P k)
    ⟨fun h k => h k (msgKinds_complete k), fun h k _ => h k⟩

instance {P : Secret → Prop} [DecidablePred P] : Decidable (∀ s, P s) :=
  decidable_of_iff (P .token ∧ P .sk ∧ P .httpPwd)
    ⟨fun ⟨a, b, c⟩ s => by cases s <;> assumption, fun h => ⟨h _, h _, h _⟩⟩

instance {P : Channel → Prop} [DecidablePred P] : Decidable (∀ c, P c) :=
  decidable_of_iff (P .rawControl ∧ P .control ∧ P .rawWork ∧ P .rawVisitor ∧ P .workStream)
    ⟨fun ⟨a, b, c, d, e⟩ s => by cases s <;> assumption, fun h => ⟨h _, h _, h _, h _, h _⟩⟩

/-- helper: decide a statement for every PathCfg by enumerating its four booleans -/
theorem forall_pathCfg {P : PathCfg → Prop}
    (h : ∀ a b c d : Bool, P { tls := a, internal := b, useEncryption := c, tokenEmpty := d }) :
    ∀ cfg, P cfg := fun ⟨a, b, c, d⟩ => h a b c d

/-- **the token never travels in clear**, in any configuration, on any channel (internal included):
    no message type carries it in any form but the digest. -/
theorem token_never_clear : ∀ cfg, clearInChannel cfg .token = false :=
  forall_pathCfg (by decide)

theorem token_only_digest (k : MsgKind) (f : Form) (h : (Secret.token, f) ∈ carries k) :
    f = .digest := by
  cases k <;> cases f <;> simp_all [carries]

/-- **proxy secret keys and HTTP passwords never cross the network path in clear**: the only
    message carrying them (NewProxy) goes through the dispatcher, which on every public listener is
    built over `NewCryptoReadWriter(token)`. -/
theorem secrets_never_clear_on_path : ∀ cfg (s : Secret), clearOnPath cfg s = false :=
  forall_pathCfg (by decide)

/-- the exact exception: on the in-process ssh-gateway listener (`internal`) the control channel
    has neither TLS nor the cipher, so NewProxy.Sk / HTTPPwd are in clear IN THAT CHANNEL — which is
    a pipe inside frps, not the network path. -/
theorem sk_pwd_clear_in_channel_iff : ∀ cfg,
    (clearInChannel cfg .sk = true ↔ cfg.internal = true) ∧
    (clearInChannel cfg .httpPwd = true ↔ cfg.internal = true) :=
  forall_pathCfg (by decide)

theorem newProxy_only_clear_carrier (k : MsgKind) (s : Secret) (h : (s, Form.clear) ∈ carries k) :
    k = .newProxy ∧ channel k = .control := by
  cases k <;> simp_all [carries, channel]

/-- **with TLS on the transport nothing is outside TLS**: every message kind and the payload
    stream have the TLS layer; no content and no payload is clear. -/
theorem tls_covers_everything : ∀ cfg, cfg.tls = true → cfg.internal = false →
    (∀ ch, Layer.tls ∈ layers cfg ch) ∧ (∀ k, contentClear cfg k = false) ∧
      payloadClear cfg = false :=
  forall_pathCfg (by decide)

/-- without TLS: exactly these message kinds are readable on the path — the ones written with
    `msg.WriteMsg` directly on a connection (before / beside the control cipher), plus UDPPacket
    frames when the proxy does not encrypt. -/
theorem clear_kinds_without_tls : ∀ cfg, cfg.tls = false → cfg.internal = false → ∀ k,
    (contentClear cfg k = true ↔
      (k ∈ [MsgKind.login, .loginResp, .newWorkConn, .startWorkConn, .natHoleSid,
            .newVisitorConn, .newVisitorConnResp] ∨ (k = .udpPacket ∧ cfg.useEncryption = false))) :=
  forall_pathCfg (by decide)

/-- the control cipher covers exactly the dispatcher channel on public listeners -/
theorem ctlCipher_iff : ∀ cfg ch, (Layer.ctlCipher ∈ layers cfg ch ↔
    (ch = .control ∧ cfg.internal = false)) :=
  forall_pathCfg (by decide)

theorem payloadClear_iff : ∀ cfg, (payloadClear cfg = true ↔
    (cfg.internal = false ∧ cfg.tls = false ∧ cfg.useEncryption = false)) :=
  forall_pathCfg (by decide)

/-- **proxy encryption hides the payload even without TLS** (layer-level) -/
theorem useEncryption_covers_payload (cfg : PathCfg) (h : cfg.useEncryption = true) :
    payloadClear cfg = false ∧ Layer.proxyCipher ∈ layers cfg .workStream := by
  revert h; revert cfg
  exact forall_pathCfg (by decide)

/-- the enc layer is present on BOTH ends exactly when configured, and the byte-transforming
    layers are in the same order on both ends (enc next to the wire, compression above it);
    only the position of the (transparent) limiter differs -/
theorem enc_layer_both_sides (e c l l' : Bool) :
    (StackLayer.enc ∈ serverStack e c l ↔ e = true) ∧
    (StackLayer.enc ∈ clientStack e c l' ↔ e = true) ∧
    transforming (serverStack e c l) = transforming (clientStack e c l') := by
  revert e c l l'; decide

/-- observation (as coded): the two AES-CFB layers are keyed from the token alone.  With an empty
    token and no TLS the secret key / HTTP password of NewProxy are under a cipher whose key is a
    public constant. -/
theorem secretlyProtected_iff : ∀ cfg, cfg.internal = false → ∀ s,
    (secretlyProtected cfg s = true ↔ (s = .token ∨ cfg.tls = true ∨ cfg.tokenEmpty = false)) :=
  forall_pathCfg (by decide)

theorem emptyToken_witness :
    secretlyProtected { tls := false, internal := false, useEncryption := true, tokenEmpty := true } .sk
      = false := by decide

/-- pkg/auth/token.go: no setter ever leaves anything but the digest (or nothing) -/
theorem authKey_never_clear (k : MsgKind) (h w : Bool) : authKeyField k h w ≠ .clear := by
  cases k <;> cases h <;> cases w <;> simp [authKeyField]

/-! ## E. executable predicate for implementation observations -/

/-- what the recording relay saw: which markers occur in the captured bytes -/
structure WireObs where
  tok : Bool     -- auth token
  sk : Bool      -- stcp secret key
  pwd : Bool     -- http password
  huser : Bool   -- http user (NewProxy content, inside the control channel)
  user : Bool    -- Login.User (control content outside the cipher)
  pay : Bool     -- tunnelled payload
  deriving DecidableEq, Repr

/-- the model's prediction -/
def wireModel (cfg : PathCfg) : WireObs :=
  { tok := clearOnPath cfg .token, sk := clearOnPath cfg .sk, pwd := clearOnPath cfg .httpPwd
  , huser := onNetworkPath cfg && contentClear cfg .newProxy
  , user := onNetworkPath cfg && contentClear cfg .login
  , pay := payloadClear cfg }

/-- marker seen ⇒ the model says clear -/
def HoldsOn (cfg : PathCfg) (o : WireObs) : Prop :=
  o.tok = false ∧ o.sk = false ∧ o.pwd = false ∧
  (o.huser = true → contentClear cfg .newProxy = true) ∧
  (o.user = true → contentClear cfg .login = true) ∧
  (o.pay = true → payloadClear cfg = true)

def holdsOn (cfg : PathCfg) (o : WireObs) : Bool :=
  !o.tok && !o.sk && !o.pwd && (!o.huser || contentClear cfg .newProxy) &&
    (!o.user || contentClear cfg .login) && (!o.pay || payloadClear cfg)

theorem holdsOn_sound (cfg : PathCfg) (o : WireObs) : holdsOn cfg o = true ↔ HoldsOn cfg o := by
  obtain ⟨a, b, c, d, e, f⟩ := o
  cases a <;> cases b <;> cases c <;> cases d <;> cases e <;> cases f <;>
    simp [holdsOn, HoldsOn, and_assoc]

/-- the model's own prediction satisfies the predicate in every configuration -/
theorem model_holdsOn : ∀ cfg, holdsOn cfg (wireModel cfg) = true :=
  forall_pathCfg (by decide)

/-- an observation on a TLS path holds only if no marker at all was seen -/
theorem holdsOn_tls (cfg : PathCfg) (o : WireObs) (ht : cfg.tls = true) (hi : cfg.internal = false)
    (h : holdsOn cfg o = true) :
    o = { tok := false, sk := false, pwd := false, huser := false, user := false, pay := false } := by
  have ⟨_, hc, hp⟩ := tls_covers_everything cfg ht hi
  obtain ⟨a, b, c, d, e, f⟩ := o
  simp [holdsOn, hc, hp] at h
  simp [h]

/-! ## G. reload histories: the encryption setting a running proxy USES is the one configured NOW

  Model: Frp/Model/WireReload.lean (`Manager.UpdateAll`, `NewWrapper`, a new session after a
  reconnect).  For every start configuration and every sequence of reloads and reconnects. -/
section Reload
open WireReload

theorem lookupLast_some {cfgs : List PxCfg} {n : Nat} {c : PxCfg} (h : lookupLast cfgs n = some c) :
    c.name = n ∧ c ∈ cfgs := by
  unfold lookupLast at h
  have h1 := List.find?_some h
  have h2 := List.mem_of_find?_eq_some h
  exact ⟨by simpa using h1, by simpa using h2⟩

theorem lookupLast_of_mem {cfgs : List PxCfg} {c : PxCfg} (h : c ∈ cfgs) :
    ∃ c', lookupLast cfgs c.name = some c' := by
  have : (lookupLast cfgs c.name).isSome = true := by
    unfold lookupLast
    rw [List.find?_isSome]
    exact ⟨c, by simpa using h, by simp⟩
  exact Option.isSome_iff_exists.mp this

/-- `cfg = proxyCfgsMap[name]` is the entry the delete loop of the NEXT reload will compare with -/
theorem sel_spec {all : List PxCfg} {c : PxCfg} (h : c ∈ all) :
    lookupLast all c.name = some (sel all c) ∧ (sel all c).name = c.name := by
  obtain ⟨c', hc'⟩ := lookupLast_of_mem h
  have : sel all c = c' := by simp [sel, hc']
  rw [this]
  exact ⟨hc', (lookupLast_some hc').1⟩

theorem addLoop_mem {all : List PxCfg} {cs : List PxCfg} : ∀ {ps : List Px} {p : Px},
    p ∈ addLoop all ps cs → p ∈ ps ∨ ∃ c ∈ cs, p = mk (sel all c) := by
  induction cs with
  | nil => intro ps p h; exact Or.inl h
  | cons d ds ih =>
    intro ps p h
    unfold addLoop at h
    split at h
    · rcases ih h with h1 | ⟨c, hc, he⟩
      · exact Or.inl h1
      · exact Or.inr ⟨c, List.mem_cons_of_mem _ hc, he⟩
    · rcases ih h with h1 | ⟨c, hc, he⟩
      · rcases List.mem_append.mp h1 with h2 | h2
        · exact Or.inl h2
        · exact Or.inr ⟨d, List.mem_cons_self, by simpa using h2⟩
      · exact Or.inr ⟨c, List.mem_cons_of_mem _ hc, he⟩

theorem addLoop_sub {all : List PxCfg} {cs : List PxCfg} : ∀ {ps : List Px} {p : Px},
    p ∈ ps → p ∈ addLoop all ps cs := by
  induction cs with
  | nil => intro ps p h; exact h
  | cons d ds ih =>
    intro ps p h
    unfold addLoop
    split
    · exact ih h
    · exact ih (List.mem_append.mpr (Or.inl h))

theorem hasName_iff {ps : List Px} {n : Nat} : hasName ps n = true ↔ ∃ p ∈ ps, p.cfg.name = n := by
  simp [hasName]

theorem addLoop_hasName {all : List PxCfg} {cs : List PxCfg} : ∀ {ps : List Px} {c : PxCfg},
    c ∈ cs → (∀ d ∈ cs, (sel all d).name = d.name) → hasName (addLoop all ps cs) c.name = true := by
  induction cs with
  | nil => intro ps c h; cases h
  | cons d ds ih =>
    intro ps c hc hsel
    have hsel' : ∀ e ∈ ds, (sel all e).name = e.name := fun e he => hsel e (List.mem_cons_of_mem _ he)
    rcases List.mem_cons.mp hc with rfl | hc'
    · unfold addLoop
      split
      · rename_i hn
        obtain ⟨p, hp, hpn⟩ := hasName_iff.mp hn
        exact hasName_iff.mpr ⟨p, addLoop_sub hp, hpn⟩
      · refine hasName_iff.mpr ⟨mk (sel all c), addLoop_sub (List.mem_append.mpr (Or.inr (by simp))), ?_⟩
        simpa [mk] using hsel c List.mem_cons_self
    · unfold addLoop
      split
      · exact ih hc' hsel'
      · exact ih hc' hsel'

/-- what holds of an frpc at every moment -/
def Inv (s : St) : Prop :=
  (∀ p ∈ s.running, p.built = p.cfg ∧ lookupLast s.cfgs p.cfg.name = some p.cfg) ∧
  (∀ c ∈ s.cfgs, hasName s.running c.name = true)

/-- one `UpdateAll`: every proxy that runs afterwards — kept or newly made — was BUILT from the entry
    of the new configuration that carries its name, and every configured name runs -/
theorem updateAll_inv (ps : List Px) (cfgs : List PxCfg) (hb : ∀ p ∈ ps, p.built = p.cfg) :
    Inv { cfgs := cfgs, running := updateAll ps cfgs } := by
  constructor
  · intro p hp
    rcases addLoop_mem hp with h | ⟨c, hc, rfl⟩
    · have hf := List.mem_filter.mp h
      exact ⟨hb p hf.1, by simpa [keeps] using hf.2⟩
    · have hs := sel_spec hc
      refine ⟨rfl, ?_⟩
      show lookupLast cfgs (sel cfgs c).name = some (sel cfgs c)
      rw [hs.2]; exact hs.1
  · intro c hc
    exact addLoop_hasName hc (fun d hd => (sel_spec hd).2)

theorem start_inv (cfgs : List PxCfg) : Inv (start cfgs) :=
  updateAll_inv [] cfgs (fun _ h => by cases h)

theorem step_inv (s : St) (e : Ev) (h : Inv s) : Inv (step s e) := by
  cases e with
  | reload cfgs => exact updateAll_inv s.running cfgs (fun p hp => (h.1 p hp).1)
  | reconnect => exact updateAll_inv [] s.cfgs (fun _ h => by cases h)

theorem run_inv (evs : List Ev) : ∀ (s : St), Inv s → Inv (run s evs) := by
  induction evs with
  | nil => intro s h; exact h
  | cons e es ih => intro s h; exact ih (step s e) (step_inv s e h)

/-- **in every history** (any start configuration, any sequence of reloads — switching encryption on
    or off, with or without other changes — and reconnects): the configuration a running proxy was
    built from, i.e. the one its work connections are wrapped according to and the one frps was told,
    IS the entry of the configuration in force now. -/
theorem running_built_from_current (cfgs0 : List PxCfg) (evs : List Ev) (p : Px)
    (hp : p ∈ (run (start cfgs0) evs).running) :
    lookupLast (run (start cfgs0) evs).cfgs p.cfg.name = some p.built := by
  have h := (run_inv evs _ (start_inv cfgs0)).1 p hp
  rw [h.1]; exact h.2

/-- and every configured proxy is there -/
theorem every_configured_proxy_runs (cfgs0 : List PxCfg) (evs : List Ev) (c : PxCfg)
    (hc : c ∈ (run (start cfgs0) evs).cfgs) :
    ∃ p ∈ (run (start cfgs0) evs).running, p.cfg.name = c.name :=
  hasName_iff.mp ((run_inv evs _ (start_inv cfgs0)).2 c hc)

/-- **encryption as configured NOW is what the running proxy uses** -/
theorem enc_in_force_is_configured (cfgs0 : List PxCfg) (evs : List Ev) (p : Px) (c : PxCfg)
    (hp : p ∈ (run (start cfgs0) evs).running)
    (hc : lookupLast (run (start cfgs0) evs).cfgs p.cfg.name = some c) :
    p.built.enc = c.enc ∧ p.cfg = c := by
  have h := (run_inv evs _ (start_inv cfgs0)).1 p hp
  have hb := running_built_from_current cfgs0 evs p hp
  rw [hc] at hb
  have : c = p.built := by simpa using hb
  subst this
  exact ⟨rfl, h.1.symm⟩

/-- **when a proxy enables encryption its payload is under the cipher layer — in every history**,
    with or without TLS on the transport -/
theorem reload_enc_payload_never_clear (tls : Bool) (cfgs0 : List PxCfg) (evs : List Ev) (p : Px)
    (c : PxCfg) (hp : p ∈ (run (start cfgs0) evs).running)
    (hc : lookupLast (run (start cfgs0) evs).cfgs p.cfg.name = some c) (he : c.enc = true) :
    payloadClear (pathOf tls p) = false ∧ Layer.proxyCipher ∈ layers (pathOf tls p) .workStream := by
  have h := (enc_in_force_is_configured cfgs0 evs p c hp hc).1
  exact useEncryption_covers_payload (pathOf tls p) (by simp [pathOf, h, he])

/-- executable predicate for one observation after a step of a real frpc: `encNow` = the setting in
    the configuration in force, `seen` = a fresh payload marker showed up in the capture -/
def reloadObsOk (tls encNow seen : Bool) : Bool := !(seen && (tls || encNow))

/-- the model's prediction satisfies the predicate in every history -/
theorem reloadObsOk_model (tls : Bool) (cfgs0 : List PxCfg) (evs : List Ev) (p : Px) (c : PxCfg)
    (hp : p ∈ (run (start cfgs0) evs).running)
    (hc : lookupLast (run (start cfgs0) evs).cfgs p.cfg.name = some c) :
    reloadObsOk tls c.enc (payloadClear (pathOf tls p)) = true := by
  have h := (enc_in_force_is_configured cfgs0 evs p c hp hc).1
  cases tls <;> cases he : c.enc <;>
    simp [reloadObsOk, payloadClear, onNetworkPath, layers, pathOf, h, he]

end Reload

/-! ## H. the configuration AS WRITTEN: nothing between the file and the work connection drops the flag

  Model: Frp/Model/WireConfig.lean (`ProxyBaseConfig.Complete`, the plugin options' `Complete`,
  `MarshalToMsg` / `UnmarshalFromMsg`, `NewProxyConfigurerFromMsg`).  For every proxy type, every
  client plugin, every name prefix. -/
section Written
open WireConfig

theorem pxTypes_complete (t : PxType) : t ∈ PxType.all := by cases t <;> decide

theorem plugins_complete (p : Plugin) : p ∈ Plugin.all := by cases p <;> decide

theorem completePlugin_only_http2 (b : Base) : { completePlugin b with enableHTTP2 := b.enableHTTP2 } = b := by
  unfold completePlugin; split <;> rfl

/-- `Complete` leaves useEncryption / useCompression (and type, plugin) exactly as written — for
    every proxy type, plugin and prefix -/
theorem complete_keeps_flags (pfx : Str) (b : Base) :
    (complete pfx b).enc = b.enc ∧ (complete pfx b).comp = b.comp ∧ (complete pfx b).type = b.type ∧
      (complete pfx b).plugin = b.plugin := by
  unfold complete completePlugin; split <;> simp

/-- the ONLY fields `Complete` writes: name, localIP, bandwidthLimitMode, the plugin's enableHTTP2 -/
theorem complete_writes_only (pfx : Str) (b : Base) :
    { complete pfx b with name := b.name, localIP := b.localIP, limitMode := b.limitMode
                        , enableHTTP2 := b.enableHTTP2 } = b := by
  unfold complete completePlugin; split <;> rfl

/-- the NewProxy message carries the two flags unchanged, and frps's configurer reads them back -/
theorem marshal_unmarshal_flags (b : Base) :
    (marshal b).useEncryption = b.enc ∧ (marshal b).useCompression = b.comp ∧
    (unmarshal (marshal b)).enc = b.enc ∧ (unmarshal (marshal b)).comp = b.comp ∧
    (serverCfgOf (marshal b)).enc = b.enc ∧ (serverCfgOf (marshal b)).comp = b.comp := by
  refine ⟨rfl, rfl, rfl, rfl, ?_, ?_⟩
  · exact (complete_keeps_flags [] (unmarshal (marshal b))).1
  · exact (complete_keeps_flags [] (unmarshal (marshal b))).2.1

/-- **both ends wrap exactly when the operator wrote useEncryption** — any type, any plugin -/
theorem written_enc_both_ends (user : Str) (w : Base) :
    clientEnc user w = w.enc ∧ serverEnc user w = w.enc := by
  have h1 := (complete_keeps_flags user w).1
  refine ⟨h1, ?_⟩
  unfold serverEnc loaded
  rw [(marshal_unmarshal_flags (complete user w)).2.2.2.2.1, h1]

/-- the payload of a proxy is readable on the path exactly when the transport has no TLS and the
    operator did not write useEncryption -/
theorem written_payload_clear_iff (tls : Bool) (user : Str) (w : Base) :
    payloadClear (pathOfWritten tls user w) = true ↔ (tls = false ∧ w.enc = false) := by
  have h := written_enc_both_ends user w
  cases tls <;> cases he : w.enc <;>
    simp [pathOfWritten, h.1, h.2, he, payloadClear, onNetworkPath, layers]

/-- **when the WRITTEN configuration of a proxy says useEncryption its payload is under the cipher
    layer, with or without TLS — whatever its type and whatever client plugin it uses** -/
theorem written_enc_payload_never_clear (tls : Bool) (user : Str) (w : Base) (he : w.enc = true) :
    payloadClear (pathOfWritten tls user w) = false ∧
      Layer.proxyCipher ∈ layers (pathOfWritten tls user w) .workStream := by
  have h := written_enc_both_ends user w
  exact useEncryption_covers_payload (pathOfWritten tls user w) (by simp [pathOfWritten, h.1, h.2, he])

/-- … and over the life of an frpc: in every history of reloads and reconnects, a running proxy whose
    entry in the configuration in force was loaded (`Complete`) from a written configuration that
    says useEncryption has the cipher layer -/
theorem written_reload_enc_payload_never_clear (tls : Bool) (cfgs0 : List WireReload.PxCfg)
    (evs : List WireReload.Ev) (p : WireReload.Px) (c : WireReload.PxCfg) (user : Str) (w : Base)
    (hp : p ∈ (WireReload.run (WireReload.start cfgs0) evs).running)
    (hc : WireReload.lookupLast (WireReload.run (WireReload.start cfgs0) evs).cfgs p.cfg.name = some c)
    (hw : c.enc = (loaded user w).enc) (he : w.enc = true) :
    payloadClear (WireReload.pathOf tls p) = false ∧
      Layer.proxyCipher ∈ layers (WireReload.pathOf tls p) .workStream :=
  reload_enc_payload_never_clear tls cfgs0 evs p c hp hc
    (by rw [hw]; exact (complete_keeps_flags user w).1.trans he)

/-- executable predicate for one loaded configuration (op `cfgload`): written useEncryption ⇒ the
    loaded configurer, the NewProxy message and frps's configurer all say useEncryption -/
def writtenKeptOk (wEnc lEnc mEnc sEnc : Bool) : Bool := !wEnc || (lEnc && mEnc && sEnc)

theorem writtenKeptOk_model (user : Str) (w : Base) :
    writtenKeptOk w.enc (loaded user w).enc (marshal (loaded user w)).useEncryption
      (serverCfgOf (marshal (loaded user w))).enc = true := by
  have h1 : (loaded user w).enc = w.enc := (complete_keeps_flags user w).1
  have h2 := marshal_unmarshal_flags (loaded user w)
  rw [h2.1, h2.2.2.2.2.1, h1]
  cases w.enc <;> rfl

/-- the rig's observation predicate (`reloadObsOk`) holds of the model for a written configuration -/
theorem writtenObsOk_model (tls : Bool) (user : Str) (w : Base) :
    reloadObsOk tls w.enc (payloadClear (pathOfWritten tls user w)) = true := by
  have h := written_enc_both_ends user w
  cases tls <;> cases he : w.enc <;>
    simp [reloadObsOk, pathOfWritten, h.1, h.2, he, payloadClear, onNetworkPath, layers]

end Written

/-! ## I. HISTORIES of the TLS files on disk (both sides) and the websocket upgrade request

  frps: the tls.Config of every handshake is the one `NewService` built (no callback, no later write): whatever happens to
  certFile / keyFile / trustedCaFile while frps runs, and whenever the handshake comes, the trusted-CA and force clauses hold.
  frpc: every login attempt builds its tls.Config from the files as they are THEN; an attempt with TLS switched on is a
  TLS connection or no connection at all, never a plain one — whatever the earlier attempts met. -/

section Hist
open WireHist

theorem hist_run_keeps_running (evs : List Ev) : ∀ (s : St), (run s evs).run = s.run := by
  induction evs with
  | nil => intro s; rfl
  | cons e es ih =>
    intro s
    have : (run s (e :: es)) = run (step s e) es := rfl
    rw [this, ih]
    cases e <;> rfl

/-- the config of a handshake does not depend on what happened on disk or on the time -/
theorem hist_effective_tls_const (l : Listener) (s : St) (evs : List Ev) :
    effectiveTls l (run s evs) = effectiveTls l s := by
  simp [effectiveTls, hist_run_keeps_running]

/-- **every handshake on every public listener at every point of every history** runs with
    RequireAndVerifyClientCert and the CA pool when a trusted CA is configured -/
theorem hist_every_handshake_requires_cert (l : Listener) (s : St) (evs : List Ev) (hl : l.isPublic = true)
    (hca : s.run.cfg.trustedCA = true) :
    ∃ t, effectiveTls l (run s evs) = some t ∧ t.clientAuth = .requireAndVerify ∧ t.hasClientCAs = true := by
  rw [hist_effective_tls_const]
  cases l <;> simp_all [effectiveTls, listenerTls, Listener.gate, Listener.isPublic, quicServerTls, ServerTls.clone,
    serverTls, serverTlsOf]

/-- **trusted CA, for every history**: after any sequence of file replacements and waits, a peer without a
    certificate of the CA frps loaded gets no session on any control transport -/
theorem hist_ca_peer_without_acceptable_cert_uninterpreted (s : St) (evs : List Ev) (c : ClientCfg) (cli : Option Nat)
    (hca : s.run.cfg.trustedCA = true) (hbad : c.certGiven = false ∨ cli ≠ some s.run.clientCA) :
    probeUp (run s evs) c cli = false := by
  unfold probeUp
  rw [hist_run_keeps_running]
  cases h : sessionUpOn s.run.cfg c (pkiOf s.run cli)
  · rfl
  · have := ca_session_requires_cert_every_protocol s.run.cfg c (pkiOf s.run cli) hca h
    rcases hbad with hb | hb
    · rw [this.2.1] at hb; exact absurd hb (by decide)
    · exact absurd this.2.2 hb

/-- **force, for every history**: a peer that does not dial TLS gets no session from a forcing frps -/
theorem hist_force_peer_without_tls_uninterpreted (s : St) (evs : List Ev) (c : ClientCfg) (cli : Option Nat)
    (hf : serverForce s.run.cfg = true) (hp : (clientDial c).tls = false) :
    probeUp (run s evs) c cli = false := by
  unfold probeUp
  rw [hist_run_keeps_running]
  cases h : sessionUpOn s.run.cfg c (pkiOf s.run cli)
  · rfl
  · have := force_session_requires_tls_every_protocol s.run.cfg c (pkiOf s.run cli) hf h
    rw [this] at hp; exact absurd hp (by decide)

/-- executable predicate for one probe of a rig: an answer from frps only for a peer the rules admit -/
def histObsOk (s : St) (c : ClientCfg) (cli : Option Nat) (interpreted : Bool) : Bool :=
  !interpreted || probeUp s c cli

theorem histObsOk_sound (s : St) (evs : List Ev) (c : ClientCfg) (cli : Option Nat)
    (h : histObsOk (run s evs) c cli true = true) :
    (s.run.cfg.trustedCA = true → c.tlsEnable = true ∧ c.certGiven = true ∧ cli = some s.run.clientCA) ∧
    (serverForce s.run.cfg = true → (clientDial c).tls = true) := by
  have hs : sessionUpOn s.run.cfg c (pkiOf s.run cli) = true := by
    simpa [histObsOk, probeUp, hist_run_keeps_running] using h
  exact ⟨fun hca => ca_session_requires_cert_every_protocol s.run.cfg c (pkiOf s.run cli) hca hs,
         fun hf => force_session_requires_tls_every_protocol s.run.cfg c (pkiOf s.run cli) hf hs⟩

/-- `NewService` keeps the configuration and loads the CA that is on disk at that moment -/
theorem start_loads_disk (cfg : ServerCfg) (d : SrvDisk) (r : Running) (h : start cfg d = some r) :
    r.cfg = cfg ∧ (cfg.trustedCA = true → d.caEmpty = false → d.ca = some r.clientCA) ∧
      (cfg.certGiven = true → r.certIssuer = d.certIssuer ∧ d.certIssuer.isSome = true) := by
  unfold start at h
  cases hc : cfg.certGiven <;> cases ht : cfg.trustedCA <;> cases he : d.caEmpty <;>
    cases hi : d.certIssuer <;> cases ha : d.ca <;> simp_all <;> (subst h; simp)

/-- a construction site is sound iff a CA pool never comes without the demand for a verified certificate -/
theorem site_sound_iff (x : Site) : x.sound = true ↔ (x.setsClientCAs = true → x.setsRequire = true) := by
  cases x with | mk a b => cases a <;> cases b <;> simp [Site.sound]

/-- **an attempt with TLS switched on never dials a plain connection**, whatever is on disk -/
theorem attempt_never_plain (c : ClientCfg) (d : CliDisk) (h : c.tlsEnable = true) : attempt c d ≠ .plainConn := by
  unfold attempt
  simp only [h, Bool.true_or, if_true]
  cases build c.certGiven c.trustedCA (effServerName c) d <;> simp

/-- **… at every attempt of every retry history** -/
theorem attempts_never_plain (c : ClientCfg) (ds : List CliDisk) (h : c.tlsEnable = true) :
    ∀ a ∈ attempts c ds, a ≠ .plainConn := by
  intro a ha
  simp only [attempts, List.mem_map] at ha
  obtain ⟨d, _, rfl⟩ := ha
  exact attempt_never_plain c d h

/-- an attempt does not depend on the attempts before it -/
theorem attempt_memoryless (c : ClientCfg) (ds : List CliDisk) (d : CliDisk) :
    (attempts c (ds ++ [d])).getLast? = some (attempt c d) := by
  simp [attempts]

/-- no connection is dialled exactly when a configured file cannot be loaded -/
theorem attempt_noConn_iff (c : ClientCfg) (d : CliDisk) (h : c.tlsEnable = true) :
    attempt c d = .noConn ↔ (c.certGiven = true ∧ d.pair ≠ .ok) ∨ (c.trustedCA = true ∧ d.ca = .gone) := by
  unfold attempt build
  cases hc : c.certGiven <;> cases ht : c.trustedCA <;> cases hp : d.pair <;> cases ha : d.ca <;> simp [h]

/-- a verifying attempt against a readable but empty CA file is a TLS connection the client itself refuses -/
theorem attempt_empty_ca_refuses (c : ClientCfg) (d : CliDisk) (h : c.tlsEnable = true) (hca : c.trustedCA = true)
    (hp : c.certGiven = false ∨ d.pair = .ok) (he : d.ca = .empty) : attempt c d = .tlsConn false := by
  unfold attempt build
  rcases hp with hp | hp <;> simp [h, hca, hp, he, clientTlsOf]

/-- executable predicate on the relay's own observation of one attempt: with TLS switched on no connection carried
    client bytes outside a TLS record stream and the marker of the Login is not readable -/
def loginObsOk (tls clear seen : Bool) : Bool := !tls || (!clear && !seen)

theorem loginObsOk_model (c : ClientCfg) (ds : List CliDisk) (a : Attempt) (ha : a ∈ attempts c ds) :
    loginObsOk c.tlsEnable (a == .plainConn) (a == .plainConn) = true := by
  cases ht : c.tlsEnable
  · simp [loginObsOk]
  · have := attempts_never_plain c ds ht a ha
    cases a <;> simp_all [loginObsOk]

/-- the upgrade request of a websocket peer is not an input: the reply is the one of a raw peer -/
theorem wsPeerReply_eq_rawReply (s : ServerCfg) (hdrs : List (Str × Str)) (b : Nat) :
    wsPeerReply s hdrs b = rawReply s b := rfl

theorem ws_headers_irrelevant (s : ServerCfg) (h h' : List (Str × Str)) (b : Nat) :
    wsPeerReply s h b = wsPeerReply s h' b := rfl

/-- **force, websocket peers**: whatever request headers a peer without TLS sends with its upgrade, a forcing frps
    interprets nothing of what follows -/
theorem ws_forced_peer_uninterpreted (s : ServerCfg) (hdrs : List (Str × Str)) (b : Nat)
    (h : serverForce s = true) : wsPeerReply s hdrs b = none := by
  rw [wsPeerReply_eq_rawReply]
  exact (forced_plain_peer_uninterpreted s b h).2

end Hist

/-! ## F. facts regenerated from the source on every run (translate/gen_authfacts.go → Frp/Gen/AuthFacts.lean)

  These are checked against what the Go files say NOW; a change of the code changes the generated
  file and the theorem stops type-checking. -/
section Generated
open Gen.AuthFacts

/-- pkg/auth/token.go: each setter assigns PrivilegeKey exactly once, the right-hand side is
    `util.GetAuthKey(auth.token, <msg>.Timestamp)`, `auth.token` occurs nowhere else in the setter,
    and the only other field written is Timestamp. -/
theorem gen_setters_only_digest :
    setters.map (·.fn) = ["SetLogin", "SetPing", "SetNewWorkConn"] ∧
    setters.all (fun s => s.allDigest && s.keyAssigns.length == 1 && s.tokenUses == 1 &&
      s.tokenUsesInDigest == 1 && s.otherFieldWrites.all (· == "Timestamp")) = true := by
  decide +kernel

def kindOfSetter : String → MsgKind
  | "SetPing" => .ping
  | "SetNewWorkConn" => .newWorkConn
  | _ => .login

/-- the scope guards are the ones `authKeyField` models: the field is the digest under the scope
    the setter checks, and (for guarded setters) empty without it -/
theorem gen_setters_match_model :
    setters.map (fun s => (s.fn, s.scopeGuard)) =
      [("SetLogin", ""), ("SetPing", "v1.AuthScopeHeartBeats"),
       ("SetNewWorkConn", "v1.AuthScopeNewWorkConns")] ∧
    (∀ hb wc, authKeyField .login hb wc = .digest) ∧
    (∀ hb wc, authKeyField .ping hb wc = if hb then .digest else .empty) ∧
    (∀ hb wc, authKeyField .newWorkConn hb wc = if wc then .digest else .empty) := by
  refine ⟨by decide +kernel, ?_, ?_, ?_⟩ <;> intro hb wc <;> cases hb <;> cases wc <;> rfl

/-- both ends build the dispatcher over `NewCryptoReadWriter(conn, token)` exactly under the
    encrypted flag, over the raw connection otherwise; the server passes `!internal` -/
theorem gen_control_wrap :
    serverCtl = { cond := "ctlConnEncrypted"
                , thenCryptoCall := "netpkg.NewCryptoReadWriter(ctl.conn, []byte(ctl.serverCfg.Auth.Token))"
                , thenDispatcherArg := "cryptoRW", elseDispatcherArg := "ctl.conn" } ∧
    clientCtl = { cond := "sessionCtx.ConnEncrypted"
                , thenCryptoCall := "netpkg.NewCryptoReadWriter(sessionCtx.Conn, []byte(sessionCtx.Common.Auth.Token))"
                , thenDispatcherArg := "cryptoRW", elseDispatcherArg := "sessionCtx.Conn" } ∧
    registerControlEncArgs = ["!internal"] ∧
    (∀ internal, controlEncrypted internal = !internal) := by
  refine ⟨by decide +kernel, by decide +kernel, by decide +kernel, fun _ => rfl⟩

/-- the only listener served with `internal = true` is the in-process ssh-gateway listener -/
theorem gen_listeners :
    listeners = ["svr.kcpListener false", "svr.listener false", "svr.sshTunnelListener true",
                 "svr.tlsListener false", "svr.websocketListener false"] := by
  decide +kernel

/-- the sniff switch has the modelled shape and constants -/
theorem gen_sniff :
    frpTLSHeadByte = 0x17 ∧ (∀ f, sniff frpTLSHeadByte f = .customTLS) ∧
    sniffCases =
      ["n == 1 && int(buf[0]) == FRPTLSHeadByte => tls.Server(c, tlsConfig)",
       "n == 1 && int(buf[0]) == 0x16 => tls.Server(sc, tlsConfig)",
       "default: if tlsOnly { err = fmt.Errorf(\"non-TLS connection received on a TlsOnly server\") return }; out = sc;"] := by
  refine ⟨rfl, fun f => by cases f <;> rfl, by decide +kernel⟩

def kindName : MsgKind → String
  | .login => "Login" | .loginResp => "LoginResp" | .newProxy => "NewProxy"
  | .newProxyResp => "NewProxyResp" | .closeProxy => "CloseProxy" | .newWorkConn => "NewWorkConn"
  | .reqWorkConn => "ReqWorkConn" | .startWorkConn => "StartWorkConn"
  | .newVisitorConn => "NewVisitorConn" | .newVisitorConnResp => "NewVisitorConnResp"
  | .ping => "Ping" | .pong => "Pong" | .udpPacket => "UDPPacket"
  | .natHoleVisitor => "NatHoleVisitor" | .natHoleClient => "NatHoleClient"
  | .natHoleResp => "NatHoleResp" | .natHoleSid => "NatHoleSid" | .natHoleReport => "NatHoleReport"

def fieldName : Secret × Form → String
  | (.token, _) => "PrivilegeKey"
  | (.sk, .digest) => "SignKey"
  | (.sk, .clear) => "Sk"
  | (.httpPwd, _) => "HTTPPwd"

/-- the 18 registered message types, in registry order, have exactly the secret-derived fields the
    model's `carries` table lists (no other message has a PrivilegeKey / SignKey / Sk / HTTPPwd) -/
theorem gen_secretFields_match_carries :
    secretFields = MsgKind.all.map (fun k => (kindName k, (carries k).map fieldName)) := by
  decide +kernel

/-- visitors put only `GetAuthKey(secretKey, now)` into NewVisitorConn.SignKey, and the secret key
    is otherwise used only as a cipher key (WithEncryption / the peer-to-peer MakeHole) -/
theorem gen_visitors :
    visitorSignKeys = ["stcp.go: util.GetAuthKey(sv.cfg.SecretKey, now)",
                       "sudp.go: util.GetAuthKey(sv.cfg.SecretKey, now)"] ∧
    visitorSecretKeyUses = ["stcp.go: libio.WithEncryption", "stcp.go: util.GetAuthKey",
      "sudp.go: libio.WithEncryption", "sudp.go: util.GetAuthKey", "xtcp.go: libio.WithEncryption",
      "xtcp.go: nathole.MakeHole", "xtcp.go: util.GetAuthKey"] := by
  constructor <;> decide +kernel

/-- server/service.go: the listeners are served the way `Listener.gate` says — five sniffed /
    internal `HandleListener` calls and the QUIC listener through `HandleQUICListener`, whose streams
    go to `handleConnection(…, false)` with no sniff in between; the one sniff call uses
    `svr.tlsConfig` and the completed `Force`, under `!internal` -/
theorem gen_listener_handlers :
    listenerHandlers =
      ["HandleListener svr.kcpListener false", "HandleListener svr.listener false",
       "HandleListener svr.sshTunnelListener true", "HandleListener svr.tlsListener false",
       "HandleListener svr.websocketListener false", "HandleQUICListener svr.quicListener"] ∧
    handleConnectionCalls =
      ["HandleListener: frpConn internal", "HandleListener: stream internal",
       "HandleQUICListener: netpkg.QuicStreamToNetConn(stream, frpConn) false"] ∧
    sniffCalls = ["HandleListener: c, svr.tlsConfig, forceTLS, connReadTimeout"] ∧
    forceTLSIs = ["svr.cfg.Transport.TLS.Force"] ∧ sniffGuard = ["for && !internal"] ∧
    Listener.all.map Listener.gate = [.sniff, .sniff, .sniff, .sniff, .quicTls, .internal] := by
  refine ⟨by decide +kernel, by decide +kernel, by decide +kernel, by decide +kernel,
    by decide +kernel, rfl⟩

/-- NewService: `svr.tlsConfig` is the unmodified result of `NewServerTLSConfig(cert, key, trustedCa)`;
    the config handed to `quic.ListenAddr` is a `Clone()` of that same value on which nothing but
    `NextProtos` is written — which is what `quicServerTls` says -/
theorem gen_quic_tls :
    serviceTLS = { name := "tlsConfig"
                 , inits := ["transport.NewServerTLSConfig( cfg.Transport.TLS.CertFile, cfg.Transport.TLS.KeyFile, cfg.Transport.TLS.TrustedCaFile)"]
                 , writes := [] } ∧
    serviceTLSLaterWrites = [] ∧
    quicTLS.inits = [serviceTLS.name ++ ".Clone()"] ∧
    quicTLS.writes = ["NextProtos = []string{\"frp\"}"] ∧
    frpALPN = Str.ofString "frp" ∧
    (∀ s, quicServerTls s = { (serverTls s).clone with nextProtos := [frpALPN] }) := by
  refine ⟨by decide +kernel, by decide +kernel, by decide +kernel, by decide +kernel,
    by decide +kernel, fun _ => rfl⟩

/-- pkg/transport/tls.go NewServerTLSConfig: starts from an empty config, always sets a certificate
    (random iff cert or key path is empty), and sets RequireAndVerifyClientCert + ClientCAs exactly
    under `caPath != ""` — `serverTlsOf` -/
theorem gen_server_tls_config :
    newServerTLSParams = ["certPath", "keyPath", "caPath"] ∧
    newServerTLS =
      { name := "base", inits := ["&tls.Config{}"]
      , writes := ["certPath == \"\" || keyPath == \"\": Certificates = []tls.Certificate{*cert}",
                   "!(certPath == \"\" || keyPath == \"\"): Certificates = []tls.Certificate{*cert}",
                   "caPath != \"\": ClientAuth = tls.RequireAndVerifyClientCert",
                   "caPath != \"\": ClientCAs = pool"] } ∧
    (∀ cert ca, serverTlsOf cert ca =
      { clientAuth := if ca then .requireAndVerify else .noClientCert, hasClientCAs := ca
      , randomCert := !cert, nextProtos := [] }) := by
  refine ⟨by decide +kernel, by decide +kernel, fun _ _ => rfl⟩

/-- client/connector.go Open (quic): the configured config iff tls.enable, else one with no
    certificate / CA; then NextProtos — `clientTls` for `.quic` -/
theorem gen_client_quic_tls :
    clientQuicTLS =
      { name := "tlsConfig"
      , inits := ["lo.FromPtr(c.cfg.Transport.TLS.Enable): transport.NewClientTLSConfig( c.cfg.Transport.TLS.CertFile, c.cfg.Transport.TLS.KeyFile, c.cfg.Transport.TLS.TrustedCaFile, sn)",
                  "!(lo.FromPtr(c.cfg.Transport.TLS.Enable)): transport.NewClientTLSConfig(\"\", \"\", \"\", sn)"]
      , writes := ["NextProtos = []string{\"frp\"}"] } ∧
    (∀ c : ClientCfg, c.protocol = .quic → clientTls c =
      some { clientTlsOf (c.tlsEnable && c.certGiven) (c.tlsEnable && c.trustedCA) (effServerName c)
             with nextProtos := [frpALPN] }) := by
  refine ⟨by decide +kernel, fun c hp => ?_⟩
  cases ht : c.tlsEnable <;> simp [clientTls, hp, ht]

/-- pkg/transport/tls.go NewClientTLSConfig: starts from an empty config; `ServerName` is the parameter,
    unconditionally; `RootCAs` + `InsecureSkipVerify = false` exactly under `caPath != ""`,
    `InsecureSkipVerify = true` exactly otherwise; NO other field (no verification callback, no
    name-dependent branch) is written — `clientTlsOf` -/
theorem gen_client_tls_config :
    newClientTLSParams = ["certPath", "keyPath", "caPath", "serverName"] ∧
    newClientTLS =
      { name := "base", inits := ["&tls.Config{}"]
      , writes := ["certPath != \"\" && keyPath != \"\": Certificates = []tls.Certificate{*cert}",
                   "ServerName = serverName",
                   "caPath != \"\": RootCAs = pool",
                   "caPath != \"\": InsecureSkipVerify = false",
                   "!(caPath != \"\"): InsecureSkipVerify = true"] } ∧
    (∀ cert ca sn, clientTlsOf cert ca sn =
      { insecureSkipVerify := !ca, serverName := sn, hasRootCAs := ca, hasCert := cert, nextProtos := [] }) := by
  refine ⟨by decide +kernel, by decide +kernel, fun _ _ _ => rfl⟩

/-- client/connector.go: the three NewClientTLSConfig calls get `sn`, which is the configured server
    name, or `serverAddr` when that is empty — `effServerName`; the config of the tcp / kcp /
    websocket / wss dial is that call's result with no field written afterwards -/
theorem gen_connector_server_name :
    clientTLSCalls =
      ["Open: \"\", \"\", \"\", sn",
       "Open: c.cfg.Transport.TLS.CertFile, c.cfg.Transport.TLS.KeyFile, c.cfg.Transport.TLS.TrustedCaFile, sn",
       "realConnect: c.cfg.Transport.TLS.CertFile, c.cfg.Transport.TLS.KeyFile, c.cfg.Transport.TLS.TrustedCaFile, sn"] ∧
    clientServerNames =
      ["Open: sn <- c.cfg.Transport.TLS.ServerName | sn == \"\": c.cfg.ServerAddr",
       "realConnect: sn <- c.cfg.Transport.TLS.ServerName | sn == \"\": c.cfg.ServerAddr"] ∧
    clientDialTLS =
      { name := "tlsConfig"
      , inits := ["tlsEnable: transport.NewClientTLSConfig( c.cfg.Transport.TLS.CertFile, c.cfg.Transport.TLS.KeyFile, c.cfg.Transport.TLS.TrustedCaFile, sn)"]
      , writes := [] } ∧
    (∀ c : ClientCfg, effServerName c = if c.serverName = [] then c.serverAddr else c.serverName) := by
  refine ⟨by decide +kernel, by decide +kernel, by decide +kernel, fun _ => rfl⟩

/-- client/proxy: a reload drops a running proxy exactly under `!ok || !reflect.DeepEqual(pxy.Cfg, cfg)`
    (nothing is "applied in place": the only calls made on a wrapper are Stop on a dropped one and
    SetInWorkConnCallback / Start on a new one); `Wrapper.Cfg` is set by NewWrapper's literal and never
    written again, the proxy object is made from that same `pw.Cfg`, `BaseProxy.baseCfg` is its base
    configuration and never written again — `WireReload.keeps`, `WireReload.mk` -/
theorem gen_reload_compare :
    reloadDel = ["for: false", "for && !ok || !reflect.DeepEqual(pxy.Cfg, cfg): true"] ∧
    reloadWrapperCalls =
      ["for && del: pxy.Stop()",
       "for && !ok && pm.inWorkConnCallback != nil: pxy.SetInWorkConnCallback(pm.inWorkConnCallback)",
       "for && !ok: pxy.Start()"] ∧
    wrapperCfgWrites = [] ∧ wrapperCfgInit = ["proxy_wrapper.go NewWrapper: cfg"] ∧
    newProxyCalls = ["proxy_wrapper.go NewWrapper: pw.ctx, pw.Cfg, clientCfg, pw.msgTransporter, pw.vnetController"] ∧
    baseCfgInit = ["proxy.go NewProxy: pxyConf.GetBaseConfig()"] ∧
    (∀ c, (WireReload.mk c).built = (WireReload.mk c).cfg) ∧
    (∀ cfgs p, WireReload.keeps cfgs p = (WireReload.lookupLast cfgs p.cfg.name == some p.cfg)) := by
  refine ⟨by decide +kernel, by decide +kernel, by decide +kernel, by decide +kernel, by decide +kernel,
    by decide +kernel, fun _ => rfl, fun _ _ => rfl⟩

/-- every `libio.WithEncryption` wrap on the frpc↔frps work connection — three on the client side,
    three on the server side — sits directly under the `Transport.UseEncryption` of the configuration
    the proxy object holds -/
theorem gen_enc_wrap_conditions :
    encWrapConds =
      ["client/proxy/proxy.go HandleTCPWorkConnection: baseCfg.Transport.UseEncryption",
       "client/proxy/sudp.go InWorkConn: pxy.cfg.Transport.UseEncryption",
       "client/proxy/udp.go InWorkConn: pxy.cfg.Transport.UseEncryption",
       "server/proxy/http.go GetRealConn: pxy.cfg.Transport.UseEncryption",
       "server/proxy/proxy.go handleUserTCPConnection: cfg.Transport.UseEncryption",
       "server/proxy/udp.go Run: pxy.cfg.Transport.UseEncryption"] := by
  decide +kernel

/-- pkg/config/v1: the proxy configurers have ONE `Complete` (ProxyBaseConfig's, no per-type override); it
    assigns exactly Name, LocalIP and Transport.BandwidthLimitMode, calls nothing but the plugin options'
    `Complete()`, takes no address of its fields; the only plugin option methods with a body write
    EnableHTTP2; `MarshalToMsg` / `UnmarshalFromMsg` copy the two flags; the client loader and
    `NewProxyConfigurerFromMsg` call Complete as modelled.  So: **the encryption flags are not among the
    fields Complete writes** (no written path is `Transport.UseEncryption` / `Transport.UseCompression`
    or a prefix of them) — `WireConfig.complete` -/
theorem gen_proxy_complete :
    proxyCompleteImpls = ["proxy.go ProxyBaseConfig"] ∧
    proxyCompleteWrites =
      ["Name = lo.Ternary(namePrefix == \"\", \"\", namePrefix+\".\") + c.Name",
       "LocalIP = util.EmptyOr(c.LocalIP, \"127.0.0.1\")",
       "Transport.BandwidthLimitMode = util.EmptyOr(c.Transport.BandwidthLimitMode, types.BandwidthLimitModeClient)"] ∧
    proxyCompleteCalls = ["c.Plugin.ClientPluginOptions != nil: c.Plugin.ClientPluginOptions.Complete()"] ∧
    proxyCompleteAddrTaken = [] ∧
    (∀ p ∈ proxyCompleteWrittenPaths,
      p ∉ ["", "Transport", "Transport.UseEncryption", "Transport.UseCompression"]) ∧
    pluginCompleteStmts =
      ["HTTPS2HTTPPluginOptions: o.EnableHTTP2 = util.EmptyOr(o.EnableHTTP2, lo.ToPtr(true))",
       "HTTPS2HTTPSPluginOptions: o.EnableHTTP2 = util.EmptyOr(o.EnableHTTP2, lo.ToPtr(true))"] ∧
    proxyMsgFlagStmts =
      ["MarshalToMsg: m.UseEncryption = c.Transport.UseEncryption",
       "MarshalToMsg: m.UseCompression = c.Transport.UseCompression",
       "UnmarshalFromMsg: c.Transport.UseEncryption = m.UseEncryption",
       "UnmarshalFromMsg: c.Transport.UseCompression = m.UseCompression"] ∧
    loaderCompleteCalls =
      ["LoadClientConfig: cliCfg != nil: cliCfg.Complete()", "LoadClientConfig: for: c.Complete(cliCfg.User)",
       "LoadClientConfig: for: c.Complete(cliCfg)", "NewProxyConfigurerFromMsg: configurer.UnmarshalFromMsg(m)",
       "NewProxyConfigurerFromMsg: configurer.Complete(\"\")"] ∧
    proxyTypes = WireConfig.PxType.all.map WireConfig.PxType.name ∧
    "none" :: clientPluginTypes = WireConfig.Plugin.all.map WireConfig.Plugin.name ∧
    pluginCompleteImpls.length + 1 = WireConfig.Plugin.all.length ∧
    (∀ pfx b, (WireConfig.complete pfx b).enc = b.enc ∧ (WireConfig.complete pfx b).comp = b.comp) := by
  refine ⟨by decide +kernel, by decide +kernel, by decide +kernel, by decide +kernel, by decide +kernel,
    by decide +kernel, by decide +kernel, by decide +kernel, by decide +kernel, by decide +kernel,
    by decide +kernel, fun pfx b => ⟨(complete_keeps_flags pfx b).1, (complete_keeps_flags pfx b).2.1⟩⟩

/-- pkg/config/v1/visitor.go: the visitors' `Complete` (the stcp / sudp / xtcp visitor leg has its own
    transport.useEncryption) write the bind address, the two names and the xtcp retry / fallback defaults —
    nothing of `Transport` -/
theorem gen_visitor_complete :
    visitorCompleteWrites =
      ["VisitorBaseConfig: BindAddr", "VisitorBaseConfig: Name", "VisitorBaseConfig: ServerName",
       "VisitorBaseConfig: ServerName", "XTCPVisitorConfig: Protocol", "XTCPVisitorConfig: MaxRetriesAnHour",
       "XTCPVisitorConfig: MinRetryInterval", "XTCPVisitorConfig: FallbackTimeoutMs", "XTCPVisitorConfig: FallbackTo",
       "XTCPVisitorConfig: call c.VisitorBaseConfig.Complete(g)"] ∧
    (∀ x ∈ visitorCompleteWrites, ∀ r ∈ ["VisitorBaseConfig: ", "XTCPVisitorConfig: "],
      x ∉ [r, r ++ "Transport", r ++ "Transport.UseEncryption", r ++ "Transport.UseCompression",
           r ++ "VisitorBaseConfig", r ++ "VisitorBaseConfig.Transport"]) := by
  constructor <;> decide +kernel

/-- client/connector.go realConnect: a tls.Config is built under `tlsEnable`, which is
    `transport.tls.enable` and is set to true for wss — `tlsRequired`, `clientTls`; the wss dial runs the
    TLS hook (priority 100) with that config before the websocket hook (priority 110) and installs no
    custom-byte hook — `clientHooks` -/
theorem gen_connector_tls_required :
    clientDialTLSEnable =
      { name := "tlsEnable"
      , inits := ["lo.FromPtr(c.cfg.Transport.TLS.Enable)", "c.cfg.Transport.Protocol == \"wss\": true"]
      , writes := [] } ∧
    clientDialOptions =
      ["case \"websocket\": libnet.WithAfterHook(libnet.AfterHook{Hook: netpkg.DialHookWebsocket(protocol, \"\")})",
       "case \"websocket\": libnet.WithAfterHook(libnet.AfterHook{ Hook: netpkg.DialHookCustomTLSHeadByte(tlsConfig != nil, lo.FromPtr(c.cfg.Transport.TLS.DisableCustomTLSFirstByte)), })",
       "case \"websocket\": libnet.WithTLSConfig(tlsConfig)",
       "case \"wss\": libnet.WithTLSConfigAndPriority(100, tlsConfig)",
       "case \"wss\": libnet.WithAfterHook(libnet.AfterHook{Hook: netpkg.DialHookWebsocket(protocol, tlsConfig.ServerName), Priority: 110})",
       "default: libnet.WithAfterHook(libnet.AfterHook{ Hook: netpkg.DialHookCustomTLSHeadByte(tlsConfig != nil, lo.FromPtr(c.cfg.Transport.TLS.DisableCustomTLSFirstByte)), })",
       "default: libnet.WithTLSConfig(tlsConfig)"] ∧
    (∀ c : ClientCfg, (clientTls c).isSome = (c.tlsEnable || tlsRequired c.protocol)) ∧
    (∀ c : ClientCfg, c.protocol = .wss →
      clientTls c = some (clientTlsOf c.certGiven c.trustedCA (effServerName c)) ∧
      clientHooks c = [.tls, .websocket]) := by
  refine ⟨by decide +kernel, by decide +kernel, clientTls_isSome_iff, fun c hp => ?_⟩
  exact ⟨wss_tls_config_ignores_enable c hp, by simp [clientHooks, hp]⟩

/-- the policy fields a function writes, read as a `WireHist.Site` -/
def siteOf (fs : List (String × String)) : WireHist.Site :=
  { setsClientCAs := fs.any fun p => p.1 == "ClientCAs"
  , setsRequire := fs.contains ("ClientAuth", "tls.RequireAndVerifyClientCert") }

/-- census of pkg/transport, pkg/util/net, server/**, client/**: the only functions that build a `tls.Config` or write one
    of its policy fields are `NewServerTLSConfig` and `NewClientTLSConfig`; every site that sets `ClientCAs` sets
    `ClientAuth = RequireAndVerifyClientCert` beside it; NO crypto/tls callback (GetConfigForClient, GetCertificate,
    VerifyPeerCertificate, …) is installed anywhere, so no handshake runs with a config built elsewhere; inside `NewService`
    the server's config is only stored in `Service.tlsConfig`, cloned, given `NextProtos` and handed to `quic.ListenAddr`;
    pkg/transport keeps no package-level state between calls (every call of `NewClientTLSConfig` reads the files) —
    `WireHist.effectiveTls`, `WireHist.attempt` -/
theorem gen_tls_census :
    tlsSites =
      [ ("pkg/transport/tls.go NewServerTLSConfig", [("ClientAuth", "tls.RequireAndVerifyClientCert"), ("ClientCAs", "pool")])
      , ("pkg/transport/tls.go NewClientTLSConfig",
          [("RootCAs", "pool"), ("InsecureSkipVerify", "false"), ("InsecureSkipVerify", "true")]) ] ∧
    (tlsSites.all fun x => (siteOf x.2).sound) = true ∧
    tlsCallbacks = [] ∧
    serviceTLSUses =
      ["tlsConfig: defined", "tlsConfig: field tlsConfig", "quicTLSCfg: defined", "tlsConfig: call .Clone()",
       "quicTLSCfg: write .NextProtos", "quicTLSCfg: argument of quic.ListenAddr"] ∧
    transportPkgVars = [] := by
  refine ⟨by decide +kernel, by decide +kernel, by decide +kernel, by decide +kernel, by decide +kernel⟩

end Generated

/-! ## Non-vacuity -/

-- a forcing server exists through the CA alone; all 256 bytes are classified
example : serverForce { force := false, trustedCA := true, certGiven := true } = true := rfl
example : (List.range 256).all (fun b => sniff b true != .plain) = true := by decide +kernel
example : ((List.range 256).filter (fun b => sniff b false == .plain)).length = 254 := by
  decide +kernel
-- a mutual-TLS session that comes up, and one refused for the name only
example : sessionUp { force := false, trustedCA := true, certGiven := true }
    { tlsEnable := true, disableCustomFirstByte := true, trustedCA := true, certGiven := true
    , serverName := [102], serverAddr := [49] }
    { srvCertIssuer := some 1, srvCertDNS := [[102]], cliRootCA := 1, cliCertIssuer := some 1
    , srvClientCA := 1 } = true := by decide
example : sessionUp { force := false, trustedCA := true, certGiven := true }
    { tlsEnable := true, disableCustomFirstByte := true, trustedCA := true, certGiven := true
    , serverName := [103], serverAddr := [49] }
    { srvCertIssuer := some 1, srvCertDNS := [[102]], cliRootCA := 1, cliCertIssuer := some 1
    , srvClientCA := 1 } = false := by decide
-- QUIC: a mutual-TLS session that comes up, and the same peers with a certificate of another CA /
-- with no certificate: refused; force plays no role
example : sessionUpOn { force := false, trustedCA := true, certGiven := true }
    { tlsEnable := true, disableCustomFirstByte := true, protocol := .quic, trustedCA := false
    , certGiven := true, serverName := [], serverAddr := [49] }
    { srvCertIssuer := some 1, cliCertIssuer := some 1, srvClientCA := 1 } = true := by decide
example : sessionUpOn { force := false, trustedCA := true, certGiven := true }
    { tlsEnable := true, disableCustomFirstByte := true, protocol := .quic, trustedCA := false
    , certGiven := true, serverName := [], serverAddr := [49] }
    { srvCertIssuer := some 1, cliCertIssuer := some 2, srvClientCA := 1 } = false := by decide
example : sessionUpOn { force := true, trustedCA := false, certGiven := false }
    { tlsEnable := false, disableCustomFirstByte := true, protocol := .quic, trustedCA := false
    , certGiven := false, serverName := [], serverAddr := [49] } {} = true := by decide
example : (Listener.all.filter Listener.isPublic).length = 5 := rfl
-- the payload IS clear in some configuration (the predicate is not trivially false/true)
example : payloadClear { tls := false, internal := false, useEncryption := false } = true := rfl
example : holdsOn { tls := false, internal := false, useEncryption := true }
    { tok := false, sk := false, pwd := false, huser := false, user := true, pay := true } = false := rfl
example : holdsOn { tls := false, internal := false, useEncryption := false }
    { tok := false, sk := false, pwd := false, huser := false, user := true, pay := true } = true := rfl

-- names: what counts as an IP literal (netip.ParseAddr's IPv4 form)
example : isIPv4 (Str.ofString "127.0.0.1") = true := by decide +kernel
example : isIPv4 (Str.ofString "255.0.10.199") = true := by decide +kernel
example : isIPv4 (Str.ofString "frps.test") = false := by decide +kernel
example : isIPv4 (Str.ofString "127.0.0.01") = false := by decide +kernel
example : isIPv4 (Str.ofString "256.0.0.1") = false := by decide +kernel
example : isIPv4 (Str.ofString "1.2.3") = false := by decide +kernel
example : isIPv4 (Str.ofString "1.2.3.4.5") = false := by decide +kernel
example : isIPv4 (Str.ofString "1..2.3") = false := by decide +kernel
example : isIPv4 [] = false := by decide +kernel
-- the name defaulted from an IP serverAddr: session with the right IP SAN, none with a same-CA
-- certificate that lists DNS names only, none with another IP
example : sessionUpOn { force := false, trustedCA := false, certGiven := true }
    { tlsEnable := true, disableCustomFirstByte := true, trustedCA := true, certGiven := false
    , serverName := [], serverAddr := Str.ofString "127.0.0.1" }
    { srvCertIssuer := some 1, srvCertIPs := [Str.ofString "127.0.0.1"], cliRootCA := 1 } = true := by
  decide +kernel
example : sessionUpOn { force := false, trustedCA := false, certGiven := true }
    { tlsEnable := true, disableCustomFirstByte := true, trustedCA := true, certGiven := false
    , serverName := [], serverAddr := Str.ofString "127.0.0.1" }
    { srvCertIssuer := some 1, srvCertDNS := [Str.ofString "other.test", Str.ofString "127.0.0.1"]
    , cliRootCA := 1 } = false := by
  decide +kernel
example : sessionUpOn { force := false, trustedCA := false, certGiven := true }
    { tlsEnable := true, disableCustomFirstByte := true, protocol := .quic, trustedCA := true
    , certGiven := false, serverName := Str.ofString "127.0.0.1", serverAddr := Str.ofString "10.0.0.1" }
    { srvCertIssuer := some 1, srvCertDNS := [Str.ofString "frps.test"]
    , srvCertIPs := [Str.ofString "127.0.0.9"], cliRootCA := 1 } = false := by
  decide +kernel
-- reload histories: start without encryption, switch it on with nothing else changed, then change
-- only the limit, then reconnect: the running proxy is built from the entry in force
example :
    let c0 : WireReload.PxCfg := { name := 0, enc := false, comp := false, limit := 1, limitServer := false, other := 0 }
    let s := WireReload.run (WireReload.start [c0])
      [.reload [{ c0 with enc := true }], .reload [{ c0 with enc := true, limit := 2 }], .reconnect]
    (WireReload.find s 0).map (fun p => (p.built.enc, p.built.limit, p.cfg == p.built)) = some (true, 2, true) := by
  decide
-- the observation predicate is not trivially true: a proxy whose status shows encryption while the
-- object was built without it fails it (TLS off)
example :
    let c0 : WireReload.PxCfg := { name := 0, enc := false, comp := false, limit := 0, limitServer := false, other := 0 }
    reloadObsOk false true (payloadClear (WireReload.pathOf false { cfg := { c0 with enc := true }, built := c0 })) = false := by
  decide
example : identOk true (Str.ofString "127.0.0.1")
    { srvCertIssuer := some 1, srvCertDNS := [Str.ofString "other.test"], cliRootCA := 1 } true = false := by
  decide +kernel

-- wss through a terminator: a verifying client with tls.enable = FALSE gets a session from the genuine
-- endpoint and none from an impostor of another CA / an endpoint of the trusted CA with another name
example : wssSessionVia { force := false, trustedCA := false, certGiven := false }
    { tlsEnable := false, disableCustomFirstByte := true, protocol := .wss, trustedCA := true, certGiven := false
    , serverName := Str.ofString "frps.test", serverAddr := Str.ofString "127.0.0.1" } { cliRootCA := 1 }
    { issuer := 1, dns := [Str.ofString "frps.test"] } = true := by decide +kernel
example : wssSessionVia { force := false, trustedCA := false, certGiven := false }
    { tlsEnable := false, disableCustomFirstByte := true, protocol := .wss, trustedCA := true, certGiven := false
    , serverName := Str.ofString "frps.test", serverAddr := Str.ofString "127.0.0.1" } { cliRootCA := 1 }
    { issuer := 2, dns := [Str.ofString "frps.test"] } = false := by decide +kernel
example : wssSessionVia { force := false, trustedCA := false, certGiven := false }
    { tlsEnable := false, disableCustomFirstByte := true, protocol := .wss, trustedCA := true, certGiven := false
    , serverName := Str.ofString "frps.test", serverAddr := Str.ofString "127.0.0.1" } { cliRootCA := 1 }
    { issuer := 1, dns := [Str.ofString "other.test"] } = false := by decide +kernel
-- the written configuration: a tcp proxy with plugin http2https and useEncryption written, user "u"
example :
    let w : WireConfig.Base := { name := Str.ofString "web", type := .tcp, localIP := [], limitMode := []
                               , enc := true, comp := false, plugin := .http2https, enableHTTP2 := none }
    ((WireConfig.loaded (Str.ofString "u") w).name, (WireConfig.loaded (Str.ofString "u") w).enc,
      WireConfig.serverEnc (Str.ofString "u") w, payloadClear (WireConfig.pathOfWritten false (Str.ofString "u") w))
      = (Str.ofString "u.web", true, true, false) := by decide +kernel
-- the predicate is not trivially true: a loader that drops the flag fails it
example : writtenKeptOk true false false false = false := rfl


-- histories: a frps with a trusted CA, its certificate renewed and its CA file replaced on disk, six seconds later: a
-- peer with the certificate of the CA loaded at start gets a session, peers without / with another one do not
example :
    let cfg : ServerCfg := { force := false, trustedCA := true, certGiven := true }
    let d0 : WireHist.SrvDisk := { certIssuer := some 1, ca := some 1 }
    let c : ClientCfg := { tlsEnable := true, disableCustomFirstByte := true, trustedCA := false, certGiven := true
                         , serverName := [], serverAddr := [49] }
    (WireHist.start cfg d0).map (fun r =>
      let s := WireHist.run { run := r, disk := d0 }
        [.replace { d0 with certGen := 1 }, .replace { certIssuer := some 2, certGen := 2, ca := some 2 }, .wait 6000]
      (WireHist.probeUp s c (some 1), WireHist.probeUp s c (some 2), WireHist.probeUp s { c with certGiven := false } none))
      = some (true, false, false) := by decide
example : WireHist.start { force := false, trustedCA := true, certGiven := true } { certIssuer := some 1, ca := none } = none := by
  decide
example : (siteOf [("ClientCAs", "r.base.ClientCAs")]).sound = false := by decide
-- login attempts: CA file missing, then present — no connection, then a verified TLS connection; TLS off: plain
example :
    let c : ClientCfg := { tlsEnable := true, disableCustomFirstByte := true, trustedCA := true, certGiven := false
                         , serverName := [], serverAddr := [49] }
    (WireHist.attempts c [{ ca := .gone }, { ca := .gone }, { ca := .ok }, { ca := .empty }],
     WireHist.attempt { c with tlsEnable := false } { ca := .gone })
      = ([.noConn, .noConn, .tlsConn true, .tlsConn false], .plainConn) := by decide
example : loginObsOk true true true = false := rfl
example : WireHist.wsPeerReply { force := false, trustedCA := false, certGiven := false, tcpMux := false } [] 0x6f = some 0x31 := by
  decide

end C05
end Frp
