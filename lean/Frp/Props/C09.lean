import Frp.Lemmas.Ports
/-
  C09 — Remote ports: whitelisted, exclusive, truthfully reported, quota-bounded.

  Model: Frp/Model/Ports.lean (ports.Manager with its three tables; TCP/UDP proxy registration and
  closure incl. the failed-listen rollback; quota; the OS as part of the state).
  All theorems are for EVERY allow set, quota and history of register / close / forwarder-exit /
  foreign bind / foreign unbind operations, with every outcome of the random port choice.
-/
namespace Frp
namespace C09
open Ports

/-! ## Operations and reachable states -/

inductive Op
  | register (sid : Nat) (name : Str) (pr : Proto) (port : Nat) (choice : Option Nat) (grab : Bool)
  | close (sid : Nat) (name : Str)
  | forwarderExit (name : Str)
  | squat (pr : Proto) (p : Nat)
  | unsquat (pr : Proto) (p : Nat)

def apply (s : Srv) : Op → Srv
  | .register sid name pr port choice grab => (s.register sid name pr port choice grab).1
  | .close sid name => s.close sid name
  | .forwarderExit name => Srv.forwarderExit true s name
  | .squat pr p => s.squat pr p
  | .unsquat pr p => s.unsquat pr p

def run (AT AU : List Nat) (maxPorts : Nat) (ops : List Op) : Srv :=
  ops.foldl apply (Srv.new AT AU maxPorts)

def allowed (AT AU : List Nat) : Proto → List Nat
  | .tcp => AT
  | .udp => AU

/-- the server invariant -/
structure SrvInv (AT AU : List Nat) (s : Srv) : Prop where
  pmInv : ∀ pr, PMInv (allowed AT AU pr) (s.pm pr)
  names : s.live.Pairwise (fun a b => a.name ≠ b.name)
  /-- every live proxy is the recorded owner of its port -/
  owns  : ∀ x ∈ s.live, (s.pm x.proto).usedBy x.port = some x.name
  /-- every port accounted as used is really held by a live proxy with that name -/
  acct  : ∀ pr p n, (s.pm pr).usedBy p = some n →
            ∃ x ∈ s.live, x.proto = pr ∧ x.port = p ∧ x.name = n
  /-- the OS never lets a foreign process and frp hold the same port -/
  os    : ∀ pr p, (pr, p) ∈ s.ext → ¬ ∃ x ∈ s.live, x.proto = pr ∧ x.port = p
  quota : s.maxPorts > 0 → ∀ sid,
            s.quotaOf sid = (s.live.filter (fun x => x.sid = sid)).length ∧ s.quotaOf sid ≤ s.maxPorts

/-! ### projections of the state updates -/

@[simp] theorem pm_setPm (s : Srv) (pr pr' : Proto) (pm : PM) :
    (s.setPm pr pm).pm pr' = if pr' = pr then pm else s.pm pr' := by
  cases pr <;> cases pr' <;> simp [Srv.setPm, Srv.pm]
@[simp] theorem live_setPm (s : Srv) (pr : Proto) (pm : PM) : (s.setPm pr pm).live = s.live := by
  cases pr <;> rfl
@[simp] theorem ext_setPm (s : Srv) (pr : Proto) (pm : PM) : (s.setPm pr pm).ext = s.ext := by
  cases pr <;> rfl
@[simp] theorem max_setPm (s : Srv) (pr : Proto) (pm : PM) : (s.setPm pr pm).maxPorts = s.maxPorts := by
  cases pr <;> rfl
@[simp] theorem quotaOf_setPm (s : Srv) (pr : Proto) (pm : PM) (sid : Nat) :
    (s.setPm pr pm).quotaOf sid = s.quotaOf sid := by
  cases pr <;> rfl
@[simp] theorem lingering_setPm (s : Srv) (pr : Proto) (pm : PM) : (s.setPm pr pm).lingering = s.lingering := by
  cases pr <;> rfl

@[simp] theorem pm_setQuota (s : Srv) (sid n : Nat) (pr : Proto) : (s.setQuota sid n).pm pr = s.pm pr := by
  cases pr <;> rfl
@[simp] theorem live_setQuota (s : Srv) (sid n : Nat) : (s.setQuota sid n).live = s.live := rfl
@[simp] theorem ext_setQuota (s : Srv) (sid n : Nat) : (s.setQuota sid n).ext = s.ext := rfl
@[simp] theorem max_setQuota (s : Srv) (sid n : Nat) : (s.setQuota sid n).maxPorts = s.maxPorts := rfl
@[simp] theorem lingering_setQuota (s : Srv) (sid n : Nat) : (s.setQuota sid n).lingering = s.lingering := rfl

@[simp] theorem pm_setExt (s : Srv) (e : List (Proto × Nat)) (pr : Proto) : (s.setExt e).pm pr = s.pm pr := by
  cases pr <;> rfl
@[simp] theorem live_setExt (s : Srv) (e : List (Proto × Nat)) : (s.setExt e).live = s.live := rfl
@[simp] theorem ext_setExt (s : Srv) (e : List (Proto × Nat)) : (s.setExt e).ext = e := rfl
@[simp] theorem max_setExt (s : Srv) (e : List (Proto × Nat)) : (s.setExt e).maxPorts = s.maxPorts := rfl
@[simp] theorem quotaOf_setExt (s : Srv) (e : List (Proto × Nat)) (sid : Nat) :
    (s.setExt e).quotaOf sid = s.quotaOf sid := rfl

@[simp] theorem pm_setLive (s : Srv) (l : List Pxy) (pr : Proto) : (s.setLive l).pm pr = s.pm pr := by
  cases pr <;> rfl
@[simp] theorem live_setLive (s : Srv) (l : List Pxy) : (s.setLive l).live = l := rfl
@[simp] theorem ext_setLive (s : Srv) (l : List Pxy) : (s.setLive l).ext = s.ext := rfl
@[simp] theorem max_setLive (s : Srv) (l : List Pxy) : (s.setLive l).maxPorts = s.maxPorts := rfl
@[simp] theorem quotaOf_setLive (s : Srv) (l : List Pxy) (sid : Nat) :
    (s.setLive l).quotaOf sid = s.quotaOf sid := rfl
@[simp] theorem lingering_setLive (s : Srv) (l : List Pxy) : (s.setLive l).lingering = s.lingering := rfl

@[simp] theorem pm_setLingering (s : Srv) (l : List Pxy) (pr : Proto) : (s.setLingering l).pm pr = s.pm pr := by
  cases pr <;> rfl
@[simp] theorem live_setLingering (s : Srv) (l : List Pxy) : (s.setLingering l).live = s.live := rfl
@[simp] theorem ext_setLingering (s : Srv) (l : List Pxy) : (s.setLingering l).ext = s.ext := rfl
@[simp] theorem max_setLingering (s : Srv) (l : List Pxy) : (s.setLingering l).maxPorts = s.maxPorts := rfl
@[simp] theorem quotaOf_setLingering (s : Srv) (l : List Pxy) (sid : Nat) :
    (s.setLingering l).quotaOf sid = s.quotaOf sid := rfl

theorem quotaOf_setQuota (s : Srv) (sid n sid' : Nat) :
    (s.setQuota sid n).quotaOf sid' = if sid' = sid then n else s.quotaOf sid' := by
  unfold Srv.quotaOf Srv.setQuota
  simp only [List.lookup_cons]
  by_cases h : sid' = sid
  · subst h; simp
  · have hk : (sid' == sid) = false := by simpa using h
    simp only [hk, h, ↓reduceIte]
    rw [lookup_filter_ne h]

/-- the invariant reads only pm, live, ext, maxPorts and quotaOf -/
theorem inv_congr {AT AU : List Nat} {s s' : Srv} (h : SrvInv AT AU s)
    (hpm : ∀ pr, s'.pm pr = s.pm pr) (hl : s'.live = s.live) (he : s'.ext = s.ext)
    (hm : s'.maxPorts = s.maxPorts) (hq : ∀ sid, s'.quotaOf sid = s.quotaOf sid) : SrvInv AT AU s' := by
  refine ⟨?_, ?_, ?_, ?_, ?_, ?_⟩
  · intro pr; rw [hpm]; exact h.pmInv pr
  · rw [hl]; exact h.names
  · intro x hx; rw [hl] at hx; rw [hpm]; exact h.owns x hx
  · intro pr p n hu; rw [hpm] at hu; rw [hl]; exact h.acct pr p n hu
  · intro pr p hmem; rw [he] at hmem; rw [hl]; exact h.os pr p hmem
  · intro hpos sid; rw [hm] at hpos; rw [hq, hl, hm]; exact h.quota hpos sid

/-- availability means: no foreign socket and no live proxy on the port -/
theorem avail_iff (s : Srv) (pr : Proto) (p : Nat) :
    s.avail pr p = true ↔ (pr, p) ∉ s.ext ∧ ¬ ∃ x ∈ s.live, x.proto = pr ∧ x.port = p := by
  simp [Srv.avail, Srv.bound, List.contains_iff_mem]

theorem same_name_eq {l : List Pxy} (h : l.Pairwise (fun a b => a.name ≠ b.name)) {x y : Pxy}
    (hx : x ∈ l) (hy : y ∈ l) (hn : x.name = y.name) : x = y := by
  induction l with
  | nil => simp at hx
  | cons z zs ih =>
    have hp := List.pairwise_cons.mp h
    rcases List.mem_cons.mp hx with hx1 | hx2 <;> rcases List.mem_cons.mp hy with hy1 | hy2
    · rw [hx1, hy1]
    · rw [hx1] at hn; exact absurd hn (hp.1 y hy2)
    · rw [hy1] at hn; exact absurd hn.symm (hp.1 x hx2)
    · exact ih hp.2 hx2 hy2

/-! ## Invariant preservation, one operation at a time -/

theorem inv_new (AT AU : List Nat) (m : Nat) : SrvInv AT AU (Srv.new AT AU m) := by
  refine ⟨?_, List.Pairwise.nil, ?_, ?_, ?_, ?_⟩
  · intro pr; cases pr <;> exact new_inv _
  · intro x hx; simp [Srv.new] at hx
  · intro pr p n h; cases pr <;> simp [Srv.new, Srv.pm, PM.new, PM.usedBy] at h
  · intro pr p h; simp [Srv.new] at h
  · intro _ sid; simp [Srv.new, Srv.quotaOf]

theorem inv_squat {AT AU : List Nat} {s : Srv} (h : SrvInv AT AU s) (pr : Proto) (p : Nat) :
    SrvInv AT AU (s.squat pr p) := by
  unfold Srv.squat
  split
  · exact h
  · rename_i hb
    refine ⟨by simpa using h.pmInv, by simpa using h.names, by simpa using h.owns,
      by simpa using h.acct, ?_, by simpa using h.quota⟩
    intro pr' p' hm
    simp only [ext_setExt, live_setExt] at hm ⊢
    rcases List.mem_cons.mp hm with e | e
    · injection e with e1 e2; subst e1; subst e2
      intro ⟨x, hx, hp1, hp2⟩
      apply hb
      simp only [Srv.bound, Bool.or_eq_true, List.any_eq_true, decide_eq_true_eq]
      exact Or.inr ⟨x, hx, hp1, hp2⟩
    · exact h.os pr' p' e

theorem inv_unsquat {AT AU : List Nat} {s : Srv} (h : SrvInv AT AU s) (pr : Proto) (p : Nat) :
    SrvInv AT AU (s.unsquat pr p) := by
  unfold Srv.unsquat
  refine ⟨by simpa using h.pmInv, by simpa using h.names, by simpa using h.owns,
    by simpa using h.acct, ?_, by simpa using h.quota⟩
  intro pr' p' hm
  simp only [ext_setExt, live_setExt] at hm ⊢
  exact h.os pr' p' (List.mem_filter.mp hm).1

theorem inv_forwarderExit {AT AU : List Nat} {s : Srv} (h : SrvInv AT AU s) (name : Str) :
    SrvInv AT AU (Srv.forwarderExit true s name) := by
  unfold Srv.forwarderExit
  split
  · exact h
  · apply inv_congr h <;> simp

/-- outcome of `register`, spelled out -/
theorem register_cases (s : Srv) (sid : Nat) (name : Str) (pr : Proto) (port : Nat)
    (choice : Option Nat) (grab : Bool) :
    (∃ e, s.register sid name pr port choice grab = (s, .error e)) ∨
    (∃ q, s.avail pr q = true ∧
        ((q ∈ (s.pm pr).free ∧ (port = 0 ∨ port = q)) ∨ (port = 0 ∧ (s.pm pr).reserved.lookup name = some q)) ∧
        ¬ (s.maxPorts > 0 ∧ s.quotaOf sid + 1 > s.maxPorts) ∧
        (∀ x ∈ s.live, x.name ≠ name) ∧
        ((grab = true ∧ s.register sid name pr port choice grab =
            ((s.setPm pr (((s.pm pr).take name q).release q)).setExt ((pr, q) :: s.ext), .error .listen)) ∨
         (grab = false ∧ s.register sid name pr port choice grab =
            ((if s.maxPorts > 0 then
                ((s.setPm pr ((s.pm pr).take name q)).setLive
                  ({ name := name, sid := sid, proto := pr, port := q } :: s.live)).setQuota sid (s.quotaOf sid + 1)
              else
                (s.setPm pr ((s.pm pr).take name q)).setLive
                  ({ name := name, sid := sid, proto := pr, port := q } :: s.live)), .ok q)))) := by
  unfold Srv.register
  split
  · exact Or.inl ⟨_, rfl⟩
  · rename_i hq
    split
    · exact Or.inl ⟨_, rfl⟩
    · rename_i hex
      have hex' : ∀ x ∈ s.live, x.name ≠ name := by
        intro x hx hn
        apply hex
        simp only [List.any_eq_true, decide_eq_true_eq]
        exact ⟨x, hx, hn⟩
      rcases acquire_cases (s.pm pr) name port (s.avail pr) choice with ⟨e, he⟩ | ⟨q, hacq, hav, hsrc⟩
      · rw [he]; exact Or.inl ⟨_, rfl⟩
      · rw [hacq]
        refine Or.inr ⟨q, hav, hsrc, hq, hex', ?_⟩
        cases grab with
        | true => left; exact ⟨rfl, rfl⟩
        | false => right; exact ⟨rfl, rfl⟩

private theorem q_allowed {AT AU : List Nat} {s : Srv} (h : SrvInv AT AU s) {pr : Proto} {name : Str}
    {port q : Nat}
    (hsrc : (q ∈ (s.pm pr).free ∧ (port = 0 ∨ port = q)) ∨ (port = 0 ∧ (s.pm pr).reserved.lookup name = some q)) :
    q ∈ allowed AT AU pr := by
  rcases hsrc with ⟨hf, _⟩ | ⟨_, hr⟩
  · exact (h.pmInv pr).freeA q hf
  · exact (h.pmInv pr).resA name q (str_mem_of_lookup hr)

private theorem q_unused {AT AU : List Nat} {s : Srv} (h : SrvInv AT AU s) {pr : Proto} {q : Nat}
    (hnolive : ¬ ∃ x ∈ s.live, x.proto = pr ∧ x.port = q) : (s.pm pr).usedBy q = none := by
  cases hu : (s.pm pr).usedBy q with
  | none => rfl
  | some n =>
    obtain ⟨x, hx, h1, h2, _⟩ := h.acct pr q n hu
    exact absurd ⟨x, hx, h1, h2⟩ hnolive

/-- failed listen: the port is acquired, released again, and now held by the other process -/
theorem inv_listen_failed {AT AU : List Nat} {s s' : Srv} (h : SrvInv AT AU s) {pr : Proto} {name : Str} {q : Nat}
    (hqA : q ∈ allowed AT AU pr) (hnolive : ¬ ∃ x ∈ s.live, x.proto = pr ∧ x.port = q)
    (hpm : ∀ pr', s'.pm pr' = if pr' = pr then ((s.pm pr).take name q).release q else s.pm pr')
    (hl : s'.live = s.live) (he : s'.ext = (pr, q) :: s.ext) (hm : s'.maxPorts = s.maxPorts)
    (hq : ∀ sid, s'.quotaOf sid = s.quotaOf sid) : SrvInv AT AU s' := by
  refine ⟨?_, ?_, ?_, ?_, ?_, ?_⟩
  · intro pr'
    rw [hpm]
    split
    · rename_i e; subst e
      exact release_inv (take_inv (h.pmInv _) name hqA) q
    · exact h.pmInv pr'
  · rw [hl]; exact h.names
  · intro x hx
    rw [hl] at hx
    rw [hpm]
    split
    · rename_i e
      have hne : x.port ≠ q := fun e2 => hnolive ⟨x, hx, e, e2⟩
      rw [usedBy_release_other _ hne, usedBy_take_other _ _ hne]
      have := h.owns x hx; rw [e] at this; exact this
    · exact h.owns x hx
  · intro pr' p n hu
    rw [hpm] at hu
    rw [hl]
    split at hu
    · rename_i e; subst e
      by_cases hp : p = q
      · subst hp; rw [usedBy_release_self] at hu; cases hu
      · rw [usedBy_release_other _ hp, usedBy_take_other _ _ hp] at hu
        exact h.acct _ p n hu
    · exact h.acct pr' p n hu
  · intro pr' p hmem
    rw [he] at hmem
    rw [hl]
    rcases List.mem_cons.mp hmem with e | e
    · injection e with e1 e2; subst e1; subst e2; exact hnolive
    · exact h.os pr' p e
  · intro hpos sid'
    rw [hm] at hpos
    rw [hq, hl, hm]
    exact h.quota hpos sid'

/-- successful registration -/
theorem inv_registered {AT AU : List Nat} {s s' : Srv} (h : SrvInv AT AU s) {pr : Proto} {name : Str}
    {sid q : Nat}
    (hqA : q ∈ allowed AT AU pr) (hnext : (pr, q) ∉ s.ext)
    (hnolive : ¬ ∃ x ∈ s.live, x.proto = pr ∧ x.port = q)
    (hnames : ∀ x ∈ s.live, x.name ≠ name)
    (hquota : ¬ (s.maxPorts > 0 ∧ s.quotaOf sid + 1 > s.maxPorts))
    (hl : s'.live = { name := name, sid := sid, proto := pr, port := q } :: s.live)
    (hpm : ∀ pr', s'.pm pr' = if pr' = pr then (s.pm pr).take name q else s.pm pr')
    (hext : s'.ext = s.ext) (hmax : s'.maxPorts = s.maxPorts)
    (hq' : s.maxPorts > 0 → ∀ sid', s'.quotaOf sid' = if sid' = sid then s.quotaOf sid + 1 else s.quotaOf sid') :
    SrvInv AT AU s' := by
  refine ⟨?_, ?_, ?_, ?_, ?_, ?_⟩
  · intro pr'
    rw [hpm]
    split
    · rename_i e; subst e; exact take_inv (h.pmInv _) name hqA
    · exact h.pmInv pr'
  · rw [hl]
    exact List.pairwise_cons.mpr ⟨fun x hx => (hnames x hx).symm, h.names⟩
  · intro x hx
    rw [hl] at hx
    rw [hpm]
    rcases List.mem_cons.mp hx with e | hx
    · subst e; simp [usedBy_take_self]
    · split
      · rename_i e
        have hne : x.port ≠ q := fun e2 => hnolive ⟨x, hx, e, e2⟩
        rw [usedBy_take_other _ _ hne]
        have := h.owns x hx; rw [e] at this; exact this
      · exact h.owns x hx
  · intro pr' p n hu
    rw [hpm] at hu
    rw [hl]
    split at hu
    · rename_i e; subst e
      by_cases hp : p = q
      · subst hp
        rw [usedBy_take_self] at hu
        injection hu with hu
        exact ⟨_, List.mem_cons_self, rfl, rfl, hu⟩
      · rw [usedBy_take_other _ _ hp] at hu
        obtain ⟨x, hx, hh⟩ := h.acct _ p n hu
        exact ⟨x, List.mem_cons_of_mem _ hx, hh⟩
    · obtain ⟨x, hx, hh⟩ := h.acct pr' p n hu
      exact ⟨x, List.mem_cons_of_mem _ hx, hh⟩
  · intro pr' p hm
    rw [hext] at hm
    rw [hl]
    rintro ⟨x, hx, h1, h2⟩
    rcases List.mem_cons.mp hx with e | hx
    · subst e
      simp only at h1 h2
      subst h1; subst h2
      exact hnext hm
    · exact h.os pr' p hm ⟨x, hx, h1, h2⟩
  · intro hm sid'
    rw [hmax] at hm
    rw [hq' hm, hl, hmax]
    have hq0 := h.quota hm
    by_cases e : sid' = sid
    · subst e
      simp only [↓reduceIte, List.filter_cons, decide_true, List.length_cons]
      refine ⟨by rw [(hq0 sid').1], ?_⟩
      omega
    · have hne : ¬ (sid = sid') := fun h => e h.symm
      simp only [e, ↓reduceIte, List.filter_cons, hne, decide_false, Bool.false_eq_true]
      exact hq0 sid'

theorem inv_register {AT AU : List Nat} {s : Srv} (h : SrvInv AT AU s) (sid : Nat) (name : Str)
    (pr : Proto) (port : Nat) (choice : Option Nat) (grab : Bool) :
    SrvInv AT AU (s.register sid name pr port choice grab).1 := by
  rcases register_cases s sid name pr port choice grab with ⟨e, he⟩ |
      ⟨q, hav, hsrc, hquota, hnames, hres⟩
  · rw [he]; exact h
  · have hqA := q_allowed h hsrc
    obtain ⟨hnext, hnolive⟩ := (avail_iff s pr q).mp hav
    rcases hres with ⟨_, hr⟩ | ⟨_, hr⟩
    · rw [hr]
      refine inv_listen_failed h hqA hnolive (name := name) ?_ ?_ ?_ ?_ ?_
      · intro pr'; simp
      · simp
      · simp
      · simp
      · intro sid'; simp
    · rw [hr]
      split
      · rename_i hm
        refine inv_registered h hqA hnext hnolive hnames hquota (sid := sid) ?_ ?_ ?_ ?_ ?_
        · simp
        · intro pr'; simp
        · simp
        · simp
        · intro _ sid'
          rw [quotaOf_setQuota]
          by_cases e : sid' = sid
          · simp [e]
          · simp [e]
      · rename_i hm
        refine inv_registered h hqA hnext hnolive hnames hquota (sid := sid) ?_ ?_ ?_ ?_ ?_
        · simp
        · intro pr'; simp
        · simp
        · simp
        · intro hm'; exact absurd hm' hm

/-- removing the one proxy called `x.name` lowers the per-session count by one for its session -/
theorem count_after_remove {l : List Pxy} (hn : l.Pairwise (fun a b => a.name ≠ b.name)) {x : Pxy}
    (hx : x ∈ l) (sid : Nat) :
    ((l.filter (fun y => y.name ≠ x.name)).filter (fun y => y.sid = sid)).length +
      (if x.sid = sid then 1 else 0) = (l.filter (fun y => y.sid = sid)).length := by
  induction l with
  | nil => simp at hx
  | cons z zs ih =>
    have hp := List.pairwise_cons.mp hn
    rcases List.mem_cons.mp hx with e | hx'
    · subst e
      have hall : zs.filter (fun y => y.name ≠ x.name) = zs := by
        apply List.filter_eq_self.mpr
        intro y hy
        simpa using (hp.1 y hy).symm
      simp only [List.filter_cons, ne_eq, not_true_eq_false, decide_false, Bool.false_eq_true,
        ↓reduceIte, hall]
      by_cases hs : x.sid = sid
      · simp [hs]
      · simp [hs]
    · have hzx : z.name ≠ x.name := hp.1 x hx'
      have := ih hp.2 hx'
      simp only [ne_eq] at this
      simp only [List.filter_cons, ne_eq, hzx, not_false_eq_true, decide_true, ↓reduceIte]
      by_cases hs : z.sid = sid
      · simp only [hs, decide_true, ↓reduceIte, List.length_cons]; omega
      · simp only [hs, decide_false, Bool.false_eq_true, ↓reduceIte]; exact this

/-- closing live proxy `x` -/
theorem inv_closed {AT AU : List Nat} {s s' : Srv} (h : SrvInv AT AU s) {x : Pxy} (hxl : x ∈ s.live)
    (hpm : ∀ pr, s'.pm pr = if pr = x.proto then (s.pm x.proto).release x.port else s.pm pr)
    (hl : s'.live = s.live.filter (fun y => y.name ≠ x.name)) (hext : s'.ext = s.ext)
    (hmax : s'.maxPorts = s.maxPorts)
    (hq' : s.maxPorts > 0 → ∀ sid', s'.quotaOf sid' = if sid' = x.sid then s.quotaOf x.sid - 1 else s.quotaOf sid') :
    SrvInv AT AU s' := by
  refine ⟨?_, ?_, ?_, ?_, ?_, ?_⟩
  · intro pr
    rw [hpm]
    split
    · rename_i e; rw [e]; exact release_inv (h.pmInv _) _
    · exact h.pmInv pr
  · rw [hl]; exact h.names.filter _
  · intro y hy
    rw [hl] at hy
    simp only [List.mem_filter, ne_eq, decide_eq_true_eq] at hy
    rw [hpm]
    split
    · rename_i e
      have hne : y.port ≠ x.port := by
        intro e2
        have h1 := h.owns y hy.1
        have h2 := h.owns x hxl
        rw [e, e2, h2] at h1
        injection h1 with h1
        exact hy.2 h1.symm
      rw [usedBy_release_other _ hne]
      have := h.owns y hy.1; rw [e] at this; exact this
    · exact h.owns y hy.1
  · intro pr p n hu
    rw [hpm] at hu
    rw [hl]
    simp only [List.mem_filter, ne_eq, decide_eq_true_eq]
    have fin : ∀ y, y ∈ s.live → y.proto = pr → y.port = p → y.name = n →
        (pr = x.proto → p ≠ x.port) →
        ∃ y, (y ∈ s.live ∧ ¬ y.name = x.name) ∧ y.proto = pr ∧ y.port = p ∧ y.name = n := by
      intro y hy h1 h2 h3 hdiff
      refine ⟨y, ⟨hy, ?_⟩, h1, h2, h3⟩
      intro hyn
      have : y = x := same_name_eq h.names hy hxl hyn
      subst this
      exact hdiff h1.symm h2.symm
    split at hu
    · rename_i e; subst e
      by_cases hp : p = x.port
      · subst hp; rw [usedBy_release_self] at hu; cases hu
      · rw [usedBy_release_other _ hp] at hu
        obtain ⟨y, hy, h1, h2, h3⟩ := h.acct _ p n hu
        exact fin y hy h1 h2 h3 (fun _ => hp)
    · rename_i e
      obtain ⟨y, hy, h1, h2, h3⟩ := h.acct pr p n hu
      exact fin y hy h1 h2 h3 (fun e' => absurd e' e)
  · intro pr p hm
    rw [hext] at hm
    rw [hl]
    rintro ⟨y, hy, h1, h2⟩
    exact h.os pr p hm ⟨y, (List.mem_filter.mp hy).1, h1, h2⟩
  · intro hm sid'
    rw [hmax] at hm
    rw [hq' hm, hl, hmax]
    have hq0 := h.quota hm
    have hcount := count_after_remove h.names hxl sid'
    by_cases e : sid' = x.sid
    · subst e
      simp only [↓reduceIte] at hcount ⊢
      have := hq0 x.sid
      omega
    · have hxs' : ¬ x.sid = sid' := fun h => e h.symm
      simp only [e, hxs', ↓reduceIte, Nat.add_zero] at hcount ⊢
      rw [hcount]
      exact hq0 sid'

theorem inv_close {AT AU : List Nat} {s : Srv} (h : SrvInv AT AU s) (sid : Nat) (name : Str) :
    SrvInv AT AU (s.close sid name) := by
  unfold Srv.close
  split
  · exact h
  · rename_i x hfind
    have hxl : x ∈ s.live := List.mem_of_find?_eq_some hfind
    have hxp := List.find?_some hfind
    simp only [decide_eq_true_eq] at hxp
    obtain ⟨hxn, hxs⟩ := hxp
    subst hxn; subst hxs
    simp only
    split
    · refine inv_closed h hxl ?_ ?_ ?_ ?_ ?_
      · intro pr; simp
      · simp
      · simp
      · simp
      · intro _ sid'
        simp only [quotaOf_setLingering, quotaOf_setLive, quotaOf_setPm]
        rw [quotaOf_setQuota]
    · rename_i hm
      refine inv_closed h hxl ?_ ?_ ?_ ?_ ?_
      · intro pr; simp
      · simp
      · simp
      · simp
      · intro hm'; exact absurd hm' hm

theorem inv_apply {AT AU : List Nat} {s : Srv} (h : SrvInv AT AU s) (op : Op) :
    SrvInv AT AU (apply s op) := by
  cases op with
  | register sid name pr port choice grab => exact inv_register h sid name pr port choice grab
  | close sid name => exact inv_close h sid name
  | forwarderExit name => exact inv_forwarderExit h name
  | squat pr p => exact inv_squat h pr p
  | unsquat pr p => exact inv_unsquat h pr p

/-- **Every reachable state satisfies the invariant**, for every allow set, quota and history. -/
theorem inv_reachable (AT AU : List Nat) (m : Nat) (ops : List Op) : SrvInv AT AU (run AT AU m ops) := by
  unfold run
  suffices hh : ∀ s, SrvInv AT AU s → SrvInv AT AU (ops.foldl apply s) from hh _ (inv_new AT AU m)
  induction ops with
  | nil => intro s h; exact h
  | cons op ops ih => intro s h; exact ih _ (inv_apply h op)

/-! ## The property clauses, as consequences of the invariant -/

/-- **whitelisted**: every port frp accepts traffic on lies in the operator's allow set -/
theorem whitelisted {AT AU : List Nat} {s : Srv} (h : SrvInv AT AU s) {x : Pxy} (hx : x ∈ s.live) :
    x.port ∈ allowed AT AU x.proto := by
  have := h.owns x hx
  apply (h.pmInv x.proto).usedA
  apply (usedBy_isSome_iff _ _).mp
  rw [this]; rfl

/-- **exclusive**: no two live proxies of one protocol own the same port -/
theorem exclusive {AT AU : List Nat} {s : Srv} (h : SrvInv AT AU s) {x y : Pxy}
    (hx : x ∈ s.live) (hy : y ∈ s.live) (hp : x.proto = y.proto) (hq : x.port = y.port) : x = y := by
  have h1 := h.owns x hx
  have h2 := h.owns y hy
  rw [hp, hq, h2] at h1
  injection h1 with h1
  exact same_name_eq h.names hx hy h1.symm

/-- **accounting = what is really bound**: a port is accounted as used iff a live proxy holds it -/
theorem accounting_eq_bound {AT AU : List Nat} {s : Srv} (h : SrvInv AT AU s) (pr : Proto) (p : Nat) :
    p ∈ (s.pm pr).usedKeys ↔ ∃ x ∈ s.live, x.proto = pr ∧ x.port = p := by
  constructor
  · intro hm
    have := (usedBy_isSome_iff _ _).mpr hm
    cases hu : (s.pm pr).usedBy p with
    | none => rw [hu] at this; cases this
    | some n =>
      obtain ⟨x, hx, h1, h2, _⟩ := h.acct pr p n hu
      exact ⟨x, hx, h1, h2⟩
  · rintro ⟨x, hx, h1, h2⟩
    apply (usedBy_isSome_iff _ _).mp
    have := h.owns x hx
    rw [h1, h2] at this
    rw [this]; rfl

/-- free and used partition the allow set -/
theorem free_iff_not_used {AT AU : List Nat} {s : Srv} (h : SrvInv AT AU s) (pr : Proto) {p : Nat}
    (hp : p ∈ allowed AT AU pr) : p ∈ (s.pm pr).free ↔ p ∉ (s.pm pr).usedKeys := by
  constructor
  · exact (h.pmInv pr).disj p
  · intro hn
    rcases (h.pmInv pr).cover p hp with hf | hu
    · exact hf
    · exact absurd hu hn

/-- **quota**: with a quota configured no session holds more ports than allowed -/
theorem quota_bounded {AT AU : List Nat} {s : Srv} (h : SrvInv AT AU s) (hm : s.maxPorts > 0) (sid : Nat) :
    (s.live.filter (fun x => x.sid = sid)).length ≤ s.maxPorts := by
  have := h.quota hm sid
  omega

/-- **truthful report**: a successful registration returns port `p`; afterwards a live proxy of that
    name holds exactly `p`, `p` is allowed, was not held by anybody before, and respects the quota -/
theorem register_ok {AT AU : List Nat} {s : Srv} (h : SrvInv AT AU s) (sid : Nat) (name : Str)
    (pr : Proto) (port : Nat) (choice : Option Nat) (grab : Bool) (p : Nat)
    (hr : (s.register sid name pr port choice grab).2 = .ok p) :
    p ∈ allowed AT AU pr ∧ s.avail pr p = true ∧ (port ≠ 0 → p = port) ∧
    { name := name, sid := sid, proto := pr, port := p : Pxy } ∈ (s.register sid name pr port choice grab).1.live ∧
    ¬ (s.maxPorts > 0 ∧ s.quotaOf sid + 1 > s.maxPorts) := by
  rcases register_cases s sid name pr port choice grab with ⟨e, he⟩ |
      ⟨q, hav, hsrc, hquota, _, hres⟩
  · rw [he] at hr; simp at hr
  · rcases hres with ⟨_, hreg⟩ | ⟨_, hreg⟩
    · rw [hreg] at hr; simp at hr
    · rw [hreg] at hr ⊢
      simp only [Except.ok.injEq] at hr
      subst hr
      refine ⟨q_allowed h hsrc, hav, ?_, ?_, hquota⟩
      · intro hne
        rcases hsrc with ⟨_, h0 | h0⟩ | ⟨h0, _⟩
        · exact absurd h0 hne
        · exact h0.symm
        · exact absurd h0 hne
      · split <;> simp

/-- **a refused request disturbs nobody**: on any error the live proxies, every port's recorded
    owner (both protocols), all quotas and the free sets are exactly as before -/
theorem register_err_unchanged {AT AU : List Nat} {s : Srv} (h : SrvInv AT AU s) (sid : Nat) (name : Str)
    (pr : Proto) (port : Nat) (choice : Option Nat) (grab : Bool) (e : RegErr)
    (hr : (s.register sid name pr port choice grab).2 = .error e) :
    (s.register sid name pr port choice grab).1.live = s.live ∧
    (∀ pr' p, (((s.register sid name pr port choice grab).1).pm pr').usedBy p = (s.pm pr').usedBy p) ∧
    (∀ sid', ((s.register sid name pr port choice grab).1).quotaOf sid' = s.quotaOf sid') ∧
    (∀ pr' p, p ∈ (((s.register sid name pr port choice grab).1).pm pr').free ↔ p ∈ (s.pm pr').free) := by
  rcases register_cases s sid name pr port choice grab with ⟨e', he⟩ |
      ⟨q, hav, hsrc, _, _, hres⟩
  · rw [he]; exact ⟨rfl, fun _ _ => rfl, fun _ => rfl, fun _ _ => Iff.rfl⟩
  · obtain ⟨hnext, hnolive⟩ := (avail_iff s pr q).mp hav
    have hqnone := q_unused h hnolive
    rcases hres with ⟨_, hreg⟩ | ⟨_, hreg⟩
    · rw [hreg]
      refine ⟨by simp, ?_, by intro sid'; simp, ?_⟩
      · intro pr' p
        simp only [pm_setExt, pm_setPm]
        split
        · rename_i e1; subst e1
          by_cases hp : p = q
          · subst hp; rw [usedBy_release_self, hqnone]
          · rw [usedBy_release_other _ hp, usedBy_take_other _ _ hp]
        · rfl
      · intro pr' p
        simp only [pm_setExt, pm_setPm]
        split
        · rename_i e1; subst e1
          have hqA := q_allowed h hsrc
          have hqf : q ∈ (s.pm pr').free := by
            apply (free_iff_not_used h pr' hqA).mpr
            intro hm
            have := (usedBy_isSome_iff _ _).mpr hm
            rw [hqnone] at this; cases this
          have hused : (((s.pm pr').take name q).usedBy q).isSome := by rw [usedBy_take_self]; rfl
          have hrel : (((s.pm pr').take name q).release q).free =
              (if q ∈ ((s.pm pr').take name q).free then ((s.pm pr').take name q).free
               else q :: ((s.pm pr').take name q).free) := by
            unfold PM.release; rw [if_pos hused]
          rw [hrel]
          have hnot : q ∉ ((s.pm pr').take name q).free := by
            simp [PM.take]
          rw [if_neg hnot]
          simp only [PM.take, List.mem_cons, List.mem_filter, ne_eq, decide_eq_true_eq, decide_not,
            Bool.not_eq_eq_eq_not, Bool.not_true, decide_eq_false_iff_not]
          constructor
          · rintro (e2 | hh)
            · subst e2; exact hqf
            · exact hh.1
          · intro hh
            by_cases e2 : p = q
            · exact Or.inl e2
            · exact Or.inr ⟨hh, e2⟩
        · rfl
    · rw [hreg] at hr; simp at hr

/-- **released ports are immediately available**: right after its owner closes a proxy its port is free -/
theorem close_frees_port {AT AU : List Nat} {s : Srv} (h : SrvInv AT AU s) {x : Pxy} (hx : x ∈ s.live) :
    x.port ∈ ((s.close x.sid x.name).pm x.proto).free := by
  have hfind : ∃ y, s.live.find? (fun y => y.name = x.name ∧ y.sid = x.sid) = some y := by
    cases hf : s.live.find? (fun y => y.name = x.name ∧ y.sid = x.sid) with
    | some y => exact ⟨y, rfl⟩
    | none =>
      have := List.find?_eq_none.mp hf x hx
      simp at this
  obtain ⟨y, hy⟩ := hfind
  have hyl := List.mem_of_find?_eq_some hy
  have hyp := List.find?_some hy
  simp only [decide_eq_true_eq] at hyp
  have hyx : y = x := same_name_eq h.names hyl hx hyp.1
  subst hyx
  unfold Srv.close
  rw [hy]
  have hused : ((s.pm y.proto).usedBy y.port).isSome := by rw [h.owns y hx]; rfl
  simp only
  split <;> (simp only [pm_setLingering, pm_setLive, pm_setPm, ↓reduceIte]; exact release_free hused)

/-- **previous port back**: a name whose reserved port is still free gets it again when it asks for
    a server-chosen port (whatever the random choice would have been) -/
theorem reacquire_same (pm : PM) (name : Str) (p : Nat) (avail : Nat → Bool) (choice : Option Nat)
    (hres : pm.reserved.lookup name = some p) (hav : avail p = true) :
    (pm.acquire name 0 avail choice).2 = .ok p := by
  simp [PM.acquire, hres, hav]

/-- after a successful Acquire the name's reserved port is the acquired port -/
theorem take_reserves (pm : PM) (name : Str) (p : Nat) :
    (pm.take name p).reserved.lookup name = some p := by
  simp [PM.take, List.lookup_cons]

/-- Release keeps the reservation -/
theorem release_keeps_reserved (pm : PM) (p : Nat) : (pm.release p).reserved = pm.reserved := by
  unfold PM.release; split <;> rfl

/-! ## The pinned tree (c9fd674) violated "accounting = bound": witness for the unguarded second Release -/

def s (x : String) : Str := Str.ofString x

/-- udp proxy `a` takes port 3 and is closed; `b` takes port 3; then `a`'s forwarder goroutine runs
    its deferred Close -/
def wOps (s0 : Srv) (guarded : Bool) : Srv :=
  let s1 := (s0.register 1 (s "a") .udp 3 none false).1
  let s2 := s1.close 1 (s "a")
  let s3 := (s2.register 2 (s "b") .udp 3 none false).1
  Srv.forwarderExit guarded s3 (s "a")

/-- with the unguarded Release, port 3 is marked free while `b` is bound to it -/
theorem udp_double_release_witness :
    let st := wOps (Srv.new [1, 2, 3] [1, 2, 3] 0) false
    (3 ∈ st.udp.free) ∧ (st.live.any (fun x => x.proto = .udp ∧ x.port = 3) = true) := by
  decide +kernel

/-- with the repaired (guarded) Close the same history keeps accounting = bound -/
theorem udp_double_release_fixed :
    let st := wOps (Srv.new [1, 2, 3] [1, 2, 3] 0) true
    (3 ∉ st.udp.free) ∧ (st.udp.usedBy 3 = some (s "b")) := by
  decide +kernel

/-! non-vacuity -/
example : (((Srv.new [1, 2, 3] [1, 2, 3] 2).register 1 (s "a") .tcp 0 (some 2) false).2).toOption = some 2 := by
  decide +kernel
example : (match ((((Srv.new [1, 2, 3] [1, 2, 3] 2).register 1 (s "a") .tcp 2 none false).1.register 2 (s "b") .tcp 2 none false).2) with
    | .error (.acquire .alreadyUsed) => true | _ => false) = true := by decide +kernel
example : (match ((((Srv.new [1, 2, 3] [1, 2, 3] 1).register 1 (s "a") .tcp 2 none false).1.register 1 (s "b") .tcp 3 none false).2) with
    | .error .quota => true | _ => false) = true := by decide +kernel

end C09
end Frp
