import Frp.Lemmas.Ports
import Frp.Model.AllowPorts
/-
  C09 — Remote ports: whitelisted, exclusive, truthfully reported, quota-bounded.

  Model: Frp/Model/Ports.lean (ports.Manager with its three tables; TCP/UDP proxy registration and
  closure incl. the failed-listen rollback; quota; the OS as part of the state).
  All theorems are for EVERY allow set, quota and history of register / close / forwarder-exit /
  foreign bind / foreign unbind operations, with every outcome of the random port choice.
-/
namespace Frp
namespace C09
open Ports

/-! ## Operations and reachable states -/

inductive Op
  | register (sid : Nat) (name : Str) (pr : Proto) (port : Nat) (choice : Option Nat) (grab : Bool)
  | registerG (sid : Nat) (name : Str) (gi : GInfo) (choice : Option Nat) (grab : Bool)
  | close (sid : Nat) (name : Str)
  | forwarderExit (name : Str)
  | squat (pr : Proto) (p : Nat)
  | unsquat (pr : Proto) (p : Nat)

def apply (s : Srv) : Op → Srv
  | .register sid name pr port choice grab => (s.register sid name pr port choice grab).1
  | .registerG sid name gi choice grab => (s.registerG sid name gi choice grab).1
  | .close sid name => s.close sid name
  | .forwarderExit name => Srv.forwarderExit true s name
  | .squat pr p => s.squat pr p
  | .unsquat pr p => s.unsquat pr p

def run (AT AU : List Nat) (maxPorts : Nat) (ops : List Op) : Srv :=
  ops.foldl apply (Srv.new AT AU maxPorts)

def allowed (AT AU : List Nat) : Proto → List Nat
  | .tcp => AT
  | .udp => AU

/-- members of one tcp load-balancing group (they share one listener by design) -/
def sameGrp (x y : Pxy) : Prop := ∃ i j, x.grp = some i ∧ y.grp = some j ∧ i.g = j.g

/-- the server invariant -/
structure SrvInv (AT AU : List Nat) (s : Srv) : Prop where
  pmInv : ∀ pr, PMInv (allowed AT AU pr) (s.pm pr)
  names : s.live.Pairwise (fun a b => a.name ≠ b.name)
  /-- every live proxy's port is recorded as used; a plain proxy is the recorded owner of its port
      (a group's port is recorded under the name of the member that founded the group) -/
  owns  : ∀ x ∈ s.live, ∃ n, (s.pm x.proto).usedBy x.port = some n ∧ (x.grp = none → n = x.name)
  /-- every port accounted as used is really held by a live proxy (a plain one: of that name) -/
  acct  : ∀ pr p n, (s.pm pr).usedBy p = some n →
            ∃ x ∈ s.live, x.proto = pr ∧ x.port = p ∧ (x.grp = none → x.name = n)
  /-- two live proxies on one port of one protocol are the same proxy or members of one group -/
  excl  : ∀ x ∈ s.live, ∀ y ∈ s.live, x.proto = y.proto → x.port = y.port → x.name = y.name ∨ sameGrp x y
  /-- all members of a group sit on the same port (`TCPGroup.realPort`) -/
  agree : ∀ x ∈ s.live, ∀ y ∈ s.live, sameGrp x y → x.port = y.port
  /-- groups exist for tcp only -/
  gtcp  : ∀ x ∈ s.live, x.grp ≠ none → x.proto = .tcp
  /-- a group asked for with a fixed remote port sits on that port -/
  greq  : ∀ x ∈ s.live, ∀ i, x.grp = some i → i.req ≠ 0 → x.port = i.req
  /-- the OS never lets a foreign process and frp hold the same port -/
  os    : ∀ pr p, (pr, p) ∈ s.ext → ¬ ∃ x ∈ s.live, x.proto = pr ∧ x.port = p
  quota : s.maxPorts > 0 → ∀ sid,
            s.quotaOf sid = (s.live.filter (fun x => x.sid = sid)).length ∧ s.quotaOf sid ≤ s.maxPorts

/-! ### projections of the state updates -/

@[simp] theorem pm_setPm (s : Srv) (pr pr' : Proto) (pm : PM) :
    (s.setPm pr pm).pm pr' = if pr' = pr then pm else s.pm pr' := by
  cases pr <;> cases pr' <;> simp [Srv.setPm, Srv.pm]
@[simp] theorem live_setPm (s : Srv) (pr : Proto) (pm : PM) : (s.setPm pr pm).live = s.live := by
  cases pr <;> rfl
@[simp] theorem ext_setPm (s : Srv) (pr : Proto) (pm : PM) : (s.setPm pr pm).ext = s.ext := by
  cases pr <;> rfl
@[simp] theorem max_setPm (s : Srv) (pr : Proto) (pm : PM) : (s.setPm pr pm).maxPorts = s.maxPorts := by
  cases pr <;> rfl
@[simp] theorem quotaOf_setPm (s : Srv) (pr : Proto) (pm : PM) (sid : Nat) :
    (s.setPm pr pm).quotaOf sid = s.quotaOf sid := by
  cases pr <;> rfl
@[simp] theorem lingering_setPm (s : Srv) (pr : Proto) (pm : PM) : (s.setPm pr pm).lingering = s.lingering := by
  cases pr <;> rfl

@[simp] theorem pm_setQuota (s : Srv) (sid n : Nat) (pr : Proto) : (s.setQuota sid n).pm pr = s.pm pr := by
  cases pr <;> rfl
@[simp] theorem live_setQuota (s : Srv) (sid n : Nat) : (s.setQuota sid n).live = s.live := rfl
@[simp] theorem ext_setQuota (s : Srv) (sid n : Nat) : (s.setQuota sid n).ext = s.ext := rfl
@[simp] theorem max_setQuota (s : Srv) (sid n : Nat) : (s.setQuota sid n).maxPorts = s.maxPorts := rfl
@[simp] theorem lingering_setQuota (s : Srv) (sid n : Nat) : (s.setQuota sid n).lingering = s.lingering := rfl

@[simp] theorem pm_setExt (s : Srv) (e : List (Proto × Nat)) (pr : Proto) : (s.setExt e).pm pr = s.pm pr := by
  cases pr <;> rfl
@[simp] theorem live_setExt (s : Srv) (e : List (Proto × Nat)) : (s.setExt e).live = s.live := rfl
@[simp] theorem ext_setExt (s : Srv) (e : List (Proto × Nat)) : (s.setExt e).ext = e := rfl
@[simp] theorem max_setExt (s : Srv) (e : List (Proto × Nat)) : (s.setExt e).maxPorts = s.maxPorts := rfl
@[simp] theorem quotaOf_setExt (s : Srv) (e : List (Proto × Nat)) (sid : Nat) :
    (s.setExt e).quotaOf sid = s.quotaOf sid := rfl

@[simp] theorem pm_setLive (s : Srv) (l : List Pxy) (pr : Proto) : (s.setLive l).pm pr = s.pm pr := by
  cases pr <;> rfl
@[simp] theorem live_setLive (s : Srv) (l : List Pxy) : (s.setLive l).live = l := rfl
@[simp] theorem ext_setLive (s : Srv) (l : List Pxy) : (s.setLive l).ext = s.ext := rfl
@[simp] theorem max_setLive (s : Srv) (l : List Pxy) : (s.setLive l).maxPorts = s.maxPorts := rfl
@[simp] theorem quotaOf_setLive (s : Srv) (l : List Pxy) (sid : Nat) :
    (s.setLive l).quotaOf sid = s.quotaOf sid := rfl
@[simp] theorem lingering_setLive (s : Srv) (l : List Pxy) : (s.setLive l).lingering = s.lingering := rfl

@[simp] theorem pm_setLingering (s : Srv) (l : List Pxy) (pr : Proto) : (s.setLingering l).pm pr = s.pm pr := by
  cases pr <;> rfl
@[simp] theorem live_setLingering (s : Srv) (l : List Pxy) : (s.setLingering l).live = s.live := rfl
@[simp] theorem ext_setLingering (s : Srv) (l : List Pxy) : (s.setLingering l).ext = s.ext := rfl
@[simp] theorem max_setLingering (s : Srv) (l : List Pxy) : (s.setLingering l).maxPorts = s.maxPorts := rfl
@[simp] theorem quotaOf_setLingering (s : Srv) (l : List Pxy) (sid : Nat) :
    (s.setLingering l).quotaOf sid = s.quotaOf sid := rfl

theorem quotaOf_setQuota (s : Srv) (sid n sid' : Nat) :
    (s.setQuota sid n).quotaOf sid' = if sid' = sid then n else s.quotaOf sid' := by
  unfold Srv.quotaOf Srv.setQuota
  simp only [List.lookup_cons]
  by_cases h : sid' = sid
  · subst h; simp
  · have hk : (sid' == sid) = false := by simpa using h
    simp only [hk, h, ↓reduceIte]
    rw [lookup_filter_ne h]

/-- the invariant reads only pm, live, ext, maxPorts and quotaOf -/
theorem inv_congr {AT AU : List Nat} {s s' : Srv} (h : SrvInv AT AU s)
    (hpm : ∀ pr, s'.pm pr = s.pm pr) (hl : s'.live = s.live) (he : s'.ext = s.ext)
    (hm : s'.maxPorts = s.maxPorts) (hq : ∀ sid, s'.quotaOf sid = s.quotaOf sid) : SrvInv AT AU s' := by
  refine ⟨?_, ?_, ?_, ?_, ?_, ?_, ?_, ?_, ?_, ?_⟩
  · intro pr; rw [hpm]; exact h.pmInv pr
  · rw [hl]; exact h.names
  · intro x hx; rw [hl] at hx; rw [hpm]; exact h.owns x hx
  · intro pr p n hu; rw [hpm] at hu; rw [hl]; exact h.acct pr p n hu
  · rw [hl]; exact h.excl
  · rw [hl]; exact h.agree
  · rw [hl]; exact h.gtcp
  · rw [hl]; exact h.greq
  · intro pr p hmem; rw [he] at hmem; rw [hl]; exact h.os pr p hmem
  · intro hpos sid; rw [hm] at hpos; rw [hq, hl, hm]; exact h.quota hpos sid

/-- availability means: no foreign socket and no live proxy on the port -/
theorem avail_iff (s : Srv) (pr : Proto) (p : Nat) :
    s.avail pr p = true ↔ (pr, p) ∉ s.ext ∧ ¬ ∃ x ∈ s.live, x.proto = pr ∧ x.port = p := by
  simp [Srv.avail, Srv.bound, List.contains_iff_mem]

theorem same_name_eq {l : List Pxy} (h : l.Pairwise (fun a b => a.name ≠ b.name)) {x y : Pxy}
    (hx : x ∈ l) (hy : y ∈ l) (hn : x.name = y.name) : x = y := by
  induction l with
  | nil => simp at hx
  | cons z zs ih =>
    have hp := List.pairwise_cons.mp h
    rcases List.mem_cons.mp hx with hx1 | hx2 <;> rcases List.mem_cons.mp hy with hy1 | hy2
    · rw [hx1, hy1]
    · rw [hx1] at hn; exact absurd hn (hp.1 y hy2)
    · rw [hy1] at hn; exact absurd hn.symm (hp.1 x hx2)
    · exact ih hp.2 hx2 hy2

/-! ## Invariant preservation, one operation at a time -/

theorem inv_new (AT AU : List Nat) (m : Nat) : SrvInv AT AU (Srv.new AT AU m) := by
  refine ⟨?_, List.Pairwise.nil, ?_, ?_, ?_, ?_, ?_, ?_, ?_, ?_⟩
  · intro pr; cases pr <;> exact new_inv _
  · intro x hx; simp [Srv.new] at hx
  · intro pr p n h; cases pr <;> simp [Srv.new, Srv.pm, PM.new, PM.usedBy] at h
  · intro x hx; simp [Srv.new] at hx
  · intro x hx; simp [Srv.new] at hx
  · intro x hx; simp [Srv.new] at hx
  · intro x hx; simp [Srv.new] at hx
  · intro pr p h; simp [Srv.new] at h
  · intro _ sid; simp [Srv.new, Srv.quotaOf]

theorem inv_squat {AT AU : List Nat} {s : Srv} (h : SrvInv AT AU s) (pr : Proto) (p : Nat) :
    SrvInv AT AU (s.squat pr p) := by
  unfold Srv.squat
  split
  · exact h
  · rename_i hb
    refine ⟨by simpa using h.pmInv, by simpa using h.names, by simpa using h.owns,
      by simpa using h.acct, by simpa using h.excl, by simpa using h.agree, by simpa using h.gtcp,
      by simpa using h.greq,
      ?_, by simpa using h.quota⟩
    intro pr' p' hm
    simp only [ext_setExt, live_setExt] at hm ⊢
    rcases List.mem_cons.mp hm with e | e
    · injection e with e1 e2; subst e1; subst e2
      intro ⟨x, hx, hp1, hp2⟩
      apply hb
      simp only [Srv.bound, Bool.or_eq_true, List.any_eq_true, decide_eq_true_eq]
      exact Or.inr ⟨x, hx, hp1, hp2⟩
    · exact h.os pr' p' e

theorem inv_unsquat {AT AU : List Nat} {s : Srv} (h : SrvInv AT AU s) (pr : Proto) (p : Nat) :
    SrvInv AT AU (s.unsquat pr p) := by
  unfold Srv.unsquat
  refine ⟨by simpa using h.pmInv, by simpa using h.names, by simpa using h.owns,
    by simpa using h.acct, by simpa using h.excl, by simpa using h.agree, by simpa using h.gtcp,
      by simpa using h.greq,
    ?_, by simpa using h.quota⟩
  intro pr' p' hm
  simp only [ext_setExt, live_setExt] at hm ⊢
  exact h.os pr' p' (List.mem_filter.mp hm).1

theorem inv_forwarderExit {AT AU : List Nat} {s : Srv} (h : SrvInv AT AU s) (name : Str) :
    SrvInv AT AU (Srv.forwarderExit true s name) := by
  unfold Srv.forwarderExit
  split
  · exact h
  · apply inv_congr h <;> simp

/-- outcome of `register`, spelled out -/
theorem register_cases (s : Srv) (sid : Nat) (name : Str) (pr : Proto) (port : Nat)
    (choice : Option Nat) (grab : Bool) :
    (∃ e, s.register sid name pr port choice grab = (s, .error e)) ∨
    (∃ q, s.avail pr q = true ∧
        ((q ∈ (s.pm pr).free ∧ (port = 0 ∨ port = q)) ∨ (port = 0 ∧ (s.pm pr).reserved.lookup name = some q)) ∧
        ¬ (s.maxPorts > 0 ∧ s.quotaOf sid + 1 > s.maxPorts) ∧
        (∀ x ∈ s.live, x.name ≠ name) ∧
        ((grab = true ∧ s.register sid name pr port choice grab =
            ((s.setPm pr (((s.pm pr).take name q).release q)).setExt ((pr, q) :: s.ext), .error .listen)) ∨
         (grab = false ∧ s.register sid name pr port choice grab =
            ((if s.maxPorts > 0 then
                ((s.setPm pr ((s.pm pr).take name q)).setLive
                  ({ name := name, sid := sid, proto := pr, port := q } :: s.live)).setQuota sid (s.quotaOf sid + 1)
              else
                (s.setPm pr ((s.pm pr).take name q)).setLive
                  ({ name := name, sid := sid, proto := pr, port := q } :: s.live)), .ok q)))) := by
  unfold Srv.register
  split
  · exact Or.inl ⟨_, rfl⟩
  · rename_i hq
    split
    · exact Or.inl ⟨_, rfl⟩
    · rename_i hex
      have hex' : ∀ x ∈ s.live, x.name ≠ name := by
        intro x hx hn
        apply hex
        simp only [List.any_eq_true, decide_eq_true_eq]
        exact ⟨x, hx, hn⟩
      rcases acquire_cases (s.pm pr) name port (s.avail pr) choice with ⟨e, he⟩ | ⟨q, hacq, hav, hsrc⟩
      · rw [he]; exact Or.inl ⟨_, rfl⟩
      · rw [hacq]
        refine Or.inr ⟨q, hav, hsrc, hq, hex', ?_⟩
        cases grab with
        | true => left; exact ⟨rfl, rfl⟩
        | false => right; exact ⟨rfl, rfl⟩

theorem src_fixed {free : List Nat} {res : Option Nat} {port q : Nat}
    (hsrc : (q ∈ free ∧ (port = 0 ∨ port = q)) ∨ (port = 0 ∧ res = some q)) (hne : port ≠ 0) : q = port := by
  rcases hsrc with ⟨_, h0 | h0⟩ | ⟨h0, _⟩
  · exact absurd h0 hne
  · exact h0.symm
  · exact absurd h0 hne

private theorem q_allowed {AT AU : List Nat} {s : Srv} (h : SrvInv AT AU s) {pr : Proto} {name : Str}
    {port q : Nat}
    (hsrc : (q ∈ (s.pm pr).free ∧ (port = 0 ∨ port = q)) ∨ (port = 0 ∧ (s.pm pr).reserved.lookup name = some q)) :
    q ∈ allowed AT AU pr := by
  rcases hsrc with ⟨hf, _⟩ | ⟨_, hr⟩
  · exact (h.pmInv pr).freeA q hf
  · exact (h.pmInv pr).resA name q (str_mem_of_lookup hr)

private theorem q_unused {AT AU : List Nat} {s : Srv} (h : SrvInv AT AU s) {pr : Proto} {q : Nat}
    (hnolive : ¬ ∃ x ∈ s.live, x.proto = pr ∧ x.port = q) : (s.pm pr).usedBy q = none := by
  cases hu : (s.pm pr).usedBy q with
  | none => rfl
  | some n =>
    obtain ⟨x, hx, h1, h2, _⟩ := h.acct pr q n hu
    exact absurd ⟨x, hx, h1, h2⟩ hnolive

/-! ### groups: small facts -/

theorem sameGrp_symm {x y : Pxy} (h : sameGrp x y) : sameGrp y x := by
  obtain ⟨i, j, h1, h2, h3⟩ := h
  exact ⟨j, i, h2, h1, h3.symm⟩

theorem sameGrp_trans {x y z : Pxy} (h1 : sameGrp x y) (h2 : sameGrp y z) : sameGrp x z := by
  obtain ⟨i, j, a1, a2, a3⟩ := h1
  obtain ⟨j', k, b1, b2, b3⟩ := h2
  rw [a2] at b1
  injection b1 with b1
  subst b1
  exact ⟨i, k, a1, b2, a3.trans b3⟩

theorem not_sameGrp_of_none {x y : Pxy} (h : x.grp = none) : ¬ sameGrp x y := by
  rintro ⟨i, _, h1, _, _⟩
  rw [h] at h1
  cases h1

theorem inGroup_iff (x : Pxy) (g : Str) : x.inGroup g = true ↔ ∃ i, x.grp = some i ∧ i.g = g := by
  unfold Pxy.inGroup
  cases hx : x.grp with
  | none => simp
  | some i => simp

/-- the per-session count after one more live proxy of session `x0.sid` -/
theorem quota_cons {s s' : Srv} {x0 : Pxy}
    (hq0 : s.maxPorts > 0 → ∀ sid,
      s.quotaOf sid = (s.live.filter (fun x => x.sid = sid)).length ∧ s.quotaOf sid ≤ s.maxPorts)
    (hquota : ¬ (s.maxPorts > 0 ∧ s.quotaOf x0.sid + 1 > s.maxPorts))
    (hl : s'.live = x0 :: s.live) (hmax : s'.maxPorts = s.maxPorts)
    (hq' : s.maxPorts > 0 → ∀ sid', s'.quotaOf sid' = if sid' = x0.sid then s.quotaOf x0.sid + 1 else s.quotaOf sid') :
    s'.maxPorts > 0 → ∀ sid,
      s'.quotaOf sid = (s'.live.filter (fun x => x.sid = sid)).length ∧ s'.quotaOf sid ≤ s'.maxPorts := by
  intro hm sid'
  rw [hmax] at hm
  rw [hq' hm, hl, hmax]
  have hq0 := hq0 hm
  by_cases e : sid' = x0.sid
  · subst e
    simp only [↓reduceIte, List.filter_cons, decide_true, List.length_cons]
    refine ⟨by rw [(hq0 x0.sid).1], ?_⟩
    omega
  · have hne : ¬ (x0.sid = sid') := fun h => e h.symm
    simp only [e, ↓reduceIte, List.filter_cons, hne, decide_false, Bool.false_eq_true]
    exact hq0 sid'

/-- failed listen: the port is acquired, released again, and now held by the other process -/
theorem inv_listen_failed {AT AU : List Nat} {s s' : Srv} (h : SrvInv AT AU s) {pr : Proto} {name : Str} {q : Nat}
    (hqA : q ∈ allowed AT AU pr) (hnolive : ¬ ∃ x ∈ s.live, x.proto = pr ∧ x.port = q)
    (hpm : ∀ pr', s'.pm pr' = if pr' = pr then ((s.pm pr).take name q).release q else s.pm pr')
    (hl : s'.live = s.live) (he : s'.ext = (pr, q) :: s.ext) (hm : s'.maxPorts = s.maxPorts)
    (hq : ∀ sid, s'.quotaOf sid = s.quotaOf sid) : SrvInv AT AU s' := by
  refine ⟨?_, ?_, ?_, ?_, ?_, ?_, ?_, ?_, ?_, ?_⟩
  · intro pr'
    rw [hpm]
    split
    · rename_i e; subst e
      exact release_inv (take_inv (h.pmInv _) name hqA) q
    · exact h.pmInv pr'
  · rw [hl]; exact h.names
  · intro x hx
    rw [hl] at hx
    rw [hpm]
    split
    · rename_i e
      have hne : x.port ≠ q := fun e2 => hnolive ⟨x, hx, e, e2⟩
      rw [usedBy_release_other _ hne, usedBy_take_other _ _ hne]
      have := h.owns x hx; rw [e] at this; exact this
    · exact h.owns x hx
  · intro pr' p n hu
    rw [hpm] at hu
    rw [hl]
    split at hu
    · rename_i e; subst e
      by_cases hp : p = q
      · subst hp; rw [usedBy_release_self] at hu; cases hu
      · rw [usedBy_release_other _ hp, usedBy_take_other _ _ hp] at hu
        exact h.acct _ p n hu
    · exact h.acct pr' p n hu
  · rw [hl]; exact h.excl
  · rw [hl]; exact h.agree
  · rw [hl]; exact h.gtcp
  · rw [hl]; exact h.greq
  · intro pr' p hmem
    rw [he] at hmem
    rw [hl]
    rcases List.mem_cons.mp hmem with e | e
    · injection e with e1 e2; subst e1; subst e2; exact hnolive
    · exact h.os pr' p e
  · intro hpos sid'
    rw [hm] at hpos
    rw [hq, hl, hm]
    exact h.quota hpos sid'

/-- successful registration of a NEW socket holder on port `q` (a plain proxy, or the member that
    founds a group) -/
theorem inv_registered {AT AU : List Nat} {s s' : Srv} (h : SrvInv AT AU s) {pr : Proto} {name : Str}
    {sid q : Nat} {gi : Option GInfo}
    (hqA : q ∈ allowed AT AU pr) (hnext : (pr, q) ∉ s.ext)
    (hnolive : ¬ ∃ x ∈ s.live, x.proto = pr ∧ x.port = q)
    (hnames : ∀ x ∈ s.live, x.name ≠ name)
    (hquota : ¬ (s.maxPorts > 0 ∧ s.quotaOf sid + 1 > s.maxPorts))
    (hfresh : ∀ y ∈ s.live, ¬ sameGrp { name := name, sid := sid, proto := pr, port := q, grp := gi } y)
    (hg : gi ≠ none → pr = .tcp)
    (hgreq : ∀ i, gi = some i → i.req ≠ 0 → q = i.req)
    (hl : s'.live = { name := name, sid := sid, proto := pr, port := q, grp := gi } :: s.live)
    (hpm : ∀ pr', s'.pm pr' = if pr' = pr then (s.pm pr).take name q else s.pm pr')
    (hext : s'.ext = s.ext) (hmax : s'.maxPorts = s.maxPorts)
    (hq' : s.maxPorts > 0 → ∀ sid', s'.quotaOf sid' = if sid' = sid then s.quotaOf sid + 1 else s.quotaOf sid') :
    SrvInv AT AU s' := by
  refine ⟨?_, ?_, ?_, ?_, ?_, ?_, ?_, ?_, ?_, ?_⟩
  · intro pr'
    rw [hpm]
    split
    · rename_i e; subst e; exact take_inv (h.pmInv _) name hqA
    · exact h.pmInv pr'
  · rw [hl]
    exact List.pairwise_cons.mpr ⟨fun x hx => (hnames x hx).symm, h.names⟩
  · intro x hx
    rw [hl] at hx
    rw [hpm]
    rcases List.mem_cons.mp hx with e | hx
    · subst e
      exact ⟨name, by simp [usedBy_take_self], fun _ => rfl⟩
    · split
      · rename_i e
        have hne : x.port ≠ q := fun e2 => hnolive ⟨x, hx, e, e2⟩
        rw [usedBy_take_other _ _ hne]
        have := h.owns x hx; rw [e] at this; exact this
      · exact h.owns x hx
  · intro pr' p n hu
    rw [hpm] at hu
    rw [hl]
    split at hu
    · rename_i e; subst e
      by_cases hp : p = q
      · subst hp
        rw [usedBy_take_self] at hu
        injection hu with hu
        exact ⟨_, List.mem_cons_self, rfl, rfl, fun _ => hu⟩
      · rw [usedBy_take_other _ _ hp] at hu
        obtain ⟨x, hx, hh⟩ := h.acct _ p n hu
        exact ⟨x, List.mem_cons_of_mem _ hx, hh⟩
    · obtain ⟨x, hx, hh⟩ := h.acct pr' p n hu
      exact ⟨x, List.mem_cons_of_mem _ hx, hh⟩
  · intro x hx y hy hp hq
    rw [hl] at hx hy
    rcases List.mem_cons.mp hx with ex | hx <;> rcases List.mem_cons.mp hy with ey | hy
    · left; rw [ex, ey]
    · subst ex
      exact absurd ⟨y, hy, hp.symm, hq.symm⟩ hnolive
    · subst ey
      exact absurd ⟨x, hx, hp, hq⟩ hnolive
    · exact h.excl x hx y hy hp hq
  · intro x hx y hy hs
    rw [hl] at hx hy
    rcases List.mem_cons.mp hx with ex | hx <;> rcases List.mem_cons.mp hy with ey | hy
    · rw [ex, ey]
    · subst ex; exact absurd hs (hfresh y hy)
    · subst ey; exact absurd (sameGrp_symm hs) (hfresh x hx)
    · exact h.agree x hx y hy hs
  · intro x hx hgx
    rw [hl] at hx
    rcases List.mem_cons.mp hx with ex | hx
    · subst ex; exact hg hgx
    · exact h.gtcp x hx hgx
  · intro x hx i hi hne
    rw [hl] at hx
    rcases List.mem_cons.mp hx with ex | hx
    · subst ex; exact hgreq i hi hne
    · exact h.greq x hx i hi hne
  · intro pr' p hm
    rw [hext] at hm
    rw [hl]
    rintro ⟨x, hx, h1, h2⟩
    rcases List.mem_cons.mp hx with e | hx
    · subst e
      simp only at h1 h2
      subst h1; subst h2
      exact hnext hm
    · exact h.os pr' p hm ⟨x, hx, h1, h2⟩
  · exact quota_cons (x0 := { name := name, sid := sid, proto := pr, port := q, grp := gi })
      h.quota hquota hl hmax hq'

/-- a further member joins an existing group: no new socket, the manager is not touched -/
theorem inv_joined {AT AU : List Nat} {s s' : Srv} (h : SrvInv AT AU s) {name : Str} {sid : Nat}
    {gi : GInfo} {m : Pxy} (hm : m ∈ s.live) (hmg : m.inGroup gi.g = true)
    (hgreq : gi.req ≠ 0 → m.port = gi.req)
    (hnames : ∀ x ∈ s.live, x.name ≠ name)
    (hquota : ¬ (s.maxPorts > 0 ∧ s.quotaOf sid + 1 > s.maxPorts))
    (hl : s'.live = { name := name, sid := sid, proto := .tcp, port := m.port, grp := some gi } :: s.live)
    (hpm : ∀ pr', s'.pm pr' = s.pm pr')
    (hext : s'.ext = s.ext) (hmax : s'.maxPorts = s.maxPorts)
    (hq' : s.maxPorts > 0 → ∀ sid', s'.quotaOf sid' = if sid' = sid then s.quotaOf sid + 1 else s.quotaOf sid') :
    SrvInv AT AU s' := by
  obtain ⟨mi, hmi, hmig⟩ := (inGroup_iff m gi.g).mp hmg
  have hmtcp : m.proto = .tcp := h.gtcp m hm (by rw [hmi]; simp)
  have hnm : sameGrp { name := name, sid := sid, proto := .tcp, port := m.port, grp := some gi } m :=
    ⟨gi, mi, rfl, hmi, hmig.symm⟩
  refine ⟨?_, ?_, ?_, ?_, ?_, ?_, ?_, ?_, ?_, ?_⟩
  · intro pr'; rw [hpm]; exact h.pmInv pr'
  · rw [hl]
    exact List.pairwise_cons.mpr ⟨fun x hx => (hnames x hx).symm, h.names⟩
  · intro x hx
    rw [hl] at hx
    rw [hpm]
    rcases List.mem_cons.mp hx with e | hx
    · subst e
      obtain ⟨n, hn, _⟩ := h.owns m hm
      rw [hmtcp] at hn
      exact ⟨n, hn, fun hc => by simp at hc⟩
    · exact h.owns x hx
  · intro pr' p n hu
    rw [hpm] at hu
    rw [hl]
    obtain ⟨x, hx, hh⟩ := h.acct pr' p n hu
    exact ⟨x, List.mem_cons_of_mem _ hx, hh⟩
  · intro x hx y hy hp hq
    rw [hl] at hx hy
    rcases List.mem_cons.mp hx with ex | hx <;> rcases List.mem_cons.mp hy with ey | hy
    · left; rw [ex, ey]
    · subst ex
      simp only at hp hq
      rcases h.excl m hm y hy (hmtcp.trans hp) hq with e | e
      · have : m = y := same_name_eq h.names hm hy e
        subst this
        exact Or.inr hnm
      · exact Or.inr (sameGrp_trans hnm e)
    · subst ey
      simp only at hp hq
      rcases h.excl x hx m hm (hp.trans hmtcp.symm) hq with e | e
      · have : x = m := same_name_eq h.names hx hm e
        subst this
        exact Or.inr (sameGrp_symm hnm)
      · exact Or.inr (sameGrp_trans e (sameGrp_symm hnm))
    · exact h.excl x hx y hy hp hq
  · intro x hx y hy hs
    rw [hl] at hx hy
    rcases List.mem_cons.mp hx with ex | hx <;> rcases List.mem_cons.mp hy with ey | hy
    · rw [ex, ey]
    · subst ex
      exact h.agree m hm y hy (sameGrp_trans (sameGrp_symm hnm) hs)
    · subst ey
      exact h.agree x hx m hm (sameGrp_trans hs hnm)
    · exact h.agree x hx y hy hs
  · intro x hx hgx
    rw [hl] at hx
    rcases List.mem_cons.mp hx with ex | hx
    · subst ex; rfl
    · exact h.gtcp x hx hgx
  · intro x hx i hi hne
    rw [hl] at hx
    rcases List.mem_cons.mp hx with ex | hx
    · subst ex
      simp only [Option.some.injEq] at hi
      subst hi
      exact hgreq hne
    · exact h.greq x hx i hi hne
  · intro pr' p hme
    rw [hext] at hme
    rw [hl]
    rintro ⟨x, hx, h1, h2⟩
    rcases List.mem_cons.mp hx with e | hx
    · subst e
      simp only at h1 h2
      subst h1; subst h2
      exact h.os _ _ hme ⟨m, hm, hmtcp, rfl⟩
    · exact h.os pr' p hme ⟨x, hx, h1, h2⟩
  · exact quota_cons (x0 := { name := name, sid := sid, proto := .tcp, port := m.port, grp := some gi })
      h.quota hquota hl hmax hq'

theorem inv_register {AT AU : List Nat} {s : Srv} (h : SrvInv AT AU s) (sid : Nat) (name : Str)
    (pr : Proto) (port : Nat) (choice : Option Nat) (grab : Bool) :
    SrvInv AT AU (s.register sid name pr port choice grab).1 := by
  rcases register_cases s sid name pr port choice grab with ⟨e, he⟩ |
      ⟨q, hav, hsrc, hquota, hnames, hres⟩
  · rw [he]; exact h
  · have hqA := q_allowed h hsrc
    obtain ⟨hnext, hnolive⟩ := (avail_iff s pr q).mp hav
    rcases hres with ⟨_, hr⟩ | ⟨_, hr⟩
    · rw [hr]
      refine inv_listen_failed h hqA hnolive (name := name) ?_ ?_ ?_ ?_ ?_
      · intro pr'; simp
      · simp
      · simp
      · simp
      · intro sid'; simp
    · rw [hr]
      have hfresh : ∀ y ∈ s.live, ¬ sameGrp { name := name, sid := sid, proto := pr, port := q, grp := none } y :=
        fun y _ => not_sameGrp_of_none rfl
      split
      · rename_i hm
        refine inv_registered h hqA hnext hnolive hnames hquota (sid := sid) (gi := none) hfresh
          (fun hc => absurd rfl hc) (fun i hc => by cases hc) ?_ ?_ ?_ ?_ ?_
        · simp
        · intro pr'; simp
        · simp
        · simp
        · intro _ sid'
          rw [quotaOf_setQuota]
          by_cases e : sid' = sid
          · simp [e]
          · simp [e]
      · rename_i hm
        refine inv_registered h hqA hnext hnolive hnames hquota (sid := sid) (gi := none) hfresh
          (fun hc => absurd rfl hc) (fun i hc => by cases hc) ?_ ?_ ?_ ?_ ?_
        · simp
        · intro pr'; simp
        · simp
        · simp
        · intro hm'; exact absurd hm' hm

/-- outcome of `registerG`, spelled out: refused with the state untouched; or the founding member
    acquired `q` (and either lost it again to a failed listen, or now holds it); or a later member
    was admitted to the group of live member `m` on `m.port` -/
theorem registerG_cases (s : Srv) (sid : Nat) (name : Str) (gi : GInfo) (choice : Option Nat) (grab : Bool) :
    (∃ e, s.registerG sid name gi choice grab = (s, .error e)) ∨
    (¬ (s.maxPorts > 0 ∧ s.quotaOf sid + 1 > s.maxPorts) ∧ (∀ x ∈ s.live, x.name ≠ name) ∧
      ((∃ q, s.groupOf gi.g = none ∧ s.avail .tcp q = true ∧
          ((q ∈ s.tcp.free ∧ (gi.req = 0 ∨ gi.req = q)) ∨ (gi.req = 0 ∧ s.tcp.reserved.lookup name = some q)) ∧
          ((grab = true ∧ s.registerG sid name gi choice grab =
              ((s.setPm .tcp ((s.tcp.take name q).release q)).setExt ((.tcp, q) :: s.ext), .error .listen)) ∨
           (grab = false ∧ s.registerG sid name gi choice grab =
              ((if s.maxPorts > 0 then
                  ((s.setPm .tcp (s.tcp.take name q)).setLive
                    ({ name := name, sid := sid, proto := .tcp, port := q, grp := some gi } :: s.live)).setQuota sid (s.quotaOf sid + 1)
                else
                  (s.setPm .tcp (s.tcp.take name q)).setLive
                    ({ name := name, sid := sid, proto := .tcp, port := q, grp := some gi } :: s.live)), .ok q)))) ∨
       (∃ m mi, s.groupOf gi.g = some m ∧ m.grp = some mi ∧ mi.req = gi.req ∧ mi.key = gi.key ∧
          s.registerG sid name gi choice grab =
            ((if s.maxPorts > 0 then
                (s.setLive ({ name := name, sid := sid, proto := .tcp, port := m.port, grp := some gi } :: s.live)).setQuota
                  sid (s.quotaOf sid + 1)
              else
                s.setLive ({ name := name, sid := sid, proto := .tcp, port := m.port, grp := some gi } :: s.live)),
             .ok m.port)))) := by
  unfold Srv.registerG
  split
  · exact Or.inl ⟨_, rfl⟩
  · rename_i hq
    split
    · exact Or.inl ⟨_, rfl⟩
    · rename_i hex
      have hex' : ∀ x ∈ s.live, x.name ≠ name := by
        intro x hx hn
        apply hex
        simp only [List.any_eq_true, decide_eq_true_eq]
        exact ⟨x, hx, hn⟩
      simp only
      split
      · rename_i hgo
        rcases acquire_cases s.tcp name gi.req (s.avail .tcp) choice with ⟨e, he⟩ | ⟨q, hacq, hav, hsrc⟩
        · rw [he]; exact Or.inl ⟨_, rfl⟩
        · rw [hacq]
          refine Or.inr ⟨hq, hex', Or.inl ⟨q, hgo, hav, hsrc, ?_⟩⟩
          cases grab with
          | true => left; exact ⟨rfl, rfl⟩
          | false => right; exact ⟨rfl, rfl⟩
      · rename_i m hgo
        split
        · exact Or.inl ⟨_, rfl⟩
        · rename_i mi hmi
          split
          · exact Or.inl ⟨_, rfl⟩
          · rename_i hreq
            split
            · exact Or.inl ⟨_, rfl⟩
            · rename_i hkey
              refine Or.inr ⟨hq, hex', Or.inr ⟨m, mi, hgo, hmi, ?_, ?_, rfl⟩⟩
              · exact Classical.not_not.mp hreq
              · exact Classical.not_not.mp hkey

theorem groupOf_none {s : Srv} {g : Str} (h : s.groupOf g = none) : ∀ y ∈ s.live, y.inGroup g = false := by
  intro y hy
  have := List.find?_eq_none.mp h y hy
  simpa using this

theorem groupOf_some {s : Srv} {g : Str} {m : Pxy} (h : s.groupOf g = some m) :
    m ∈ s.live ∧ m.inGroup g = true :=
  ⟨List.mem_of_find?_eq_some h, by simpa using List.find?_some h⟩

theorem inv_registerG {AT AU : List Nat} {s : Srv} (h : SrvInv AT AU s) (sid : Nat) (name : Str)
    (gi : GInfo) (choice : Option Nat) (grab : Bool) :
    SrvInv AT AU (s.registerG sid name gi choice grab).1 := by
  rcases registerG_cases s sid name gi choice grab with ⟨e, he⟩ |
      ⟨hquota, hnames, ⟨q, hgo, hav, hsrc, hres⟩ | ⟨m, mi, hgo, hmi, hmreq, _, hr⟩⟩
  · rw [he]; exact h
  · have hqA : q ∈ allowed AT AU .tcp := q_allowed (pr := .tcp) h hsrc
    obtain ⟨hnext, hnolive⟩ := (avail_iff s .tcp q).mp hav
    rcases hres with ⟨_, hr⟩ | ⟨_, hr⟩
    · rw [hr]
      refine inv_listen_failed (pr := .tcp) h hqA hnolive (name := name) ?_ ?_ ?_ ?_ ?_
      · intro pr'; cases pr' <;> simp [Srv.pm, Srv.setPm, Srv.setExt, Srv.setLive, Srv.setQuota]
      · simp
      · simp
      · simp
      · intro sid'; simp
    · rw [hr]
      have hfix : ∀ i, some gi = some i → i.req ≠ 0 → q = i.req := by
        intro i hi hne
        simp only [Option.some.injEq] at hi
        subst hi
        exact src_fixed hsrc hne
      have hfresh : ∀ y ∈ s.live,
          ¬ sameGrp { name := name, sid := sid, proto := .tcp, port := q, grp := some gi } y := by
        intro y hy ⟨i, j, h1, h2, h3⟩
        simp only [Option.some.injEq] at h1
        subst h1
        have := groupOf_none hgo y hy
        have h4 : y.inGroup gi.g = true := (inGroup_iff y gi.g).mpr ⟨j, h2, h3.symm⟩
        rw [this] at h4
        cases h4
      split
      · rename_i hm
        refine inv_registered (pr := .tcp) h hqA hnext hnolive hnames hquota (sid := sid) (gi := some gi) hfresh
          (fun _ => rfl) hfix ?_ ?_ ?_ ?_ ?_
        · simp
        · intro pr'; cases pr' <;> simp [Srv.pm, Srv.setPm, Srv.setExt, Srv.setLive, Srv.setQuota]
        · simp
        · simp
        · intro _ sid'
          rw [quotaOf_setQuota]
          by_cases e : sid' = sid
          · simp [e]
          · simp [e]
      · rename_i hm
        refine inv_registered (pr := .tcp) h hqA hnext hnolive hnames hquota (sid := sid) (gi := some gi) hfresh
          (fun _ => rfl) hfix ?_ ?_ ?_ ?_ ?_
        · simp
        · intro pr'; cases pr' <;> simp [Srv.pm, Srv.setPm, Srv.setExt, Srv.setLive, Srv.setQuota]
        · simp
        · simp
        · intro hm'; exact absurd hm' hm
  · rw [hr]
    obtain ⟨hml, hmg⟩ := groupOf_some hgo
    have hjreq : gi.req ≠ 0 → m.port = gi.req := by
      intro hne
      rw [← hmreq] at hne ⊢
      exact h.greq m hml mi hmi hne
    split
    · rename_i hm
      refine inv_joined h hml hmg hjreq hnames hquota (sid := sid) (name := name) ?_ ?_ ?_ ?_ ?_
      · simp
      · intro pr'; simp
      · simp
      · simp
      · intro _ sid'
        rw [quotaOf_setQuota]
        by_cases e : sid' = sid
        · simp [e]
        · simp [e]
    · rename_i hm
      refine inv_joined h hml hmg hjreq hnames hquota (sid := sid) (name := name) ?_ ?_ ?_ ?_ ?_
      · simp
      · intro pr'; simp
      · simp
      · simp
      · intro hm'; exact absurd hm' hm

/-- removing the one proxy called `x.name` lowers the per-session count by one for its session -/
theorem count_after_remove {l : List Pxy} (hn : l.Pairwise (fun a b => a.name ≠ b.name)) {x : Pxy}
    (hx : x ∈ l) (sid : Nat) :
    ((l.filter (fun y => y.name ≠ x.name)).filter (fun y => y.sid = sid)).length +
      (if x.sid = sid then 1 else 0) = (l.filter (fun y => y.sid = sid)).length := by
  induction l with
  | nil => simp at hx
  | cons z zs ih =>
    have hp := List.pairwise_cons.mp hn
    rcases List.mem_cons.mp hx with e | hx'
    · subst e
      have hall : zs.filter (fun y => y.name ≠ x.name) = zs := by
        apply List.filter_eq_self.mpr
        intro y hy
        simpa using (hp.1 y hy).symm
      simp only [List.filter_cons, ne_eq, not_true_eq_false, decide_false, Bool.false_eq_true,
        ↓reduceIte, hall]
      by_cases hs : x.sid = sid
      · simp [hs]
      · simp [hs]
    · have hzx : z.name ≠ x.name := hp.1 x hx'
      have := ih hp.2 hx'
      simp only [ne_eq] at this
      simp only [List.filter_cons, ne_eq, hzx, not_false_eq_true, decide_true, ↓reduceIte]
      by_cases hs : z.sid = sid
      · simp only [hs, decide_true, ↓reduceIte, List.length_cons]; omega
      · simp only [hs, decide_false, Bool.false_eq_true, ↓reduceIte]; exact this

/-- the per-session count after live proxy `x` is gone -/
theorem quota_remove {s s' : Srv} {x : Pxy} (hnames : s.live.Pairwise (fun a b => a.name ≠ b.name))
    (hxl : x ∈ s.live)
    (hq0 : s.maxPorts > 0 → ∀ sid,
      s.quotaOf sid = (s.live.filter (fun x => x.sid = sid)).length ∧ s.quotaOf sid ≤ s.maxPorts)
    (hl : s'.live = s.live.filter (fun y => y.name ≠ x.name)) (hmax : s'.maxPorts = s.maxPorts)
    (hq' : s.maxPorts > 0 → ∀ sid', s'.quotaOf sid' = if sid' = x.sid then s.quotaOf x.sid - 1 else s.quotaOf sid') :
    s'.maxPorts > 0 → ∀ sid,
      s'.quotaOf sid = (s'.live.filter (fun x => x.sid = sid)).length ∧ s'.quotaOf sid ≤ s'.maxPorts := by
  intro hm sid'
  rw [hmax] at hm
  rw [hq' hm, hl, hmax]
  have hq0 := hq0 hm
  have hcount := count_after_remove hnames hxl sid'
  by_cases e : sid' = x.sid
  · subst e
    simp only [↓reduceIte] at hcount ⊢
    have := hq0 x.sid
    omega
  · have hxs' : ¬ x.sid = sid' := fun h => e h.symm
    simp only [e, hxs', ↓reduceIte, Nat.add_zero] at hcount ⊢
    rw [hcount]
    exact hq0 sid'

/-- closing live proxy `x` whose socket goes with it: a plain proxy, or the LAST member of a group -/
theorem inv_closed {AT AU : List Nat} {s s' : Srv} (h : SrvInv AT AU s) {x : Pxy} (hxl : x ∈ s.live)
    (hlast : ∀ y ∈ s.live, y.name ≠ x.name → ¬ sameGrp x y)
    (hpm : ∀ pr, s'.pm pr = if pr = x.proto then (s.pm x.proto).release x.port else s.pm pr)
    (hl : s'.live = s.live.filter (fun y => y.name ≠ x.name)) (hext : s'.ext = s.ext)
    (hmax : s'.maxPorts = s.maxPorts)
    (hq' : s.maxPorts > 0 → ∀ sid', s'.quotaOf sid' = if sid' = x.sid then s.quotaOf x.sid - 1 else s.quotaOf sid') :
    SrvInv AT AU s' := by
  have hsub : ∀ y, y ∈ s'.live → y ∈ s.live ∧ y.name ≠ x.name := by
    intro y hy
    rw [hl] at hy
    simpa using hy
  refine ⟨?_, ?_, ?_, ?_, ?_, ?_, ?_, ?_, ?_, ?_⟩
  · intro pr
    rw [hpm]
    split
    · rename_i e; rw [e]; exact release_inv (h.pmInv _) _
    · exact h.pmInv pr
  · rw [hl]; exact h.names.filter _
  · intro y hy
    obtain ⟨hy1, hy2⟩ := hsub y hy
    rw [hpm]
    split
    · rename_i e
      have hne : y.port ≠ x.port := by
        intro e2
        rcases h.excl x hxl y hy1 e.symm e2.symm with e3 | e3
        · exact hy2 e3.symm
        · exact hlast y hy1 hy2 e3
      rw [usedBy_release_other _ hne]
      have := h.owns y hy1; rw [e] at this; exact this
    · exact h.owns y hy1
  · intro pr p n hu
    rw [hpm] at hu
    rw [hl]
    simp only [List.mem_filter, ne_eq, decide_eq_true_eq, decide_not, Bool.not_eq_eq_eq_not, Bool.not_true,
      decide_eq_false_iff_not]
    have fin : ∀ y, y ∈ s.live → y.proto = pr → y.port = p → (y.grp = none → y.name = n) →
        (pr = x.proto → p ≠ x.port) →
        ∃ y, (y ∈ s.live ∧ ¬ y.name = x.name) ∧ y.proto = pr ∧ y.port = p ∧ (y.grp = none → y.name = n) := by
      intro y hy h1 h2 h3 hdiff
      refine ⟨y, ⟨hy, ?_⟩, h1, h2, h3⟩
      intro hyn
      have : y = x := same_name_eq h.names hy hxl hyn
      subst this
      exact hdiff h1.symm h2.symm
    split at hu
    · rename_i e; subst e
      by_cases hp : p = x.port
      · subst hp; rw [usedBy_release_self] at hu; cases hu
      · rw [usedBy_release_other _ hp] at hu
        obtain ⟨y, hy, h1, h2, h3⟩ := h.acct _ p n hu
        exact fin y hy h1 h2 h3 (fun _ => hp)
    · rename_i e
      obtain ⟨y, hy, h1, h2, h3⟩ := h.acct pr p n hu
      exact fin y hy h1 h2 h3 (fun e' => absurd e' e)
  · intro y hy z hz
    exact h.excl y (hsub y hy).1 z (hsub z hz).1
  · intro y hy z hz
    exact h.agree y (hsub y hy).1 z (hsub z hz).1
  · intro y hy
    exact h.gtcp y (hsub y hy).1
  · intro y hy
    exact h.greq y (hsub y hy).1
  · intro pr p hm
    rw [hext] at hm
    rintro ⟨y, hy, h1, h2⟩
    exact h.os pr p hm ⟨y, (hsub y hy).1, h1, h2⟩
  · exact quota_remove h.names hxl h.quota hl hmax hq'

/-- a group member leaves while another member `z` remains: the shared socket and the manager's
    record stay as they are -/
theorem inv_left {AT AU : List Nat} {s s' : Srv} (h : SrvInv AT AU s) {x z : Pxy} (hxl : x ∈ s.live)
    (hzl : z ∈ s.live) (hzx : z.name ≠ x.name) (hzg : sameGrp x z)
    (hpm : ∀ pr, s'.pm pr = s.pm pr)
    (hl : s'.live = s.live.filter (fun y => y.name ≠ x.name)) (hext : s'.ext = s.ext)
    (hmax : s'.maxPorts = s.maxPorts)
    (hq' : s.maxPorts > 0 → ∀ sid', s'.quotaOf sid' = if sid' = x.sid then s.quotaOf x.sid - 1 else s.quotaOf sid') :
    SrvInv AT AU s' := by
  have hsub : ∀ y, y ∈ s'.live → y ∈ s.live ∧ y.name ≠ x.name := by
    intro y hy
    rw [hl] at hy
    simpa using hy
  have hzl' : z ∈ s'.live := by
    rw [hl]; simp only [List.mem_filter, ne_eq, decide_eq_true_eq, decide_not, Bool.not_eq_eq_eq_not,
      Bool.not_true, decide_eq_false_iff_not]; exact ⟨hzl, hzx⟩
  have hzgrp : z.grp ≠ none := by
    obtain ⟨_, j, _, h2, _⟩ := hzg
    rw [h2]; simp
  have hxgrp : x.grp ≠ none := by
    obtain ⟨i, _, h1, _, _⟩ := hzg
    rw [h1]; simp
  refine ⟨?_, ?_, ?_, ?_, ?_, ?_, ?_, ?_, ?_, ?_⟩
  · intro pr; rw [hpm]; exact h.pmInv pr
  · rw [hl]; exact h.names.filter _
  · intro y hy
    rw [hpm]; exact h.owns y (hsub y hy).1
  · intro pr p n hu
    rw [hpm] at hu
    obtain ⟨y, hy, h1, h2, h3⟩ := h.acct pr p n hu
    by_cases hyn : y.name = x.name
    · have : y = x := same_name_eq h.names hy hxl hyn
      subst this
      refine ⟨z, hzl', ?_, ?_, fun hc => absurd hc hzgrp⟩
      · rw [h.gtcp z hzl hzgrp, ← h1, h.gtcp y hy hxgrp]
      · rw [← h2]; exact (h.agree y hy z hzl hzg).symm
    · refine ⟨y, ?_, h1, h2, h3⟩
      rw [hl]; simp only [List.mem_filter, ne_eq, decide_eq_true_eq, decide_not, Bool.not_eq_eq_eq_not,
        Bool.not_true, decide_eq_false_iff_not]; exact ⟨hy, hyn⟩
  · intro y hy z' hz'
    exact h.excl y (hsub y hy).1 z' (hsub z' hz').1
  · intro y hy z' hz'
    exact h.agree y (hsub y hy).1 z' (hsub z' hz').1
  · intro y hy
    exact h.gtcp y (hsub y hy).1
  · intro y hy
    exact h.greq y (hsub y hy).1
  · intro pr p hm
    rw [hext] at hm
    rintro ⟨y, hy, h1, h2⟩
    exact h.os pr p hm ⟨y, (hsub y hy).1, h1, h2⟩
  · exact quota_remove h.names hxl h.quota hl hmax hq'

/-- `closesSocket` spelled out -/
theorem closesSocket_true {s : Srv} {x : Pxy} (hc : s.closesSocket x = true) :
    ∀ y ∈ s.live, y.name ≠ x.name → ¬ sameGrp x y := by
  intro y hy hyn ⟨i, j, h1, h2, h3⟩
  unfold Srv.closesSocket at hc
  rw [h1] at hc
  simp only [Bool.not_eq_true', List.any_eq_false, List.mem_filter, ne_eq, decide_eq_true_eq,
    decide_not, Bool.not_eq_eq_eq_not, Bool.not_true, decide_eq_false_iff_not, and_imp] at hc
  have := hc y hy hyn
  have h4 : y.inGroup i.g = true := (inGroup_iff y i.g).mpr ⟨j, h2, h3.symm⟩
  exact absurd h4 (by simpa using this)

theorem closesSocket_false {s : Srv} {x : Pxy} (hc : s.closesSocket x = false) :
    ∃ z ∈ s.live, z.name ≠ x.name ∧ sameGrp x z := by
  unfold Srv.closesSocket at hc
  cases hx : x.grp with
  | none => rw [hx] at hc; cases hc
  | some i =>
    rw [hx] at hc
    have hc' : ((s.live.filter (fun y => y.name ≠ x.name)).any (fun y => y.inGroup i.g)) = true := by
      simpa using hc
    obtain ⟨z, hz, hzg⟩ := List.any_eq_true.mp hc'
    have hz' := List.mem_filter.mp hz
    have hzn : z.name ≠ x.name := by simpa using hz'.2
    obtain ⟨j, hj, hjg⟩ := (inGroup_iff z i.g).mp hzg
    exact ⟨z, hz'.1, hzn, i, j, hx, hj, hjg.symm⟩

theorem inv_close {AT AU : List Nat} {s : Srv} (h : SrvInv AT AU s) (sid : Nat) (name : Str) :
    SrvInv AT AU (s.close sid name) := by
  unfold Srv.close
  split
  · exact h
  · rename_i x hfind
    have hxl : x ∈ s.live := List.mem_of_find?_eq_some hfind
    have hxp := List.find?_some hfind
    simp only [decide_eq_true_eq] at hxp
    obtain ⟨hxn, hxs⟩ := hxp
    subst hxn; subst hxs
    simp only
    cases hc : s.closesSocket x with
    | true =>
      have hlast := closesSocket_true hc
      simp only [↓reduceIte]
      split
      · refine inv_closed h hxl hlast ?_ ?_ ?_ ?_ ?_
        · intro pr; simp
        · simp
        · simp
        · simp
        · intro _ sid'
          simp only [quotaOf_setLingering, quotaOf_setLive, quotaOf_setPm]
          rw [quotaOf_setQuota]
      · rename_i hm
        refine inv_closed h hxl hlast ?_ ?_ ?_ ?_ ?_
        · intro pr; simp
        · simp
        · simp
        · simp
        · intro hm'; exact absurd hm' hm
    | false =>
      obtain ⟨z, hzl, hzx, hzg⟩ := closesSocket_false hc
      simp only [Bool.false_eq_true, ↓reduceIte]
      split
      · refine inv_left h hxl hzl hzx hzg ?_ ?_ ?_ ?_ ?_
        · intro pr; by_cases e : pr = x.proto <;> simp [e]
        · simp
        · simp
        · simp
        · intro _ sid'
          simp only [quotaOf_setLingering, quotaOf_setLive, quotaOf_setPm]
          rw [quotaOf_setQuota]
      · rename_i hm
        refine inv_left h hxl hzl hzx hzg ?_ ?_ ?_ ?_ ?_
        · intro pr; by_cases e : pr = x.proto <;> simp [e]
        · simp
        · simp
        · simp
        · intro hm'; exact absurd hm' hm

theorem inv_apply {AT AU : List Nat} {s : Srv} (h : SrvInv AT AU s) (op : Op) :
    SrvInv AT AU (apply s op) := by
  cases op with
  | register sid name pr port choice grab => exact inv_register h sid name pr port choice grab
  | registerG sid name gi choice grab => exact inv_registerG h sid name gi choice grab
  | close sid name => exact inv_close h sid name
  | forwarderExit name => exact inv_forwarderExit h name
  | squat pr p => exact inv_squat h pr p
  | unsquat pr p => exact inv_unsquat h pr p


/-- **Every reachable state satisfies the invariant**, for every allow set, quota and history. -/
theorem inv_reachable (AT AU : List Nat) (m : Nat) (ops : List Op) : SrvInv AT AU (run AT AU m ops) := by
  unfold run
  suffices hh : ∀ s, SrvInv AT AU s → SrvInv AT AU (ops.foldl apply s) from hh _ (inv_new AT AU m)
  induction ops with
  | nil => intro s h; exact h
  | cons op ops ih => intro s h; exact ih _ (inv_apply h op)

/-! ## The property clauses, as consequences of the invariant -/

/-- **whitelisted**: every port frp accepts traffic on — for a plain tcp/udp proxy or for a member
    of a tcp group — lies in the operator's allow set -/
theorem whitelisted {AT AU : List Nat} {s : Srv} (h : SrvInv AT AU s) {x : Pxy} (hx : x ∈ s.live) :
    x.port ∈ allowed AT AU x.proto := by
  obtain ⟨n, hn, _⟩ := h.owns x hx
  apply (h.pmInv x.proto).usedA
  apply (usedBy_isSome_iff _ _).mp
  rw [hn]; rfl

/-- **exclusive**: two live proxies of one protocol on the same port are the same proxy, or members
    of one load-balancing group (which share their listener by design) -/
theorem exclusive {AT AU : List Nat} {s : Srv} (h : SrvInv AT AU s) {x y : Pxy}
    (hx : x ∈ s.live) (hy : y ∈ s.live) (hp : x.proto = y.proto) (hq : x.port = y.port) :
    x = y ∨ sameGrp x y := by
  rcases h.excl x hx y hy hp hq with e | e
  · exact Or.inl (same_name_eq h.names hx hy e)
  · exact Or.inr e

/-- exclusive, for plain proxies: nobody else is on a plain proxy's port -/
theorem exclusive_plain {AT AU : List Nat} {s : Srv} (h : SrvInv AT AU s) {x y : Pxy}
    (hx : x ∈ s.live) (hy : y ∈ s.live) (hg : x.grp = none) (hp : x.proto = y.proto) (hq : x.port = y.port) :
    x = y := by
  rcases exclusive h hx hy hp hq with e | e
  · exact e
  · exact absurd e (not_sameGrp_of_none hg)

/-- **one port per group**: all members of a group were told, and sit on, the same port -/
theorem group_one_port {AT AU : List Nat} {s : Srv} (h : SrvInv AT AU s) {x y : Pxy}
    (hx : x ∈ s.live) (hy : y ∈ s.live) (hg : sameGrp x y) : x.port = y.port ∧ x.proto = y.proto := by
  refine ⟨h.agree x hx y hy hg, ?_⟩
  obtain ⟨i, j, h1, h2, _⟩ := hg
  rw [h.gtcp x hx (by rw [h1]; simp), h.gtcp y hy (by rw [h2]; simp)]

/-- **accounting = what is really bound**: a port is accounted as used iff a live proxy holds it -/
theorem accounting_eq_bound {AT AU : List Nat} {s : Srv} (h : SrvInv AT AU s) (pr : Proto) (p : Nat) :
    p ∈ (s.pm pr).usedKeys ↔ ∃ x ∈ s.live, x.proto = pr ∧ x.port = p := by
  constructor
  · intro hm
    have := (usedBy_isSome_iff _ _).mpr hm
    cases hu : (s.pm pr).usedBy p with
    | none => rw [hu] at this; cases this
    | some n =>
      obtain ⟨x, hx, h1, h2, _⟩ := h.acct pr p n hu
      exact ⟨x, hx, h1, h2⟩
  · rintro ⟨x, hx, h1, h2⟩
    apply (usedBy_isSome_iff _ _).mp
    obtain ⟨n, hn, _⟩ := h.owns x hx
    rw [h1, h2] at hn
    rw [hn]; rfl

/-- free and used partition the allow set -/
theorem free_iff_not_used {AT AU : List Nat} {s : Srv} (h : SrvInv AT AU s) (pr : Proto) {p : Nat}
    (hp : p ∈ allowed AT AU pr) : p ∈ (s.pm pr).free ↔ p ∉ (s.pm pr).usedKeys := by
  constructor
  · exact (h.pmInv pr).disj p
  · intro hn
    rcases (h.pmInv pr).cover p hp with hf | hu
    · exact hf
    · exact absurd hu hn

/-- **quota**: with a quota configured no session holds more ports than allowed (every group member
    counts one port) -/
theorem quota_bounded {AT AU : List Nat} {s : Srv} (h : SrvInv AT AU s) (hm : s.maxPorts > 0) (sid : Nat) :
    (s.live.filter (fun x => x.sid = sid)).length ≤ s.maxPorts := by
  have := h.quota hm sid
  omega

/-- **truthful report**: a successful registration returns port `p`; afterwards a live proxy of that
    name holds exactly `p`, `p` is allowed, was not held by anybody before, and respects the quota -/
theorem register_ok {AT AU : List Nat} {s : Srv} (h : SrvInv AT AU s) (sid : Nat) (name : Str)
    (pr : Proto) (port : Nat) (choice : Option Nat) (grab : Bool) (p : Nat)
    (hr : (s.register sid name pr port choice grab).2 = .ok p) :
    p ∈ allowed AT AU pr ∧ s.avail pr p = true ∧ (port ≠ 0 → p = port) ∧
    { name := name, sid := sid, proto := pr, port := p : Pxy } ∈ (s.register sid name pr port choice grab).1.live ∧
    ¬ (s.maxPorts > 0 ∧ s.quotaOf sid + 1 > s.maxPorts) := by
  rcases register_cases s sid name pr port choice grab with ⟨e, he⟩ |
      ⟨q, hav, hsrc, hquota, _, hres⟩
  · rw [he] at hr; simp at hr
  · rcases hres with ⟨_, hreg⟩ | ⟨_, hreg⟩
    · rw [hreg] at hr; simp at hr
    · rw [hreg] at hr ⊢
      simp only [Except.ok.injEq] at hr
      subst hr
      refine ⟨q_allowed h hsrc, hav, ?_, ?_, hquota⟩
      · intro hne
        rcases hsrc with ⟨_, h0 | h0⟩ | ⟨h0, _⟩
        · exact absurd h0 hne
        · exact h0.symm
        · exact absurd h0 hne
      · split <;> simp

/-- **truthful report, groups**: a tcp proxy with a load-balancing group is told port `p`; afterwards
    it is a live member sitting on exactly `p`, `p` is allowed and equals the requested port unless
    the server was to choose, the quota is respected, and `p` IS THE PORT THE GROUP LISTENS ON: either
    this member founded the group on a port nobody held (and `p` is now accounted to it), or the
    group's live members already hold `p` (and the manager is not touched) -/
theorem registerG_ok {AT AU : List Nat} {s : Srv} (h : SrvInv AT AU s) (sid : Nat) (name : Str)
    (gi : GInfo) (choice : Option Nat) (grab : Bool) (p : Nat)
    (hr : (s.registerG sid name gi choice grab).2 = .ok p) :
    p ∈ allowed AT AU .tcp ∧ (gi.req ≠ 0 → p = gi.req) ∧
    { name := name, sid := sid, proto := .tcp, port := p, grp := some gi : Pxy } ∈
      (s.registerG sid name gi choice grab).1.live ∧
    ¬ (s.maxPorts > 0 ∧ s.quotaOf sid + 1 > s.maxPorts) ∧
    p ∈ ((s.registerG sid name gi choice grab).1.pm .tcp).usedKeys ∧
    ((s.groupOf gi.g = none ∧ s.avail .tcp p = true) ∨
     (∃ m ∈ s.live, m.inGroup gi.g = true ∧ m.port = p ∧
        ∀ pr, (s.registerG sid name gi choice grab).1.pm pr = s.pm pr)) := by
  have hinv := inv_registerG h sid name gi choice grab
  have hused : ∀ x ∈ (s.registerG sid name gi choice grab).1.live, x.proto = .tcp → x.port = p →
      p ∈ ((s.registerG sid name gi choice grab).1.pm .tcp).usedKeys :=
    fun x hx h1 h2 => (accounting_eq_bound hinv .tcp p).mpr ⟨x, hx, h1, h2⟩
  revert hinv hused
  rcases registerG_cases s sid name gi choice grab with ⟨e, he⟩ |
      ⟨hquota, _, ⟨q, hgo, hav, hsrc, hres⟩ | ⟨m, mi, hgo, hmi, hreq, _, hreg⟩⟩
  · rw [he] at hr; simp at hr
  · rcases hres with ⟨_, hreg⟩ | ⟨_, hreg⟩
    · rw [hreg] at hr; simp at hr
    · rw [hreg] at hr ⊢
      simp only [Except.ok.injEq] at hr
      subst hr
      intro _ hused
      have hmem : ({ name := name, sid := sid, proto := .tcp, port := q, grp := some gi } : Pxy) ∈
          (if s.maxPorts > 0 then
            ((s.setPm .tcp (s.tcp.take name q)).setLive
              ({ name := name, sid := sid, proto := .tcp, port := q, grp := some gi } :: s.live)).setQuota sid (s.quotaOf sid + 1)
          else
            (s.setPm .tcp (s.tcp.take name q)).setLive
              ({ name := name, sid := sid, proto := .tcp, port := q, grp := some gi } :: s.live)).live := by
        split <;> simp
      refine ⟨q_allowed (pr := .tcp) h hsrc, ?_, hmem, hquota, hused _ hmem rfl rfl, Or.inl ⟨hgo, hav⟩⟩
      exact src_fixed hsrc
  · rw [hreg] at hr ⊢
    simp only [Except.ok.injEq] at hr
    subst hr
    intro _ hused
    obtain ⟨hml, hmg⟩ := groupOf_some hgo
    have hmtcp : m.proto = .tcp := h.gtcp m hml (by rw [hmi]; simp)
    have hmem : ({ name := name, sid := sid, proto := .tcp, port := m.port, grp := some gi } : Pxy) ∈
        (if s.maxPorts > 0 then
          (s.setLive ({ name := name, sid := sid, proto := .tcp, port := m.port, grp := some gi } :: s.live)).setQuota
            sid (s.quotaOf sid + 1)
        else
          s.setLive ({ name := name, sid := sid, proto := .tcp, port := m.port, grp := some gi } :: s.live)).live := by
      split <;> simp
    refine ⟨?_, ?_, hmem, hquota, hused _ hmem rfl rfl, Or.inr ⟨m, hml, hmg, rfl, ?_⟩⟩
    · have := whitelisted h hml
      rw [hmtcp] at this
      exact this
    · intro hne
      rw [← hreq] at hne ⊢
      exact h.greq m hml mi hmi hne
    · intro pr; split <;> simp


/-- a failed listen (acquire, foreign process grabs the port, release) leaves live proxies, recorded
    owners, quotas and free sets exactly as before -/
theorem listen_failed_unchanged {AT AU : List Nat} {s : Srv} (h : SrvInv AT AU s) {pr : Proto} {name : Str}
    {port q : Nat}
    (hsrc : (q ∈ (s.pm pr).free ∧ (port = 0 ∨ port = q)) ∨ (port = 0 ∧ (s.pm pr).reserved.lookup name = some q))
    (hnolive : ¬ ∃ x ∈ s.live, x.proto = pr ∧ x.port = q) :
    ((s.setPm pr (((s.pm pr).take name q).release q)).setExt ((pr, q) :: s.ext)).live = s.live ∧
    (∀ pr' p, (((s.setPm pr (((s.pm pr).take name q).release q)).setExt ((pr, q) :: s.ext)).pm pr').usedBy p =
        (s.pm pr').usedBy p) ∧
    (∀ sid', ((s.setPm pr (((s.pm pr).take name q).release q)).setExt ((pr, q) :: s.ext)).quotaOf sid' =
        s.quotaOf sid') ∧
    (∀ pr' p, p ∈ (((s.setPm pr (((s.pm pr).take name q).release q)).setExt ((pr, q) :: s.ext)).pm pr').free ↔
        p ∈ (s.pm pr').free) := by
  have hqnone := q_unused h hnolive
  refine ⟨by simp, ?_, by intro sid'; simp, ?_⟩
  · intro pr' p
    simp only [pm_setExt, pm_setPm]
    split
    · rename_i e1; subst e1
      by_cases hp : p = q
      · subst hp; rw [usedBy_release_self, hqnone]
      · rw [usedBy_release_other _ hp, usedBy_take_other _ _ hp]
    · rfl
  · intro pr' p
    simp only [pm_setExt, pm_setPm]
    split
    · rename_i e1; subst e1
      have hqA := q_allowed h hsrc
      have hqf : q ∈ (s.pm pr').free := by
        apply (free_iff_not_used h pr' hqA).mpr
        intro hm
        have := (usedBy_isSome_iff _ _).mpr hm
        rw [hqnone] at this; cases this
      have hused : (((s.pm pr').take name q).usedBy q).isSome := by rw [usedBy_take_self]; rfl
      have hrel : (((s.pm pr').take name q).release q).free =
          (if q ∈ ((s.pm pr').take name q).free then ((s.pm pr').take name q).free
           else q :: ((s.pm pr').take name q).free) := by
        unfold PM.release; rw [if_pos hused]
      rw [hrel]
      have hnot : q ∉ ((s.pm pr').take name q).free := by
        simp [PM.take]
      rw [if_neg hnot]
      simp only [PM.take, List.mem_cons, List.mem_filter, ne_eq, decide_not,
        Bool.not_eq_eq_eq_not, Bool.not_true, decide_eq_false_iff_not]
      constructor
      · rintro (e2 | hh)
        · subst e2; exact hqf
        · exact hh.1
      · intro hh
        by_cases e2 : p = q
        · exact Or.inl e2
        · exact Or.inr ⟨hh, e2⟩
    · rfl

/-- **a refused request disturbs nobody**: on any error the live proxies, every port's recorded
    owner (both protocols), all quotas and the free sets are exactly as before -/
theorem register_err_unchanged {AT AU : List Nat} {s : Srv} (h : SrvInv AT AU s) (sid : Nat) (name : Str)
    (pr : Proto) (port : Nat) (choice : Option Nat) (grab : Bool) (e : RegErr)
    (hr : (s.register sid name pr port choice grab).2 = .error e) :
    (s.register sid name pr port choice grab).1.live = s.live ∧
    (∀ pr' p, (((s.register sid name pr port choice grab).1).pm pr').usedBy p = (s.pm pr').usedBy p) ∧
    (∀ sid', ((s.register sid name pr port choice grab).1).quotaOf sid' = s.quotaOf sid') ∧
    (∀ pr' p, p ∈ (((s.register sid name pr port choice grab).1).pm pr').free ↔ p ∈ (s.pm pr').free) := by
  rcases register_cases s sid name pr port choice grab with ⟨e', he⟩ |
      ⟨q, hav, hsrc, _, _, hres⟩
  · rw [he]; exact ⟨rfl, fun _ _ => rfl, fun _ => rfl, fun _ _ => Iff.rfl⟩
  · obtain ⟨hnext, hnolive⟩ := (avail_iff s pr q).mp hav
    rcases hres with ⟨_, hreg⟩ | ⟨_, hreg⟩
    · rw [hreg]
      exact listen_failed_unchanged h hsrc hnolive
    · rw [hreg] at hr; simp at hr

/-- **released ports are immediately available**: right after its owner closes a proxy whose socket
    goes with it — a plain proxy, or the LAST member of a group (`closesSocket`) — its port is free -/
theorem close_frees_port {AT AU : List Nat} {s : Srv} (h : SrvInv AT AU s) {x : Pxy} (hx : x ∈ s.live)
    (hc : s.closesSocket x = true) :
    x.port ∈ ((s.close x.sid x.name).pm x.proto).free := by
  have hfind : ∃ y, s.live.find? (fun y => y.name = x.name ∧ y.sid = x.sid) = some y := by
    cases hf : s.live.find? (fun y => y.name = x.name ∧ y.sid = x.sid) with
    | some y => exact ⟨y, rfl⟩
    | none =>
      have := List.find?_eq_none.mp hf x hx
      simp at this
  obtain ⟨y, hy⟩ := hfind
  have hyl := List.mem_of_find?_eq_some hy
  have hyp := List.find?_some hy
  simp only [decide_eq_true_eq] at hyp
  have hyx : y = x := same_name_eq h.names hyl hx hyp.1
  subst hyx
  unfold Srv.close
  rw [hy]
  have hused : ((s.pm y.proto).usedBy y.port).isSome := by
    obtain ⟨n, hn, _⟩ := h.owns y hx
    rw [hn]; rfl
  simp only [hc, ↓reduceIte]
  split <;> (simp only [pm_setLingering, pm_setLive, pm_setPm, ↓reduceIte]; exact release_free hused)

/-- a plain proxy always takes its socket with it -/
theorem closesSocket_plain (s : Srv) {x : Pxy} (hg : x.grp = none) : s.closesSocket x = true := by
  unfold Srv.closesSocket; rw [hg]

/-- **a leaving member disturbs nobody**: while another member of the group remains, closing one
    member changes neither port manager (the group's port stays accounted as used) and the remaining
    members stay live on their port -/
theorem close_member_keeps_port {AT AU : List Nat} {s : Srv} (h : SrvInv AT AU s) {x : Pxy} (hx : x ∈ s.live)
    (hc : s.closesSocket x = false) :
    (∀ pr, (s.close x.sid x.name).pm pr = s.pm pr) ∧
    (∀ y ∈ s.live, y.name ≠ x.name → y ∈ (s.close x.sid x.name).live) ∧
    x.port ∈ ((s.close x.sid x.name).pm x.proto).usedKeys ∧
    (∃ z ∈ (s.close x.sid x.name).live, z.proto = x.proto ∧ z.port = x.port) := by
  have hfind : ∃ y, s.live.find? (fun y => y.name = x.name ∧ y.sid = x.sid) = some y := by
    cases hf : s.live.find? (fun y => y.name = x.name ∧ y.sid = x.sid) with
    | some y => exact ⟨y, rfl⟩
    | none =>
      have := List.find?_eq_none.mp hf x hx
      simp at this
  obtain ⟨y, hy⟩ := hfind
  have hyl := List.mem_of_find?_eq_some hy
  have hyp := List.find?_some hy
  simp only [decide_eq_true_eq] at hyp
  have hyx : y = x := same_name_eq h.names hyl hx hyp.1
  subst hyx
  have hinv := inv_close h y.sid y.name
  obtain ⟨z, hzl, hzx, hzg⟩ := closesSocket_false hc
  have hpm : ∀ pr, (s.close y.sid y.name).pm pr = s.pm pr := by
    intro pr
    unfold Srv.close
    rw [hy]
    simp only [hc, Bool.false_eq_true, ↓reduceIte]
    split <;> (by_cases e : pr = y.proto <;> simp [e])
  have hlive : ∀ w ∈ s.live, w.name ≠ y.name → w ∈ (s.close y.sid y.name).live := by
    intro w hw hwn
    unfold Srv.close
    rw [hy]
    simp only
    split <;> simp [hw, hwn]
  obtain ⟨hp, hpr⟩ := group_one_port h hx hzl hzg
  have hz' := hlive z hzl hzx
  refine ⟨hpm, hlive, ?_, ⟨z, hz', hpr.symm, hp.symm⟩⟩
  exact (accounting_eq_bound hinv y.proto y.port).mpr ⟨z, hz', hpr.symm, hp.symm⟩

/-- **a refused group registration disturbs nobody** (wrong port, wrong key, quota, duplicate name,
    refused or failed acquisition by the founding member): live proxies, recorded owners, quotas and
    free sets are exactly as before -/
theorem registerG_err_unchanged {AT AU : List Nat} {s : Srv} (h : SrvInv AT AU s) (sid : Nat) (name : Str)
    (gi : GInfo) (choice : Option Nat) (grab : Bool) (e : RegErr)
    (hr : (s.registerG sid name gi choice grab).2 = .error e) :
    (s.registerG sid name gi choice grab).1.live = s.live ∧
    (∀ pr' p, (((s.registerG sid name gi choice grab).1).pm pr').usedBy p = (s.pm pr').usedBy p) ∧
    (∀ sid', ((s.registerG sid name gi choice grab).1).quotaOf sid' = s.quotaOf sid') ∧
    (∀ pr' p, p ∈ (((s.registerG sid name gi choice grab).1).pm pr').free ↔ p ∈ (s.pm pr').free) := by
  rcases registerG_cases s sid name gi choice grab with ⟨e', he⟩ |
      ⟨_, _, ⟨q, _, hav, hsrc, hres⟩ | ⟨m, mi, _, _, _, _, hreg⟩⟩
  · rw [he]; exact ⟨rfl, fun _ _ => rfl, fun _ => rfl, fun _ _ => Iff.rfl⟩
  · obtain ⟨hnext, hnolive⟩ := (avail_iff s .tcp q).mp hav
    rcases hres with ⟨_, hreg⟩ | ⟨_, hreg⟩
    · rw [hreg]
      exact listen_failed_unchanged h (pr := .tcp) (name := name) hsrc hnolive
    · rw [hreg] at hr; simp at hr
  · rw [hreg] at hr; simp at hr

/-- **previous port back**: a name whose reserved port is still free gets it again when it asks for
    a server-chosen port (whatever the random choice would have been) -/
theorem reacquire_same (pm : PM) (name : Str) (p : Nat) (avail : Nat → Bool) (choice : Option Nat)
    (hres : pm.reserved.lookup name = some p) (hav : avail p = true) :
    (pm.acquire name 0 avail choice).2 = .ok p := by
  simp [PM.acquire, hres, hav]

/-- after a successful Acquire the name's reserved port is the acquired port -/
theorem take_reserves (pm : PM) (name : Str) (p : Nat) :
    (pm.take name p).reserved.lookup name = some p := by
  simp [PM.take, List.lookup_cons]

/-- Release keeps the reservation -/
theorem release_keeps_reserved (pm : PM) (p : Nat) : (pm.release p).reserved = pm.reserved := by
  unfold PM.release; split <;> rfl

/-! ## The pinned tree (c9fd674) violated "accounting = bound": witness for the unguarded second Release -/

def s (x : String) : Str := Str.ofString x

/-- udp proxy `a` takes port 3 and is closed; `b` takes port 3; then `a`'s forwarder goroutine runs
    its deferred Close -/
def wOps (s0 : Srv) (guarded : Bool) : Srv :=
  let s1 := (s0.register 1 (s "a") .udp 3 none false).1
  let s2 := s1.close 1 (s "a")
  let s3 := (s2.register 2 (s "b") .udp 3 none false).1
  Srv.forwarderExit guarded s3 (s "a")

/-- with the unguarded Release, port 3 is marked free while `b` is bound to it -/
theorem udp_double_release_witness :
    let st := wOps (Srv.new [1, 2, 3] [1, 2, 3] 0) false
    (3 ∈ st.udp.free) ∧ (st.live.any (fun x => x.proto = .udp ∧ x.port = 3) = true) := by
  decide +kernel

/-- with the repaired (guarded) Close the same history keeps accounting = bound -/
theorem udp_double_release_fixed :
    let st := wOps (Srv.new [1, 2, 3] [1, 2, 3] 0) true
    (3 ∉ st.udp.free) ∧ (st.udp.usedBy 3 = some (s "b")) := by
  decide +kernel

/-! ## The allow set: from the operator's configuration to the managers' seed set -/

section Config
open AllowPorts
open ConfNum (PortsRange)

theorem mem_intRange (lo hi p : Int) : p ∈ intRange lo hi ↔ lo ≤ p ∧ p ≤ hi := by
  unfold intRange
  simp only [List.mem_map, List.mem_range]
  constructor
  · rintro ⟨k, hk, rfl⟩
    omega
  · intro ⟨h1, h2⟩
    refine ⟨(p - lo).toNat, ?_, ?_⟩ <;> omega

/-- one iteration of NewManager's loop writes exactly the ports the entry means -/
theorem mem_entryPorts (e : PortsRange) (p : Int) : p ∈ entryPorts e ↔ covers e p := by
  unfold entryPorts covers
  split
  · simp
  · exact mem_intRange _ _ _

/-- **the seed set is exactly the union of the entries** — for every list of entries: single ports
    and ranges, overlapping, touching, repeated, empty (`start > end`), in any order; and every port
    1 … 65535 when there is no entry -/
theorem seed_exact (a : List PortsRange) (p : Int) : p ∈ seed a ↔ allowedBy a p := by
  unfold seed allowedBy
  cases a with
  | nil =>
    simp only [List.length_nil, Nat.lt_irrefl, ↓reduceIte, true_and, List.not_mem_nil, false_and,
      exists_false, or_false]
    exact mem_intRange 1 65535 p
  | cons e es =>
    simp only [List.length_cons, Nat.zero_lt_succ, ↓reduceIte, List.mem_flatMap, reduceCtorEq, false_and, false_or]
    constructor
    · rintro ⟨x, hx, hp⟩
      exact ⟨x, hx, (mem_entryPorts x p).mp hp⟩
    · rintro ⟨x, hx, hp⟩
      exact ⟨x, hx, (mem_entryPorts x p).mpr hp⟩

/-- `Complete()` neither adds nor drops nor rewrites an entry -/
theorem complete_exact (a : List PortsRange) (p : Int) : allowedBy (complete a) p ↔ allowedBy a p := Iff.rfl

theorem seedNat_exact (a : List PortsRange) (p : Nat) : p ∈ seedNat a ↔ allowedBy a (p : Int) := by
  unfold seedNat
  rw [← seed_exact]
  simp only [List.mem_filterMap]
  constructor
  · rintro ⟨i, hi, hp⟩
    split at hp
    · simp only [Option.some.injEq] at hp
      have : (p : Int) = i := by omega
      rw [this]; exact hi
    · cases hp
  · intro hp
    exact ⟨(p : Int), hp, by simp⟩

/-- reachable states of a server built by `NewService` from the operator's entries -/
def runCfg (a : List PortsRange) (maxPorts : Nat) (ops : List Op) : Srv :=
  ops.foldl apply (newService a maxPorts)

theorem runCfg_eq (a : List PortsRange) (m : Nat) (ops : List Op) :
    runCfg a m ops = run (seedNat (complete a)) (seedNat (complete a)) m ops := rfl

/-- **whitelisted, end to end**: whatever the operator wrote as allowPorts and whatever happened since,
    every port on which frps accepts traffic for a tcp or udp proxy or a tcp group is covered by one
    of the operator's entries (or is any port 1 … 65535 if there is no entry) -/
theorem whitelisted_config (a : List PortsRange) (m : Nat) (ops : List Op) {x : Pxy}
    (hx : x ∈ (runCfg a m ops).live) : allowedBy a (x.port : Int) := by
  rw [runCfg_eq] at hx
  have h := inv_reachable (seedNat (complete a)) (seedNat (complete a)) m ops
  have hw := whitelisted h hx
  have : x.port ∈ seedNat (complete a) := by
    cases hp : x.proto <;> (rw [hp] at hw; exact hw)
  exact (seedNat_exact _ _).mp this

/-- **outside the allowed set ⇒ refused**: a request (plain or as a group member) that is answered
    with a port was answered with an allowed one; so a fixed request for a port no entry covers is
    always refused -/
theorem outside_config_refused (a : List PortsRange) (m : Nat) (ops : List Op) (sid : Nat) (name : Str)
    (pr : Proto) (port : Nat) (choice : Option Nat) (grab : Bool)
    (hport : port ≠ 0) (hout : ¬ allowedBy a (port : Int)) :
    ∃ e, ((runCfg a m ops).register sid name pr port choice grab).2 = .error e := by
  cases hr : ((runCfg a m ops).register sid name pr port choice grab).2 with
  | error e => exact ⟨e, rfl⟩
  | ok p =>
    exfalso
    have h := inv_reachable (seedNat (complete a)) (seedNat (complete a)) m ops
    rw [runCfg_eq] at hr
    obtain ⟨hA, _, hfix, _⟩ := register_ok h sid name pr port choice grab p hr
    have hp := hfix hport
    subst hp
    have : p ∈ seedNat (complete a) := by cases pr <;> exact hA
    exact hout ((seedNat_exact _ _).mp this)

theorem outside_config_refusedG (a : List PortsRange) (m : Nat) (ops : List Op) (sid : Nat) (name : Str)
    (gi : GInfo) (choice : Option Nat) (grab : Bool)
    (hport : gi.req ≠ 0) (hout : ¬ allowedBy a (gi.req : Int)) :
    ∃ e, ((runCfg a m ops).registerG sid name gi choice grab).2 = .error e := by
  cases hr : ((runCfg a m ops).registerG sid name gi choice grab).2 with
  | error e => exact ⟨e, rfl⟩
  | ok p =>
    exfalso
    have h := inv_reachable (seedNat (complete a)) (seedNat (complete a)) m ops
    rw [runCfg_eq] at hr
    obtain ⟨hA, hfix, _⟩ := registerG_ok h sid name gi choice grab p hr
    have hp := hfix hport
    subst hp
    exact hout ((seedNat_exact _ _).mp hA)

/-- the shape a "merge adjacent entries" rewrite gets wrong: a single port followed by the range that
    starts right after it means the ports 6000 … 6010 and nothing else -/
example : ∀ p : Int, allowedBy [⟨0, 0, 6000⟩, ⟨6001, 6010, 0⟩] p ↔ 6000 ≤ p ∧ p ≤ 6010 := by
  intro p
  unfold allowedBy
  constructor
  · rintro (⟨h, _⟩ | ⟨e, he, hc⟩)
    · cases h
    · simp only [List.mem_cons, List.not_mem_nil, or_false] at he
      rcases he with rfl | rfl
      · simp [covers] at hc; omega
      · simp [covers] at hc; omega
  · intro hp
    right
    by_cases h : p = 6000
    · exact ⟨⟨0, 0, 6000⟩, by simp, by simp [covers, h]⟩
    · exact ⟨⟨6001, 6010, 0⟩, by simp, by simp [covers]; omega⟩

end Config

/-! ## Groups: non-vacuity and the two ways a group can lie about / leak its port -/

def gA : GInfo := { g := s "g", key := s "k", req := 0 }

def isOk (r : Except RegErr Nat) (p : Nat) : Bool := match r with | .ok q => q == p | _ => false
def isErr (r : Except RegErr Nat) (e : RegErr) : Bool := match r with | .error e' => decide (e' = e) | _ => false

/-- two members join a group with a server-chosen port (the founder's random choice is 2), both
    leave, and a third proxy then asks for port 2 explicitly -/
def gOps (s0 : Srv) : Srv × List (Except RegErr Nat) :=
  let r1 := s0.registerG 1 (s "a") gA (some 2) false
  let r2 := r1.1.registerG 2 (s "b") gA none false
  let s3 := (r2.1.close 1 (s "a")).close 2 (s "b")
  let r4 := s3.register 3 (s "c") .tcp 2 none false
  (r4.1, [r1.2, r2.2, r4.2])

/-- both members are told the port the group listens on; after the last one left the port is handed
    out again at once -/
example : (gOps (Srv.new [1, 2, 3] [1, 2, 3] 0)).2.all (isOk · 2) = true := by decide +kernel

/-- while one member remains, the port stays used and a plain request for it is refused -/
example :
    let r1 := (Srv.new [1, 2, 3] [1, 2, 3] 0).registerG 1 (s "a") gA (some 2) false
    let r2 := r1.1.registerG 2 (s "b") gA none false
    let s3 := r2.1.close 1 (s "a")
    isErr (s3.register 3 (s "c") .tcp 2 none false).2 (.acquire .alreadyUsed) = true ∧ 2 ∉ s3.tcp.free := by
  decide +kernel

/-- a member asking for another port or presenting another key is refused -/
example :
    let r1 := (Srv.new [1, 2, 3] [1, 2, 3] 0).registerG 1 (s "a") gA (some 2) false
    isErr (r1.1.registerG 2 (s "b") { gA with req := 2 } none false).2 .grpPort = true ∧
    isErr (r1.1.registerG 2 (s "b") { gA with key := s "x" } none false).2 .grpAuth = true := by
  decide +kernel

/-! non-vacuity -/
example : (((Srv.new [1, 2, 3] [1, 2, 3] 2).register 1 (s "a") .tcp 0 (some 2) false).2).toOption = some 2 := by
  decide +kernel
example : (match ((((Srv.new [1, 2, 3] [1, 2, 3] 2).register 1 (s "a") .tcp 2 none false).1.register 2 (s "b") .tcp 2 none false).2) with
    | .error (.acquire .alreadyUsed) => true | _ => false) = true := by decide +kernel
example : (match ((((Srv.new [1, 2, 3] [1, 2, 3] 1).register 1 (s "a") .tcp 2 none false).1.register 1 (s "b") .tcp 3 none false).2) with
    | .error .quota => true | _ => false) = true := by decide +kernel

end C09
end Frp
