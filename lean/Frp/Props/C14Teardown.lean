import Frp.Model.Teardown
import Frp.Gen.SessFacts
/-
  C14, part H (imported by Frp/Props/C14.lean): the client's teardown always finishes, so that the next
  login can happen — `Control.worker()` → `pm.Close()` → `Wrapper.Stop()` for every wrapper, whatever phase
  its check goroutine is in and however many wrappers there are (model: Frp/Model/Teardown.lean).

  FINDING (frp as it is, `drains = false`): `Wrapper.Stop` pushes one CloseProxy per wrapper into the
  dispatcher's send channel (capacity 100) after the send loop has exited; with more queued messages
  than the channel holds the push blocks for ever with `pw.mu` and `pm.mu` held, `ctl.doneCh` is never
  closed and frpc never logs in again (`overflow_reachable`, `overflow_stuck`, `teardown_full_fails_asis`).
  The full clause is proved for the repaired code (`drains = true`, `teardown_full_fixed`) and for frp as
  it is under the explicit hypothesis that the queue has room (`teardown_completes`).
-/
namespace Frp
namespace C14

section PartH
open Teardown

/-! ## Part H — the client's teardown reaches `close(doneCh)` (client/control.go worker, proxy_manager.go, proxy_wrapper.go) -/

/-! ### single steps -/

theorem td_drainBuf_le (c : Cfg) (buf : Nat) : drainBuf c buf ≤ buf := by
  unfold drainBuf; split <;> omega

theorem td_drainBuf_lt (c : Cfg) (buf : Nat) (hd : c.drains = true) (hb : buf ≤ c.cap) (hc : 0 < c.cap) :
    drainBuf c buf < c.cap := by
  unfold drainBuf
  by_cases h : 0 < buf
  · simp only [hd, h, decide_true, Bool.and_self, if_true]; omega
  · simp only [hd, h, decide_false, Bool.and_false, Bool.false_eq_true, if_false]; omega

theorem td_step_drain (c : Cfg) (s : St) : step c s .drain = { s with buf := drainBuf c s.buf } := rfl

theorem td_step_worker_head (c : Cfg) (buf : Nat) (pre : List Wr) (w : Wr) (rest : List Wr) (ph : Ph) (fin b : Bool)
    (buf' : Nat) (w' : Wr) (h : wkStep c buf w b = some (buf', w')) :
    step c ⟨buf, pre, w :: rest, ph, fin⟩ (.worker pre.length b) = ⟨buf', pre, w' :: rest, ph, fin⟩ := by
  simp only [step, Nat.lt_irrefl, if_false, Nat.sub_self, List.getElem?_cons_zero, h, List.set_cons_zero]

theorem td_step_closer_lock (c : Cfg) (buf : Nat) (pre : List Wr) (w : Wr) (rest : List Wr) (h : isCrit w.wk = false) :
    step c ⟨buf, pre, w :: rest, .lock, false⟩ .closer =
      ⟨buf, pre, { w with held := true, closeCh := true } :: rest, if c.stopWaits then .waitWorker else .send, false⟩ := by
  simp only [step, h, Bool.false_eq_true, if_false]

theorem td_step_closer_send (c : Cfg) (buf : Nat) (pre : List Wr) (w : Wr) (rest : List Wr) (h : buf < c.cap) :
    step c ⟨buf, pre, w :: rest, .send, false⟩ .closer =
      ⟨buf + 1, pre ++ [{ w with held := false, stopped := true }], rest, .lock, false⟩ := by
  simp only [step, h, Bool.false_eq_true, if_false, if_true]

theorem td_step_closer_nil (c : Cfg) (buf : Nat) (pre : List Wr) (ph : Ph) :
    (step c ⟨buf, pre, [], ph, false⟩ .closer).fin = true := by
  simp only [step, Bool.false_eq_true, if_false]

theorem td_run_append (c : Cfg) : ∀ (a b : List Lbl) (s : St), run c s (a ++ b) = run c (run c s a) b := by
  intro a
  induction a with
  | nil => intro b s; rfl
  | cons x xs ih => intro b s; simp only [List.cons_append, run]; exact ih b _

/-! ### a schedule that finishes, from every state -/

/-- what stopping this wrapper may still put into the send channel: its CloseProxy, and the message of a
    check goroutine that is inside its critical section with one to push -/
def tdCost (w : Wr) : Nat := if w.wk = .crit true then 2 else 1

def tdCosts : List Wr → Nat
  | [] => 0
  | w :: ws => tdCost w + tdCosts ws

/-- the send channel cannot fill up: somebody receives from it, or it has room for everything that is
    still to be pushed -/
def TdRoom (c : Cfg) (buf : Nat) (ws : List Wr) : Prop := c.drains = true ∨ buf + tdCosts ws ≤ c.cap

/-- tdFinish `Stop()` of wrapper `j` from its lock phase: let its check goroutine leave the critical
    section (it holds pw.mu), lock, push -/
def tdFinishOne (j : Nat) (w : Wr) : List Lbl :=
  (if isCrit w.wk then [.drain, .worker j false] else []) ++ [.closer, .drain, .closer]

def tdFinishFrom (j : Nat) : List Wr → List Lbl
  | [] => [.closer]
  | w :: ws => tdFinishOne j w ++ tdFinishFrom (j + 1) ws

/-- the finishing schedule of a state -/
def tdFinish (s : St) : List Lbl :=
  match s.todo, s.ph with
  | [], _ => [.closer]
  | w :: ws, .lock => tdFinishFrom s.pre.length (w :: ws)
  | _ :: ws, _ => [.drain, .closer] ++ tdFinishFrom (s.pre.length + 1) ws

theorem td_finishFrom_length (j : Nat) (ws : List Wr) : (tdFinishFrom j ws).length ≤ 5 * ws.length + 1 := by
  induction ws generalizing j with
  | nil => simp [tdFinishFrom]
  | cons w ws ih =>
    have := ih (j + 1)
    simp only [tdFinishFrom, tdFinishOne, List.length_append, List.length_cons, List.length_nil]
    split <;> simp <;> omega

theorem td_room_tail (c : Cfg) (buf buf' : Nat) (w : Wr) (ws : List Wr) (h : TdRoom c buf (w :: ws))
    (hb : buf' ≤ buf + tdCost w) : TdRoom c buf' ws := by
  rcases h with h | h
  · exact Or.inl h
  · right; simp only [tdCosts] at h; omega

theorem td_lt_of_room (c : Cfg) (buf : Nat) (hc : 0 < c.cap) (hb : buf ≤ c.cap) (extra : Nat)
    (h : c.drains = true ∨ buf + extra ≤ c.cap) (he : 0 < extra) : drainBuf c buf < c.cap := by
  rcases h with h | h
  · exact td_drainBuf_lt c buf h hb hc
  · have := td_drainBuf_le c buf; omega

/-- from the lock phase of the first wrapper still to stop -/
theorem td_finish_from_lock (c : Cfg) (hw : c.stopWaits = false) (hc : 0 < c.cap) :
    ∀ (ws pre : List Wr) (buf : Nat), buf ≤ c.cap → TdRoom c buf ws →
      (run c ⟨buf, pre, ws, .lock, false⟩ (tdFinishFrom pre.length ws)).fin = true := by
  intro ws
  induction ws with
  | nil => intro pre buf _ _; simp only [tdFinishFrom, run]; exact td_step_closer_nil c buf pre .lock
  | cons w rest ih =>
    intro pre buf hb hr
    have hsplit : tdFinishFrom pre.length (w :: rest) = tdFinishOne pre.length w ++ tdFinishFrom (pre.length + 1) rest := rfl
    rw [hsplit, td_run_append]
    -- after the check goroutine has left its critical section (if it was inside)
    have key : ∀ (buf1 : Nat) (w1 : Wr), isCrit w1.wk = false → buf1 ≤ c.cap →
        (c.drains = true ∨ buf1 + 1 + tdCosts rest ≤ c.cap) →
        (run c (run c ⟨buf1, pre, w1 :: rest, .lock, false⟩ [.closer, .drain, .closer])
          (tdFinishFrom (pre.length + 1) rest)).fin = true := by
      intro buf1 w1 hcr hb1 hroom
      have hlt : drainBuf c buf1 < c.cap :=
        td_lt_of_room c buf1 hc hb1 (1 + tdCosts rest) (by rcases hroom with h | h; exact Or.inl h; right; omega) (by omega)
      simp only [run, td_step_closer_lock c buf1 pre w1 rest hcr, hw, Bool.false_eq_true, if_false, td_step_drain]
      rw [td_step_closer_send c _ pre _ rest hlt]
      have hlen : (pre ++ [{ ({ w1 with held := true, closeCh := true } : Wr) with held := false, stopped := true }]).length
          = pre.length + 1 := by simp
      rw [← hlen]
      have hd := td_drainBuf_le c buf1
      exact ih _ _ (by omega) (by rcases hroom with h | h; exact Or.inl h; right; omega)
    by_cases hcrit : isCrit w.wk = true
    · have hone : tdFinishOne pre.length w = [.drain, .worker pre.length false] ++ [.closer, .drain, .closer] := by
        simp only [tdFinishOne, hcrit, if_true]
      rw [hone, td_run_append]
      have hd := td_drainBuf_le c buf
      cases hwk : w.wk with
      | crit b =>
        cases b with
        | true =>
          have hcost : tdCost w = 2 := by simp [tdCost, hwk]
          have hlt : drainBuf c buf < c.cap :=
            td_lt_of_room c buf hc hb (tdCosts (w :: rest)) hr (by simp only [tdCosts, hcost]; omega)
          have hst : wkStep c (drainBuf c buf) w false = some (drainBuf c buf + 1, { w with wk := .sel }) := by
            simp only [wkStep, hwk, hlt, if_true]
          have hrun : run c ⟨buf, pre, w :: rest, .lock, false⟩ [.drain, .worker pre.length false]
              = ⟨drainBuf c buf + 1, pre, { w with wk := .sel } :: rest, .lock, false⟩ := by
            simp only [run, td_step_drain]
            exact td_step_worker_head c _ pre w rest .lock false false _ _ hst
          rw [hrun]
          exact key _ _ rfl (by omega)
            (by rcases hr with h | h; exact Or.inl h; right; simp only [tdCosts, hcost] at h; omega)
        | false =>
          have hcost : tdCost w = 1 := by simp [tdCost, hwk]
          have hst : wkStep c (drainBuf c buf) w false = some (drainBuf c buf, { w with wk := .sel }) := by
            simp only [wkStep, hwk]
          have hrun : run c ⟨buf, pre, w :: rest, .lock, false⟩ [.drain, .worker pre.length false]
              = ⟨drainBuf c buf, pre, { w with wk := .sel } :: rest, .lock, false⟩ := by
            simp only [run, td_step_drain]
            exact td_step_worker_head c _ pre w rest .lock false false _ _ hst
          rw [hrun]
          exact key _ _ rfl (by omega)
            (by rcases hr with h | h; exact Or.inl h; right; simp only [tdCosts, hcost] at h; omega)
      | sleep => rw [hwk] at hcrit; cases hcrit
      | top => rw [hwk] at hcrit; cases hcrit
      | sel => rw [hwk] at hcrit; cases hcrit
      | gone => rw [hwk] at hcrit; cases hcrit
    · have hcrit' : isCrit w.wk = false := by simpa using hcrit
      have hone : tdFinishOne pre.length w = [.closer, .drain, .closer] := by
        simp only [tdFinishOne, hcrit', Bool.false_eq_true, if_false, List.nil_append]
      rw [hone]
      have hcost : 1 ≤ tdCost w := by unfold tdCost; split <;> omega
      exact key buf w hcrit' hb
        (by rcases hr with h | h; exact Or.inl h; right; simp only [tdCosts] at h; omega)

/-- what every reachable state satisfies -/
def TdInv (c : Cfg) (s : St) : Prop :=
  s.buf ≤ c.cap ∧ (s.ph = .waitWorker → c.stopWaits = true)

theorem td_wkStep_buf (c : Cfg) (buf : Nat) (w : Wr) (b : Bool) (buf' : Nat) (w' : Wr)
    (h : wkStep c buf w b = some (buf', w')) : (buf' = buf ∨ (buf < c.cap ∧ buf' = buf + 1)) := by
  unfold wkStep at h
  split at h
  · cases h; exact Or.inl rfl
  · split at h
    · cases h
    · cases h; exact Or.inl rfl
  · split at h
    · cases h; exact Or.inr ⟨by assumption, rfl⟩
    · cases h
  · cases h; exact Or.inl rfl
  · split at h
    · cases h; exact Or.inl rfl
    · split at h
      · cases h; exact Or.inl rfl
      · cases h
  · cases h

theorem td_inv_init (c : Cfg) (buf : Nat) (ws : List Wr) (h : buf ≤ c.cap) : TdInv c (init buf ws) :=
  ⟨h, fun hh => by cases hh⟩

theorem td_inv_step (c : Cfg) (s : St) (h : TdInv c s) (l : Lbl) : TdInv c (step c s l) := by
  obtain ⟨h1, h2⟩ := h
  cases l with
  | drain => exact ⟨Nat.le_trans (td_drainBuf_le c s.buf) h1, h2⟩
  | worker j b =>
    simp only [step]
    split
    · split
      · split
        · rename_i hst
          rcases td_wkStep_buf c _ _ _ _ _ hst with hb | hb
          · exact ⟨by simp only; omega, h2⟩
          · exact ⟨by simp only; omega, h2⟩
        · exact ⟨h1, h2⟩
      · exact ⟨h1, h2⟩
    · split
      · split
        · rename_i hst
          rcases td_wkStep_buf c _ _ _ _ _ hst with hb | hb
          · exact ⟨by simp only; omega, h2⟩
          · exact ⟨by simp only; omega, h2⟩
        · exact ⟨h1, h2⟩
      · exact ⟨h1, h2⟩
  | closer =>
    simp only [step]
    split
    · exact ⟨h1, h2⟩
    · split
      · exact ⟨h1, h2⟩
      · split
        · exact ⟨h1, h2⟩
        · refine ⟨h1, ?_⟩
          intro hh
          cases hsw : c.stopWaits with
          | true => rfl
          | false => simp only [hsw, Bool.false_eq_true, if_false] at hh; cases hh
      · split
        · exact ⟨h1, fun hh => by cases hh⟩
        · exact ⟨h1, h2⟩
      · split
        · exact ⟨by simp only; omega, fun hh => by cases hh⟩
        · exact ⟨h1, h2⟩

theorem td_inv_run (c : Cfg) : ∀ (ls : List Lbl) (s : St), TdInv c s → TdInv c (run c s ls) := by
  intro ls
  induction ls with
  | nil => intro s h; exact h
  | cons l ls ih => intro s h; exact ih _ (td_inv_step c s h l)

theorem td_fin_step (c : Cfg) (s : St) (h : s.fin = true) (l : Lbl) : (step c s l).fin = true := by
  cases l with
  | drain => exact h
  | closer => simp only [step, h, if_true]
  | worker j b =>
    simp only [step]
    split
    · split
      · split <;> exact h
      · exact h
    · split
      · split <;> exact h
      · exact h

theorem td_fin_run (c : Cfg) : ∀ (ls : List Lbl) (s : St), s.fin = true → (run c s ls).fin = true := by
  intro ls
  induction ls with
  | nil => intro s h; exact h
  | cons l ls ih => intro s h; exact ih _ (td_fin_step c s h l)

theorem td_finish_length (s : St) : (tdFinish s).length ≤ 5 * s.todo.length + 3 := by
  obtain ⟨buf, pre, todo, ph, fin⟩ := s
  cases todo with
  | nil => simp [tdFinish]
  | cons w ws =>
    have h1 := td_finishFrom_length pre.length (w :: ws)
    have h2 := td_finishFrom_length (pre.length + 1) ws
    cases ph <;> simp only [tdFinish, List.length_append, List.length_cons, List.length_nil] at * <;> omega

/-- **The teardown can always tdFinish (room in the queue, or a receiver).**  From EVERY state — any
    wrapper stopped or not, `Stop()` in any phase, every check goroutine anywhere (asleep before its first
    round, about to lock, inside its critical section with or without a message to push, in its select,
    gone) — if `Stop` does not wait for the check goroutine and the send channel cannot fill up (`TdRoom`),
    the schedule `tdFinish s` (at most 5 steps per wrapper still to stop) ends with `close(doneCh)`. -/
theorem teardown_completes (c : Cfg) (hw : c.stopWaits = false) (hc : 0 < c.cap) (s : St) (hi : TdInv c s)
    (hr : TdRoom c s.buf s.todo) :
    (run c s (tdFinish s)).fin = true ∧ (tdFinish s).length ≤ 5 * s.todo.length + 3 := by
  refine ⟨?_, td_finish_length s⟩
  obtain ⟨buf, pre, todo, ph, fin⟩ := s
  cases fin with
  | true => exact td_fin_run c _ _ rfl
  | false =>
    cases todo with
    | nil => simp only [tdFinish, run]; exact td_step_closer_nil c buf pre ph
    | cons w ws =>
      cases ph with
      | lock => exact td_finish_from_lock c hw hc (w :: ws) pre buf hi.1 hr
      | waitWorker => have := hi.2 rfl; rw [hw] at this; cases this
      | send =>
        have hcost : 1 ≤ tdCost w := by unfold tdCost; split <;> omega
        have hlt : drainBuf c buf < c.cap :=
          td_lt_of_room c buf hc hi.1 (tdCosts (w :: ws)) hr (by simp only [tdCosts]; omega)
        have hd := td_drainBuf_le c buf
        simp only [tdFinish, td_run_append, run, td_step_drain]
        rw [td_step_closer_send c _ pre w ws hlt]
        have hlen : (pre ++ [{ w with held := false, stopped := true }]).length = pre.length + 1 := by simp
        rw [← hlen]
        exact td_finish_from_lock c hw hc ws _ _ (by omega)
          (by rcases hr with h | h; exact Or.inl h; right; simp only [tdCosts] at h; omega)

/-- the clause at full strength: whatever was still queued, however many wrappers there are, whatever
    the session's goroutines have done so far, the teardown can still reach `close(doneCh)` -/
def teardownFull (c : Cfg) : Prop :=
  ∀ (buf : Nat) (ws : List Wr) (ls : List Lbl), buf ≤ c.cap →
    ∃ ls', (run c (run c (init buf ws) ls) ls').fin = true

/-- **Repaired code: the full clause.**  With a receiver on the send channel while `pm.Close()` runs
    (`hooks/C14-fix-teardown-drain.patch`) the teardown finishes from every reachable state, for any
    number of wrappers and any number of messages still queued, in at most 5 steps per wrapper. -/
theorem teardown_full_fixed (c : Cfg) (hd : c.drains = true) (hw : c.stopWaits = false) (hc : 0 < c.cap) :
    teardownFull c ∧
    ∀ (buf : Nat) (ws : List Wr) (ls : List Lbl), buf ≤ c.cap →
      (tdFinish (run c (init buf ws) ls)).length ≤ 5 * (run c (init buf ws) ls).todo.length + 3 := by
  refine ⟨?_, ?_⟩
  · intro buf ws ls hb
    exact ⟨_, (teardown_completes c hw hc _ (td_inv_run c ls _ (td_inv_init c buf ws hb)) (Or.inl hd)).1⟩
  · intro buf ws ls hb
    exact (teardown_completes c hw hc _ (td_inv_run c ls _ (td_inv_init c buf ws hb)) (Or.inl hd)).2

/-! ### frp as it is: more messages than the send channel holds -/

/-- `Stop()` is pushing its CloseProxy into a full channel -/
def TdStuck (c : Cfg) (s : St) : Prop := s.fin = false ∧ s.ph = .send ∧ s.todo ≠ [] ∧ c.cap ≤ s.buf

theorem td_stuck_step (c : Cfg) (hd : c.drains = false) (s : St) (h : TdStuck c s) (l : Lbl) : TdStuck c (step c s l) := by
  obtain ⟨h1, h2, h3, h4⟩ := h
  cases l with
  | drain => exact ⟨h1, h2, h3, by simp only [td_step_drain, drainBuf, hd, Bool.false_and, Bool.false_eq_true, if_false]; exact h4⟩
  | closer =>
    obtain ⟨buf, pre, todo, ph, fin⟩ := s
    simp only at h1 h2 h3 h4
    subst h1; subst h2
    cases todo with
    | nil => exact absurd rfl h3
    | cons w rest =>
      have : ¬ buf < c.cap := by omega
      simp only [step, this, Bool.false_eq_true, if_false]
      exact ⟨rfl, rfl, h3, h4⟩
  | worker j b =>
    simp only [step]
    split
    · split
      · split
        · rename_i hst
          rcases td_wkStep_buf c _ _ _ _ _ hst with hb | hb
          · exact ⟨h1, h2, h3, by simp only; omega⟩
          · omega
        · exact ⟨h1, h2, h3, h4⟩
      · exact ⟨h1, h2, h3, h4⟩
    · split
      · split
        · rename_i hst
          refine ⟨h1, h2, ?_, ?_⟩
          · simp only [ne_eq, List.set_eq_nil_iff]; exact h3
          · rcases td_wkStep_buf c _ _ _ _ _ hst with hb | hb
            · simp only; omega
            · omega
        · exact ⟨h1, h2, h3, h4⟩
      · exact ⟨h1, h2, h3, h4⟩

/-- **Without a receiver a full send channel is the end.**  Once `Stop()` pushes into a full channel
    NO schedule — whatever the check goroutines and everybody else do — ever reaches `close(doneCh)`:
    the client stays without a session for ever. -/
theorem overflow_stuck (c : Cfg) (hd : c.drains = false) : ∀ (ls : List Lbl) (s : St), TdStuck c s →
    (run c s ls).fin = false := by
  intro ls
  induction ls with
  | nil => intro s h; exact h.1
  | cons l ls ih => intro s h; exact ih _ (td_stuck_step c hd s h l)

/-- a wrapper whose check goroutine sits in its select (a running proxy between two 3 s rounds) -/
def tdParked : Wr := { wk := .sel }

/-- **… and it is reached as soon as there are more wrappers than free slots.**  `k + 1` tdParked
    wrappers, `k` free slots: the closer alone runs into the full channel. -/
theorem overflow_reachable (c : Cfg) (hw : c.stopWaits = false) : ∀ (k : Nat) (pre : List Wr) (buf : Nat),
    buf + k = c.cap →
      ∃ m, TdStuck c (run c ⟨buf, pre, List.replicate (k + 1) tdParked, .lock, false⟩ (List.replicate m .closer)) := by
  intro k
  induction k with
  | zero =>
    intro pre buf hb
    refine ⟨1, ?_⟩
    simp only [List.replicate, run]
    rw [td_step_closer_lock c buf pre tdParked [] rfl]
    simp only [hw, Bool.false_eq_true, if_false]
    exact ⟨rfl, rfl, by simp, by show c.cap ≤ buf; omega⟩
  | succ k ih =>
    intro pre buf hb
    obtain ⟨m, hm⟩ := ih (pre ++ [{ ({ tdParked with held := true, closeCh := true } : Wr) with held := false, stopped := true }])
      (buf + 1) (by omega)
    refine ⟨m + 2, ?_⟩
    have hrep : List.replicate (k + 1 + 1) tdParked = tdParked :: List.replicate (k + 1) tdParked := rfl
    have hrep2 : List.replicate (m + 2) Lbl.closer = .closer :: .closer :: List.replicate m .closer := rfl
    rw [hrep, hrep2]
    simp only [run]
    rw [td_step_closer_lock c buf pre tdParked _ rfl]
    simp only [hw, Bool.false_eq_true, if_false]
    rw [td_step_closer_send c buf pre _ _ (by omega)]
    exact hm

/-- **frp as it is violates the full clause** (finding `C14-client-teardown-sendch-overflow`): an frpc
    with more proxies than the send channel has slots never finishes the teardown after a loss of the
    control connection, hence never logs in again. -/
theorem teardown_full_fails_asis (c : Cfg) (hd : c.drains = false) (hw : c.stopWaits = false) : ¬ teardownFull c := by
  intro hfull
  obtain ⟨m, hm⟩ := overflow_reachable c hw c.cap [] 0 (by omega)
  obtain ⟨ls', hfin⟩ := hfull 0 (List.replicate (c.cap + 1) tdParked) (List.replicate m .closer) (by omega)
  have := overflow_stuck c hd ls' _ hm
  simp only [init] at hfin
  rw [this] at hfin
  cases hfin

/-- the finding in frp's numbers: 101 running proxies, an empty queue of capacity 100 -/
theorem overflow_witness :
    let c : Cfg := { cap := 100, stopWaits := false, drains := false }
    ∃ m, ∀ ls, (run c (run c (init 0 (List.replicate 101 tdParked)) (List.replicate m .closer)) ls).fin = false := by
  intro c
  obtain ⟨m, hm⟩ := overflow_reachable c rfl 100 [] 0 rfl
  exact ⟨m, fun ls => overflow_stuck c rfl ls _ hm⟩

/-! ### `Stop` must not wait for the check goroutine while it holds pw.mu -/

/-- `Stop()` holds pw.mu and waits for a check goroutine that has yet to take pw.mu -/
def TdWedged (s : St) : Prop :=
  s.fin = false ∧ s.ph = .waitWorker ∧ ∃ w rest, s.todo = w :: rest ∧ w.held = true ∧ (w.wk = .sleep ∨ w.wk = .top)

theorem td_wedged_step (c : Cfg) (s : St) (h : TdWedged s) (l : Lbl) : TdWedged (step c s l) := by
  obtain ⟨h1, h2, w, rest, h3, h4, h5⟩ := h
  obtain ⟨buf, pre, todo, ph, fin⟩ := s
  simp only at h1 h2 h3
  subst h1; subst h2; subst h3
  cases l with
  | drain => exact ⟨rfl, rfl, w, rest, rfl, h4, h5⟩
  | closer =>
    have hg : ¬ w.wk = .gone := by rcases h5 with h | h <;> rw [h] <;> intro hh <;> cases hh
    simp only [step, hg, Bool.false_eq_true, if_false]
    exact ⟨rfl, rfl, w, rest, rfl, h4, h5⟩
  | worker j b =>
    simp only [step]
    split
    · split
      · split
        · exact ⟨rfl, rfl, w, rest, rfl, h4, h5⟩
        · exact ⟨rfl, rfl, w, rest, rfl, h4, h5⟩
      · exact ⟨rfl, rfl, w, rest, rfl, h4, h5⟩
    · cases hk : j - pre.length with
      | zero =>
        simp only [List.getElem?_cons_zero]
        rcases h5 with h | h
        · have hst : wkStep c buf w b = some (buf, { w with wk := .top }) := by simp only [wkStep, h]
          simp only [hst, List.set_cons_zero]
          exact ⟨rfl, rfl, _, rest, rfl, h4, Or.inr rfl⟩
        · have hst : wkStep c buf w b = none := by simp only [wkStep, h, h4, if_true]
          simp only [hst]
          exact ⟨rfl, rfl, w, rest, rfl, h4, Or.inr h⟩
      | succ k =>
        simp only [List.getElem?_cons_succ]
        split
        · split
          · simp only [List.set_cons_succ]
            exact ⟨rfl, rfl, w, _, rfl, h4, h5⟩
          · exact ⟨rfl, rfl, w, rest, rfl, h4, h5⟩
        · exact ⟨rfl, rfl, w, rest, rfl, h4, h5⟩

/-- **A `Stop` that waits for its check goroutine with pw.mu held deadlocks** whenever that goroutine
    has not yet taken pw.mu for its next round — in particular during the 500 ms a health-checked
    wrapper sleeps after every login: no schedule ever reaches `close(doneCh)`. -/
theorem stop_waits_stuck (c : Cfg) (hw : c.stopWaits = true) (buf : Nat) (w : Wr) (rest : List Wr)
    (hwk : w.wk = .sleep ∨ w.wk = .top) : ∀ ls, (run c (init buf (w :: rest)) (.closer :: ls)).fin = false := by
  have hcr : isCrit w.wk = false := by rcases hwk with h | h <;> rw [h] <;> rfl
  have h0 : TdWedged (step c (init buf (w :: rest)) .closer) := by
    simp only [init]
    rw [td_step_closer_lock c buf [] w rest hcr]
    simp only [hw, if_true]
    exact ⟨rfl, rfl, _, rest, rfl, rfl, hwk⟩
  have hall : ∀ (ls : List Lbl) (s : St), TdWedged s → (run c s ls).fin = false := by
    intro ls
    induction ls with
    | nil => intro s h; exact h.1
    | cons l ls ih => intro s h; exact ih _ (td_wedged_step c s h l)
  intro ls
  exact hall ls _ h0

/-! ### tie to the source (translate/gen_sessfacts_clock.go, regenerated on every run) -/

/-- the parameters as the code has them: the capacity of the dispatcher's send channel; whether
    `Wrapper.Stop` blocks (receive / select / Wait) with pw.mu held; whether somebody receives from the
    send channel while `pm.Close()` runs — `worker()` starts a draining goroutine before it, or the
    transporter's `Send` is not a bare channel send, or the send loop outlives the read loop -/
def codeTeardown : Cfg :=
  { cap := Gen.SessFacts.sendChCap, stopWaits := Gen.SessFacts.wrapperStopWaits,
    drains := Gen.SessFacts.workerDrainsSendCh ||
      !(Gen.SessFacts.transportSendBare && Gen.SessFacts.sendLoopStopsOnDone && Gen.SessFacts.workerClosesAfterDone) }

/-- in the source as it is (and with the repair applied): `Stop` takes pw.mu first and never waits while
    holding it, the check goroutine takes pw.mu and sleeps before its first round when there is a
    monitor, `Stop` pushes a CloseProxy through the handler, the channel has room for 100 messages -/
theorem code_teardown_shape :
    codeTeardown.stopWaits = false ∧ codeTeardown.cap = 100 ∧ Gen.SessFacts.wrapperStopLocks = true ∧
      Gen.SessFacts.checkWorkerLocks = true ∧ Gen.SessFacts.checkWorkerSleepsFirst = true ∧
      Gen.SessFacts.stopSendsClose = true := by
  decide +kernel

/-- **The clause for the code at hand**: it holds exactly if the source has a receiver on the send
    channel during the teardown (valid on the unchanged tree, where it says "violated", and on the
    repaired one, where it says "holds") -/
theorem teardown_code : (codeTeardown.drains = true → teardownFull codeTeardown) ∧
    (codeTeardown.drains = false → ¬ teardownFull codeTeardown) :=
  ⟨fun hd => (teardown_full_fixed codeTeardown hd code_teardown_shape.1 (by rw [code_teardown_shape.2.1]; decide)).1,
   fun hd => teardown_full_fails_asis codeTeardown hd code_teardown_shape.1⟩

/-! ### non-vacuity -/

-- `teardown_completes` without a receiver: 3 wrappers in different phases (one inside its critical section
-- with a message to push), 95 messages queued, capacity 100: room for the 4 pushes
example :
    let c : Cfg := { cap := 100, stopWaits := false, drains := false }
    let s : St := { buf := 95, todo := [{ wk := .crit true }, { wk := .sleep }, { wk := .sel }] }
    TdInv c s ∧ TdRoom c s.buf s.todo ∧ (run c s (tdFinish s)).fin = true ∧ (run c s (tdFinish s)).buf = 99 := by
  refine ⟨⟨by decide, fun h => by cases h⟩, Or.inr (by decide), by decide, by decide⟩

-- the same three wrappers with 97 queued: no room, and indeed the finishing schedule gets stuck …
example :
    let c : Cfg := { cap := 100, stopWaits := false, drains := false }
    let s : St := { buf := 97, todo := [{ wk := .crit true }, { wk := .sleep }, { wk := .sel }] }
    ¬ TdRoom c s.buf s.todo ∧ TdStuck c (run c s (tdFinish s)) := by
  refine ⟨by intro h; rcases h with h | h; cases h; revert h; decide, by decide, by decide, by decide, by decide⟩

-- … while with a receiver it finishes
example :
    let c : Cfg := { cap := 100, stopWaits := false, drains := true }
    let s : St := { buf := 100, todo := [{ wk := .crit true }, { wk := .sleep }, { wk := .sel }] }
    (run c s (tdFinish s)).fin = true := by decide

-- `stop_waits_stuck`: a health-checked wrapper within 500 ms of the login
example :
    let c : Cfg := { cap := 100, stopWaits := true, drains := false }
    TdWedged (run c (init 0 [{ wk := .sleep }]) [.closer, .worker 0 false, .worker 0 true, .closer]) := by
  exact ⟨by decide, by decide, _, _, rfl, by decide, by decide⟩

end PartH

end C14
end Frp
