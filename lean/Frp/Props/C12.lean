import Frp.Lemmas.Sess
import Frp.Model.RandID
import Frp.Gen.RandFacts
/-
  C12 — Sessions own their proxies; names are unique; re-login replaces cleanly.

  All theorems are about `Frp.Sess.step` (Model/Sess.lean), the small-step model of
  RegisterControl / ControlManager / Control.worker / RegisterProxy / CloseProxy / proxy.Manager.
  `Reachable S` = S is reached from the empty server by SOME finite sequence of labels, i.e. by any
  interleaving of the atomic actions of any number of sessions; the invariants `NInv`, `RInv`
  (Lemmas/Sess.lean) are proved for every label and lifted here by induction over the label list.

  Modelling assumption stated in the model (`step … (.login n r fresh)`): the id generator is abstract
  — a generated id is one no session has, and an id is not presented by another login before it was
  disclosed by the LoginResp.  Section 7 says what that assumption rests on:
    * `randid_code_shape` — the regenerated facts `Frp.Gen.RandFacts` (translate/gen_randfacts.go): RandIDWithLen
      makes its buffer itself, fills ALL of it with one crypto/rand.Read, formats that buffer with "%x" and
      depends on no package-level state;
    * for code of that shape (`Frp.RandID`, Model/RandID.lean) every one of any number of concurrent calls
      returns the 16-hex id of a block that this very call read, and equal ids mean equal 8-byte draws;
    * `freshOK` / `idsOK` — the assumption itself as an executable predicate; the engine evaluates it on
      the ids the real Service hands out (sequential gated logins, concurrent bursts of fresh logins) and
      on the ids many concurrent callers of the real util.RandID get.
  That crypto/rand's bytes cannot be guessed and that N random 64-bit draws are pairwise different
  (probability of a collision ≤ N²/2⁶⁵) is an assumption, not a theorem.
-/
namespace Frp
namespace C12
open Sess

/-! ### invariants hold on every reachable state -/

theorem inv_run {ls : List Label} : ∀ {S S' : St}, run S ls = some S' → NInv S → RInv S → NInv S' ∧ RInv S' := by
  induction ls with
  | nil =>
    intro S S' h hn hr
    simp only [run, Option.some.injEq] at h
    subst h
    exact ⟨hn, hr⟩
  | cons l ls ih =>
    intro S S' h hn hr
    simp only [run] at h
    split at h
    · cases h
    · rename_i S1 h1
      exact ih h (ninv_step hn h1) (rinv_step hr h1)

theorem reachable_inv {S : St} (h : Reachable S) : NInv S ∧ RInv S := by
  obtain ⟨ls, h⟩ := h
  exact inv_run h ninv_init rinv_init

theorem reachable_step {S S' : St} {l : Label} (hR : Reachable S) (h : step S l = some S') : Reachable S' := by
  obtain ⟨ls, hls⟩ := hR
  refine ⟨ls ++ [l], ?_⟩
  have : ∀ (ls : List Label) (T : St), run T ls = some S → run T (ls ++ [l]) = some S' := by
    intro ls
    induction ls with
    | nil => intro T hT; have hT' : T = S := Option.some.inj hT; subst hT'; simp [run, h]
    | cons a as ih =>
      intro T hT
      simp only [run, List.cons_append] at hT ⊢
      split at hT
      · cases hT
      · rename_i T1 h1
        first | exact ih T1 hT | (rw [h1]; exact ih T1 hT)
  exact this ls init hls

/-! ### 1. at most one live proxy per name -/

/-- session `s` has an open proxy object registered under name `p`
    (it is in `ctl.proxies`, `Close` has not been called on it) -/
def Holds (S : St) (s p : Nat) : Prop :=
  p ∈ (S.s s).own ∧ (S.s s).hp ≠ .closing p ∧
    ((S.s s).phase = .running ∨ (S.s s).phase = .dispDone ∨ ((S.s s).phase = .drained ∧ p ∈ (S.s s).todo))

/-- whoever holds a live proxy named `p` is the session stored under `p` in the global table -/
theorem holds_is_named {S : St} {s p : Nat} (hR : Reachable S) (h : Holds S s p) :
    S.names.get p = some s := by
  have hN := (reachable_inv hR).1 s p
  simp only [NGood] at hN
  obtain ⟨ho, hc, hp⟩ := h
  rcases hp with hp | hp | ⟨hp, ht⟩
  · exact hN.2.2.2.1 ho (Or.inl hp) hc
  · exact hN.2.2.2.1 ho (Or.inr hp) hc
  · exact hN.2.2.2.2.1 ht hp

/-- **names are unique**: across all sessions, under every interleaving, at most one live proxy per name -/
theorem one_live_proxy_per_name {S : St} {s t p : Nat} (hR : Reachable S)
    (h1 : Holds S s p) (h2 : Holds S t p) : s = t := by
  have a := holds_is_named hR h1
  have b := holds_is_named hR h2
  rw [a] at b
  exact Option.some.inj b

/-- an entry of the global table belongs to an acknowledged, not yet torn down session that either
    holds the proxy or is between `pxyManager.Add` and its own-table insert -/
theorem named_is_live {S : St} {s p : Nat} (hR : Reachable S) (h : S.names.get p = some s) :
    (S.s s).phase.live = true ∧ ((S.s s).hp = .added p ∨ Holds S s p) := by
  have hN := (reachable_inv hR).1 s p
  simp only [NGood] at hN
  obtain ⟨hl, hh⟩ := hN.2.2.1 h
  refine ⟨hl, ?_⟩
  rcases hh with hh | ⟨ho, hc, ht⟩
  · exact Or.inl hh
  · refine Or.inr ⟨ho, hc, ?_⟩
    cases hph : (S.s s).phase <;> simp_all [Phase.live]

/-! ### 2. registering a live name is refused, the incumbent is untouched -/

/-- `pxyManager.Exist` answers yes: nothing at all changes -/
theorem reg_exist_refused {S S' : St} {n p : Nat} (h : step S (.regExist n p) = some S')
    (ho : (S.names.get p).isSome = true) : S' = S := by
  simp only [step] at h
  split at h
  · simp only [Option.some.injEq] at h; exact h.symm
  · cases h

/-- the name is free at `Exist`: the registration proceeds (to `pxy.Run`) -/
theorem reg_exist_free {S S' : St} {n p : Nat} (h : step S (.regExist n p) = some S')
    (ho : S.names.get p = none) : S' = S.upd n (fun y => { y with hp := .checked p }) := by
  simp only [step] at h
  split at h
  · simp only [ho, Option.isSome_none, Bool.false_eq_true, if_false, Option.some.injEq] at h; exact h.symm
  · cases h

/-- `pxyManager.Add` meets an occupied name (somebody registered it since the `Exist` check): both
    tables, every other session and the caller's own table are untouched; the caller only returns -/
theorem reg_add_refused {S S' : St} {n p : Nat} (h : step S (.regAdd n p) = some S')
    (ho : (S.names.get p).isSome = true) :
    S'.names = S.names ∧ S'.byRun = S.byRun ∧ (∀ m, m ≠ n → S'.s m = S.s m) ∧
      (S'.s n).own = (S.s n).own ∧ (S'.s n).hp = .idle := by
  simp only [step] at h
  split at h
  · simp only [Option.some.injEq] at h
    subst h
    refine ⟨rfl, rfl, ?_, ?_, ?_⟩
    · intro m hm; simp [hm]
    · simp
    · simp
  · cases h

/-- `pxyManager.Add` on a free name stores the caller and touches no other name -/
theorem reg_add_free {S S' : St} {n p : Nat} (h : step S (.regAdd n p) = some S')
    (ho : S.names.get p = none) :
    S'.names.get p = some n ∧ ∀ q, q ≠ p → S'.names.get q = S.names.get q := by
  simp only [step] at h
  split at h
  · simp only [ho, Option.isSome_none, Bool.false_eq_true, if_false, Option.some.injEq] at h
    subst h
    refine ⟨by simp, ?_⟩
    intro q hq; simp [hq]
  · cases h

/-- refusal ⇔ the name is occupied (both the `Exist` check and the `Add`) -/
theorem refused_iff_occupied (S : St) (n p : Nat) :
    (res S (.regExist n p) = .refused ↔ ∃ t, S.names.get p = some t) ∧
    (res S (.regAdd n p) = .refused ↔ ∃ t, S.names.get p = some t) := by
  simp only [res]
  cases h : S.names.get p <;> simp

/-! ### 3. a session's entries are changed only by that session -/

/-- a label of session `l.sid` leaves every other session's record alone -/
theorem step_frame {S S' : St} {l : Label} {m : Nat} (h : step S l = some S') (hm : m ≠ l.sid) :
    S'.s m = S.s m := by
  cases l <;> simp only [step] at h <;> simp only [Label.sid] at hm <;>
    (repeat' split at h) <;> (try cases h) <;> simp [hm]

/-- **ownership**: an entry `p ↦ t` of the global name table stays as it is unless session `t` itself
    removes it (CloseProxy or its teardown); it is never overwritten and never removed by another session -/
theorem names_entry_stable {S S' : St} {l : Label} {p t : Nat} (hR : Reachable S)
    (h : step S l = some S') (hn : S.names.get p = some t) :
    S'.names.get p = some t ∨ (S'.names.get p = none ∧ l.sid = t) := by
  have hN := (reachable_inv hR).1
  cases l with
  | closeProxy n q =>
    simp only [step] at h
    split at h
    · cases h
      rename_i hg
      have := hN n q
      simp only [NGood] at this
      by_cases hq : p = q
      · subst hq
        have e := this.2.2.2.2.1 hg.2 hg.1
        rw [hn] at e
        simp [Label.sid, Option.some.inj e]
      · simp [hq, hn]
    · cases h
  | closeReq n q =>
    simp only [step] at h
    split at h
    · rename_i hg
      split at h
      · rename_i ho
        cases h
        have := hN n q
        simp only [NGood] at this
        by_cases hq : p = q
        · subst hq
          have e := this.2.2.2.1 ho (Or.inl hg.1) (by simp [hg.2])
          rw [hn] at e
          simp [Label.sid, Option.some.inj e]
        · simp [hq, hn]
      · cases h; exact Or.inl hn
    · cases h
  | regAdd n q =>
    simp only [step] at h
    split at h
    · split at h
      · cases h; exact Or.inl hn
      · rename_i hf
        cases h
        by_cases hq : p = q
        · subst hq; simp [hn] at hf
        · simp [hq, hn]
    · cases h
  | login n r f => simp only [step] at h; (repeat' split at h) <;> (try cases h) <;> exact Or.inl hn
  | add n => simp only [step] at h; (repeat' split at h) <;> (try cases h) <;> exact Or.inl hn
  | waitOld n => simp only [step] at h; (repeat' split at h) <;> (try cases h) <;> exact Or.inl hn
  | start n => simp only [step] at h; (repeat' split at h) <;> (try cases h) <;> exact Or.inl hn
  | connClose n => simp only [step] at h; (repeat' split at h) <;> (try cases h) <;> exact Or.inl hn
  | dispDone n => simp only [step] at h; (repeat' split at h) <;> (try cases h) <;> exact Or.inl hn
  | drain n => simp only [step] at h; (repeat' split at h) <;> (try cases h) <;> exact Or.inl hn
  | done n => simp only [step] at h; (repeat' split at h) <;> (try cases h) <;> exact Or.inl hn
  | del n => simp only [step] at h; (repeat' split at h) <;> (try cases h) <;> exact Or.inl hn
  | regExist n q => simp only [step] at h; (repeat' split at h) <;> (try cases h) <;> exact Or.inl hn
  | regRun n q k ok => simp only [step] at h; (repeat' split at h) <;> (try cases h) <;> exact Or.inl hn
  | regOwn n q => simp only [step] at h; (repeat' split at h) <;> (try cases h) <;> exact Or.inl hn
  | closeFin n q => simp only [step] at h; (repeat' split at h) <;> (try cases h) <;> exact Or.inl hn

/-- **a close request affects only proxies of the session that sent it**: the only table entry that
    can change is `p`, and only if it was the sender's; no other session's record changes -/
theorem close_only_own {S S' : St} {n p : Nat} (hR : Reachable S) (h : step S (.closeReq n p) = some S') :
    (∀ q, S'.names.get q ≠ S.names.get q → q = p ∧ S.names.get q = some n) ∧
      (∀ m, m ≠ n → S'.s m = S.s m) ∧ S'.byRun = S.byRun := by
  refine ⟨?_, fun m hm => step_frame h hm, ?_⟩
  · intro q hq
    have hN := (reachable_inv hR).1 n p
    simp only [NGood] at hN
    simp only [step] at h
    split at h
    · rename_i hg
      split at h
      · rename_i ho
        cases h
        by_cases e : q = p
        · subst e
          exact ⟨rfl, hN.2.2.2.1 ho (Or.inl hg.1) (by simp [hg.2])⟩
        · simp [e] at hq
      · cases h; exact absurd rfl hq
    · cases h
  · simp only [step] at h
    (repeat' split at h) <;> (try cases h) <;> rfl

/-! ### 4. the new login is acknowledged only after the old session is completely torn down -/

/-- **ack(new) after teardown(old)**: once session `n` is acknowledged (`Start` wrote the LoginResp),
    the session it replaced has closed its done channel, stands in no entry of the global name table
    and holds no proxy -/
theorem ack_after_teardown {S : St} {n o : Nat} (hR : Reachable S)
    (hs : (S.s n).phase.started = true) (ho : (S.s n).old = some o) :
    (S.s o).phase = .done ∧ ∀ p, S.names.get p ≠ some o ∧ ¬ Holds S o p := by
  obtain ⟨hN, hI⟩ := reachable_inv hR
  have hd := hI.c2 n o (Or.inr hs) ho
  refine ⟨hd, fun p => ⟨?_, ?_⟩⟩
  · intro hp
    have := (named_is_live hR hp).1
    simp [hd, Phase.live] at this
  · intro hh
    have hp := holds_is_named hR hh
    have := (named_is_live hR hp).1
    simp [hd, Phase.live] at this

/-- the same for EVERY earlier session of the run id (several re-logins at once: chains of replaced,
    never acknowledged sessions included) -/
theorem ack_after_all_earlier {S : St} {n k : Nat} (hR : Reachable S)
    (hs : (S.s n).phase.started = true) (hk : (S.s k).phase.isAdded = true)
    (hr : (S.s k).rid = (S.s n).rid) (hlt : (S.s k).stamp < (S.s n).stamp) :
    (S.s k).phase = .done ∧ ∀ p, S.names.get p ≠ some k := by
  have hd := (reachable_inv hR).2.x n k hs hk hr hlt
  refine ⟨hd, fun p hp => ?_⟩
  have := (named_is_live hR hp).1
  simp [hd, Phase.live] at this

/-- at most one acknowledged, not yet torn down session per run id -/
theorem one_active_session_per_run {S : St} {m k : Nat} (hR : Reachable S)
    (hm : (S.s m).phase.live = true) (hk : (S.s k).phase.live = true)
    (hr : (S.s m).rid = (S.s k).rid) : m = k := by
  obtain ⟨_, hI⟩ := reachable_inv hR
  have sm : (S.s m).phase.started = true := by cases h : (S.s m).phase <;> simp_all [Phase.live, Phase.started]
  have sk : (S.s k).phase.started = true := by cases h : (S.s k).phase <;> simp_all [Phase.live, Phase.started]
  have am := Phase.started_isAdded sm
  have ak := Phase.started_isAdded sk
  rcases Nat.lt_trichotomy (S.s m).stamp (S.s k).stamp with h | h | h
  · have := hI.x k m sk am hr h
    simp [this, Phase.live] at hm
  · exact hI.a3 m k am ak h
  · have := hI.x m k sm ak hr.symm h
    simp [this, Phase.live] at hk

/-- **the client's own earlier registrations never block its new ones**: if a registration of the
    running session `n` meets an occupied name, the incumbent is `n` itself or a session of ANOTHER
    run id — never an earlier (or later) session of the same run id -/
theorem own_run_never_blocks {S : St} {n t p : Nat} (hR : Reachable S)
    (hn : (S.s n).phase = .running) (ht : S.names.get p = some t)
    (hr : (S.s t).rid = (S.s n).rid) : t = n :=
  one_active_session_per_run hR (named_is_live hR ht).1 (by simp [hn, Phase.live]) hr

/-! ### 5. the run id designates the newest session -/

theorem byRun_is_newest {S : St} {r n : Nat} (hR : Reachable S) (hb : S.byRun.get r = some n) :
    (S.s n).phase.isAdded = true ∧ (S.s n).rid = r ∧ (S.s n).deleted = false ∧
      ∀ k, (S.s k).phase.isAdded = true → (S.s k).rid = r → (S.s k).stamp ≤ (S.s n).stamp := by
  obtain ⟨_, hI⟩ := reachable_inv hR
  obtain ⟨a, b, c⟩ := hI.b1 r n hb
  exact ⟨a, b, c, fun k hk hr => hI.b2 r n k hb hk hr⟩

/-- conversely: from its `Add` until its own `Del`, the newest session of a run id IS what the run id
    designates (work connections, GetByID) — whatever older sessions of that id still do -/
theorem newest_is_designated {S : St} {n : Nat} (hR : Reachable S)
    (ha : (S.s n).phase.isAdded = true) (hd : (S.s n).deleted = false)
    (hnew : ∀ k, (S.s k).phase.isAdded = true → (S.s k).rid = (S.s n).rid → (S.s k).stamp ≤ (S.s n).stamp) :
    S.byRun.get (S.s n).rid = some n := by
  obtain ⟨_, hI⟩ := reachable_inv hR
  cases hb : S.byRun.get (S.s n).rid with
  | none =>
    obtain ⟨k, hk, hr, hlt⟩ := hI.b4 n ha hd hb
    have := hnew k hk hr
    omega
  | some k =>
    obtain ⟨ak, rk, _⟩ := hI.b1 _ k hb
    have h1 := hI.b2 _ k n hb ha rfl
    have h2 := hnew k ak rk
    have := hI.a3 k n ak ha (by omega)
    rw [this]

/-! ### 6. late cleanup of an old session never removes a newer one -/

/-- `ControlManager.Del(runID, ctl)` with its `c == ctl` guard: every entry that designates another
    session survives -/
theorem late_del_keeps_newer {S S' : St} {o r n : Nat} (h : step S (.del o) = some S')
    (hb : S.byRun.get r = some n) (hne : n ≠ o) : S'.byRun.get r = some n := by
  simp only [step] at h
  split at h
  · cases h
    split
    · rename_i hg
      by_cases hr : r = (S.s o).rid
      · subst hr; rw [hb] at hg; exact absurd (Option.some.inj hg) hne
      · simp [hr, hb]
    · exact hb
  · cases h

/-- what `Del` removes is an entry designating the deleting session itself -/
theorem del_removes_only_self {S S' : St} {o r : Nat} (h : step S (.del o) = some S')
    (hc : S'.byRun.get r ≠ S.byRun.get r) : S.byRun.get r = some o := by
  cases hb : S.byRun.get r with
  | none =>
    simp only [step] at h
    split at h
    · cases h
      split at hc
      · rename_i hg
        by_cases hr : r = (S.s o).rid
        · subst hr; rw [hb] at hg; cases hg
        · simp [hr] at hc
      · exact absurd rfl hc
    · cases h
  | some n =>
    by_cases hne : n = o
    · rw [hne]
    · exact absurd ((late_del_keeps_newer h hb hne).trans hb.symm) hc

/-- the guard is needed: `delete(cm.ctlsByRunID, runID)` without it would remove the newer session
    in a reachable state (non-vacuity of `late_del_keeps_newer`) -/
def delUnguarded (S : St) (o : Nat) : St := { S with byRun := S.byRun.set (S.s o).rid none }

def reloginTrace : List Label :=
  [.login 1 7 true, .add 1, .start 1, .regExist 1 5, .regRun 1 5 .plain true, .regAdd 1 5, .regOwn 1 5,
   .login 2 7 false, .add 2, .dispDone 1, .drain 1, .closeProxy 1 5, .done 1, .waitOld 2, .start 2]

def reloginState : St := (run init reloginTrace).getD init

theorem reloginState_reachable : Reachable reloginState := by
  refine ⟨reloginTrace, ?_⟩
  have h : (run init reloginTrace).isSome = true := by decide
  unfold reloginState
  cases hr : run init reloginTrace with
  | none => rw [hr] at h; cases h
  | some S => rfl

theorem unguarded_del_witness :
    reloginState.byRun.get 7 = some 2 ∧ ((step reloginState (.del 1)).map (·.byRun.get 7)) = some (some 2) ∧
      (delUnguarded reloginState 1).byRun.get 7 = none := by decide

/-! ### 7. a login without run id gets a fresh id and replaces nobody -/

/-- the generated id is not the id of any existing session (this is the modelling assumption on the
    abstract generator, restated on reachable states) -/
theorem fresh_id_unused {S S' : St} {n r : Nat} (hR : Reachable S)
    (h : step S (.login n r true) = some S') : ∀ m, (S.s m).phase ≠ .none → (S.s m).rid ≠ r := by
  obtain ⟨_, hI⟩ := reachable_inv hR
  intro m hm
  have hin := hI.a1 m hm
  simp only [step] at h
  split at h; · cases h
  split at h; · cases h
  rename_i hg
  intro e
  apply hg
  refine ⟨trivial, ?_⟩
  simp only [List.any_eq_true, beq_iff_eq]
  exact ⟨m, hin, e⟩

/-- a session that logged in without run id never replaces anybody and never waits for anybody -/
theorem fresh_login_replaces_nobody {S : St} {n : Nat} (hR : Reachable S)
    (hf : (S.s n).fresh = true) : (S.s n).old = none :=
  (reachable_inv hR).2.f2 n hf

/-- … and its `Add` finds the run-id slot empty and closes nobody's connection -/
theorem fresh_add_finds_slot_empty {S S' : St} {n : Nat} (hR : Reachable S)
    (hf : (S.s n).fresh = true) (h : step S (.add n) = some S') :
    S.byRun.get (S.s n).rid = none ∧ S'.closed = S.closed := by
  have hS' := reachable_step hR h
  have hold := fresh_login_replaces_nobody (n := n) hS'
  simp only [step] at h
  split at h; · cases h
  cases h
  simp only [s_mk, upd_sess, Tbl.get_set, if_true] at hold
  have := hold hf
  exact ⟨this, by simp [this]⟩

/-! #### what the freshness assumption rests on: the shape of util.RandID -/

/-- the source has the private-buffer shape: the buffer handed to Sprintf is made inside the call
    (`b := make([]byte, …)`, never re-assigned), one `crypto/rand.Read(b)` fills it, nothing else is
    called, no goroutine / closure, no package-level identifier of package util is mentioned -/
def randidCodePrivate : Bool :=
  Gen.RandFacts.bufIsLocalMake && Gen.RandFacts.readFillsBuf && Gen.RandFacts.readPkg == "crypto/rand" &&
  Gen.RandFacts.calls == ["make", "rand.Read", "fmt.Sprintf"] &&
  Gen.RandFacts.freeIdents.isEmpty && Gen.RandFacts.goStmts.isEmpty

/-- … and is, statement by statement, the function Model/RandID.lean mirrors -/
def randidCodeShape : Bool :=
  randidCodePrivate &&
  Gen.RandFacts.randIDBody == ["return RandIDWithLen(16)"] && Gen.RandFacts.randIDLen == 16 &&
  Gen.RandFacts.stmts ==
    ["if idLen <= 0 { return \"\", nil }", "b := make([]byte, idLen/2+1)", "_, err = rand.Read(b)",
     "if err != nil { return }", "id = fmt.Sprintf(\"%x\", b)", "return id[:idLen], nil"] &&
  Gen.RandFacts.bufVar == "b" && Gen.RandFacts.bufLenDiv == 2 && Gen.RandFacts.bufLenAdd == 1 &&
  Gen.RandFacts.formatVerb == "%x" && Gen.RandFacts.resultExpr == "id[:idLen]"

/-- tie to the source (regenerated on every run by translate/gen_randfacts.go) -/
theorem randid_code_shape : randidCodeShape = true := by decide +kernel

theorem randid_code_private : randidCodePrivate = true := by decide +kernel

/-- **concurrent callers**: under every interleaving of any number of RandID calls in flight, a call
    returns the id of a block that this very call read from crypto/rand (never bytes another call drew) -/
theorem randid_concurrent_calls_return_own_draws (es : List RandID.Ev) (i : Nat) (s : Str)
    (h : (RandID.prun randidCodePrivate Gen.RandFacts.randIDLen {} es).out.get i = some s) :
    ∃ b, RandID.Ev.read i b ∈ es ∧ s = RandID.idOf 16 b := by
  have e : Gen.RandFacts.randIDLen = 16 := by decide +kernel
  rw [randid_code_private, e] at h
  exact RandID.private_formats_own_draw 16 es i s h

/-- the id is 16 lower-case hex characters -/
theorem randid_is_hex16 (b : List Nat) (h : b.length = RandID.bufLen Gen.RandFacts.randIDLen) :
    RandID.isHex16 (RandID.idOf 16 b) = true := by
  have e : Gen.RandFacts.randIDLen = 16 := by decide +kernel
  rw [e] at h
  exact RandID.idOf_isHex16 b h

/-- two calls return the same id only if crypto/rand delivered the same first 8 bytes (64 bits) to both -/
theorem randid_same_id_same_draw (a b : List Nat) (ha : ∀ x ∈ a, x < 256) (hb : ∀ x ∈ b, x < 256)
    (h : RandID.idOf 16 a = RandID.idOf 16 b) : a.take 8 = b.take 8 :=
  RandID.idOf_inj 8 a b ha hb h

/-- non-vacuity of the shape condition: with a buffer that is a slice of shared storage two overlapping
    calls return the SAME id although they drew different bytes -/
theorem randid_shared_pool_witness :
    let a := [1, 2, 3, 4, 5, 6, 7, 8, 9]
    let b := [11, 12, 13, 14, 15, 16, 17, 18, 19]
    let S := RandID.prun false 16 {} [.read 1 a, .read 2 b, .format 1, .format 2]
    S.out.get 1 = S.out.get 2 ∧ S.out.get 1 = some (RandID.idOf 16 b) ∧ RandID.idOf 16 a ≠ RandID.idOf 16 b :=
  RandID.shared_pool_witness

/-! #### the freshness assumption as an executable predicate (evaluated on the implementation's ids) -/

/-- the id handed to a login without run id is well-formed and none of the ids handed out before -/
def freshOK (used : List Str) (id : Str) : Bool := RandID.isHex16 id && !used.contains id

/-- a sequence of generated ids (newest first): each was fresh when it was generated -/
def idsOK : List Str → Bool
  | [] => true
  | id :: rest => freshOK rest id && idsOK rest

theorem idsOK_sound (ids : List Str) :
    idsOK ids = true ↔ (∀ id ∈ ids, RandID.isHex16 id = true) ∧ ids.Nodup := by
  induction ids with
  | nil => simp [idsOK]
  | cons id rest ih =>
    simp only [idsOK, freshOK, Bool.and_eq_true, ih, List.mem_cons, List.nodup_cons, Bool.not_eq_true',
      List.contains_eq_mem, decide_eq_false_iff_not, forall_eq_or_imp]
    constructor
    · rintro ⟨⟨a, b⟩, c, d⟩; exact ⟨⟨a, c⟩, b, d⟩
    · rintro ⟨⟨a, c⟩, b, d⟩; exact ⟨⟨a, b⟩, c, d⟩

/-- a batch of ids generated concurrently (a burst of fresh logins): pairwise different, well-formed and
    none of the ids handed out before -/
def burstOK (used ids : List Str) : Bool := idsOK ids && ids.all (fun id => freshOK used id)

theorem burstOK_sound (used ids : List Str) (hu : idsOK used = true) (h : burstOK used ids = true) :
    idsOK (ids ++ used) = true := by
  simp only [burstOK, Bool.and_eq_true, List.all_eq_true] at h
  obtain ⟨h1, h2⟩ := h
  induction ids with
  | nil => simpa using hu
  | cons id rest ih =>
    simp only [idsOK, Bool.and_eq_true] at h1
    have hid := h2 id (by simp)
    simp only [freshOK, Bool.and_eq_true, Bool.not_eq_true', List.contains_eq_mem, decide_eq_false_iff_not] at hid h1
    simp only [List.cons_append, idsOK, freshOK, Bool.and_eq_true, Bool.not_eq_true', List.contains_eq_mem,
      decide_eq_false_iff_not, List.mem_append, not_or]
    exact ⟨⟨hid.1, h1.1.2, hid.2⟩, ih h1.2 (fun x hx => h2 x (by simp [hx]))⟩

/-- the assumption is exactly the enabling condition of the model's fresh login: when the generated id
    is none of the ids sessions have, the label is enabled — the theorems above speak about it -/
theorem fresh_login_enabled {S : St} {n r : Nat} (hn : (S.s n).phase = .none)
    (hf : ∀ m ∈ S.ids, (S.s m).rid ≠ r) : (step S (.login n r true)).isSome = true := by
  simp only [step]
  have : ¬ (S.ids.any (fun m => (S.s m).rid == r) = true) := by
    simp only [List.any_eq_true, beq_iff_eq, not_exists, not_and]
    exact hf
  simp [hn, this]

/-! ### the executable predicate the driver evaluates on the IMPLEMENTATION's dumped tables -/

/-- one observation: the model's session bookkeeping after a label (phases, stamps, `old`; its tables
    are NOT used) and the implementation's own tables (`Service.VerifSessDump`) before and after it -/
structure Obs where
  S : St
  actor : Nat                        -- the session the label belongs to
  actorRid : Nat
  isDel : Bool                       -- the label is ControlManager.Del
  prevRun : List (Nat × Nat)         -- ctlsByRunID before: run id ↦ session
  prevNames : List (Nat × Nat)       -- pxys before: name ↦ owning session
  run : List (Nat × Nat)
  names : List (Nat × Nat)
  acked : List Nat := []             -- sessions whose client has RECEIVED the LoginResp (the implementation's own acks)
  P : St := {}                       -- the model's bookkeeping BEFORE the label (who held which rendez-vous entry)
  prevVis : List Nat := []           -- visitor.Manager.listeners before the label (names) …
  vis : List Nat := []               -- … and after it
  prevNat : List Nat := []           -- nathole.Controller.clientCfgs before …
  nat : List Nat := []               -- … and after
  own : List (Nat × Nat) := []       -- (session, name): the keys of ctl.proxies of every session the run-id table designates

def hasKey (l : List (Nat × Nat)) (k : Nat) : Bool := l.any (fun e => e.1 == k)

/-- `k` is an earlier session of `n`'s run id (the model's bookkeeping of the Adds, whose results are
    compared with the implementation's label by label) -/
def earlierOf (S : St) (n k : Nat) : Bool :=
  (S.s n).phase.isAdded && (S.s k).phase.isAdded && (S.s k).rid == (S.s n).rid && (S.s k).stamp < (S.s n).stamp

/-- an acknowledged session that still has something to tear down: its connection / pool (running,
    dispDone) or proxies its worker has not closed yet.  (`drained` with nothing left to visit is torn
    down in every respect the property names; only `close(doneCh)` is outstanding.) -/
def pendingTeardown (x : Rec) : Bool :=
  x.phase.live && !(decide (x.phase = .drained) && x.todo.isEmpty)

/-- **ack(new) only after teardown(every earlier session of the run id)**, evaluated on the
    implementation's own acknowledgements and its own name table (`ack_after_all_earlier`; chains of
    simultaneous re-logins A → B → C included: C's ack while A is acknowledged and not torn down, or
    while A still stands in the name table, is a violation — whatever B did) -/
def ackOn (o : Obs) : Bool :=
  o.acked.all (fun n => o.S.ids.all (fun k => !(earlierOf o.S n k && pendingTeardown (o.S.s k)))) &&
  o.names.all (fun e => o.acked.all (fun n => !earlierOf o.S n e.2))

def AckSpec (o : Obs) : Prop :=
  (∀ n ∈ o.acked, ∀ k ∈ o.S.ids, earlierOf o.S n k = true → pendingTeardown (o.S.s k) = false) ∧
  (∀ e ∈ o.names, ∀ n ∈ o.acked, earlierOf o.S n e.2 = false)

theorem ackOn_sound (o : Obs) : ackOn o = true ↔ AckSpec o := by
  simp only [ackOn, AckSpec, Bool.and_eq_true, List.all_eq_true, Bool.not_eq_true', Bool.and_eq_false_imp]

def holdsOnBase (o : Obs) : Bool :=
  -- names belong to acknowledged, not yet torn down sessions
  o.names.all (fun e => (o.S.s e.2).phase.live) &&
  -- nobody is acknowledged while the session it replaced still stands in the name table
  o.names.all (fun e => o.S.ids.all (fun n => !((o.S.s n).phase.started && (o.S.s n).old == some e.2))) &&
  -- a run id designates an added, not deleted session of that id, the newest one
  o.run.all (fun e => (o.S.s e.2).phase.isAdded && (o.S.s e.2).rid == e.1 && !(o.S.s e.2).deleted &&
    o.S.ids.all (fun k => !((o.S.s k).phase.isAdded && (o.S.s k).rid == e.1) || (o.S.s k).stamp ≤ (o.S.s e.2).stamp)) &&
  -- name entries disappear only by their owner's action and appear only for the actor on a free name
  o.prevNames.all (fun e => o.names.contains e || (e.2 == o.actor && !hasKey o.names e.1)) &&
  o.names.all (fun e => o.prevNames.contains e || (e.2 == o.actor && !hasKey o.prevNames e.1)) &&
  -- run-id entries change only under the actor's own run id; a Del removes nothing but the deleter itself
  o.prevRun.all (fun e => o.run.contains e || e.1 == o.actorRid) &&
  o.prevRun.all (fun e => !o.isDel || e.2 == o.actor || o.run.contains e)

/-- the entry's holder (the model's bookkeeping of who ran which proxy) is acknowledged and not torn down -/
def heldByLive (S : St) (v : Option Nat) : Bool :=
  match v with
  | some t => (S.s t).phase.live
  | none => false

theorem heldByLive_iff (S : St) (v : Option Nat) :
    heldByLive S v = true ↔ ∃ t, v = some t ∧ (S.s t).phase.live = true := by
  cases v <;> simp [heldByLive]

/-- a key of a session's own table is a name that session registered: the name table says `p ↦ m`, unless the
    session is just closing `p` (between `pxyManager.Del` and `delete(ctl.proxies, …)`) or already in its teardown -/
def ownKeyOK (S : St) (names : List (Nat × Nat)) (e : Nat × Nat) : Bool :=
  !(decide ((S.s e.1).phase = .running) || decide ((S.s e.1).phase = .dispDone)) ||
    decide ((S.s e.1).hp = .closing e.2) || names.contains (e.2, e.1)

/-- **the incumbent keeps working / nothing leaks**, evaluated on the implementation's own rendez-vous tables
    (`visitor.Manager.VerifNames`, `nathole.Controller.VerifClients`) and own tables (`VerifAuthSessions`) before
    and after a label: an entry disappears only by an action of the session that holds it (`vis_entry_stable`,
    `nat_entry_stable`: never by somebody else's refused registration, close request or teardown), appears only
    for the actor, is held by an acknowledged, not torn down session (`entry_holder_open`,
    `teardown_releases_all`); and every key of an own table is a name the session stands under in the name table -/
def resOn (o : Obs) : Bool :=
  o.prevVis.all (fun p => o.vis.contains p || o.P.vis.get p == some o.actor) &&
  o.prevNat.all (fun p => o.nat.contains p || o.P.nat.get p == some o.actor) &&
  o.vis.all (fun p => o.prevVis.contains p || o.S.vis.get p == some o.actor) &&
  o.nat.all (fun p => o.prevNat.contains p || o.S.nat.get p == some o.actor) &&
  o.vis.all (fun p => heldByLive o.S (o.S.vis.get p)) &&
  o.nat.all (fun p => heldByLive o.S (o.S.nat.get p)) &&
  o.own.all (fun e => ownKeyOK o.S o.names e)

def ResSpec (o : Obs) : Prop :=
  (∀ p ∈ o.prevVis, p ∈ o.vis ∨ o.P.vis.get p = some o.actor) ∧
  (∀ p ∈ o.prevNat, p ∈ o.nat ∨ o.P.nat.get p = some o.actor) ∧
  (∀ p ∈ o.vis, p ∈ o.prevVis ∨ o.S.vis.get p = some o.actor) ∧
  (∀ p ∈ o.nat, p ∈ o.prevNat ∨ o.S.nat.get p = some o.actor) ∧
  (∀ p ∈ o.vis, ∃ t, o.S.vis.get p = some t ∧ (o.S.s t).phase.live = true) ∧
  (∀ p ∈ o.nat, ∃ t, o.S.nat.get p = some t ∧ (o.S.s t).phase.live = true) ∧
  (∀ e ∈ o.own, ((o.S.s e.1).phase = .running ∨ (o.S.s e.1).phase = .dispDone) →
      (o.S.s e.1).hp ≠ .closing e.2 → (e.2, e.1) ∈ o.names)

theorem resOn_sound (o : Obs) : resOn o = true ↔ ResSpec o := by
  simp only [resOn, ResSpec, Bool.and_eq_true, List.all_eq_true, Bool.or_eq_true, List.contains_iff_mem,
    beq_iff_eq, heldByLive_iff, ownKeyOK, Bool.not_eq_true', decide_eq_true_eq, Bool.or_eq_false_iff,
    decide_eq_false_iff_not]
  constructor
  · rintro ⟨⟨⟨⟨⟨⟨h1, h2⟩, h3⟩, h4⟩, h5⟩, h6⟩, h7⟩
    refine ⟨h1, h2, h3, h4, h5, h6, ?_⟩
    intro e he hp hc
    rcases h7 e he with (h | h) | h
    · exact absurd hp (by rintro (a | a); exact h.1 a; exact h.2 a)
    · exact absurd h hc
    · exact h
  · rintro ⟨h1, h2, h3, h4, h5, h6, h7⟩
    refine ⟨⟨⟨⟨⟨⟨h1, h2⟩, h3⟩, h4⟩, h5⟩, h6⟩, ?_⟩
    intro e he
    by_cases hp : (o.S.s e.1).phase = .running ∨ (o.S.s e.1).phase = .dispDone
    · by_cases hc : (o.S.s e.1).hp = .closing e.2
      · exact Or.inl (Or.inr hc)
      · exact Or.inr (h7 e he hp hc)
    · exact Or.inl (Or.inl ⟨fun a => hp (Or.inl a), fun a => hp (Or.inr a)⟩)

def holdsOn (o : Obs) : Bool := holdsOnBase o && ackOn o && resOn o

def SpecBase (o : Obs) : Prop :=
  (∀ e ∈ o.names, (o.S.s e.2).phase.live = true) ∧
  (∀ e ∈ o.names, ∀ n ∈ o.S.ids, ¬((o.S.s n).phase.started = true ∧ (o.S.s n).old = some e.2)) ∧
  (∀ e ∈ o.run, (o.S.s e.2).phase.isAdded = true ∧ (o.S.s e.2).rid = e.1 ∧ (o.S.s e.2).deleted = false ∧
    ∀ k ∈ o.S.ids, (o.S.s k).phase.isAdded = true → (o.S.s k).rid = e.1 → (o.S.s k).stamp ≤ (o.S.s e.2).stamp) ∧
  (∀ e ∈ o.prevNames, e ∈ o.names ∨ (e.2 = o.actor ∧ hasKey o.names e.1 = false)) ∧
  (∀ e ∈ o.names, e ∈ o.prevNames ∨ (e.2 = o.actor ∧ hasKey o.prevNames e.1 = false)) ∧
  (∀ e ∈ o.prevRun, e ∈ o.run ∨ e.1 = o.actorRid) ∧
  (∀ e ∈ o.prevRun, o.isDel = true → e.2 ≠ o.actor → e ∈ o.run)

def Spec (o : Obs) : Prop := (SpecBase o ∧ AckSpec o) ∧ ResSpec o

theorem holdsOnBase_sound (o : Obs) : holdsOnBase o = true ↔ SpecBase o := by
  simp only [holdsOnBase, SpecBase, Bool.and_eq_true, List.all_eq_true, Bool.or_eq_true,
    beq_iff_eq, decide_eq_true_eq, List.contains_iff_mem, Bool.and_eq_false_imp, Bool.not_eq_eq_eq_not,
    Bool.not_true]
  constructor
  · rintro ⟨⟨⟨⟨⟨⟨h1, h2⟩, h3⟩, h4⟩, h5⟩, h6⟩, h7⟩
    refine ⟨h1, ?_, ?_, h4, h5, h6, ?_⟩
    · intro e he n hn hc
      have := h2 e he n hn
      simp_all
    · intro e he
      obtain ⟨⟨⟨a, b⟩, c⟩, d⟩ := h3 e he
      refine ⟨a, b, c, fun k hk ha hr => ?_⟩
      have := d k hk
      simp_all
    · intro e he hd hne
      have := h7 e he
      simp_all
  · rintro ⟨h1, h2, h3, h4, h5, h6, h7⟩
    refine ⟨⟨⟨⟨⟨⟨h1, ?_⟩, ?_⟩, h4⟩, h5⟩, h6⟩, ?_⟩
    · intro e he n hn
      have := h2 e he n hn
      cases hs : (o.S.s n).phase.started <;> simp_all
    · intro e he
      obtain ⟨a, b, c, d⟩ := h3 e he
      refine ⟨⟨⟨a, b⟩, c⟩, fun k hk => ?_⟩
      have := d k hk
      cases ha : (o.S.s k).phase.isAdded <;> simp_all
      by_cases hr : (o.S.s k).rid = e.1 <;> simp_all
    · intro e he
      have := h7 e he
      cases hd : o.isDel <;> simp_all
      by_cases hne : e.2 = o.actor <;> simp_all

theorem holdsOn_sound (o : Obs) : holdsOn o = true ↔ Spec o := by
  simp only [holdsOn, Spec, Bool.and_eq_true, holdsOnBase_sound, ackOn_sound, resOn_sound]

/-- the model satisfies the acknowledgement clause: on a reachable state, with the model's own started
    sessions as the acknowledged ones and any name table entry of the model, `AckSpec` holds -/
theorem model_ackSpec {S : St} (hR : Reachable S) (run names : List (Nat × Nat)) (acked : List Nat)
    (ha : ∀ n ∈ acked, (S.s n).phase.started = true) (hn : ∀ e ∈ names, S.names.get e.1 = some e.2) :
    AckSpec { S := S, actor := 0, actorRid := 0, isDel := false, prevRun := [], prevNames := [],
              run := run, names := names, acked := acked } := by
  refine ⟨?_, ?_⟩
  · intro n hna k _ he
    simp only [earlierOf, Bool.and_eq_true, beq_iff_eq, decide_eq_true_eq] at he
    obtain ⟨⟨⟨_, hk⟩, hr⟩, hlt⟩ := he
    have := (ack_after_all_earlier hR (ha n hna) hk hr hlt).1
    simp [pendingTeardown, this, Phase.live]
  · intro e he n hna
    cases hE : earlierOf S n e.2 with
    | false => rfl
    | true =>
      simp only [earlierOf, Bool.and_eq_true, beq_iff_eq, decide_eq_true_eq] at hE
      obtain ⟨⟨⟨_, hk⟩, hr⟩, hlt⟩ := hE
      exact absurd (hn e he) ((ack_after_all_earlier hR (ha n hna) hk hr hlt).2 e.1)

/-! ### non-vacuity -/

/-- re-login with proxies: after the whole hand-over the run id designates the new session, the old
    one's name is free again and the new session registers it -/
example :
    (run init (reloginTrace ++ [.regExist 2 5, .regRun 2 5 .plain true, .regAdd 2 5, .regOwn 2 5, .del 1])).map
      (fun S => (S.byRun.get 7, S.names.get 5, (S.s 2).own)) = some (some 2, some 2, [5]) := by decide

/-- the new login cannot be acknowledged while the old session still owns a name -/
example :
    (run init [.login 1 7 true, .add 1, .start 1, .regExist 1 5, .regRun 1 5 .plain true, .regAdd 1 5, .regOwn 1 5,
               .login 2 7 false, .add 2, .dispDone 1, .drain 1, .waitOld 2]).isNone = true := by decide

/-- three logins at once on one run id: the middle one is replaced before it starts, is started on its
    closed connection, torn down, and only then the last one is acknowledged -/
example :
    (run init [.login 1 7 true, .add 1, .start 1, .login 2 7 false, .login 3 7 false, .add 2, .add 3,
               .dispDone 1, .drain 1, .done 1, .del 1, .waitOld 2, .start 2, .dispDone 2, .drain 2, .done 2,
               .waitOld 3, .start 3, .del 2]).map (fun S => (S.byRun.get 7, (S.s 3).phase)) =
      some (some 3, Phase.running) := by decide

/-- two sessions race for one name between `Exist` and `Add`: the second `Add` is refused -/
example :
    (run init [.login 1 1 true, .add 1, .start 1, .login 2 2 true, .add 2, .start 2,
               .regExist 1 5, .regExist 2 5, .regRun 1 5 .plain true, .regRun 2 5 .plain true, .regAdd 2 5, .regAdd 1 5,
               .regOwn 2 5]).map (fun S => (S.names.get 5, (S.s 1).hp, (S.s 2).own)) =
      some (some 2, HP.idle, [5]) := by decide

/-- `Holds` is inhabited: after its registration session 1 holds name 5 -/
example : Holds ((run init (reloginTrace.take 7)).getD init) 1 5 := by
  refine ⟨by decide, by decide, Or.inl (by decide)⟩

end C12
end Frp
