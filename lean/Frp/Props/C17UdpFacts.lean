import Frp.Props.C17Udp
import Frp.Gen.UdpAddr
/-
  C17, udp message addresses: the SHAPE of the Go code the model of Model/UdpPacket.lean mirrors, as facts regenerated
  from the sources on every run (translate generator UdpAddr: GOROOT/src/net/udpsock.go, net/ip.go, pkg/proto/udp/udp.go,
  every non-test .go file of the repository).  A field of net.UDPAddr the model does not carry, a codec method on it, a
  constructor that does anything but store its arguments, a new caller or a struct literal elsewhere breaks an
  obligation here.  (Separate from Props/C17Udp.lean so that the driver, which imports that file, builds whatever the
  regenerated facts say.)
-/
namespace Frp
namespace C17
open MsgObj UdpPacket

/-- net.UDPAddr has exactly the fields of the model's `Addr`, in that order, without tags -/
theorem addr_fields_eq_source : Gen.UdpAddr.fields = addrFields := by decide

/-- every field of the struct is a member of the JSON object the model writes for an address, under its own name,
    and there is no other member -/
theorem addr_members_cover (a : Addr) :
    a.members.map (·.1) = Gen.UdpAddr.fields.map (fun f => Str.ofString f.1) := by
  rw [addr_fields_eq_source]
  simp [Addr.members, Addr.values, addrFields]

/-- … and that object is the one the object level of the message model writes (Model/MsgObj.lean `udpToJ`) -/
theorem addr_members_eq_obj (a : Addr) : J.obj a.members = udpToJ a.toUDP := by
  have h1 : Str.ofString "IP" = kIP := by decide +kernel
  have h2 : Str.ofString "Port" = kPort := by decide +kernel
  have h3 : Str.ofString "Zone" = kZone := by decide +kernel
  simp [Addr.members, Addr.values, addrFields, udpToJ, Addr.toUDP, h1, h2, h3]

/-- package net declares no codec method on UDPAddr: encoding/json encodes the struct member by member -/
theorem addr_no_custom_codec :
    ∀ m ∈ ["MarshalJSON", "UnmarshalJSON", "MarshalText", "UnmarshalText", "MarshalBinary", "UnmarshalBinary"],
      m ∉ Gen.UdpAddr.methods := by decide

/-- `type IP []byte`, IPv4len = 4, IPv6len = 16 -/
theorem ip_shape : Gen.UdpAddr.ipUnderlying = "[]byte" ∧ Gen.UdpAddr.ipv4len = "4" ∧ Gen.UdpAddr.ipv6len = "16" := by
  decide

/-- `NewUDPPacket` is the one statement the model mirrors: the content is the base64 text of `buf`, the two address
    fields are the two parameters themselves -/
theorem ctor_shape :
    Gen.UdpAddr.ctorParams = ["buf []byte", "laddr *net.UDPAddr", "raddr *net.UDPAddr"] ∧
    Gen.UdpAddr.ctorStmts = 1 ∧
    Gen.UdpAddr.ctorFields = [("Content", "base64.StdEncoding.EncodeToString(buf)"), ("LocalAddr", "laddr"), ("RemoteAddr", "raddr")] ∧
    Gen.UdpAddr.getContentExpr = "base64.StdEncoding.DecodeString(m.Content)" := by decide

/-- every udp message of the repository is built by the constructor (no struct literal elsewhere), by the two
    forwarders, each passing no local address and the address it holds (`userPacket` / `fwdReply`) -/
theorem ctor_callers :
    Gen.UdpAddr.packetLiterals = [] ∧
    Gen.UdpAddr.ctorCalls = [("pkg/proto/udp/udp.go", "ForwardUserConn", "buf[:n], nil, remoteAddr"),
                             ("pkg/proto/udp/udp.go", "Forwarder", "buf[:n], nil, raddr")] := by decide

end C17
end Frp
