import Frp.Model.Group
import Frp.Lemmas.Group
import Frp.Lemmas.GroupConn
import Frp.Lemmas.GroupAcct
import Frp.Gen.GroupFacts
/-
  C13 — Load-balancing groups: keyed membership, live members only, clean lifecycle.

  Model: Frp/Model/Group.lean (server/group/{tcp,http,tcpmux}.go).
-/
namespace Frp
namespace C13
open Str Group

/-! ## Executable predicates evaluated by the driver on the implementation's own results -/

/-- the populated object a join to group `g` meets (sequentially: the one stored under `g`) -/
def metObj (s : St) (g : Str) : Option Obj :=
  match s.table.lookup g with
  | none => none
  | some gid => if (s.obj gid).members = [] then none else some (s.obj gid)

/-- membership clause on one join result: meeting a populated group, the join is accepted iff it
    presents the group's key and endpoint parameters (http: and is not already a member); an
    accepted tcp join reports the port that is really listening (`truthful`) and the group's port. -/
def joinHolds (s : St) (m g key : Str) (p : Params) (implOk : Bool) (truthful : Bool) (reported : Nat) : Bool :=
  (match metObj s g with
   | none => true
   | some o =>
     (implOk == (decide (o.key = key ∧ o.params = p) && !(s.kind == .http && o.members.contains m)))
     && (!implOk || s.kind != .tcp || reported == o.realPort))
  && (!implOk || truthful)

/-- delivery clause on one connection result: `owner` = the object whose endpoint the connection
    arrived at (none = nobody's), `live` = the proxies that joined and have not left (the harness's
    own bookkeeping, independent of the group object), `got` = the member that received it.
    Delivered ⇒ to a listed member that is live; an owner with a live listed member ⇒ delivered. -/
def connHolds (owner : Option Obj) (live : List Str) (got : Option Str) : Bool :=
  match owner, got with
  | none, none => true
  | none, some _ => false
  | some o, none => !(o.members.any live.contains)
  | some o, some m => o.members.contains m && live.contains m

/-- what the implementation did, by the end of an op, with a user connection that had reached the
    endpoint of a group object and was waiting there for a member to pick it up -/
inductive Fate
  | waiting             -- still open, no data, not closed
  | to (m : Str)        -- member m received it
  | closed              -- frps closed it
deriving DecidableEq, Repr

/-- delivery clause on a WAITING connection (arrival decoupled from pick-up).  `o` = the object whose
    endpoint it reached, as the model has it after the op; `live` = proxies that joined and have not
    left, `accepting` ⊆ `live` = those whose accept loop is running (both the harness's own books).
    Delivered ⇒ to a listed live member.  Closed ⇒ no listed member is live (none is lost while a
    member is live).  Still waiting ⇒ some listed member is live (else it is stranded: nobody will
    ever take or close it) and none of them is accepting (else it is stranded while a member is ready). -/
def pendHolds (o : Obj) (live accepting : List Str) : Fate → Bool
  | .to m => o.members.contains m && live.contains m
  | .closed => !(o.members.any live.contains)
  | .waiting => o.members.any live.contains && !(o.members.any accepting.contains)


/-- port accounting on one dump of the real ports.Manager: every port it holds as used belongs to a group
    object that has members (`repaired_used_iff_populated`: nothing else is used in the model) — a port still
    accounted after its group dissolved is an endpoint that has outlived its members -/
def usedHolds (s : St) (implUsed : List Nat) : Bool :=
  implUsed.all (fun p => s.objs.any (fun o => !o.members.isEmpty && o.realPort == p))

/-- the same for the routes of the real vhost.Routers (http): each is somebody else's or a populated group's -/
def routesHolds (s : St) (implRoutes : List EpKey) : Bool :=
  implRoutes.all (fun k => s.ext.contains k || s.objs.any (fun o => !o.members.isEmpty && o.ep == k))

/-- "can be created again immediately": a join that CREATES the group (meets no populated object) on an
    endpoint which a now dissolved group object has held, and which is free by the model's books
    (`modelOk`: not squatted, allowed, not used by a live group), must be accepted -/
def recreateHolds (s : St) (g : Str) (p : Params) (modelOk implOk : Bool) : Bool :=
  !((metObj s g).isNone && modelOk && !implOk &&
    s.objs.any (fun o => o.members.isEmpty && !o.lnOpen && o.params.kind == p.kind && o.ep == routeKey p &&
                         !(o.name == [] && o.key == [] && o.realPort == 0 && o.ep == .port 0)))

/-! ## 1. Keyed membership (one join step; holds in every state, hence under every interleaving) -/

/-- the comparison of a non-first join passes iff group name, key and ALL endpoint parameters agree -/
theorem cmp_none_iff (oname okey : Str) (op : Params) (g key : Str) (p : Params) :
    cmp oname okey op g key p = none ↔ (oname = g ∧ okey = key ∧ op = p) := by
  cases op <;> cases p <;> simp only [cmp] <;> (try split) <;> (try split) <;> (try split) <;>
    simp_all <;> grind

/-- **join succeeds iff key and endpoint parameters match** (populated group object, any state,
    any repair switch): accepted ⇔ same group name, same key, same parameters (and, for http, not
    already a member). -/
theorem join_ok_iff (fx : Fix) (s : St) (m g key : Str) (p : Params) (orc : Oracle) (gid : Nat)
    (hpop : (s.obj gid).members ≠ []) :
    (∃ s' rp, enter fx s m g key p orc gid = some (s', .ok rp)) ↔
      ((s.obj gid).name = g ∧ (s.obj gid).key = key ∧ (s.obj gid).params = p ∧
        ¬ (s.kind = .http ∧ m ∈ (s.obj gid).members)) := by
  unfold enter
  simp only [hpop, if_false]
  cases hc : cmp (s.obj gid).name (s.obj gid).key (s.obj gid).params g key p with
  | some e =>
    have : ¬ ((s.obj gid).name = g ∧ (s.obj gid).key = key ∧ (s.obj gid).params = p) := by
      intro h; rw [(cmp_none_iff _ _ _ _ _ _).2 h] at hc; cases hc
    constructor
    · rintro ⟨s', rp, h⟩; simp at h
    · rintro ⟨h1, h2, h3, _⟩; exact absurd ⟨h1, h2, h3⟩ this
  | none =>
    have h3 := (cmp_none_iff _ _ _ _ _ _).1 hc
    by_cases hr : s.kind = .http ∧ m ∈ (s.obj gid).members
    · rw [if_pos hr]
      constructor
      · rintro ⟨s', rp, h⟩; simp at h
      · rintro ⟨_, _, _, h⟩; exact absurd ⟨hr.1, hr.2⟩ h
    · rw [if_neg hr]
      exact ⟨fun _ => ⟨h3.1, h3.2.1, h3.2.2, hr⟩, fun _ => ⟨_, _, rfl⟩⟩

/-- **a refused join leaves the group (indeed the whole state) unchanged** -/
theorem join_refused_unchanged (fx : Fix) (s : St) (m g key : Str) (p : Params) (orc : Oracle)
    (gid : Nat) (hpop : (s.obj gid).members ≠ []) (s' : St) (e : Err)
    (h : enter fx s m g key p orc gid = some (s', .err e)) : s' = s := by
  unfold enter at h
  simp only [hpop, if_false] at h
  split at h
  · simp at h; exact h.1.symm
  · split at h
    · simp at h; exact h.1.symm
    · simp at h

/-- an accepted later join appends exactly the new member and touches nothing else of the object -/
theorem join_ok_effect (fx : Fix) (s : St) (m g key : Str) (p : Params) (orc : Oracle)
    (gid : Nat) (hpop : (s.obj gid).members ≠ []) (s' : St) (rp : Nat)
    (h : enter fx s m g key p orc gid = some (s', .ok rp)) :
    s' = s.setObj gid { s.obj gid with members := (s.obj gid).members ++ [m] } ∧ rp = (s.obj gid).realPort := by
  unfold enter at h
  simp only [hpop, if_false] at h
  split at h
  · simp at h
  · split at h
    · simp at h
    · simp at h; exact ⟨h.1.symm, h.2.symm⟩


/-! ## 2. What the pinned tree does under the racing schedule (witnesses) -/

/-- no reachable state has an unrecovered panic -/
def NoPanic (fx : Fix) (s0 : St) : Prop := ∀ ls s, run fx s0 ls = some s → s.panicked = false

/-- no connection is ever left open in nobody's hands -/
def NoLimbo (fx : Fix) (s0 : St) : Prop := ∀ ls s, run fx s0 ls = some s → s.limbo = []

def wm1 : Str := [109, 49]
def wm2 : Str := [109, 50]
def wm3 : Str := [109, 51]
def wg : Str := [103]
def wk : Str := [107]
def wTcp : Params := .tcp [] 3
def wHttp : Params := .http [97] [47] []
def wMux : Params := .mux [97] [] [] []
def w0 (k : Kind) : St := init k [1, 2, 3, 4, 5, 6, 7, 8]

/-- `join(m1) · lookup(m2,g) · leave(m1) · enter(m2) · leave(m2)` for tcp / tcpmux groups -/
def raceL (p : Params) : List Label :=
  [.lookup wm1 wg, .enter wm1 wk p {}, .lookup wm2 wg, .leaveL wm1 0, .enter wm2 wk p {}, .leaveL wm2 0]

/-- the same schedule for http groups (leave = `UnRegister(m, g)`) -/
def raceG (p : Params) : List Label :=
  [.lookup wm1 wg, .enter wm1 wk p {}, .lookup wm2 wg, .leaveG wm1 wg, .enter wm2 wk p {}, .leaveG wm2 wg]

/-- **§7/9 on the pinned tree (tcp):** the schedule is enabled and ends in a double close of
    `acceptCh`, i.e. frps dies. -/
theorem no_panic_witness : ¬ NoPanic pinned (w0 .tcp) := by
  intro h
  have : (run pinned (w0 .tcp) (raceL wTcp)).map (·.panicked) = some true := by decide
  cases hr : run pinned (w0 .tcp) (raceL wTcp) with
  | none => rw [hr] at this; cases this
  | some s => rw [hr] at this; have := h _ _ hr; simp_all

/-- the same for tcpmux groups -/
theorem no_panic_witness_mux : ¬ NoPanic pinned (w0 .mux) := by
  intro h
  have : (run pinned (w0 .mux) (raceL wMux)).map (·.panicked) = some true := by decide
  cases hr : run pinned (w0 .mux) (raceL wMux) with
  | none => rw [hr] at this; cases this
  | some s => rw [hr] at this; have := h _ _ hr; simp_all

/-- **stranded while a member is live (pinned):** after `… enter(m2)` the revived group lists the
    live member m2 and its endpoint is open, but a connection accepted there is neither delivered nor
    closed (§7/10), and the worker is gone. -/
theorem stranded_witness :
    (run pinned (w0 .tcp) ((raceL wTcp).take 5 ++ [.accept 7 0, .handoff 7 wm2])).map
      (fun s => (s.obj 0).members == [wm2] && (s.obj 0).lnOpen && s.limbo == [7] && s.delivered.isEmpty
                && (s.obj 0).workerDead && s.table.isEmpty) = some true := by decide

theorem no_limbo_witness : ¬ NoLimbo pinned (w0 .tcp) := by
  intro h
  have : (run pinned (w0 .tcp) ((raceL wTcp).take 5 ++ [.accept 7 0, .handoff 7 wm2])).map (·.limbo) = some [7] := by
    decide
  cases hr : run pinned (w0 .tcp) ((raceL wTcp).take 5 ++ [.accept 7 0, .handoff 7 wm2]) with
  | none => rw [hr] at this; cases this
  | some s => rw [hr] at this; have := h _ _ hr; simp_all

/-- §7/10 needs no race: a connection accepted just before the last leave is left open for ever -/
theorem handoff_limbo_witness :
    (run pinned (w0 .tcp) [.lookup wm1 wg, .enter wm1 wk wTcp {}, .accept 7 0, .leaveL wm1 0, .handoff 7 wm1]).map
      (fun s => (s.limbo, s.dropped)) = some ([7], []) := by decide

/-- … and is closed by the worker in the repaired model -/
theorem handoff_closed_repaired :
    (run repaired (w0 .tcp) [.lookup wm1 wg, .enter wm1 wk wTcp {}, .accept 7 0, .leaveL wm1 0, .handoff 7 wm1]).map
      (fun s => (s.limbo, s.dropped)) = some ([], [7]) := by decide

/-- **http groups (pinned):** the same schedule leaves the route registered by an object that is
    no longer in the table, with the departed m2 still listed; a later member of the group is
    refused with a route conflict, and requests still go to m2. -/
theorem http_leak_witness :
    (run pinned (w0 .http) (raceG wHttp)).map
      (fun s => (s.table, (s.obj 0).members, (s.obj 0).lnOpen, s.busy (routeKey wHttp))) =
      some ([], [wm2], true, true) ∧
    ((run pinned (w0 .http) (raceG wHttp)).bind
      (fun s => (step pinned s (.lookup wm3 wg)).bind
        (fun x => (step pinned x.1 (.enter wm3 wk wHttp {})).map (·.2)))) = some (.err .conflict) ∧
    ((run pinned (w0 .http) (raceG wHttp)).bind
      (fun s => (step pinned s (.request 0)).map (·.2))) = some (.to wm2) := by decide

/-- the racing schedule is not a schedule of the repaired model: the leave has to wait for the join -/
theorem race_disabled_repaired :
    run repaired (w0 .tcp) ((raceL wTcp).take 4) = none ∧ run repaired (w0 .http) ((raceG wHttp).take 4) = none := by
  decide

/-- **§7/3 (pinned): server-chosen port.** ports.Manager hands out 4, the kernel 40000: the group
    reports 4 and listens on 40000. -/
theorem truthful_witness :
    (run pinned (w0 .tcp) [.lookup wm1 wg, .enter wm1 wk (.tcp [] 0) { choice := some 4, eph := 40000 }]).map
      (fun s => ((s.obj 0).realPort, (s.obj 0).ep)) = some (4, .port 40000) := by decide

/-- **§7/3 (pinned): port leak.** net.Listen fails after Acquire: port 3 stays used with no owner,
    and the group can never be created on it again even after the other process has gone. -/
theorem port_leak_witness :
    (run pinned (w0 .tcp) [.lookup wm1 wg, .enter wm1 wk wTcp { grab := true }, .unsquat (.port 3)]).map
      (fun s => (s.leaked, s.busy (.port 3), s.usedPort 3)) = some ([3], false, true) ∧
    ((run pinned (w0 .tcp) [.lookup wm1 wg, .enter wm1 wk wTcp { grab := true }, .unsquat (.port 3), .lookup wm2 wg]).bind
      (fun s => (step pinned s (.enter wm2 wk wTcp {})).map (·.2))) = some (.err .acquire) ∧
    ((run repaired (w0 .tcp) [.lookup wm1 wg, .enter wm1 wk wTcp { grab := true }, .unsquat (.port 3), .lookup wm2 wg]).bind
      (fun s => (step repaired s (.enter wm2 wk wTcp {})).map (·.2))) = some (.ok 3) := by decide


/-! ## 3. http rotation -/

/-- what one `createConn` does (http, route registered by object `gid`) -/
theorem request_step (fx : Fix) (s : St) (gid : Nat) (hp : s.panicked = false) (hk : s.kind = .http)
    (ho : (s.obj gid).lnOpen = true) :
    step fx s (.request gid) =
      some (s.setObj gid { s.obj gid with index := (s.obj gid).index + 1 },
        match (s.obj gid).members[((s.obj gid).index + 1) % (s.obj gid).members.length]? with
        | none => .noMember
        | some m => .to m) := by
  simp only [step, hp, hk, ho]
  split
  · simp_all
  · cases (s.obj gid).members[((s.obj gid).index + 1) % (s.obj gid).members.length]? <;> rfl

/-- **rotation `index mod n` visits every member within n consecutive requests**, from any index -/
theorem rotation_covers (ms : List Str) (i : Nat) (m : Str) (hm : m ∈ ms) :
    ∃ j, j < ms.length ∧ ms[(i + 1 + j) % ms.length]? = some m := by
  obtain ⟨t, ht, rfl⟩ := List.mem_iff_getElem.1 hm
  have hn : 0 < ms.length := by omega
  have ha : (i + 1) % ms.length < ms.length := Nat.mod_lt _ hn
  by_cases hle : (i + 1) % ms.length ≤ t
  · refine ⟨t - (i + 1) % ms.length, by omega, ?_⟩
    have : (i + 1 + (t - (i + 1) % ms.length)) % ms.length = t := by
      rw [Nat.add_mod, Nat.mod_eq_of_lt (show t - (i + 1) % ms.length < ms.length by omega)]
      have : (i + 1) % ms.length + (t - (i + 1) % ms.length) = t := by omega
      rw [this, Nat.mod_eq_of_lt ht]
    rw [this, List.getElem?_eq_getElem ht]
  · refine ⟨t + ms.length - (i + 1) % ms.length, by omega, ?_⟩
    have : (i + 1 + (t + ms.length - (i + 1) % ms.length)) % ms.length = t := by
      rw [Nat.add_mod, Nat.mod_eq_of_lt (show t + ms.length - (i + 1) % ms.length < ms.length by omega)]
      have : (i + 1) % ms.length + (t + ms.length - (i + 1) % ms.length) = t + ms.length := by omega
      rw [this, Nat.add_mod_right, Nat.mod_eq_of_lt ht]
    rw [this, List.getElem?_eq_getElem ht]

/-- a request always picks a listed member when there is one (never "no member", never an outsider) -/
theorem request_picks_member (ms : List Str) (i : Nat) (h : ms ≠ []) :
    ∃ m, ms[(i + 1) % ms.length]? = some m ∧ m ∈ ms := by
  have hn : 0 < ms.length := List.length_pos_iff.2 h
  have hlt := Nat.mod_lt (i + 1) hn
  exact ⟨ms[(i + 1) % ms.length], List.getElem?_eq_getElem hlt, List.getElem_mem hlt⟩


/-! ## 4. The repaired controllers: invariants under ALL interleavings

`GInv` (Frp/Lemmas/Group.lean) is preserved by every label of the system whenever lookup+join and
the whole leave run under the controller lock (`inv_step`), for either value of the two other
switches; so it holds after every finite label sequence — every interleaving of joins, leaves,
worker accepts, hand-offs, requests and outside interference, of any length. -/

theorem repaired_inv (k : Kind) (allow : List Nat) (ls : List Label) (s : St)
    (h : run repaired (init k allow) ls = some s) : GInv s :=
  inv_run (fx := repaired) rfl rfl ls (inv_init k allow) h

/-- also with only the race repair applied (ports / hand-off repairs are independent) -/
theorem oneLock_inv (a c : Bool) (k : Kind) (allow : List Nat) (ls : List Label) (s : St)
    (h : run ⟨a, true, c, true⟩ (init k allow) ls = some s) : GInv s :=
  inv_run (fx := ⟨a, true, c, true⟩) rfl rfl ls (inv_init k allow) h

/-- **no ordering of joins and leaves brings the server down** -/
theorem repaired_no_panic (k : Kind) (allow : List Nat) : NoPanic repaired (init k allow) :=
  fun ls s h => (repaired_inv k allow ls s h).noPanic

/-- … and no leave can even attempt the second close -/
theorem repaired_leave_never_crashes (k : Kind) (allow : List Nat) (ls : List Label) (s s' : St)
    (m : Str) (gid : Nat) (r : Res) (h : run repaired (init k allow) ls = some s)
    (hs : step repaired s (.leaveL m gid) = some (s', r)) : r ≠ .crash :=
  (inv_leaveL (fx := repaired) rfl (repaired_inv k allow ls s h) hs).2

/-- **the endpoint exists exactly as long as the group has members** (every object, every reachable state) -/
theorem repaired_endpoint_iff_members (k : Kind) (allow : List Nat) (ls : List Label) (s : St)
    (h : run repaired (init k allow) ls = some s) (gid : Nat) (o : Obj) (ho : s.objs[gid]? = some o) :
    o.lnOpen = true ↔ o.members ≠ [] :=
  (repaired_inv k allow ls s h).openIff gid o ho

/-- **no zombie groups**: a populated object is the one the controller finds under its name, its
    hand-off channel is open; hence two populated objects never share a name. -/
theorem repaired_populated_is_registered (k : Kind) (allow : List Nat) (ls : List Label) (s : St)
    (h : run repaired (init k allow) ls = some s) (gid : Nat) (o : Obj) (ho : s.objs[gid]? = some o)
    (hm : o.members ≠ []) : o.chClosed = false ∧ s.table.lookup o.name = some gid :=
  (repaired_inv k allow ls s h).pop gid o ho hm

theorem repaired_one_object_per_name (k : Kind) (allow : List Nat) (ls : List Label) (s : St)
    (h : run repaired (init k allow) ls = some s) (i j : Nat) (oi oj : Obj)
    (hi : s.objs[i]? = some oi) (hj : s.objs[j]? = some oj) (mi : oi.members ≠ []) (mj : oj.members ≠ [])
    (hn : oi.name = oj.name) : i = j := by
  have a := ((repaired_inv k allow ls s h).pop i oi hi mi).2
  have b := ((repaired_inv k allow ls s h).pop j oj hj mj).2
  rw [hn, b] at a; cases a; rfl

/-! ### the hand-off channel: unbuffered, so it never holds a connection by itself -/

theorem repaired_cinv (k : Kind) (allow : List Nat) (ls : List Label) (s : St)
    (h : run repaired (init k allow) ls = some s) : CInv s :=
  cinv_run (fx := repaired) rfl ls (cinv_init k allow) h

/-- `make(chan net.Conn)`: in every reachable state every hand-off channel is empty -/
theorem repaired_queue_empty (k : Kind) (allow : List Nat) (ls : List Label) (s : St)
    (h : run repaired (init k allow) ls = some s) (gid : Nat) : (s.obj gid).queue = [] := by
  have hb := (repaired_cinv k allow ls s h).bounded gid
  have hc : s.cap = 0 := by rw [run_cap ls h]; rfl
  rw [hc] at hb
  exact List.length_eq_zero_iff.1 (Nat.le_zero.1 hb)

/-- **every accepted connection is handed to a live member, none is stranded while one is live**:
    in every reachable state, a connection in a worker's hands whose group lists at least one
    member can be received by each listed member and by nobody else; the send cannot fail. -/
theorem repaired_delivery (k : Kind) (allow : List Nat) (ls : List Label) (s : St)
    (h : run repaired (init k allow) ls = some s) (c gid : Nat)
    (hc : s.inflight.lookup c = some gid) (hm : (s.obj gid).members ≠ []) (m : Str) :
    (m ∈ (s.obj gid).members → ∃ s', step repaired s (.handoff c m) = some (s', .to m)) ∧
    (m ∉ (s.obj gid).members → step repaired s (.handoff c m) = none) := by
  have hi := repaired_inv k allow ls s h
  have hcc := (hi.pop gid _ (get_of_members hm) hm).1
  have hq := repaired_queue_empty k allow ls s h gid
  simp only [step, hi.noPanic, hc, hcc, hq]
  constructor
  · intro hmem; simp [hmem]
  · intro hmem; simp [hmem]

/-- a hand-off is answered "stranded" only when the group has no member left -/
theorem repaired_stranded_only_if_empty (k : Kind) (allow : List Nat) (ls : List Label) (s s' : St)
    (h : run repaired (init k allow) ls = some s) (c gid : Nat) (m : Str)
    (hc : s.inflight.lookup c = some gid)
    (hs : step repaired s (.handoff c m) = some (s', .stranded)) : (s.obj gid).members = [] := by
  have hi := repaired_inv k allow ls s h
  false_or_by_contra
  rename_i hm
  have hcc := (hi.pop gid _ (get_of_members hm) hm).1
  simp only [step, hi.noPanic, hc, hcc] at hs
  split at hs <;> simp at hs

/-- **immediate re-creation**: right after the last leave the name is free again, so the next
    lookup allocates a fresh object (open channel), and the old object's endpoint is closed. -/
theorem repaired_last_leave (k : Kind) (allow : List Nat) (ls : List Label) (s s' : St)
    (h : run repaired (init k allow) ls = some s) (m : Str) (gid : Nat) (r : Res)
    (hs : step repaired s (.leaveL m gid) = some (s', r)) (hlast : (s.obj gid).members.erase m = []) :
    s'.table.lookup (s.obj gid).name = none ∧ (s'.obj gid).lnOpen = false ∧ (s'.obj gid).members = [] := by
  have hi := repaired_inv k allow ls s h
  simp only [step, lockFree, repaired] at hs
  split at hs
  · cases hs
  · split at hs
    · cases hs
    · rename_i hmem
      have hmem' : m ∈ (s.obj gid).members := by simpa using hmem
      have hne : (s.obj gid).members ≠ [] := by intro e; rw [e] at hmem'; cases hmem'
      have hg := get_of_members hne
      have hcc := (hi.pop gid _ hg hne).1
      simp only [hlast, ne_eq, not_true_eq_false, if_false, hcc] at hs
      cases hs
      refine ⟨lookup_filter_self _ _, ?_, ?_⟩ <;>
        simp [St.obj, St.setObj, get_setObj_self hg, List.getElem?_set,
          (show gid < s.objs.length from by
            rcases Nat.lt_or_ge gid s.objs.length with hlt | hge
            · exact hlt
            · rw [List.getElem?_eq_none hge] at hg; cases hg)]

/-! ### connections that are waiting for their hand-off when members leave

A connection that reached the group's listener is, at every moment, in exactly one place: with the
worker (`inflight`: kernel backlog / blocked in the send), with the member that received it
(`delivered`), closed (`dropped`) — or, if the code were different, inside the channel's buffer
(`queue`) or open in nobody's hands (`limbo`).  The last two are where a connection can be
stranded; the theorems say they stay empty under every interleaving, and what happens to the
waiting connections when the last member leaves. -/

/-- connections nobody will ever serve or close: left open after a failed hand-off, or buffered in
    the channel of a group object that has no member (only a member receives) -/
def strandedConns (s : St) : List Nat :=
  s.limbo ++ (s.objs.filter (fun o => o.members.isEmpty)).flatMap (·.queue)

def NoStranded (fx : Fix) (s0 : St) : Prop := ∀ ls s, run fx s0 ls = some s → strandedConns s = []

theorem repaired_no_limbo (k : Kind) (allow : List Nat) : NoLimbo repaired (init k allow) :=
  fun ls s h => (repaired_cinv k allow ls s h).noLimbo

/-- **no connection is ever stranded**, whatever the order of arrivals, pick-ups, joins and leaves -/
theorem repaired_no_stranded (k : Kind) (allow : List Nat) : NoStranded repaired (init k allow) := by
  intro ls s h
  unfold strandedConns
  rw [(repaired_cinv k allow ls s h).noLimbo, List.nil_append, List.flatMap_eq_nil_iff]
  intro o ho
  obtain ⟨gid, hlt, hg⟩ := List.mem_iff_getElem.1 (List.mem_filter.1 ho).1
  have := repaired_queue_empty k allow ls s h gid
  simp only [St.obj, List.getElem?_eq_getElem hlt, Option.getD_some, hg] at this
  exact this

/-- **while a member is live the worker keeps the connection**: the send cannot complete without a
    receiver (nothing is buffered, nothing is closed); it completes with each listed member
    (`repaired_delivery`). -/
theorem repaired_pending_waits (k : Kind) (allow : List Nat) (ls : List Label) (s : St)
    (h : run repaired (init k allow) ls = some s) (c gid : Nat)
    (hc : s.inflight.lookup c = some gid) (hm : (s.obj gid).members ≠ []) :
    step repaired s (.send c) = none := by
  have hi := repaired_inv k allow ls s h
  have hcc := (hi.pop gid _ (get_of_members hm) hm).1
  have hcap : s.cap = 0 := by rw [run_cap ls h]; rfl
  simp [step, hi.noPanic, hc, hcc, hcap]

/-- **connections still waiting when the last member has left are closed**: in every reachable
    state, for a connection in the worker's hands whose group has no member any more, the worker's
    send (with whatever receiver `m` one names, or with none) is enabled, fails, and the connection
    ends in `dropped` (closed) — never in limbo, never in a buffer. -/
theorem repaired_pending_closed (k : Kind) (allow : List Nat) (ls : List Label) (s : St)
    (h : run repaired (init k allow) ls = some s) (c gid : Nat)
    (hc : s.inflight.lookup c = some gid) (hm : (s.obj gid).members = []) (l : Label)
    (hl : (∃ m, l = .handoff c m) ∨ l = .send c) :
    ∃ s', step repaired s l = some (s', .stranded) ∧ c ∈ s'.dropped ∧ s'.limbo = [] ∧
      s'.inflight.lookup c = none := by
  have hi := repaired_inv k allow ls s h
  have hci := repaired_cinv k allow ls s h
  have hheld := (hci.held c gid (mem_of_lookup hc)).2
  have hclosed : (s.obj gid).chClosed = true := by
    rcases hheld with ho | hcl
    · have := (hi.openIff gid _ (get_of_lnOpen ho)).1 ho
      exact absurd hm this
    · exact hcl
  have hlk : (s.inflight.filter (fun x => !(x.1 == c))).lookup c = none := by
    generalize s.inflight = l
    induction l with
    | nil => rfl
    | cons x t ih =>
      obtain ⟨a, b⟩ := x
      by_cases hac : a = c
      · subst hac; simp [List.filter, ih]
      · have h1 : (a == c) = false := by simpa using hac
        have h2 : (c == a) = false := by simpa using (Ne.symm hac)
        simp only [List.filter, h1, Bool.not_false, List.lookup_cons, h2, ih]
  rcases hl with ⟨m, rfl⟩ | rfl
  · refine ⟨_, by simp only [step, hi.noPanic, hc, hclosed, repaired]; rfl, ?_, ?_, ?_⟩
    · exact List.mem_cons_self
    · exact hci.noLimbo
    · exact hlk
  · refine ⟨_, by simp only [step, hi.noPanic, hc, hclosed, repaired]; rfl, ?_, ?_, ?_⟩
    · exact List.mem_cons_self
    · exact hci.noLimbo
    · exact hlk

theorem repaired_ainv (k : Kind) (allow : List Nat) (ls : List Label) (s : St)
    (h : run repaired (init k allow) ls = some s) : AInv s :=
  ainv_run (fx := repaired) rfl ls (ainv_init k allow) (cinv_init k allow) rfl h

/-- **none is lost**: under every interleaving, a connection that reached a group's listener is
    still with the worker (waiting for a member), or was received by a member, or was closed. -/
theorem repaired_none_lost (k : Kind) (allow : List Nat) (ls : List Label) (s : St)
    (h : run repaired (init k allow) ls = some s) (c : Nat) (hc : c ∈ s.seen) :
    (∃ g, (c, g) ∈ s.inflight) ∨ (∃ m, (c, m) ∈ s.delivered) ∨ c ∈ s.dropped := by
  rcases (repaired_ainv k allow ls s h).acct c hc with a | a | a
  · obtain ⟨x, hx, rfl⟩ := List.mem_map.1 a; exact Or.inl ⟨x.2, hx⟩
  · obtain ⟨x, hx, rfl⟩ := List.mem_map.1 a; exact Or.inr (Or.inl ⟨x.2, hx⟩)
  · exact Or.inr (Or.inr a)

theorem unique_of_nodup_keys {l : List (Nat × Str)} (hn : (l.map (·.1)).Nodup) {c : Nat} {m m' : Str}
    (h1 : (c, m) ∈ l) (h2 : (c, m') ∈ l) : m = m' := by
  induction l with
  | nil => cases h1
  | cons x t ih =>
    simp only [List.map_cons, List.nodup_cons] at hn
    rcases List.mem_cons.1 h1 with e1 | e1 <;> rcases List.mem_cons.1 h2 with e2 | e2
    · rw [← e1] at e2; cases e2; rfl
    · subst e1; exact absurd (List.mem_map.2 ⟨(c, m'), e2, rfl⟩) hn.1
    · subst e2; exact absurd (List.mem_map.2 ⟨(c, m), e1, rfl⟩) hn.1
    · exact ih hn.2 e1 e2

/-- **to exactly one member, and to no one else**: a delivered connection was received by one
    member only, the worker no longer holds it, and it was not closed by frps. -/
theorem repaired_delivered_once (k : Kind) (allow : List Nat) (ls : List Label) (s : St)
    (h : run repaired (init k allow) ls = some s) (c : Nat) (m : Str) (hd : (c, m) ∈ s.delivered) :
    (∀ m', (c, m') ∈ s.delivered → m' = m) ∧ (∀ g, (c, g) ∉ s.inflight) ∧ c ∉ s.dropped := by
  have hi := repaired_ainv k allow ls s h
  have hk : c ∈ s.dk := List.mem_map.2 ⟨(c, m), hd, rfl⟩
  refine ⟨fun m' h' => unique_of_nodup_keys hi.once h' hd, ?_, hi.dis2 c hk⟩
  intro g hg
  exact (hi.dis1 c (List.mem_map.2 ⟨(c, g), hg, rfl⟩)).1 hk

/-- a world that differs from the code in ONE respect: the hand-off channels have room for 16 -/
def wBuffered : St := { init .tcp [1, 2, 3, 4, 5, 6, 7, 8] with cap := 16 }

/-- **why the channel must stay unbuffered** (`make(chan net.Conn, n)`, n > 0, all repairs in place):
    two connections arrive while the only member is between two Accept calls, the worker's sends
    complete into the buffer, the member leaves: the group is gone (name free, endpoint closed, it
    can be created again at once on a fresh object) and the two connections sit in the closed
    channel of the dead object for ever — no label can take or close them. -/
theorem buffered_stranded_witness :
    (run repaired wBuffered
      [.lookup wm1 wg, .enter wm1 wk wTcp {}, .accept 7 0, .send 7, .accept 8 0, .send 8, .leaveL wm1 0,
       .lookup wm2 wg, .enter wm2 wk wTcp {}]).map
      (fun s => strandedConns s == [7, 8] && (s.obj 0).members.isEmpty && !(s.obj 0).lnOpen &&
                s.table == [(wg, 1)] && (s.obj 1).members == [wm2] && (s.obj 1).lnOpen &&
                s.dropped.isEmpty && s.delivered.isEmpty && !s.panicked) = some true ∧
    ¬ NoStranded repaired wBuffered := by
  refine ⟨by decide, ?_⟩
  intro h
  have : (run repaired wBuffered
      [.lookup wm1 wg, .enter wm1 wk wTcp {}, .accept 7 0, .send 7, .leaveL wm1 0]).map strandedConns = some [7] := by
    decide
  cases hr : run repaired wBuffered
      [.lookup wm1 wg, .enter wm1 wk wTcp {}, .accept 7 0, .send 7, .leaveL wm1 0] with
  | none => rw [hr] at this; cases this
  | some s => rw [hr] at this; have := h _ _ hr; simp_all

/-- with the buffer, connections are still delivered (once, in order) while a member is live — so
    nothing but a leave with connections pending shows the difference -/
example : (run repaired wBuffered
    [.lookup wm1 wg, .enter wm1 wk wTcp {}, .accept 7 0, .send 7, .accept 8 0, .send 8,
     .recv wm1 0, .recv wm1 0, .leaveL wm1 0]).map
    (fun s => (s.delivered, strandedConns s)) = some ([(8, wm1), (7, wm1)], []) := by decide

/-- the same arrivals in the world as it is: the sends block, the leave closes the channel, the
    sends fail and both connections are closed -/
example : (run repaired (w0 .tcp)
    [.lookup wm1 wg, .enter wm1 wk wTcp {}, .accept 7 0, .accept 8 0, .leaveL wm1 0,
     .send 7, .handoff 8 wm1]).map
    (fun s => (s.dropped, s.inflight, strandedConns s)) = some ([8, 7], [], []) ∧
    run repaired (w0 .tcp) [.lookup wm1 wg, .enter wm1 wk wTcp {}, .accept 7 0, .send 7] = none := by decide

/-! ### the leave's two sections (group edit | table delete)

`leaveEdit` and `leaveDel` are scheduled as labels of their own: every label sequence of the theorems
above and below may contain them in any position.  The code keeps the controller lock across both
(`code_leave_one_section`, regenerated from the source), so between the two sections of a last leave the
table still names the dead object, but nobody can read the table. -/

/-- **between the sections of a last leave nothing of another join or leave can run**: that leave
    holds the controller lock, no join is between lookup and enter, and every label that needs the
    controller lock is disabled (what stays enabled: the second section, and the labels that do not
    touch the table — arrivals, hand-offs, requests, outside interference) -/
theorem repaired_sections_exclusive (k : Kind) (allow : List Nat) (ls : List Label) (s : St)
    (h : run repaired (init k allow) ls = some s) (hp : s.pdel ≠ []) :
    ∃ m gid g, s.pdel = [(m, gid, g)] ∧ s.lock = some m ∧ s.pend = [] ∧
      (∀ m' g', step repaired s (.lookup m' g') = none) ∧
      (∀ m' key p orc, step repaired s (.enter m' key p orc) = none) ∧
      (∀ m' j, step repaired s (.leaveL m' j) = none) ∧
      (∀ m' g', step repaired s (.leaveG m' g') = none) ∧
      (∀ m' j, step repaired s (.leaveEdit m' j) = none) := by
  have hi := repaired_inv k allow ls s h
  cases hl : s.lock with
  | none => exact absurd (hi.lockNone hl).2 hp
  | some mm =>
    rcases hi.lockSome mm hl with ⟨_, _, _, _, hpd⟩ | ⟨hpend, gid, g, hpd⟩
    · exact absurd hpd hp
    · refine ⟨mm, gid, g, hpd, rfl, hpend, ?_, ?_, ?_, ?_, ?_⟩
      · intro m' g'; simp [step, lockFree, repaired, hl]
      · intro m' key p orc; simp [step, hpend]
      · intro m' j; simp [step, lockFree, repaired, hl]
      · intro m' g'; simp [step, lockFree, repaired, hl]
      · intro m' j; simp [step, lockFree, repaired, hl]

/-- **table ↔ members, under every interleaving of joins, leaves and their sections**:
    (→) a group object that has members is the object the controller finds under its name, with a
    live hand-off channel; (←) whatever the table names exists and is usable (channel not closed),
    the only exception being the object whose last member is between its two sections — it is empty,
    and that leave holds the controller lock until the entry is gone. -/
theorem repaired_table_members_consistent (k : Kind) (allow : List Nat) (ls : List Label) (s : St)
    (h : run repaired (init k allow) ls = some s) :
    (∀ gid o, s.objs[gid]? = some o → o.members ≠ [] →
        s.table.lookup o.name = some gid ∧ o.chClosed = false) ∧
    (∀ g gid, s.table.lookup g = some gid → ∃ o, s.objs[gid]? = some o ∧
        (o.chClosed = false ∨ (∃ m, s.lock = some m ∧ s.pdel = [(m, gid, g)] ∧ o.members = []))) := by
  have hi := repaired_inv k allow ls s h
  refine ⟨fun gid o ho hm => ⟨(hi.pop gid o ho hm).2, (hi.pop gid o ho hm).1⟩, ?_⟩
  intro g gid ht
  obtain ⟨o, ho, hoc⟩ := hi.tab g gid ht
  refine ⟨o, ho, ?_⟩
  rcases hoc with e | ⟨m, hm⟩
  · exact Or.inl e
  · right
    obtain ⟨_, o', ho', hom, _⟩ := hi.pdelOk m gid g hm
    rw [ho] at ho'; cases ho'
    cases hl : s.lock with
    | none => rw [(hi.lockNone hl).2] at hm; cases hm
    | some mm =>
      rcases hi.lockSome mm hl with ⟨_, _, _, _, hpd⟩ | ⟨_, gid1, g1, hpd⟩
      · rw [hpd] at hm; cases hm
      · rw [hpd] at hm
        simp only [List.mem_singleton, Prod.mk.injEq] at hm
        obtain ⟨rfl, rfl, rfl⟩ := hm
        exact ⟨m, rfl, hpd, hom⟩

/-- the second section always finds the entry it came to delete: the identity test
    `ctl.groups[name] == g` of a careful implementation can never fail in the one-section code -/
theorem repaired_second_section_finds_entry (k : Kind) (allow : List Nat) (ls : List Label) (s : St)
    (h : run repaired (init k allow) ls = some s) (m : Str) (gid : Nat) (g : Str)
    (hm : (m, gid, g) ∈ s.pdel) : s.table.lookup g = some gid :=
  ((repaired_inv k allow ls s h).pdelOk m gid g hm).1

/-- **the big-step leave of tcp / tcpmux groups IS its two sections run back to back** (every reachable
    state): a leave that is not the last is the first section alone; the last leave is `leaveEdit`
    followed by `leaveDel`, with exactly the same resulting state. -/
theorem leaveL_eq_sections (k : Kind) (allow : List Nat) (ls : List Label) (s s' : St)
    (h : run repaired (init k allow) ls = some s) (m : Str) (gid : Nat) (r : Res)
    (hs : step repaired s (.leaveL m gid) = some (s', r)) :
    r = .none ∧
    (((s.obj gid).members.erase m ≠ [] ∧ step repaired s (.leaveEdit m gid) = some (s', .none)) ∨
     ((s.obj gid).members.erase m = [] ∧ ∃ s1, step repaired s (.leaveEdit m gid) = some (s1, .none) ∧
        s1.pdel = [(m, gid, (s.obj gid).name)] ∧ step repaired s1 (.leaveDel m) = some (s', .none))) := by
  have hi := repaired_inv k allow ls s h
  simp only [step] at hs
  split at hs
  · cases hs
  · rename_i hcond
    have hlock : s.lock = none := lock_none_of (fx := repaired) rfl (fun e => hcond (Or.inr (Or.inr e)))
    have hkind : s.kind ≠ .http := fun e => hcond (Or.inr (Or.inl e))
    have hpan : s.panicked = false := hi.noPanic
    obtain ⟨_, hpd⟩ := hi.lockNone hlock
    split at hs
    · cases hs
    · rename_i hmem
      have hmem' : m ∈ (s.obj gid).members := by simpa using hmem
      have hne : (s.obj gid).members ≠ [] := by intro e; rw [e] at hmem'; cases hmem'
      obtain ⟨hcc, hlk⟩ := hi.pop _ _ (get_of_members hne) hne
      split at hs
      · rename_i hms
        cases hs
        refine ⟨rfl, Or.inl ⟨hms, ?_⟩⟩
        simp [step, lockFree, repaired, hlock, hpan, hpd, hmem', hms]
      · rename_i hms
        have hms' : (s.obj gid).members.erase m = [] := Decidable.not_not.mp hms
        split at hs
        · rename_i hc; rw [hcc] at hc; cases hc
        · cases hs
          refine ⟨rfl, Or.inr ⟨hms', { s.setObj gid { s.obj gid with members := [], chClosed := true, lnOpen := false } with
              pdel := [(m, gid, (s.obj gid).name)], lock := some m }, ?_, rfl, ?_⟩⟩
          · simp [step, lockFree, repaired, hlock, hpan, hpd, hmem', hms', hcc, hkind]
          · simp [step, repaired, hpan, hlk, St.setObj, hlock, hpd]

/-- the same for http groups (`UnRegister(m, g)` of a member of the group stored under `g`) -/
theorem leaveG_eq_sections (k : Kind) (allow : List Nat) (ls : List Label) (s s' : St)
    (h : run repaired (init k allow) ls = some s) (m g : Str) (gid : Nat) (r : Res)
    (ht : s.table.lookup g = some gid) (hmem : m ∈ (s.obj gid).members)
    (hs : step repaired s (.leaveG m g) = some (s', r)) :
    r = .none ∧
    (((s.obj gid).members.erase m ≠ [] ∧ step repaired s (.leaveEdit m gid) = some (s', .none)) ∨
     ((s.obj gid).members.erase m = [] ∧ ∃ s1, step repaired s (.leaveEdit m gid) = some (s1, .none) ∧
        s1.pdel = [(m, gid, g)] ∧ step repaired s1 (.leaveDel m) = some (s', .none))) := by
  have hi := repaired_inv k allow ls s h
  simp only [step] at hs
  split at hs
  · cases hs
  · rename_i hcond
    have hlock : s.lock = none := lock_none_of (fx := repaired) rfl (fun e => hcond (Or.inr (Or.inr e)))
    have hkind : s.kind = .http := by
      false_or_by_contra; rename_i hne; exact hcond (Or.inr (Or.inl hne))
    have hpan : s.panicked = false := hi.noPanic
    obtain ⟨_, hpd⟩ := hi.lockNone hlock
    have hne : (s.obj gid).members ≠ [] := by intro e; rw [e] at hmem; cases hmem
    obtain ⟨hcc, hlk⟩ := hi.pop _ _ (get_of_members hne) hne
    have hname : (s.obj gid).name = g := hi.tabInj _ _ _ hlk ht
    simp only [ht] at hs
    split at hs
    · rename_i hms
      cases hs
      refine ⟨rfl, Or.inl ⟨hms, ?_⟩⟩
      simp [step, lockFree, repaired, hlock, hpan, hpd, hmem, hms]
    · rename_i hms
      have hms' : (s.obj gid).members.erase m = [] := Decidable.not_not.mp hms
      cases hs
      refine ⟨rfl, Or.inr ⟨hms', { s.setObj gid { s.obj gid with members := [], lnOpen := false } with
          pdel := [(m, gid, g)], lock := some m }, ?_, rfl, ?_⟩⟩
      · simp [step, lockFree, repaired, hlock, hpan, hpd, hmem, hms', hkind, hname]
      · simp [step, repaired, hpan, ht, St.setObj, hlock, hpd]

/-! #### what the one critical section is for: the same controllers with a leave that gives the lock up -/

/-- everything repaired, but the leave releases the controller lock between its two sections and takes it
    again for the second (with the identity test) -/
def splitLeave : Fix := { repaired with leaveOne := false }

/-- `join(m1) · lookup(m2,g) · leaveEdit(m1) · enter(m2) · leaveDel(m1)`: the join — which holds the controller
    lock from lookup to enter, as it should — finds the emptied object still in the table and re-populates it;
    then the leave's second section removes the entry (same object: the identity test passes) -/
def raceSplit (p : Params) : List Label :=
  [.lookup wm1 wg, .enter wm1 wk p {}, .lookup wm2 wg, .leaveEdit wm1 0, .enter wm2 wk p {}, .leaveDel wm1]

/-- **http, split leave:** a live group with a live route that the controller no longer knows; every later
    correct join of that group is refused with a route conflict; the orphan's member can never be removed
    (`UnRegister` finds no group) and the route stays; table ↔ members consistency is broken. -/
theorem split_leave_witness_http :
    (run splitLeave (w0 .http) (raceSplit wHttp)).map
      (fun s => (s.table, (s.obj 0).members, (s.obj 0).lnOpen, s.busy (routeKey wHttp), s.panicked)) =
      some ([], [wm2], true, true, false) ∧
    ((run splitLeave (w0 .http) (raceSplit wHttp)).bind
      (fun s => (step splitLeave s (.lookup wm3 wg)).bind
        (fun x => (step splitLeave x.1 (.enter wm3 wk wHttp {})).map (·.2)))) = some (.err .conflict) ∧
    ((run splitLeave (w0 .http) (raceSplit wHttp ++ [.leaveG wm2 wg])).map
      (fun s => ((s.obj 0).members, s.busy (routeKey wHttp)))) = some ([wm2], true) ∧
    run repaired (w0 .http) ((raceSplit wHttp).take 4) = none := by decide

/-- **tcp / tcpmux, split leave:** the revived object's channel is closed; its next last leave closes it
    again and frps dies -/
theorem split_leave_witness_tcp :
    (run splitLeave (w0 .tcp) (raceSplit wTcp ++ [.leaveEdit wm2 0])).map (·.panicked) = some true ∧
    (run splitLeave (w0 .mux) (raceSplit wMux ++ [.leaveEdit wm2 0])).map (·.panicked) = some true ∧
    run repaired (w0 .tcp) ((raceSplit wTcp).take 4) = none := by decide

/-! #### the tie of the lock discipline to the source (regenerated by translate/gen_groupfacts.go) -/

open Gen.GroupFacts GroupSections in
/-- **join = one critical section**: in all three controllers the table lookup / insertion and the group's
    join run under the controller lock, which is not released in between — the model's `oneLock` -/
theorem code_join_one_section :
    (oneSection tcpJoin && oneSection httpJoin && oneSection muxJoin) = current.oneLock := by decide +kernel

open Gen.GroupFacts GroupSections in
/-- **leave = one critical section**: CloseListener / UnRegister hold the controller lock from before the
    group edit until after the table delete — the model's `leaveOne` -/
theorem code_leave_one_section :
    (oneSection tcpLeave && oneSection httpLeave && oneSection muxLeave &&
     deletes tcpLeave && deletes httpLeave && deletes muxLeave) = current.leaveOne := by decide +kernel

open Gen.GroupFacts GroupSections in
/-- **lock order controller → group** on every join and leave path (no join × leave deadlock), and the group
    object changes only under its own lock -/
theorem code_lock_order :
    ([tcpJoin, tcpLeave, httpJoin, httpLeave, muxJoin, muxLeave].all
      (fun e => orderOk e && editsUnderGroupLock e)) = true := by decide +kernel

open Gen.GroupFacts GroupSections in
/-- the tcp group gives back the port the manager handed out (`realPort`), on teardown and on a failed listen -/
theorem code_release_real_port :
    (releases tcpLeave == ["realPort"] && releases tcpJoin == ["realPort"]) = current.listenReal := by
  decide +kernel

open Gen.GroupFacts GroupSections in
/-- the gates at which the engine parks a join lie between the table lookup and the group's own section -/
theorem code_gates :
    (gateBetween tcpJoin "tcpgroup.listen.lookedup" && gateBetween httpJoin "httpgroup.register.lookedup" &&
     gateBetween muxJoin "tcpmuxgroup.listen.lookedup") = true := by decide +kernel

/-! ### ports: what `TCPGroup.Listen` reports is what it listens on, and nothing leaks -/

theorem acquire_some (s : St) (port : Nat) (orc : Oracle) (rp : Nat)
    (h : acquire s port orc = some (some rp)) : rp ≠ 0 ∧ (port ≠ 0 → rp = port) := by
  unfold acquire at h
  split at h
  · rename_i h0
    split at h
    · cases h
    · split at h
      · rename_i hc; cases h; exact ⟨hc.2.1, fun hp => absurd h0 hp⟩
      · cases h
  · rename_i h0
    split at h
    · cases h; exact ⟨h0, fun _ => rfl⟩
    · cases h

/-- with the repair, whatever the requested port, oracle and state: a successful endpoint creation
    listens on exactly the reported port, and no outcome adds a leaked port -/
theorem createEp_repaired_truthful (fx : Fix) (hf : fx.listenReal = true) (s s1 : St) (a : Str)
    (port : Nat) (orc : Oracle) (res : Except Err (Nat × EpKey))
    (h : createEp fx s (.tcp a port) orc = some (s1, res)) :
    s1.leaked = s.leaked ∧ (∀ rp k, res = .ok (rp, k) → k = .port rp) := by
  unfold createEp at h
  simp only [hf, if_true] at h
  split at h
  · cases h
  · cases h; exact ⟨rfl, by intro rp k e; cases e⟩
  · rename_i rp hacq
    have hz := (acquire_some _ _ _ _ hacq).1
    simp only [hz, if_false] at h
    split at h
    · cases h; exact ⟨rfl, by intro rp k e; cases e⟩
    · cases h; exact ⟨rfl, by intro rp' k e; cases e; rfl⟩

/-- **pinned tree, fixed port** (`_partial`: the excluded case `port = 0` is `truthful_witness`) -/
theorem truthful_partial (s s1 : St) (a : Str) (port : Nat) (hp : port ≠ 0) (orc : Oracle)
    (rp : Nat) (k : EpKey) (h : createEp pinned s (.tcp a port) orc = some (s1, .ok (rp, k))) :
    k = .port rp ∧ rp = port := by
  unfold createEp at h
  simp only [pinned, hp, if_false] at h
  split at h
  · cases h
  · cases h
  · rename_i rp' hacq
    have he := (acquire_some _ _ _ _ hacq).2 hp
    simp only [Bool.false_eq_true, if_false, hp] at h
    split at h
    · cases h
    · cases h; exact ⟨by rw [he], he⟩

theorem createEp_leaked {fx : Fix} (hf : fx.listenReal = true) {s s1 : St} {p : Params} {orc : Oracle}
    {res : Except Err (Nat × EpKey)} (h : createEp fx s p orc = some (s1, res)) : s1.leaked = s.leaked := by
  cases p with
  | tcp a port => exact (createEp_repaired_truthful fx hf _ _ a port orc _ h).1
  | http d l u => simp only [createEp] at h; split at h <;> (cases h; rfl)
  | mux d u n w => simp only [createEp] at h; split at h <;> (cases h; rfl)

theorem enter_leaked {fx : Fix} (hf : fx.listenReal = true) {s s' : St} {m g key : Str} {p : Params}
    {orc : Oracle} {gid : Nat} {r : Res} (hs : enter fx s m g key p orc gid = some (s', r)) :
    s'.leaked = s.leaked := by
  unfold enter at hs
  simp only at hs
  split at hs
  · split at hs
    · cases hs
    · rename_i hce; cases hs; exact createEp_leaked hf hce
    · rename_i hce; cases hs
      have := createEp_leaked hf hce
      simpa [St.setObj] using this
  · split at hs
    · cases hs; rfl
    · split at hs <;> (cases hs; rfl)

/-- no label adds a leaked port once `TCPGroup.Listen` releases the acquired port when net.Listen fails -/
theorem step_leaked {fx : Fix} (hf : fx.listenReal = true) {s s' : St} {l : Label} {r : Res}
    (hs : step fx s l = some (s', r)) : s'.leaked = s.leaked := by
  cases l with
  | enter m key p orc =>
    simp only [step] at hs
    split at hs
    · cases hs
    · split at hs
      · cases hs
      · exact enter_leaked (s := { s with pend := s.pend.filter (fun x => !(x.1 == m)), lock := if fx.oneLock then none else s.lock }) hf hs
  | lookup m g => simp only [step] at hs; (repeat' split at hs) <;> (cases hs; try rfl)
  | leaveL m gid => simp only [step] at hs; (repeat' split at hs) <;> (cases hs; try rfl)
  | leaveG m g => simp only [step] at hs; (repeat' split at hs) <;> (cases hs; try rfl)
  | leaveEdit m gid => simp only [step] at hs; (repeat' split at hs) <;> (cases hs; try rfl)
  | leaveDel m => simp only [step] at hs; (repeat' split at hs) <;> (cases hs; try rfl)
  | accept c gid => simp only [step] at hs; (repeat' split at hs) <;> (cases hs; try rfl)
  | handoff c m => simp only [step] at hs; (repeat' split at hs) <;> (cases hs; try rfl)
  | send c => simp only [step] at hs; (repeat' split at hs) <;> (cases hs; try rfl)
  | recv m gid => simp only [step] at hs; (repeat' split at hs) <;> (cases hs; try rfl)
  | request gid => simp only [step] at hs; (repeat' split at hs) <;> (cases hs; try rfl)
  | squat k => simp only [step] at hs; (repeat' split at hs) <;> (cases hs; try rfl)
  | unsquat k => simp only [step] at hs; (repeat' split at hs) <;> (cases hs; try rfl)

/-- **no port is ever leaked**, whatever the interleaving -/
theorem repaired_no_leak (ls : List Label) :
    ∀ (s0 s : St), s0.leaked = [] → run repaired s0 ls = some s → s.leaked = [] := by
  induction ls with
  | nil => intro s0 s h0 h; simp [run] at h; subst h; exact h0
  | cons l ls ih =>
    intro s0 s h0 h
    simp only [run] at h
    split at h
    · cases h
    · rename_i s1 r hstep
      exact ih s1 s (by rw [step_leaked (fx := repaired) rfl hstep]; exact h0) h

/-- **a port is accounted as used exactly as long as a group with members listens on it**: in every
    reachable state the manager's used set (as far as groups are concerned) is the set of `realPort`s of
    the populated group objects — so after the last leave the REAL port (also a server-chosen one) is free
    and can be acquired again explicitly. -/
theorem repaired_used_iff_populated (k : Kind) (allow : List Nat) (ls : List Label) (s : St)
    (h : run repaired (init k allow) ls = some s) (p : Nat) :
    s.usedPort p = true ↔ ∃ (gid : Nat) (o : Obj), s.objs[gid]? = some o ∧ o.members ≠ [] ∧ o.realPort = p := by
  have hi := repaired_inv k allow ls s h
  have hl : s.leaked = [] := repaired_no_leak ls (init k allow) s rfl h
  simp only [St.usedPort, hl, List.contains_nil, Bool.false_or, List.any_eq_true, Bool.and_eq_true,
    beq_iff_eq]
  constructor
  · rintro ⟨o, ho, hopen, hp⟩
    obtain ⟨gid, hlt, hg⟩ := List.mem_iff_getElem.1 ho
    have hget : s.objs[gid]? = some o := by rw [List.getElem?_eq_getElem hlt, hg]
    exact ⟨gid, o, hget, (hi.openIff gid o hget).1 hopen, hp⟩
  · rintro ⟨gid, o, hget, hm, hp⟩
    exact ⟨o, List.mem_of_getElem? hget, (hi.openIff gid o hget).2 hm, hp⟩

/-- the driver's port predicate is what the theorem says: on the model's own state it holds -/
theorem usedHolds_sound (k : Kind) (allow : List Nat) (ls : List Label) (s : St)
    (h : run repaired (init k allow) ls = some s) (used : List Nat)
    (hu : ∀ p, p ∈ used → s.usedPort p = true) : usedHolds s used = true := by
  simp only [usedHolds, List.all_eq_true, List.any_eq_true, Bool.and_eq_true, Bool.not_eq_eq_eq_not,
    Bool.not_true, List.isEmpty_eq_false_iff, beq_iff_eq]
  intro p hp
  obtain ⟨gid, o, hget, hm, hrp⟩ := (repaired_used_iff_populated k allow ls s h p).1 (hu p hp)
  exact ⟨o, List.mem_of_getElem? hget, hm, hrp⟩

/-! ### non-vacuity: the repaired model does run, joins, delivers and re-creates -/

example : (run repaired (w0 .tcp)
    [.lookup wm1 wg, .enter wm1 wk wTcp {}, .lookup wm2 wg, .enter wm2 wk wTcp {}, .accept 1 0,
     .handoff 1 wm2, .leaveL wm1 0, .leaveL wm2 0, .lookup wm3 wg, .enter wm3 wk wTcp {}]).map
    (fun s => s.table == [(wg, 1)] && (s.obj 1).members == [wm3] && (s.obj 1).lnOpen &&
              s.delivered == [(1, wm2)] && !s.panicked) = some true := by decide

example : (run repaired (w0 .http)
    [.lookup wm1 wg, .enter wm1 wk wHttp {}, .lookup wm2 wg, .enter wm2 wk wHttp {}, .request 0, .request 0,
     .leaveG wm1 wg, .leaveG wm2 wg, .lookup wm3 wg, .enter wm3 wk wHttp {}]).map
    (fun s => s.table == [(wg, 1)] && (s.obj 1).members == [wm3] && s.busy (routeKey wHttp)) = some true := by
  decide

/-- wrong key / other port / other address are refused, in the order of the Go code -/
example : (cmp wg wk wTcp wg [75] wTcp, cmp wg wk wTcp wg wk (.tcp [] 4), cmp wg wk wTcp wg wk (.tcp [48] 3),
           cmp wg wk wTcp wg wk wTcp) =
    (some .authFailed, some .differentPort, some .paramsInvalid, none) := by decide

end C13
end Frp
