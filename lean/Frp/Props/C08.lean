import Frp.Model.VisitorLock
import Frp.Model.CtlMgr
import Frp.Model.XtcpVisitor
import Frp.Props.C01
/-
  C08 — Secret proxies admit only visitors holding the key and an allowed user.

  §1 the stream path (stcp, sudp): visitor.Manager.NewConn for ALL listener tables and messages:
     admitted ⇒ key ∧ allowed user; refused ⇒ error, table (incl. every accept queue) unchanged;
     RegisterVisitorConn (user from the run id); default allow list of Run.
  §2 the NAT-hole path (xtcp): HandleVisitor, both branches.  On this tree the session branch does
     not consult allowUsers: `nat_allow_witness` (¬ full statement), `nat_grant_partial`,
     and the full statement for the repaired code (`natVisit true`): `nat_grant_sound_fixed`.
  §3 all histories: invariant over every op sequence (what sits in any accept queue / sessions map
     was admitted under the key and allow list of the very entry that holds it).
  §4 wrapper stacks of an admitted stream mirror each other for all 16 option combinations.
  §5 the executable predicate evaluated by the driver on the implementation's own answers.
  §6 every interleaving (Frp/Model/VisitorLock.lean): NewConn small-step (checks … held up in
     WithEncryption … PutConn) next to Listen / CloseListener under the manager's RWMutex: the bundle a
     NewConn was checked against is still the registered one when the connection is handed over
     (`finv_reachable`), the hand-over is the atomic NewConn of §1 at that moment
     (`finish_refines_newConn`), the queue invariant of §3 holds in every reachable state
     (`cqinv_reachable`); the predicate for one observed delivery (`deliveredOkB`).

  §7 the xtcp visitor of frpc (client/visitor/xtcp.go, Frp/Model/XtcpVisitor.lean), a transition system over
     labels (user connection arrives, openTunnel's ticker / fallback timeout / 20 s limit, makeNatHole
     finished, pacing, keep-alive check, session broke, Close) for ALL histories: a user connection is
     handed over at most once, to a tunnel stream or to the fallback visitor, never both
     (`xv_served_once`, `xv_never_both`); it is closed unserved only without FallbackTo or when
     TransferConn / the IV source fails (`xv_closed_reason`, `xv_fallback_never_drops`,
     `xv_deadline_hands_over`); the fallback visitor gets it only with FallbackTo set and not before the
     fallback timeout (`xv_hand_timing`); a tunnel session — hence any tunnel hand-over — exists only if
     the server answered the visitor's PreCheck and its signed NatHoleVisitor positively, i.e. for the
     proxy's key and an allowed user (`xv_hole_ok_iff`, `xv_hole_ok_entitled`, `xv_tunnel_entitled`);
     starts of makeNatHole are ≥ 10 s apart (`xv_hole_starts_paced`); the keep-alive worker's failed
     checks stay within the retry budget (`xv_keep_budget`); both ends pick the same session kind
     (`xv_session_kinds_agree`).  ABSTRACT (inputs): STUN answered, traversal succeeded, session.Init
     succeeded, when a session breaks, scheduling, time.
  §8 the wrapper stacks of a tunnel stream (visitor's handleConn ↔ proxy's HandleTCPWorkConnection with the
     SECRET key): mirror iff equal declarations, byte transparency both ways from C01's stack lemmas.
  §9 the fallback visitor's request against NewConn; the predicate the `xtcp` driver engine evaluates.

  §10 whose user a run id stands for (server/control.go ControlManager.Add / Del / GetByID, service.go RegisterControl /
      RegisterVisitorConn; Frp/Model/CtlMgr.lean): over ALL histories of Add / Del calls — logins with fresh run ids,
      re-logins under a run id that is still registered (replacement), Dels by the owner and by controls that were
      replaced — GetByID designates exactly the control that CURRENTLY owns the run id (`cm_designates`), and the user
      RegisterVisitorConn checks against allowUsers is that control's login user (`visitor_user_is_current_owner`,
      `relogin_takes_over`, `stale_del_noop`, `owner_del_forgets`); `Visitor.State.ctls` is the projection of that table
      for every history of service-level ops (`ctls_track_manager`, `visitorConn_user_is_designated`).
  §11 "leaves no session state behind" for NAT-hole requests: a refused request — and any flood of refused requests —
      leaves the sessions map exactly as it was (`nat_refused_leaves_nothing`, `flood_refused_leaves_nothing`); the
      predicate the driver evaluates on the implementation's own session-table size (`leavesNothingB`).

  All theorems are for an arbitrary key derivation `H` (no property of md5 is used).
-/
namespace Frp
namespace C08
open Visitor
open NatHole (aget aput adel authInput aget_aput aget_adel)

/-! ## spec -/

/-- "in the allowed-users list, `*` meaning anyone" -/
def UserAllowed (allow : List Str) (user : Str) : Prop := user ∈ allow ∨ [Str.star] ∈ allow

/-- the request (name, ts, sign, user) is one the listener `lid` registered under `name` must accept -/
def Admissible (H : Str → Str) (ls : List (Str × Listener)) (name : Str) (ts : Int) (sign user : Str) (lid : Nat) : Prop :=
  ∃ l, aget ls name = some l ∧ l.lid = lid ∧ sign = authKey H l.sk ts ∧ UserAllowed l.allow user

def NatAdmissible (H : Str → Str) (cfgs : List (Str × NatCfg)) (name : Str) (ts : Int) (sign user : Str) (ch : Nat) : Prop :=
  ∃ c, aget cfgs name = some c ∧ c.chan = ch ∧ sign = authKey H c.sk ts ∧ UserAllowed c.allow user

theorem allowedB_iff (allow : List Str) (user : Str) : allowedB allow user = true ↔ UserAllowed allow user := by
  simp [allowedB, UserAllowed]

/-! ## §1 stream visitors -/

/-- admitted (handed to an owner's accept channel, or counted as accepted and dropped because that
    channel is full) ⇒ the proxy exists under that name, the signature is the proxy's key for that
    timestamp, the user is allowed; and the owner is the holder of that very listener -/
theorem newConn_sound (H : Str → Str) (ls : List (Str × Listener)) (name : Str) (ts : Int) (sign user : Str)
    (conn lid : Nat)
    (h : (newConn H ls name ts sign user conn).2 = .queued lid ∨ (newConn H ls name ts sign user conn).2 = .dropped lid) :
    Admissible H ls name ts sign user lid := by
  unfold newConn at h
  split at h
  · simp at h
  · next l hl =>
    by_cases hk : authKey H l.sk ts ≠ sign
    · simp [hk] at h
    · have hk' : authKey H l.sk ts = sign := Decidable.of_not_not hk
      by_cases ha : allowedB l.allow user = true
      · refine ⟨l, hl, ?_, hk'.symm, (allowedB_iff _ _).mp ha⟩
        by_cases hc : l.closed = true
        · simp [hk', ha, hc] at h
        · by_cases hq : l.queue.length ≥ acceptCap
          · simp [hk', ha, hc, hq] at h; exact h
          · simp [hk', ha, hc, hq] at h; exact h
      · simp [hk', ha] at h

/-- any other request is answered with an error and the whole table — every listener, every accept
    queue — is what it was -/
theorem newConn_refused_unchanged (H : Str → Str) (ls : List (Str × Listener)) (name : Str) (ts : Int)
    (sign user : Str) (conn : Nat) :
    (∃ e, (newConn H ls name ts sign user conn).2 = .err e) ∨ (∃ lid, (newConn H ls name ts sign user conn).2 = .dropped lid) ∨
      (∃ lid, (newConn H ls name ts sign user conn).2 = .queued lid) := by
  unfold newConn
  split
  · exact .inl ⟨_, rfl⟩
  · split
    · exact .inl ⟨_, rfl⟩
    · split
      · exact .inl ⟨_, rfl⟩
      · split
        · exact .inl ⟨_, rfl⟩
        · split
          · exact .inr (.inl ⟨_, rfl⟩)
          · exact .inr (.inr ⟨_, rfl⟩)

theorem newConn_some (H : Str → Str) (ls : List (Str × Listener)) (name : Str) (ts : Int)
    (sign user : Str) (conn : Nat) (l : Listener) (hl : aget ls name = some l) :
    newConn H ls name ts sign user conn =
      if authKey H l.sk ts ≠ sign then (ls, .err .authFailed)
      else if !allowedB l.allow user then (ls, .err .notAllowed)
      else if l.closed then (ls, .err .lclosed)
      else if l.queue.length ≥ acceptCap then (ls, .dropped l.lid)
      else (aput ls name { l with queue := l.queue ++ [{ conn := conn, user := user, sign := sign, ts := ts }] }, .queued l.lid) := by
  simp only [newConn, hl]

/-- the only outcome that changes the table: one item appended to the named listener's queue -/
theorem newConn_queued_shape (H : Str → Str) (ls : List (Str × Listener)) (name : Str) (ts : Int)
    (sign user : Str) (conn : Nat) :
    (newConn H ls name ts sign user conn).1 = ls ∨
    ∃ l, aget ls name = some l ∧ (newConn H ls name ts sign user conn).2 = .queued l.lid ∧
      (newConn H ls name ts sign user conn).1 =
        aput ls name { l with queue := l.queue ++ [{ conn := conn, user := user, sign := sign, ts := ts }] } := by
  cases hl : aget ls name with
  | none => left; simp only [newConn, hl]
  | some l =>
    rw [newConn_some H ls name ts sign user conn l hl]
    by_cases h1 : authKey H l.sk ts ≠ sign
    · left; rw [if_pos h1]
    · by_cases h2 : (!allowedB l.allow user) = true
      · left; rw [if_neg h1, if_pos h2]
      · by_cases h3 : l.closed = true
        · left; rw [if_neg h1, if_neg h2, if_pos h3]
        · by_cases h4 : l.queue.length ≥ acceptCap
          · left; rw [if_neg h1, if_neg h2, if_neg h3, if_pos h4]
          · right; rw [if_neg h1, if_neg h2, if_neg h3, if_neg h4]; exact ⟨l, rfl, rfl, rfl⟩

theorem newConn_not_queued_unchanged (H : Str → Str) (ls : List (Str × Listener)) (name : Str) (ts : Int)
    (sign user : Str) (conn : Nat) (h : ∀ lid, (newConn H ls name ts sign user conn).2 ≠ .queued lid) :
    (newConn H ls name ts sign user conn).1 = ls := by
  rcases newConn_queued_shape H ls name ts sign user conn with h' | ⟨l, _, hq, _⟩
  · exact h'
  · exact absurd hq (h l.lid)

/-- a request that is not admissible gets an error (never `queued`, never `dropped`) -/
theorem newConn_inadmissible_error (H : Str → Str) (ls : List (Str × Listener)) (name : Str) (ts : Int)
    (sign user : Str) (conn : Nat) (h : ¬ ∃ lid, Admissible H ls name ts sign user lid) :
    ∃ e, (newConn H ls name ts sign user conn).2 = .err e ∧ (newConn H ls name ts sign user conn).1 = ls := by
  rcases newConn_refused_unchanged H ls name ts sign user conn with ⟨e, he⟩ | ⟨lid, hl⟩ | ⟨lid, hl⟩
  · refine ⟨e, he, newConn_not_queued_unchanged H ls name ts sign user conn ?_⟩
    intro lid hq; rw [he] at hq; cases hq
  · exact absurd ⟨lid, newConn_sound H ls name ts sign user conn lid (.inr hl)⟩ h
  · exact absurd ⟨lid, newConn_sound H ls name ts sign user conn lid (.inl hl)⟩ h

/-- the exact error kinds, in the order the code tests them -/
theorem newConn_error_kinds (H : Str → Str) (ls : List (Str × Listener)) (name : Str) (ts : Int)
    (sign user : Str) (conn : Nat) :
    ((newConn H ls name ts sign user conn).2 = .err .noListener ↔ aget ls name = none) ∧
    (∀ l, aget ls name = some l →
      ((newConn H ls name ts sign user conn).2 = .err .authFailed ↔ sign ≠ authKey H l.sk ts) ∧
      ((newConn H ls name ts sign user conn).2 = .err .notAllowed ↔ sign = authKey H l.sk ts ∧ ¬ UserAllowed l.allow user)) := by
  constructor
  · unfold newConn
    split
    · next h => simp [h]
    · next l hl =>
      simp only [hl, reduceCtorEq, iff_false]
      repeat' split
      all_goals simp
  · intro l hl
    rw [← allowedB_iff]
    unfold newConn
    simp only [hl]
    by_cases hk : authKey H l.sk ts = sign
    · by_cases ha : allowedB l.allow user = true
      · simp only [hk, ha]
        repeat' split
        all_goals simp_all
      · simp_all
    · have : sign ≠ authKey H l.sk ts := fun e => hk e.symm
      simp_all

/-- conversely (the check does not refuse legitimate visitors): an admissible request to an open
    listener is handed over, or dropped when 128 connections are already waiting -/
theorem newConn_complete (H : Str → Str) (ls : List (Str × Listener)) (name : Str) (ts : Int) (sign user : Str)
    (conn lid : Nat) (l : Listener) (hl : aget ls name = some l) (hlid : l.lid = lid)
    (hk : sign = authKey H l.sk ts) (hu : UserAllowed l.allow user) (hc : l.closed = false) :
    (newConn H ls name ts sign user conn).2 = (if l.queue.length ≥ acceptCap then .dropped lid else .queued lid) := by
  have ha := (allowedB_iff _ _).mpr hu
  unfold newConn
  simp only [hl]
  subst hk hlid
  simp [ha, hc]
  split <;> rfl

/-- a hand-over touches only the accept queue of the named listener: one item appended -/
theorem newConn_queued_effect (H : Str → Str) (ls : List (Str × Listener)) (name : Str) (ts : Int) (sign user : Str)
    (conn lid : Nat) (h : (newConn H ls name ts sign user conn).2 = .queued lid) :
    ∃ l, aget ls name = some l ∧
      (∀ n, aget (newConn H ls name ts sign user conn).1 n =
        if name = n then some { l with queue := l.queue ++ [{ conn := conn, user := user, sign := sign, ts := ts }] }
        else aget ls n) := by
  rcases newConn_queued_shape H ls name ts sign user conn with h' | ⟨l, hl, _, hs⟩
  · have := newConn_refused_unchanged H ls name ts sign user conn
    obtain ⟨l, hl, _, _, _⟩ := newConn_sound H ls name ts sign user conn lid (.inl h)
    -- unchanged table and yet `queued`: impossible, the queue grew
    exfalso
    rw [newConn_some H ls name ts sign user conn l hl] at h h'
    by_cases h1 : authKey H l.sk ts ≠ sign
    · rw [if_pos h1] at h; cases h
    · by_cases h2 : (!allowedB l.allow user) = true
      · rw [if_neg h1, if_pos h2] at h; cases h
      · by_cases h3 : l.closed = true
        · rw [if_neg h1, if_neg h2, if_pos h3] at h; cases h
        · by_cases h4 : l.queue.length ≥ acceptCap
          · rw [if_neg h1, if_neg h2, if_neg h3, if_pos h4] at h; cases h
          · rw [if_neg h1, if_neg h2, if_neg h3, if_neg h4] at h'
            have h5 := congrArg (fun t => aget t name) h'
            simp only [aget_aput, if_true, hl, Option.some.injEq] at h5
            have h6 := congrArg (fun x => x.queue.length) h5
            simp at h6
  · exact ⟨l, hl, fun n => by rw [hs]; exact aget_aput _ _ _ _⟩

/-! ### RegisterVisitorConn: the user is the login user of the session named by the run id -/

/-- the user a run id stands for -/
def RunUser (ctls : List (Str × Str)) (rid user : Str) : Prop :=
  (rid = [] ∧ user = []) ∨ (rid ≠ [] ∧ aget ctls rid = some user)

theorem resolveUser_ok (ctls : List (Str × Str)) (rid user : Str) :
    resolveUser ctls rid = .ok user ↔ RunUser ctls rid user := by
  unfold resolveUser RunUser
  by_cases h : rid = []
  · simp [h]
  · simp only [h, if_false, false_and, false_or, ne_eq, not_false_eq_true, true_and]
    split
    · next h' => simp [h']
    · next u h' => simp [h']

theorem resolveUser_err (ctls : List (Str × Str)) (rid : Str) (e : Err) :
    resolveUser ctls rid = .error e ↔ (e = .noRun ∧ rid ≠ [] ∧ aget ctls rid = none) := by
  unfold resolveUser
  by_cases h : rid = []
  · simp [h]
  · simp only [h, if_false, ne_eq, not_false_eq_true, true_and]
    split
    · next h' => simp [h']; exact eq_comm
    · next u h' => simp [h']

/-- Service.RegisterVisitorConn, every state: admitted ⇒ the run id stands for a user (the login
    user of a live session, or "" for the empty run id) and the request is admissible for that user;
    otherwise an error and the state is unchanged -/
theorem visitorConn_sound (fixed : Bool) (H : Str → Str) (s : State) (name : Str) (ts : Int) (sign rid : Str) (conn : Nat) :
    (∀ lid, ((step fixed H s (.visitorConn name ts sign rid conn)).2 = .conn (.queued lid) ∨
             (step fixed H s (.visitorConn name ts sign rid conn)).2 = .conn (.dropped lid)) →
        ∃ user, RunUser s.ctls rid user ∧ Admissible H s.listeners name ts sign user lid) ∧
    ((∀ lid, (step fixed H s (.visitorConn name ts sign rid conn)).2 ≠ .conn (.queued lid)) →
        (step fixed H s (.visitorConn name ts sign rid conn)).1 = s) := by
  simp only [step]
  cases hr : resolveUser s.ctls rid with
  | error e =>
    simp
  | ok user =>
    simp only
    constructor
    · intro lid h
      refine ⟨user, (resolveUser_ok _ _ _).mp hr, newConn_sound H _ name ts sign user conn lid ?_⟩
      rcases h with h | h
      · left; simpa using h
      · right; simpa using h
    · intro h
      have := newConn_not_queued_unchanged H s.listeners name ts sign user conn
        (fun lid hq => h lid (by simp [hq]))
      simp only [this]

/-- unknown run id: refused before the listener table is looked at -/
theorem visitorConn_unknown_run (fixed : Bool) (H : Str → Str) (s : State) (name : Str) (ts : Int) (sign rid : Str)
    (conn : Nat) (h1 : rid ≠ []) (h2 : aget s.ctls rid = none) :
    step fixed H s (.visitorConn name ts sign rid conn) = (s, .conn (.err .noRun)) := by
  have : resolveUser s.ctls rid = .error .noRun := (resolveUser_err _ _ _).mpr ⟨rfl, h1, h2⟩
  simp only [step, this]

/-! ### default allow list -/

theorem effectiveAllow_default (u : Str) : effectiveAllow [] u = [u] := rfl

theorem effectiveAllow_given (a : Str) (r : List Str) (u : Str) : effectiveAllow (a :: r) u = a :: r := rfl

/-- RegisterProxy → Run with no allowUsers configured: what is stored is exactly [owner's user]
    (all three proxy kinds), under the owner's run id, with the given key -/
theorem register_default_allow (fixed : Bool) (H : Str → Str) (s : State) (rid : Str) (kind : Kind) (name sk u : Str)
    (hu : aget s.ctls rid = some u)
    (hok : (step fixed H s (.register rid kind name sk [])).2 = .ok) :
    (kind ≠ .xtcp → ∃ l, aget (step fixed H s (.register rid kind name sk [])).1.listeners name = some l ∧
        l.sk = sk ∧ l.allow = [u] ∧ l.owner = rid ∧ l.queue = [] ∧ l.lid = s.nextId) ∧
    (kind = .xtcp → ∃ c, aget (step fixed H s (.register rid kind name sk [])).1.natCfgs name = some c ∧
        c.sk = sk ∧ c.allow = [u] ∧ c.owner = rid ∧ c.chan = s.nextId) := by
  simp only [step, hu] at hok ⊢
  split at hok
  · cases hok
  · next hfree =>
    simp only [hfree]
    simp only [Bool.or_eq_true, Option.isSome_iff_ne_none, not_or, ne_eq, Decidable.not_not] at hfree
    cases kind <;> simp [doListen, doNatListen, hfree.1, hfree.2, aget_aput, effectiveAllow_default]

/-- with the default list only the owner's own user gets in (unless that user is literally "*") -/
theorem default_only_owner_user (u user : Str) (h : UserAllowed [u] user) : user = u ∨ u = [Str.star] := by
  rcases h with h | h
  · left; simpa using h
  · right; have := List.mem_singleton.mp h; exact this.symm

/-- end to end: proxy registered with the default list, then any RegisterVisitorConn that is admitted
    was made under a run id whose user is the owner's user, with the proxy's key -/
theorem default_list_end_to_end (fixed : Bool) (H : Str → Str) (s : State) (rid : Str) (kind : Kind)
    (name sk u : Str) (hk : kind ≠ .xtcp) (hu : aget s.ctls rid = some u) (hstar : u ≠ [Str.star])
    (hok : (step fixed H s (.register rid kind name sk [])).2 = .ok)
    (ts : Int) (sign vrid : Str) (conn lid : Nat)
    (hadm : (step fixed H (step fixed H s (.register rid kind name sk [])).1 (.visitorConn name ts sign vrid conn)).2
              = .conn (.queued lid)) :
    sign = authKey H sk ts ∧ RunUser s.ctls vrid u ∧ lid = s.nextId := by
  obtain ⟨l, hl, hsk, hallow, _, _, hlid⟩ := (register_default_allow fixed H s rid kind name sk u hu hok).1 hk
  obtain ⟨user, hru, l', hl', hlid', hkey, hall⟩ :=
    (visitorConn_sound fixed H _ name ts sign vrid conn).1 lid (.inl hadm)
  rw [hl] at hl'
  cases hl'
  rw [hallow] at hall
  rcases default_only_owner_user u user hall with h | h
  · subst h
    refine ⟨by rw [hkey, hsk], ?_, by rw [← hlid', hlid]⟩
    have hc : (step fixed H s (.register rid kind name sk [])).1.ctls = s.ctls := by
      simp only [step, hu]
      split
      · rfl
      · cases kind <;> simp only [doListen, doNatListen] <;> split <;> rfl
    rw [hc] at hru
    exact hru
  · exact absurd h hstar

/-! ## §2 NAT-hole visitors -/

/-- the full statement for the session branch -/
def NatSound (fixed : Bool) : Prop :=
  ∀ (H : Str → Str) (cfgs : List (Str × NatCfg)) (sess : List (Str × NatSess)) (sid name : Str) (ts : Int)
    (sign user : Str) (ch : Nat),
    (natVisit fixed H cfgs sess sid name ts sign user false).2 = .granted ch →
      NatAdmissible H cfgs name ts sign user ch

def natAdmissibleB (H : Str → Str) (cfgs : List (Str × NatCfg)) (name : Str) (ts : Int) (sign user : Str) (ch : Nat) : Bool :=
  match aget cfgs name with
  | none => false
  | some c => c.chan == ch && sign == authKey H c.sk ts && allowedB c.allow user

theorem natAdmissibleB_iff (H : Str → Str) (cfgs : List (Str × NatCfg)) (name : Str) (ts : Int) (sign user : Str) (ch : Nat) :
    natAdmissibleB H cfgs name ts sign user ch = true ↔ NatAdmissible H cfgs name ts sign user ch := by
  unfold natAdmissibleB NatAdmissible
  split
  · next h => simp [h]
  · next c h => simp [h, allowedB_iff, and_assoc]

/-- as the code is: admitted ⇒ the proxy exists and the signature is its key (the allow list is
    missing from the conclusion) -/
theorem nat_grant_partial (fixed : Bool) (H : Str → Str) (cfgs : List (Str × NatCfg)) (sess : List (Str × NatSess))
    (sid name : Str) (ts : Int) (sign user : Str) (ch : Nat)
    (h : (natVisit fixed H cfgs sess sid name ts sign user false).2 = .granted ch) :
    ∃ c, aget cfgs name = some c ∧ c.chan = ch ∧ sign = authKey H c.sk ts ∧ (fixed = true → UserAllowed c.allow user) := by
  unfold natVisit at h
  simp only [Bool.false_eq_true, if_false] at h
  split at h
  · cases h
  · next c hc =>
    refine ⟨c, hc, ?_⟩
    by_cases hk : sign = authKey H c.sk ts
    · by_cases hf : (fixed && !allowedB c.allow user) = true
      · simp [hk, hf] at h
      · simp only [hk, ne_eq, not_true_eq_false, if_false, hf] at h
        refine ⟨by simpa using h, hk, ?_⟩
        intro hfx
        subst hfx
        simp only [Bool.true_and, Bool.not_eq_true', Bool.not_eq_false] at hf
        exact (allowedB_iff _ _).mp (by simpa using hf)
    · simp [hk] at h

/-- with the excluded case as explicit hypothesis (the user passes the allow-list test, e.g. because
    the visitor ran the pre-check first): the full conclusion on the unchanged code -/
theorem nat_grant_sound_partial (H : Str → Str) (cfgs : List (Str × NatCfg)) (sess : List (Str × NatSess))
    (sid name : Str) (ts : Int) (sign user : Str) (ch : Nat)
    (hpre : (natVisit false H cfgs sess sid name ts sign user true).2 = .preOk)
    (h : (natVisit false H cfgs sess sid name ts sign user false).2 = .granted ch) :
    NatAdmissible H cfgs name ts sign user ch := by
  obtain ⟨c, hc, hch, hk, _⟩ := nat_grant_partial false H cfgs sess sid name ts sign user ch h
  refine ⟨c, hc, hch, hk, ?_⟩
  unfold natVisit at hpre
  simp only [if_true, hc] at hpre
  by_cases ha : allowedB c.allow user = true
  · exact (allowedB_iff _ _).mp ha
  · simp [ha] at hpre

/-- the repaired code: the full statement -/
theorem nat_grant_sound_fixed : NatSound true := by
  intro H cfgs sess sid name ts sign user ch h
  obtain ⟨c, hc, hch, hk, ha⟩ := nat_grant_partial true H cfgs sess sid name ts sign user ch h
  exact ⟨c, hc, hch, hk, ha rfl⟩

/-- proxy "p", key "s", allowUsers = ["a"]; user "m" (not allowed) sends a correctly signed
    NatHoleVisitor: a session is stored and the owner's channel 0 is notified -/
def witnessCfgs : List (Str × NatCfg) := [([112], { sk := [115], allow := [[97]], chan := 0 })]

/-- the code as it is violates the full statement -/
theorem nat_allow_witness : ¬ NatSound false := by
  intro h
  have h1 := h (fun x => x) witnessCfgs [] [49] [112] 7 (authInput [115] 7) [109] 0 (by decide +kernel)
  have h2 := (natAdmissibleB_iff _ _ _ _ _ _ _).mpr h1
  revert h2
  decide +kernel

/-- … while the pre-check branch refuses the same user -/
theorem nat_witness_precheck_refuses :
    (natVisit false (fun x => x) witnessCfgs [] [49] [112] 7 (authInput [115] 7) [109] true).2 = .err .notAllowed := by
  decide +kernel

/-- pre-check: "ok" ⇒ the proxy exists and the user is allowed; nothing is stored, nobody notified.
    (The key is not looked at on this branch: `precheck_ignores_key`.) -/
theorem precheck_sound (fixed : Bool) (H : Str → Str) (cfgs : List (Str × NatCfg)) (sess : List (Str × NatSess))
    (sid name : Str) (ts : Int) (sign user : Str)
    (h : (natVisit fixed H cfgs sess sid name ts sign user true).2 = .preOk) :
    ∃ c, aget cfgs name = some c ∧ UserAllowed c.allow user := by
  unfold natVisit at h
  simp only [if_true] at h
  split at h
  · cases h
  · next c hc =>
    refine ⟨c, hc, ?_⟩
    by_cases ha : allowedB c.allow user = true
    · exact (allowedB_iff _ _).mp ha
    · simp [ha] at h

theorem precheck_ignores_key (fixed : Bool) (H : Str → Str) (cfgs : List (Str × NatCfg)) (sess : List (Str × NatSess))
    (sid name : Str) (ts ts' : Int) (sign sign' user : Str) :
    natVisit fixed H cfgs sess sid name ts sign user true = natVisit fixed H cfgs sess sid name ts' sign' user true := by
  simp only [natVisit, if_true]

/-- a refused request (or a pre-check, whatever its answer) leaves the sessions map as it was; an
    admission stores exactly one session under the fresh sid -/
theorem natVisit_state (fixed : Bool) (H : Str → Str) (cfgs : List (Str × NatCfg)) (sess : List (Str × NatSess))
    (sid name : Str) (ts : Int) (sign user : Str) (pre : Bool) :
    ((∀ ch, (natVisit fixed H cfgs sess sid name ts sign user pre).2 ≠ .granted ch) →
        (natVisit fixed H cfgs sess sid name ts sign user pre).1 = sess) ∧
    (∀ ch, (natVisit fixed H cfgs sess sid name ts sign user pre).2 = .granted ch →
        pre = false ∧ ∀ k, aget (natVisit fixed H cfgs sess sid name ts sign user pre).1 k =
          if sid = k then (aget (natVisit fixed H cfgs sess sid name ts sign user pre).1 sid) else aget sess k) := by
  unfold natVisit
  cases pre
  · simp only [Bool.false_eq_true, if_false]
    split
    · simp
    · next c hc =>
      split
      · simp
      · split
        · simp
        · constructor
          · intro h; exact absurd rfl (h c.chan)
          · intro ch _
            refine ⟨trivial, fun k => ?_⟩
            simp only [aget_aput]
            split <;> simp_all
  · simp only [if_true]
    split
    · simp
    · split <;> simp

/-- the deferred delete returns the sessions map to its previous value (lookup-wise) when the sid was fresh -/
theorem natDone_restores (fixed : Bool) (H : Str → Str) (cfgs : List (Str × NatCfg)) (sess : List (Str × NatSess))
    (sid name : Str) (ts : Int) (sign user : Str) (pre : Bool) (hfresh : aget sess sid = none) (k : Str) :
    aget (adel (natVisit fixed H cfgs sess sid name ts sign user pre).1 sid) k = aget sess k := by
  rw [aget_adel]
  by_cases hk : sid = k
  · subst hk; simp [hfresh]
  · simp only [hk, if_false]
    have := natVisit_state fixed H cfgs sess sid name ts sign user pre
    by_cases hadm : ∃ ch, (natVisit fixed H cfgs sess sid name ts sign user pre).2 = .granted ch
    · obtain ⟨ch, hch⟩ := hadm
      have h2 := (this.2 ch hch).2 k
      simp only [hk, if_false] at h2
      exact h2
    · have h1 := this.1 (fun ch hc => hadm ⟨ch, hc⟩)
      rw [h1]

/-- the session branch of C08's model (repaired: `fixed = true`) with H = id is the `visitorLookup`
    label of the C20 model (Frp/Model/NatHole.lean, which represents a sign key by its md5 input and
    now checks the allow list too): same decision, same error -/
theorem natVisit_agrees_C20 (s : NatHole.State) (cfgs : List (Str × NatCfg)) (sess : List (Str × NatSess))
    (sid : Str) (m : NatHole.VMsg) (t : Nat) (user : Str)
    (hfresh : aget s.sessions sid = none)
    (hcfg : ∀ n, (aget s.cfgs n).map (fun c => (c.sk, c.chan, c.allow)) = (aget cfgs n).map (fun c => (c.sk, c.chan, c.allow))) :
    match (natVisit true (fun x => x) cfgs sess sid m.proxyName m.timestamp m.signed user false).2,
          NatHole.step s (.visitorLookup sid m t user) with
    | .granted ch, some (s', o) => o = [] ∧ ∃ x, aget s'.sessions sid = some x ∧ x.phase = .notifying ch
    | .err .noListener, some (s', o) => s' = s ∧ o = [(t, NatHole.errResp m.tid .noExist)]
    | .err .authFailed, some (s', o) => s' = s ∧ o = [(t, NatHole.errResp m.tid .authFailed)]
    | .err .notAllowed, some (s', o) => s' = s ∧ o = [(t, NatHole.errResp m.tid .notAllowed)]
    | _, _ => False := by
  have hc := hcfg m.proxyName
  simp only [natVisit, NatHole.step, hfresh, Bool.false_eq_true, if_false, Bool.true_and, authKey]
  cases h1 : aget s.cfgs m.proxyName with
  | none =>
    rw [h1] at hc
    cases h2 : aget cfgs m.proxyName with
    | none => simp
    | some c => rw [h2] at hc; simp at hc
  | some c0 =>
    rw [h1] at hc
    cases h2 : aget cfgs m.proxyName with
    | none => rw [h2] at hc; simp at hc
    | some c =>
      rw [h2] at hc
      simp only [Option.map_some, Option.some.injEq, Prod.mk.injEq] at hc
      obtain ⟨hsk, hch, hal⟩ := hc
      simp only [hsk, hal]
      by_cases hk : m.signed = authInput c.sk m.timestamp
      · by_cases ha : allowedB c.allow user = true
        · have ha' : NatHole.userAllowed c.allow user = true := by simpa [allowedB, NatHole.userAllowed] using ha
          simp [hk, ha, ha', aget_aput, hch]
        · have ha' : NatHole.userAllowed c.allow user = false := by
            simpa [allowedB, NatHole.userAllowed] using ha
          simp [hk, ha, ha']
      · simp [hk]

/-! ## §3 every history -/

/-- what is waiting in any accept queue was admitted under the key and allow list of the very entry
    that holds it; what is in the sessions map was admitted under the key (and, with the repair, the
    allow list) recorded with it -/
def QInv (fixed : Bool) (H : Str → Str) (s : State) : Prop :=
  (∀ p ∈ s.listeners, ∀ q ∈ p.2.queue, q.sign = authKey H p.2.sk q.ts ∧ UserAllowed p.2.allow q.user) ∧
  (∀ p ∈ s.natSess, p.2.sign = authKey H p.2.sk p.2.ts ∧ (fixed = true → UserAllowed p.2.allow p.2.user))

theorem mem_aput {α : Type} (l : List (Str × α)) (k : Str) (v : α) (p : Str × α) (h : p ∈ aput l k v) :
    p = (k, v) ∨ p ∈ l := by
  induction l with
  | nil => simp only [aput, List.mem_singleton] at h; exact .inl h
  | cons hd t ih =>
    obtain ⟨k', v'⟩ := hd
    simp only [aput] at h
    split at h
    · rcases List.mem_cons.mp h with h | h
      · exact .inl h
      · exact .inr (List.mem_cons_of_mem _ h)
    · rcases List.mem_cons.mp h with h | h
      · exact .inr (h ▸ List.mem_cons_self)
      · rcases ih h with h | h
        · exact .inl h
        · exact .inr (List.mem_cons_of_mem _ h)

theorem mem_adel {α : Type} (l : List (Str × α)) (k : Str) (p : Str × α) (h : p ∈ adel l k) : p ∈ l := by
  induction l with
  | nil => simp [adel] at h
  | cons hd t ih =>
    obtain ⟨k', v'⟩ := hd
    simp only [adel] at h
    split at h
    · exact List.mem_cons_of_mem _ (ih h)
    · rcases List.mem_cons.mp h with h | h
      · exact h ▸ List.mem_cons_self
      · exact List.mem_cons_of_mem _ (ih h)

theorem mem_of_aget {α : Type} (l : List (Str × α)) (k : Str) (v : α) (h : aget l k = some v) : (k, v) ∈ l := by
  induction l with
  | nil => simp [aget] at h
  | cons hd t ih =>
    obtain ⟨k', v'⟩ := hd
    simp only [aget] at h
    split at h
    · next e => cases h; subst e; exact List.mem_cons_self
    · exact List.mem_cons_of_mem _ (ih h)

theorem qinv_init (fixed : Bool) (H : Str → Str) : QInv fixed H {} := by
  constructor <;> intro p hp <;> cases hp

theorem qinv_newConn (H : Str → Str) (ls : List (Str × Listener)) (name : Str) (ts : Int) (sign user : Str) (conn : Nat)
    (h : ∀ p ∈ ls, ∀ q ∈ p.2.queue, q.sign = authKey H p.2.sk q.ts ∧ UserAllowed p.2.allow q.user) :
    ∀ p ∈ (newConn H ls name ts sign user conn).1, ∀ q ∈ p.2.queue,
      q.sign = authKey H p.2.sk q.ts ∧ UserAllowed p.2.allow q.user := by
  rcases newConn_queued_shape H ls name ts sign user conn with h' | ⟨l, hl, hq, hshape⟩
  · rw [h']; exact h
  · obtain ⟨l', hl', _, hk, hu⟩ := newConn_sound H ls name ts sign user conn l.lid (.inl hq)
    rw [hl] at hl'; cases hl'
    have hmem := mem_of_aget ls name l hl
    intro p hp q hqm
    rw [hshape] at hp
    rcases mem_aput _ _ _ _ hp with hp | hp
    · subst hp
      simp only at hqm ⊢
      rcases List.mem_append.mp hqm with hqm | hqm
      · exact h _ hmem q hqm
      · have := List.mem_singleton.mp hqm
        subst this
        exact ⟨hk, hu⟩
    · exact h p hp q hqm

theorem qinv_natVisit (fixed : Bool) (H : Str → Str) (cfgs : List (Str × NatCfg)) (sess : List (Str × NatSess))
    (sid name : Str) (ts : Int) (sign user : Str) (pre : Bool)
    (h : ∀ p ∈ sess, p.2.sign = authKey H p.2.sk p.2.ts ∧ (fixed = true → UserAllowed p.2.allow p.2.user)) :
    ∀ p ∈ (natVisit fixed H cfgs sess sid name ts sign user pre).1,
      p.2.sign = authKey H p.2.sk p.2.ts ∧ (fixed = true → UserAllowed p.2.allow p.2.user) := by
  by_cases hadm : ∃ ch, (natVisit fixed H cfgs sess sid name ts sign user pre).2 = .granted ch
  · obtain ⟨ch, hch⟩ := hadm
    have hpre : pre = false := ((natVisit_state fixed H cfgs sess sid name ts sign user pre).2 ch hch).1
    subst hpre
    obtain ⟨c, hc, _, hk, hu⟩ := nat_grant_partial fixed H cfgs sess sid name ts sign user ch hch
    have hshape : (natVisit fixed H cfgs sess sid name ts sign user false).1 =
        aput sess sid { chan := c.chan, sk := c.sk, allow := c.allow, user := user, sign := sign, ts := ts } := by
      unfold natVisit at hch ⊢
      simp only [Bool.false_eq_true, if_false, hc] at hch ⊢
      by_cases h1 : sign ≠ authKey H c.sk ts
      · rw [if_pos h1] at hch; cases hch
      · by_cases h2 : (fixed && !allowedB c.allow user) = true
        · rw [if_neg h1, if_pos h2] at hch; cases hch
        · rw [if_neg h1, if_neg h2]
    intro p hp
    rw [hshape] at hp
    rcases mem_aput _ _ _ _ hp with hp | hp
    · subst hp; exact ⟨hk, hu⟩
    · exact h p hp
  · have := (natVisit_state fixed H cfgs sess sid name ts sign user pre).1 (fun ch hc => hadm ⟨ch, hc⟩)
    rw [this]; exact h

/-- one step of any kind preserves the invariant -/
theorem qinv_step (fixed : Bool) (H : Str → Str) (s : State) (op : Op) (h : QInv fixed H s) :
    QInv fixed H (step fixed H s op).1 := by
  obtain ⟨hl, hn⟩ := h
  have hnew : ∀ (name sk : Str) (allow : List Str) (owner : Str), QInv fixed H (doListen s name sk allow owner).1 := by
    intro name sk allow owner
    unfold doListen
    split
    · exact ⟨hl, hn⟩
    · refine ⟨?_, hn⟩
      intro p hp q hq
      rcases mem_aput _ _ _ _ hp with hp | hp
      · subst hp; cases hq
      · exact hl p hp q hq
  have hnat : ∀ (name sk : Str) (allow : List Str) (owner : Str), QInv fixed H (doNatListen s name sk allow owner).1 := by
    intro name sk allow owner
    unfold doNatListen
    split <;> exact ⟨hl, hn⟩
  cases op with
  | login rid user => exact ⟨fun p hp => hl p (List.mem_filter.mp hp).1, hn⟩
  | logout rid => exact ⟨fun p hp => hl p (List.mem_filter.mp hp).1, hn⟩
  | listen name sk allow => exact hnew _ _ _ _
  | natListen name sk allow => exact hnat _ _ _ _
  | register rid kind name sk cfgAllow =>
    simp only [step]
    split
    · exact ⟨hl, hn⟩
    · split
      · exact ⟨hl, hn⟩
      · cases kind
        · exact hnew _ _ _ _
        · exact hnew _ _ _ _
        · exact hnat _ _ _ _
  | closeListener name => exact ⟨fun p hp => hl p (mem_adel _ _ _ hp), hn⟩
  | natClose name => exact ⟨hl, hn⟩
  | closeProxy rid name => exact ⟨fun p hp => hl p (List.mem_filter.mp hp).1, hn⟩
  | lclose name =>
    simp only [step]
    split
    · exact ⟨hl, hn⟩
    · next l hg =>
      refine ⟨?_, hn⟩
      intro p hp q hq
      rcases mem_aput _ _ _ _ hp with hp | hp
      · subst hp; exact hl _ (mem_of_aget _ _ _ hg) q hq
      · exact hl p hp q hq
  | accept name =>
    simp only [step]
    split
    · exact ⟨hl, hn⟩
    · next l hg =>
      split
      · exact ⟨hl, hn⟩
      · next q0 rest hq0 =>
        refine ⟨?_, hn⟩
        intro p hp q hq
        rcases mem_aput _ _ _ _ hp with hp | hp
        · subst hp
          exact hl _ (mem_of_aget _ _ _ hg) q (by rw [hq0]; exact List.mem_cons_of_mem _ hq)
        · exact hl p hp q hq
  | newConn name ts sign user conn =>
    exact ⟨qinv_newConn H s.listeners name ts sign user conn hl, hn⟩
  | visitorConn name ts sign rid conn =>
    simp only [step]
    split
    · exact ⟨hl, hn⟩
    · exact ⟨qinv_newConn H s.listeners name ts sign _ conn hl, hn⟩
  | natVisit sid name ts sign user pre =>
    exact ⟨hl, qinv_natVisit fixed H s.natCfgs s.natSess sid name ts sign user pre hn⟩
  | natVisitBy sid name ts sign rid pre =>
    simp only [step]
    split
    · exact ⟨hl, hn⟩
    · exact ⟨hl, qinv_natVisit fixed H s.natCfgs s.natSess sid name ts sign _ pre hn⟩
  | natDone sid => exact ⟨hl, fun p hp => hn p (mem_adel _ _ _ hp)⟩

/-- for every operation history from the empty server — any order of logins, registrations,
    closures, accepts, visitor and NAT-hole requests — the invariant holds in the state reached -/
theorem qinv_reachable (fixed : Bool) (H : Str → Str) (ops : List Op) : QInv fixed H (runS fixed H {} ops) := by
  suffices ∀ s, QInv fixed H s → QInv fixed H (runS fixed H s ops) from this {} (qinv_init fixed H)
  induction ops with
  | nil => intro s h; exact h
  | cons op ops ih => intro s h; exact ih _ (qinv_step fixed H s op h)

/-- corollary, repaired code: nothing that an owner can ever take out of an accept queue, and no
    stored NAT-hole session, stems from a request without the key or from a user outside the list -/
theorem reachable_fixed_all_granted_sound (H : Str → Str) (ops : List Op) :
    (∀ p ∈ (runS true H {} ops).listeners, ∀ q ∈ p.2.queue,
        q.sign = authKey H p.2.sk q.ts ∧ UserAllowed p.2.allow q.user) ∧
    (∀ p ∈ (runS true H {} ops).natSess, p.2.sign = authKey H p.2.sk p.2.ts ∧ UserAllowed p.2.allow p.2.user) := by
  obtain ⟨h1, h2⟩ := qinv_reachable true H ops
  exact ⟨h1, fun p hp => ⟨(h2 p hp).1, (h2 p hp).2 rfl⟩⟩

/-- every request op that is not an admission leaves the complete server state unchanged -/
theorem step_refused_unchanged (fixed : Bool) (H : Str → Str) (s : State) (op : Op) (e : Err)
    (h : (step fixed H s op).2 = .conn (.err e) ∨ (step fixed H s op).2 = .nat (.err e) ∨
         (step fixed H s op).2 = .nat .preOk) :
    (step fixed H s op).1 = s := by
  cases op with
  | newConn name ts sign user conn =>
    simp only [step] at h ⊢
    have := newConn_not_queued_unchanged H s.listeners name ts sign user conn
      (fun lid hq => by rw [hq] at h; simp at h)
    rw [this]
  | visitorConn name ts sign rid conn =>
    exact (visitorConn_sound fixed H s name ts sign rid conn).2 (fun lid hq => by rw [hq] at h; simp at h)
  | natVisit sid name ts sign user pre =>
    simp only [step] at h ⊢
    have := (natVisit_state fixed H s.natCfgs s.natSess sid name ts sign user pre).1
      (fun ch hc => by rw [hc] at h; simp at h)
    rw [this]
  | natVisitBy sid name ts sign rid pre =>
    cases hu : aget s.ctls rid with
    | none => simp only [step, hu]
    | some u =>
      simp only [step, hu] at h ⊢
      have := (natVisit_state fixed H s.natCfgs s.natSess sid name ts sign u pre).1
        (fun ch hc => by rw [hc] at h; simp at h)
      simp only [this]
  | register rid kind name sk cfgAllow =>
    cases hu : aget s.ctls rid with
    | none => simp only [step, hu]
    | some u =>
      simp only [step, hu] at h ⊢
      by_cases hx : ((aget s.listeners name).isSome || (aget s.natCfgs name).isSome) = true
      · simp only [hx, if_true]
      · simp only [hx, if_false] at h
        exfalso
        cases kind <;> simp only [doListen, doNatListen] at h <;> (repeat' split at h) <;> simp at h
  | login _ _ => simp [step] at h
  | logout _ => simp [step] at h
  | listen name sk allow => simp only [step, doListen] at h; split at h <;> simp at h
  | natListen name sk allow => simp only [step, doNatListen] at h; split at h <;> simp at h
  | closeListener _ => simp [step] at h
  | natClose _ => simp [step] at h
  | closeProxy _ _ => simp [step] at h
  | lclose name => simp only [step] at h; split at h <;> simp at h
  | accept name => simp only [step] at h; repeat' split at h
                   all_goals simp at h
  | natDone _ => simp [step] at h

/-! ## §4 wrapper stacks -/

/-- both ends of each leg build the same stack from the same declaration, for all 16 combinations;
    the two legs are independent (visitor's options on leg 1 with the secret key, the proxy's on leg 2
    with the token) -/
theorem mirror : ∀ vEnc vComp pEnc pComp : Bool,
    visitorEnd vEnc vComp = serverVisitorEnd vEnc vComp ∧ serverWorkEnd pEnc pComp = ownerEnd pEnc pComp := by
  decide

theorem decode_encode (ls : List Layer) (x : List (List Layer × Nat)) : decode ls (encode ls x) = some x := by
  induction x with
  | nil => rfl
  | cons p t ih =>
    have ih' : decode ls (List.map (fun p => (ls ++ p.fst, p.snd)) t) = some t := ih
    simp [decode, encode, ih']

/-- a payload sent by the visitor arrives unchanged at the owner's end, whatever the visitor and the
    proxy each declare (abstract layers: a layer is undone only by the same layer with the same key) -/
theorem transparent (vEnc vComp pEnc pComp : Bool) (x : List (List Layer × Nat)) :
    (decode (serverVisitorEnd vEnc vComp) (encode (visitorEnd vEnc vComp) x)).bind
      (fun y => decode (ownerEnd pEnc pComp) (encode (serverWorkEnd pEnc pComp) y)) = some x := by
  have h := mirror vEnc vComp pEnc pComp
  rw [h.1, h.2, decode_encode, Option.bind_some, decode_encode]

/-- non-vacuity of the abstraction: a layer applied but not declared is not undone -/
example : decode (serverVisitorEnd false false) (encode (visitorEnd true false) [([], 7)]) ≠ some [([], 7)] := by decide

/-! ## §5 the predicate the driver evaluates on the implementation's answers -/

def admissibleB (H : Str → Str) (ls : List (Str × Listener)) (name : Str) (ts : Int) (sign user : Str) : Bool :=
  match aget ls name with
  | none => false
  | some l => sign == authKey H l.sk ts && allowedB l.allow user

theorem admissibleB_iff (H : Str → Str) (ls : List (Str × Listener)) (name : Str) (ts : Int) (sign user : Str) :
    admissibleB H ls name ts sign user = true ↔ ∃ lid, Admissible H ls name ts sign user lid := by
  unfold admissibleB Admissible
  split
  · next h => simp [h]
  · next l h =>
    simp only [h, Option.some.injEq, Bool.and_eq_true, beq_iff_eq, allowedB_iff]
    constructor
    · intro ⟨a, b⟩; exact ⟨l.lid, l, rfl, rfl, a, b⟩
    · intro ⟨_, l', e, _, a, b⟩; subst e; exact ⟨a, b⟩

def natAdmB (H : Str → Str) (cfgs : List (Str × NatCfg)) (name : Str) (ts : Int) (sign user : Str) : Bool :=
  match aget cfgs name with
  | none => false
  | some c => sign == authKey H c.sk ts && allowedB c.allow user

theorem natAdmB_iff (H : Str → Str) (cfgs : List (Str × NatCfg)) (name : Str) (ts : Int) (sign user : Str) :
    natAdmB H cfgs name ts sign user = true ↔ ∃ ch, NatAdmissible H cfgs name ts sign user ch := by
  unfold natAdmB NatAdmissible
  split
  · next h => simp [h]
  · next c h =>
    simp only [h, Option.some.injEq, Bool.and_eq_true, beq_iff_eq, allowedB_iff]
    constructor
    · intro ⟨a, b⟩; exact ⟨c.chan, c, rfl, rfl, a, b⟩
    · intro ⟨_, c', e, _, a, b⟩; subst e; exact ⟨a, b⟩

/-- `implGranted` = the implementation handed the request to an owner (accept queue / sid channel);
    `valid` = the request is admissible in the model's state.  The property on one observed answer. -/
def holdsOn (valid implGranted : Bool) : Bool := !implGranted || valid

theorem holdsOn_sound (H : Str → Str) (ls : List (Str × Listener)) (name : Str) (ts : Int) (sign user : Str)
    (implGranted : Bool) :
    holdsOn (admissibleB H ls name ts sign user) implGranted = true ↔
      (implGranted = true → ∃ lid, Admissible H ls name ts sign user lid) := by
  rw [← admissibleB_iff]
  cases implGranted <;> simp [holdsOn]

theorem holdsOn_sound_nat (H : Str → Str) (cfgs : List (Str × NatCfg)) (name : Str) (ts : Int) (sign user : Str)
    (implGranted : Bool) :
    holdsOn (natAdmB H cfgs name ts sign user) implGranted = true ↔
      (implGranted = true → ∃ ch, NatAdmissible H cfgs name ts sign user ch) := by
  rw [← natAdmB_iff]
  cases implGranted <;> simp [holdsOn]

/-- the model's own answers satisfy the predicate on the stream path … -/
theorem model_holdsOn (H : Str → Str) (ls : List (Str × Listener)) (name : Str) (ts : Int) (sign user : Str) (conn : Nat) :
    holdsOn (admissibleB H ls name ts sign user)
      (match (newConn H ls name ts sign user conn).2 with | .err _ => false | _ => true) = true := by
  rw [holdsOn_sound]
  intro h
  rcases newConn_refused_unchanged H ls name ts sign user conn with ⟨e, he⟩ | ⟨lid, hl⟩ | ⟨lid, hl⟩
  · rw [he] at h; cases h
  · exact ⟨lid, newConn_sound H ls name ts sign user conn lid (.inr hl)⟩
  · exact ⟨lid, newConn_sound H ls name ts sign user conn lid (.inl hl)⟩

/-- … and, with the repair, on the NAT-hole path -/
theorem model_holdsOn_nat_fixed (H : Str → Str) (cfgs : List (Str × NatCfg)) (sess : List (Str × NatSess))
    (sid name : Str) (ts : Int) (sign user : Str) :
    holdsOn (natAdmB H cfgs name ts sign user)
      (match (natVisit true H cfgs sess sid name ts sign user false).2 with | .granted _ => true | _ => false) = true := by
  rw [holdsOn_sound_nat]
  intro h
  split at h
  · next ch hch => exact ⟨ch, nat_grant_sound_fixed H cfgs sess sid name ts sign user ch hch⟩
  · cases h

/-! ## non-vacuity -/

def exH : Str → Str := fun x => 0 :: x

/-- owner "o" (run id "r1") registers stcp "p" with key "s" and no allowUsers -/
def exOps : List Op := [.login [114, 49] [111], .login [114, 50] [109], .register [114, 49] .stcp [112] [115] []]

-- same user through its own run id, right key: handed to listener 0
example : (step false exH (runS false exH {} exOps) (.visitorConn [112] 7 (authKey exH [115] 7) [114, 49] 1)).2
    = .conn (.queued 0) := by decide +kernel
-- other user, right key
example : (step false exH (runS false exH {} exOps) (.visitorConn [112] 7 (authKey exH [115] 7) [114, 50] 1)).2
    = .conn (.err .notAllowed) := by decide +kernel
-- empty run id ⇒ user "" ≠ "o"
example : (step false exH (runS false exH {} exOps) (.visitorConn [112] 7 (authKey exH [115] 7) [] 1)).2
    = .conn (.err .notAllowed) := by decide +kernel
-- unknown run id
example : (step false exH (runS false exH {} exOps) (.visitorConn [112] 7 (authKey exH [115] 7) [120] 1)).2
    = .conn (.err .noRun) := by decide +kernel
-- wrong timestamp for the signature
example : (step false exH (runS false exH {} exOps) (.visitorConn [112] 8 (authKey exH [115] 7) [114, 49] 1)).2
    = .conn (.err .authFailed) := by decide +kernel
-- the hypotheses of default_list_end_to_end are met by this state
example : aget (runS false exH {} [.login [114, 49] [111], .login [114, 50] [109]]).ctls [114, 49] = some [111] ∧
    (step false exH (runS false exH {} [.login [114, 49] [111], .login [114, 50] [109]])
      (.register [114, 49] .stcp [112] [115] [])).2 = .ok := by decide +kernel
-- "*" admits anyone holding the key
example : (newConn exH [([112], { sk := [115], allow := [[Str.star]], lid := 3 })] [112] 7 (authKey exH [115] 7) [109] 1).2
    = .queued 3 := by decide +kernel
-- repaired NAT-hole branch refuses the witness request
example : (natVisit true (fun x => x) witnessCfgs [] [49] [112] 7 (authInput [115] 7) [109] false).2 = .err .notAllowed := by
  decide +kernel
example : (natVisit false (fun x => x) witnessCfgs [] [49] [112] 7 (authInput [115] 7) [109] false).2 = .granted 0 := by
  decide +kernel

/-! ## §6 every interleaving of NewConn with Listen / CloseListener (the manager's RWMutex) -/

/-- the immutable part of a bundle: pointer, key, list -/
def core (l : Listener) : Nat × Str × List Str := (l.lid, l.sk, l.allow)

/-- `ls'` has, under every name, a bundle with the same pointer, key and list as `ls` -/
def SameBundles (ls ls' : List (Str × Listener)) : Prop := ∀ n, (aget ls' n).map core = (aget ls n).map core

theorem sameBundles_refl (ls : List (Str × Listener)) : SameBundles ls ls := fun _ => rfl

theorem sameBundles_aput (ls : List (Str × Listener)) (name : Str) (l l' : Listener) (hl : aget ls name = some l)
    (hc : core l' = core l) : SameBundles ls (aput ls name l') := by
  intro n
  rw [aget_aput]
  by_cases e : name = n
  · subst e; simp [hl, hc]
  · simp [e]

theorem putConn_sameBundles (ls : List (Str × Listener)) (name : Str) (l : Listener) (q : QItem)
    (hl : aget ls name = some l) : SameBundles ls (putConn ls name l q).1 := by
  unfold putConn
  split
  · exact sameBundles_refl _
  · split
    · exact sameBundles_refl _
    · exact sameBundles_aput ls name l _ hl rfl

/-- a flight's bundle is the one registered under its name, and the request passed that bundle's checks -/
def FlightOk (H : Str → Str) (ls : List (Str × Listener)) (f : Flight) : Prop :=
  ∃ l, aget ls f.req.name = some l ∧ l.lid = f.lid ∧ l.sk = f.sk ∧ l.allow = f.allow ∧
    f.req.sign = authKey H l.sk f.req.ts ∧ UserAllowed l.allow f.req.user

/-- the lock invariant: while a NewConn is in flight the bundle it read is still the registered one;
    writers wait only while there are readers -/
def FInv (H : Str → Str) (c : CState) : Prop :=
  (∀ f ∈ c.flights, FlightOk H c.s.listeners f) ∧ (c.pending ≠ [] → c.flights ≠ [])

theorem flightOk_same (H : Str → Str) (ls ls' : List (Str × Listener)) (f : Flight) (h : SameBundles ls ls')
    (hf : FlightOk H ls f) : FlightOk H ls' f := by
  obtain ⟨l, hl, h1, h2, h3, h4, h5⟩ := hf
  have := h f.req.name
  rw [hl] at this
  cases hl' : aget ls' f.req.name with
  | none => rw [hl'] at this; simp at this
  | some l' =>
    rw [hl'] at this
    simp only [Option.map_some, Option.some.injEq, core, Prod.mk.injEq] at this
    obtain ⟨e1, e2, e3⟩ := this
    exact ⟨l', hl', by rw [e1, h1], by rw [e2, h2], by rw [e3, h3], by rw [e2]; exact h4, by rw [e3]; exact h5⟩

theorem checks_ok (H : Str → Str) (ls : List (Str × Listener)) (r : Req) (l : Listener) (h : checks H ls r = .ok l) :
    aget ls r.name = some l ∧ r.sign = authKey H l.sk r.ts ∧ UserAllowed l.allow r.user := by
  unfold checks at h
  split at h
  · cases h
  · next l0 hl0 =>
    by_cases h1 : authKey H l0.sk r.ts ≠ r.sign
    · rw [if_pos h1] at h; cases h
    · by_cases h2 : (!allowedB l0.allow r.user) = true
      · rw [if_neg h1, if_pos h2] at h; cases h
      · rw [if_neg h1, if_neg h2] at h
        cases h
        refine ⟨hl0, (Decidable.of_not_not h1).symm, (allowedB_iff _ _).mp ?_⟩
        simpa using h2

/-- NewConn is its checks followed by PutConn (the wrappers change nothing in the table) -/
theorem newConn_eq_checks_put (H : Str → Str) (ls : List (Str × Listener)) (r : Req) :
    newConn H ls r.name r.ts r.sign r.user r.conn =
      match checks H ls r with
      | .error e => (ls, .err e)
      | .ok l => putConn ls r.name l (item r) := by
  cases hl : aget ls r.name with
  | none => simp only [newConn, checks, hl]
  | some l =>
    simp only [newConn, checks, hl, putConn, item]
    by_cases h1 : authKey H l.sk r.ts ≠ r.sign
    · simp only [if_pos h1]
    · by_cases h2 : (!allowedB l.allow r.user) = true
      · simp only [if_neg h1, if_pos h2]
      · simp only [if_neg h1, if_neg h2]

/-- a step of the stateful core on lclose / accept keeps every bundle's pointer, key and list -/
theorem step_lclose_same (fixed : Bool) (H : Str → Str) (s : State) (name : Str) :
    SameBundles s.listeners (step fixed H s (.lclose name)).1.listeners := by
  simp only [step]
  split
  · exact sameBundles_refl _
  · next l hl => exact sameBundles_aput _ name l _ hl rfl

theorem step_accept_same (fixed : Bool) (H : Str → Str) (s : State) (name : Str) :
    SameBundles s.listeners (step fixed H s (.accept name)).1.listeners := by
  simp only [step]
  split
  · exact sameBundles_refl _
  · next l hl =>
    split
    · exact sameBundles_refl _
    · exact sameBundles_aput _ name l _ hl rfl

theorem finishPut_same (ls : List (Str × Listener)) (f : Flight) (ivOk : Bool) :
    SameBundles ls (finishPut ls f ivOk).1 := by
  unfold finishPut
  split
  · exact sameBundles_refl _
  · split
    · next l hl =>
      split
      · exact putConn_sameBundles ls _ l _ hl
      · exact sameBundles_refl _
    · exact sameBundles_refl _

theorem finv_init (H : Str → Str) : FInv H {} := ⟨fun _ hf => (by cases hf), fun h => absurd rfl h⟩

/-- every label preserves the lock invariant -/
theorem finv_step (fixed : Bool) (H : Str → Str) (c : CState) (lbl : Lbl) (h : FInv H c) :
    FInv H (cstep fixed H c lbl).1 := by
  obtain ⟨hf, hp⟩ := h
  cases lbl with
  | «begin» r =>
    simp only [cstep]
    by_cases hpe : c.pending ≠ []
    · rw [if_pos hpe]; exact ⟨hf, hp⟩
    · rw [if_neg hpe]
      cases hc : checks H c.s.listeners r with
      | error e => exact ⟨hf, hp⟩
      | ok l =>
        obtain ⟨hl, hk, hu⟩ := checks_ok H _ r l hc
        simp only
        by_cases he : r.enc = true
        · rw [if_pos he]
          refine ⟨?_, fun _ => by simp⟩
          intro f hfm
          rcases List.mem_append.mp hfm with hfm | hfm
          · exact hf f hfm
          · have := List.mem_singleton.mp hfm
            subst this
            exact ⟨l, hl, rfl, rfl, rfl, hk, hu⟩
        · rw [if_neg he]
          refine ⟨?_, hp⟩
          intro f hfm
          exact flightOk_same H _ _ f (putConn_sameBundles _ _ l _ hl) (hf f hfm)
  | finish conn ivOk =>
    simp only [cstep]
    split
    · exact ⟨hf, hp⟩
    · next f hfind =>
      split
      · exact ⟨fun _ h => (by cases h), fun h => absurd rfl h⟩
      · next hrest =>
        refine ⟨?_, fun _ => hrest⟩
        intro g hg
        exact flightOk_same H _ _ g (finishPut_same _ f ivOk) (hf g (List.mem_filter.mp hg).1)
  | write w =>
    simp only [cstep]
    by_cases hb : c.flights ≠ [] ∨ c.pending ≠ []
    · rw [if_pos hb]
      refine ⟨hf, fun _ => ?_⟩
      rcases hb with hb | hb
      · exact hb
      · exact hp hb
    · rw [if_neg hb]
      have h1 : c.flights = [] := Decidable.of_not_not (fun h => hb (.inl h))
      have h2 : c.pending = [] := Decidable.of_not_not (fun h => hb (.inr h))
      refine ⟨?_, fun h => absurd h2 h⟩
      intro f hfm
      rw [h1] at hfm
      cases hfm
  | lclose name =>
    exact ⟨fun f hfm => flightOk_same H _ _ f (step_lclose_same fixed H c.s name) (hf f hfm), hp⟩
  | accept name =>
    exact ⟨fun f hfm => flightOk_same H _ _ f (step_accept_same fixed H c.s name) (hf f hfm), hp⟩

/-- for every interleaving of NewConn calls (begun, held up in WithEncryption, finished in any
    order), Listen / CloseListener calls, listener closures and accepts: the invariant holds -/
theorem finv_reachable (fixed : Bool) (H : Str → Str) (lbls : List Lbl) : FInv H (crun fixed H {} lbls) := by
  suffices ∀ c, FInv H c → FInv H (crun fixed H c lbls) from this {} (finv_init H)
  induction lbls with
  | nil => intro c h; exact h
  | cons l ls ih => intro c h; exact ih _ (finv_step fixed H c l h)

theorem checks_of_flightOk (H : Str → Str) (ls : List (Str × Listener)) (f : Flight) (hf : FlightOk H ls f) :
    ∃ l, aget ls f.req.name = some l ∧ l.lid = f.lid ∧ checks H ls f.req = .ok l := by
  obtain ⟨l, hl, h1, _, _, h4, h5⟩ := hf
  refine ⟨l, hl, h1, ?_⟩
  have ha := (allowedB_iff _ _).mpr h5
  simp only [checks, hl, h4, ne_eq, not_true_eq_false, if_false, ha, Bool.not_true, Bool.false_eq_true]

/-- the hand-over of a flight (small-step: checks earlier, PutConn now) is exactly the atomic NewConn
    on the table as it is at the moment of the hand-over -/
theorem finishPut_is_newConn (H : Str → Str) (ls : List (Str × Listener)) (f : Flight) (hf : FlightOk H ls f) :
    finishPut ls f true = newConn H ls f.req.name f.req.ts f.req.sign f.req.user f.req.conn := by
  obtain ⟨l, hl, hlid, hc⟩ := checks_of_flightOk H ls f hf
  rw [newConn_eq_checks_put, hc]
  simp only [finishPut, Bool.not_true, Bool.false_eq_true, if_false, hl, hlid, if_true]

theorem find_mem (c : CState) (conn : Nat) (f : Flight) (h : c.flights.find? (fun f => f.req.conn = conn) = some f) :
    f ∈ c.flights := List.mem_of_find?_eq_some h

/-- `finish` in full, for every reachable state: the atomic NewConn at that moment, then (when the
    last reader leaves) the waiting writers in order -/
theorem finish_refines_newConn (fixed : Bool) (H : Str → Str) (c : CState) (conn : Nat) (f : Flight) (h : FInv H c)
    (hfind : c.flights.find? (fun f => f.req.conn = conn) = some f) :
    cstep fixed H c (.finish conn true) =
      (if c.flights.filter (fun g => g.req.conn ≠ conn) = [] then
        ({ s := (flush { c.s with listeners := (newConn H c.s.listeners f.req.name f.req.ts f.req.sign f.req.user f.req.conn).1 } c.pending).1,
           flights := [], pending := [] },
         .finished (newConn H c.s.listeners f.req.name f.req.ts f.req.sign f.req.user f.req.conn).2
           (flush { c.s with listeners := (newConn H c.s.listeners f.req.name f.req.ts f.req.sign f.req.user f.req.conn).1 } c.pending).2)
      else
        ({ c with s := { c.s with listeners := (newConn H c.s.listeners f.req.name f.req.ts f.req.sign f.req.user f.req.conn).1 },
                  flights := c.flights.filter (fun g => g.req.conn ≠ conn) },
         .finished (newConn H c.s.listeners f.req.name f.req.ts f.req.sign f.req.user f.req.conn).2 [])) := by
  have hp := finishPut_is_newConn H c.s.listeners f (h.1 f (find_mem c conn f hfind))
  simp only [cstep, hfind, hp]

/-- whatever a finishing flight is handed to: that listener is registered under the requested name
    NOW, the signature is its key, the user is in its list -/
theorem finish_delivery_sound (fixed : Bool) (H : Str → Str) (c : CState) (conn lid : Nat) (f : Flight) (ws : List Out)
    (h : FInv H c) (hfind : c.flights.find? (fun f => f.req.conn = conn) = some f)
    (ho : (cstep fixed H c (.finish conn true)).2 = .finished (.queued lid) ws ∨
          (cstep fixed H c (.finish conn true)).2 = .finished (.dropped lid) ws) :
    Admissible H c.s.listeners f.req.name f.req.ts f.req.sign f.req.user lid := by
  rw [finish_refines_newConn fixed H c conn f h hfind] at ho
  apply newConn_sound H c.s.listeners f.req.name f.req.ts f.req.sign f.req.user f.req.conn lid
  split at ho
  · rcases ho with ho | ho
    · left; simp only [COut.finished.injEq] at ho; exact ho.1
    · right; simp only [COut.finished.injEq] at ho; exact ho.1
  · rcases ho with ho | ho
    · left; simp only [COut.finished.injEq] at ho; exact ho.1
    · right; simp only [COut.finished.injEq] at ho; exact ho.1

/-- the RWMutex: while any NewConn is in flight a Listen / CloseListener does not happen — it waits,
    the table is what it was -/
theorem write_waits_for_readers (fixed : Bool) (H : Str → Str) (c : CState) (w : WOp) (h : c.flights ≠ []) :
    cstep fixed H c (.write w) = ({ c with pending := c.pending ++ [w] }, .blocked) := by
  simp only [cstep, h, ne_eq, not_false_eq_true, true_or, if_true]

/-- a failing IV source: error, nothing handed over; the table changes only by the writers that waited -/
theorem finish_failed_unchanged (fixed : Bool) (H : Str → Str) (c : CState) (conn : Nat) (f : Flight)
    (hfind : c.flights.find? (fun f => f.req.conn = conn) = some f) :
    (∃ ws, (cstep fixed H c (.finish conn false)).2 = .finished (.err .encFailed) ws) ∧
    (cstep fixed H c (.finish conn false)).1.s =
      if c.flights.filter (fun g => g.req.conn ≠ conn) = [] then (flush c.s c.pending).1 else c.s := by
  simp only [cstep, hfind, finishPut, Bool.not_false, if_true]
  split
  · exact ⟨⟨_, rfl⟩, rfl⟩
  · exact ⟨⟨_, rfl⟩, rfl⟩

/-- a NewConn that is refused at its checks leaves everything as it was -/
theorem begin_refused_unchanged (fixed : Bool) (H : Str → Str) (c : CState) (r : Req) (e : Err)
    (h : (cstep fixed H c (.begin r)).2 = .conn (.err e)) : (cstep fixed H c (.begin r)).1 = c := by
  simp only [cstep] at h ⊢
  split
  · rfl
  · next hpe =>
    rw [if_neg hpe] at h
    cases hc : checks H c.s.listeners r with
    | error e' => rfl
    | ok l =>
      rw [hc] at h
      simp only at h ⊢
      by_cases he : r.enc = true
      · rw [if_pos he] at h; cases h
      · rw [if_neg he] at h ⊢
        simp only [putConn] at h ⊢
        by_cases hcl : l.closed = true
        · simp only [hcl, if_true]
        · rw [if_neg hcl] at h
          by_cases hq : l.queue.length ≥ acceptCap
          · rw [if_pos hq] at h; cases h
          · rw [if_neg hq] at h; cases h

/-- without encryption there is nothing to wait for: `begin` is the atomic NewConn -/
theorem begin_atomic (fixed : Bool) (H : Str → Str) (c : CState) (r : Req) (he : r.enc = false) (hp : c.pending = []) :
    cstep fixed H c (.begin r) =
      ({ c with s := { c.s with listeners := (newConn H c.s.listeners r.name r.ts r.sign r.user r.conn).1 } },
       .conn (newConn H c.s.listeners r.name r.ts r.sign r.user r.conn).2) := by
  have hpe : ¬ (c.pending ≠ []) := fun h => h hp
  rw [newConn_eq_checks_put]
  simp only [cstep, if_neg hpe, he, Bool.false_eq_true, if_false]
  cases checks H c.s.listeners r
  · rfl
  · rfl

theorem applyW_eq_step (fixed : Bool) (H : Str → Str) (s : State) (w : WOp) :
    applyW s w = match w with
      | .listen name sk allow => step fixed H s (.listen name sk allow)
      | .close name => step fixed H s (.closeListener name) := by
  cases w <;> rfl

theorem qinv_flush (fixed : Bool) (H : Str → Str) (ws : List WOp) : ∀ s, QInv fixed H s → QInv fixed H (flush s ws).1 := by
  induction ws with
  | nil => intro s h; exact h
  | cons w ws ih =>
    intro s h
    simp only [flush]
    apply ih
    rw [applyW_eq_step fixed H]
    cases w
    · exact qinv_step fixed H s _ h
    · exact qinv_step fixed H s _ h

/-- the queue invariant (everything waiting in an accept channel was admitted under the key and list
    of the entry holding it) is kept by every label of the concurrent system -/
theorem cqinv_step (fixed : Bool) (H : Str → Str) (c : CState) (lbl : Lbl) (hf : FInv H c) (h : QInv fixed H c.s) :
    QInv fixed H (cstep fixed H c lbl).1.s := by
  cases lbl with
  | «begin» r =>
    simp only [cstep]
    split
    · exact h
    · cases hc : checks H c.s.listeners r with
      | error e => exact h
      | ok l =>
        simp only
        split
        · exact h
        · have := qinv_newConn H c.s.listeners r.name r.ts r.sign r.user r.conn h.1
          rw [newConn_eq_checks_put, hc] at this
          exact ⟨this, h.2⟩
  | finish conn ivOk =>
    cases hfind : c.flights.find? (fun f => f.req.conn = conn) with
    | none => simp only [cstep, hfind]; exact h
    | some f =>
      have hput : QInv fixed H { c.s with listeners := (finishPut c.s.listeners f ivOk).1 } := by
        cases ivOk
        · exact h
        · rw [finishPut_is_newConn H _ f (hf.1 f (find_mem c conn f hfind))]
          exact ⟨qinv_newConn H c.s.listeners _ _ _ _ _ h.1, h.2⟩
      simp only [cstep, hfind]
      split
      · exact qinv_flush fixed H _ _ hput
      · exact hput
  | write w =>
    simp only [cstep]
    split
    · exact h
    · rw [applyW_eq_step fixed H]
      cases w
      · exact qinv_step fixed H c.s _ h
      · exact qinv_step fixed H c.s _ h
  | lclose name => exact qinv_step fixed H c.s (.lclose name) h
  | accept name => exact qinv_step fixed H c.s (.accept name) h

/-- all interleavings: both invariants hold in every state the concurrent system can reach -/
theorem cqinv_reachable (fixed : Bool) (H : Str → Str) (lbls : List Lbl) :
    FInv H (crun fixed H {} lbls) ∧ QInv fixed H (crun fixed H {} lbls).s := by
  suffices ∀ c, FInv H c → QInv fixed H c.s → FInv H (crun fixed H c lbls) ∧ QInv fixed H (crun fixed H c lbls).s from
    this {} (finv_init H) (qinv_init fixed H)
  induction lbls with
  | nil => intro c h1 h2; exact ⟨h1, h2⟩
  | cons l ls ih => intro c h1 h2; exact ih _ (finv_step fixed H c l h1) (cqinv_step fixed H c l h1 h2)

/-! ### the predicate for one observed delivery -/

/-- a connection made with (ts, sign, user) came out of the accept channel of a listener that was
    registered with (sk, allow): the property demands the key and the user -/
def deliveredOkB (H : Str → Str) (sk : Str) (allow : List Str) (ts : Int) (sign user : Str) : Bool :=
  sign == authKey H sk ts && allowedB allow user

theorem deliveredOkB_iff (H : Str → Str) (sk : Str) (allow : List Str) (ts : Int) (sign user : Str) :
    deliveredOkB H sk allow ts sign user = true ↔ sign = authKey H sk ts ∧ UserAllowed allow user := by
  simp only [deliveredOkB, Bool.and_eq_true, beq_iff_eq, allowedB_iff]

/-- in every state reachable by any interleaving, whatever an owner takes out of its accept channel
    satisfies the predicate for the owner's own key and list -/
theorem reachable_accept_delivered_ok (fixed : Bool) (H : Str → Str) (lbls : List Lbl) (name : Str) (l : Listener)
    (q : QItem) (rest : List QItem)
    (hl : aget (crun fixed H {} lbls).s.listeners name = some l) (hq : l.queue = q :: rest) :
    deliveredOkB H l.sk l.allow q.ts q.sign q.user = true := by
  rw [deliveredOkB_iff]
  have := (cqinv_reachable fixed H lbls).2.1 _ (mem_of_aget _ _ _ hl) q (by simp only [hq]; exact List.mem_cons_self)
  exact this

/-! ### non-vacuity: a concrete interleaving -/

def exReq : Req := { name := [112], ts := 7, sign := authKey exH [115] 7, user := [97], conn := 1, enc := true }

/-- listen p (key s, [a]); NewConn p begins and stands in WithEncryption; CloseListener p and
    Listen p (key t, [b]) arrive: both wait; the NewConn finishes -/
def exLbls : List Lbl :=
  [.write (.listen [112] [115] [[97]]), .begin exReq, .write (.close [112]), .write (.listen [112] [116] [[98]])]

example : (crun false exH {} exLbls).flights.length = 1 ∧ (crun false exH {} exLbls).pending.length = 2 ∧
    (aget (crun false exH {} exLbls).s.listeners [112]).map core = some (0, [115], [[97]]) := by decide +kernel
-- the connection is handed to listener 0 (the one it was checked against); then the two writers run
example : (cstep false exH (crun false exH {} exLbls) (.finish 1 true)).2 = .finished (.queued 0) [.ok, .ok] := by
  decide +kernel
-- afterwards p is the new listener 1 with the new key and an empty accept channel
example : (aget (cstep false exH (crun false exH {} exLbls) (.finish 1 true)).1.s.listeners [112]).map
    (fun l => (core l, l.queue)) = some ((1, [116], [[98]]), []) := by decide +kernel
-- a failing IV source: error, and the writers run all the same
example : (cstep false exH (crun false exH {} exLbls) (.finish 1 false)).2 = .finished (.err .encFailed) [.ok, .ok] := by
  decide +kernel
-- the hypotheses of finish_delivery_sound are met
example : (crun false exH {} exLbls).flights.find? (fun f => f.req.conn = 1) =
    some { req := exReq, lid := 0, sk := [115], allow := [[97]] } := by decide +kernel

open XtcpVisitor

/-! ## §7 the xtcp visitor of frpc (client/visitor/xtcp.go, Frp/Model/XtcpVisitor.lean) -/

/-! ### makeNatHole against the server: a tunnel session only for the key and an allowed user -/

/-- the visitor configured with `cfg`, logged in as `env.user`, is one the server must admit to the proxy -/
def XtAdmitted (env : Env) (cfg : Cfg) : Prop :=
  ∃ (ts : Int) (c : NatCfg), aget env.cfgs cfg.server = some c ∧
    authKey env.H cfg.sk ts = authKey env.H c.sk ts ∧ UserAllowed c.allow env.user

/-- the signed request is what `util.GetAuthKey(SecretKey, now)` gives for the timestamp sent along -/
theorem xv_request_signed (H : Str → Str) (cfg : Cfg) (now : Int) : visitSign H cfg now = authKey H cfg.sk now := rfl

/-- makeNatHole reaches session.Init only through all five stages -/
theorem xv_hole_ok_iff (env : Env) (cfg : Cfg) (now : Int) (prepareOk punchOk initOk : Bool) :
    holeRes env cfg now prepareOk punchOk initOk = .ok ↔
      preAnswer env cfg = .preOk ∧ prepareOk = true ∧ (∃ ch, exchAnswer env cfg now = .granted ch) ∧
        punchOk = true ∧ initOk = true := by
  unfold holeRes
  split
  · next e h => simp [h]
  · next ch h => simp [h]
  · next h =>
    cases prepareOk
    · simp [h]
    · simp only [Bool.not_true, Bool.false_eq_true, if_false, h, true_and]
      split
      · next e h2 => simp [h2]
      · next h2 => simp [h2]
      · next ch h2 => cases punchOk <;> cases initOk <;> simp [h2]

/-- … and then the server has seen the proxy's key and an allowed user — whether or not the server's
    session branch itself looks at the allow list (`env.fixed`): the pre-check does -/
theorem xv_hole_ok_entitled (env : Env) (cfg : Cfg) (now : Int) (prepareOk punchOk initOk : Bool)
    (h : holeRes env cfg now prepareOk punchOk initOk = .ok) : XtAdmitted env cfg := by
  obtain ⟨hpre, _, ⟨ch, hex⟩, _, _⟩ := (xv_hole_ok_iff env cfg now prepareOk punchOk initOk).mp h
  obtain ⟨c, hc, hu⟩ := precheck_sound env.fixed env.H env.cfgs [] [] cfg.server 0 [] env.user hpre
  obtain ⟨c', hc', _, hk, _⟩ := nat_grant_partial env.fixed env.H env.cfgs [] [] cfg.server now (visitSign env.H cfg now) env.user ch hex
  rw [hc] at hc'
  cases hc'
  exact ⟨now, c, hc, hk, hu⟩

/-! ### basic facts about the state functions -/

theorem find_map_phase (l : List Conn) (c c' : Nat) (p : Phase) :
    (l.map (fun x => if x.id = c then { x with phase := p } else x)).find? (fun x => x.id == c') =
      if c' = c then (l.find? (fun x => x.id == c)).map (fun x => { x with phase := p })
      else l.find? (fun x => x.id == c') := by
  induction l with
  | nil => simp
  | cons x t ih =>
    by_cases hx : x.id = c
    · by_cases hc : c' = c
      · subst hc; simp [-List.find?_map, hx]
      · have : ¬ c = c' := fun e => hc e.symm
        simp only [hc, if_false] at ih
        simp [-List.find?_map, hx, hc, this, ih]
    · by_cases hc : c' = c
      · subst hc
        simp only [if_true] at ih
        simp [-List.find?_map, hx, ih]
      · simp only [hc, if_false] at ih
        by_cases hx' : x.id = c'
        · simp [-List.find?_map, hc, hx']
        · simp [-List.find?_map, hx, hc, hx', ih]

theorem getC_setPhase (s : St) (c c' : Nat) (p : Phase) :
    getC (setPhase s c p) c' = if c' = c then (getC s c).map (fun x => { x with phase := p }) else getC s c' := by
  unfold getC setPhase
  exact find_map_phase s.conns c c' p

theorem getC_id (s : St) (c : Nat) (x : Conn) (h : getC s c = some x) : x.id = c := by
  unfold getC at h
  have := List.find?_some h
  simpa using this

theorem opening_some (s : St) (c : Nat) (x : Conn) (h : opening? s c = some x) :
    getC s c = some x ∧ x.phase = .opening ∧ x.id = c := by
  unfold opening? at h
  split at h
  · next y hy =>
    by_cases hp : y.phase = .opening
    · simp [hp] at h; subst h; exact ⟨hy, hp, getC_id s c y hy⟩
    · simp [hp] at h
  · cases h

/-- what getTunnelConn can do to the state -/
theorem gt_cases (s : St) :
    ((getTunnelConn s).2 = none ∨ ∃ k, (getTunnelConn s).2 = some k ∧ s.sess = some k ∧ (getTunnelConn s).1 = s) ∧
    (getTunnelConn s).1.conns = s.conns ∧ (getTunnelConn s).1.hands = s.hands ∧ (getTunnelConn s).1.now = s.now ∧
    (getTunnelConn s).1.closedV = s.closedV ∧ (getTunnelConn s).1.tokens = s.tokens ∧
    (getTunnelConn s).1.keepFails = s.keepFails ∧ (getTunnelConn s).1.refills = s.refills ∧
    (∀ k, (getTunnelConn s).1.sess = some k → s.sess = some k) ∧
    (((getTunnelConn s).1.starter = s.starter ∧ (getTunnelConn s).1.starts = s.starts) ∨
     (s.starter = .idle ∧ (getTunnelConn s).1.starter = .punching s.now ∧ (getTunnelConn s).1.starts = s.now :: s.starts)) := by
  unfold getTunnelConn
  split
  · next k hs ha => exact ⟨.inr ⟨k, rfl, hs, rfl⟩, rfl, rfl, rfl, rfl, rfl, rfl, rfl, fun _ h => h, .inl ⟨rfl, rfl⟩⟩
  · simp only [signalStart]
    split
    · next hst hcl =>
      refine ⟨.inl (by first | rfl | trivial), rfl, rfl, rfl, rfl, rfl, rfl, rfl, ?_, .inr ⟨hst, rfl, rfl⟩⟩
      intro k h; cases h
    · refine ⟨.inl (by first | rfl | trivial), rfl, rfl, rfl, rfl, rfl, rfl, rfl, ?_, .inl ⟨rfl, rfl⟩⟩
      intro k h; cases h

/-! ### a user connection is served by exactly one of {tunnel, fallback visitor}, never both -/

def servedN : Option Conn → Nat
  | some x => match x.phase with
    | .tunnel _ => 1
    | .fallback => 1
    | _ => 0
  | none => 0

def phaseOf : Dest → Phase
  | .tunnel k => .tunnel k
  | .fallback => .fallback

def handsOf (hands : List Hand) (c : Nat) : List Hand := hands.filter (fun h => h.conn == c)

/-- the number of hand-overs of `c` is 1 when it is joined to a tunnel stream or transferred, else 0 -/
def HandInv (s : St) : Prop := ∀ c, (handsOf s.hands c).length = servedN (getC s c)

/-- every recorded hand-over is what the connection's phase says -/
def DestInv (s : St) : Prop :=
  ∀ h ∈ s.hands, ∃ x, getC s h.conn = some x ∧ x.phase = phaseOf h.dest ∧ x.since = h.since

/-- how one label changes connections and hand-overs: nothing, the opening connection `x` is closed, or it
    is handed over once -/
inductive Upd (s : St) (x : Conn) : St → Prop
  | same (s' : St) (hc : s'.conns = s.conns) (hh : s'.hands = s.hands) : Upd s x s'
  | drop (s' : St) (w : Why) (hc : s'.conns = (setPhase s x.id (.closed w)).conns) (hh : s'.hands = s.hands) : Upd s x s'
  | hand (s' : St) (h : Hand) (hc : s'.conns = (setPhase s x.id (phaseOf h.dest)).conns) (hh : s'.hands = h :: s.hands)
      (hid : h.conn = x.id) (hs : h.since = x.since) : Upd s x s'

theorem getC_congr {s s' : St} (h : s'.conns = s.conns) (c : Nat) : getC s' c = getC s c := by
  unfold getC; rw [h]

theorem upd_inv (s s' : St) (x : Conn) (hx : getC s x.id = some x) (hp : x.phase = .opening) (u : Upd s x s')
    (hi : HandInv s) (hd : DestInv s) : HandInv s' ∧ DestInv s' := by
  have h0 : (handsOf s.hands x.id).length = 0 := by rw [hi x.id, hx]; simp [servedN, hp]
  cases u with
  | same hc hh =>
    constructor
    · intro c; rw [hh, getC_congr hc]; exact hi c
    · intro h hm; rw [hh] at hm; rw [getC_congr hc]; exact hd h hm
  | drop w hc hh =>
    constructor
    · intro c
      rw [hh, getC_congr hc, getC_setPhase]
      by_cases e : c = x.id
      · subst e; simp [hx, servedN, h0]
      · simp [e, hi c]
    · intro h hm
      rw [hh] at hm
      obtain ⟨y, hy, hyp, hys⟩ := hd h hm
      rw [getC_congr hc, getC_setPhase]
      by_cases e : h.conn = x.id
      · exfalso
        rw [e, hx] at hy
        cases hy
        rw [hp] at hyp
        cases hdst : h.dest <;> simp [hdst, phaseOf] at hyp
      · simp [e]; exact ⟨y, hy, hyp, hys⟩
  | hand h hc hh hid hs =>
    constructor
    · intro c
      rw [hh, getC_congr hc, getC_setPhase]
      by_cases e : c = x.id
      · subst e
        have : (handsOf (h :: s.hands) x.id).length = 1 := by
          simp only [handsOf, List.filter_cons, hid, beq_self_eq_true, if_true, List.length_cons]
          have := h0
          simp only [handsOf] at this
          omega
        rw [this]
        cases hdst : h.dest <;> simp [hx, servedN, phaseOf]
      · have hne : ¬ h.conn = c := by rw [hid]; exact fun e' => e e'.symm
        simp only [e, if_false, handsOf, List.filter_cons]
        have : (h.conn == c) = false := by simp [hne]
        rw [this]
        exact hi c
    · intro h' hm
      rw [hh] at hm
      rw [getC_congr hc, getC_setPhase]
      rcases List.mem_cons.mp hm with e | hm'
      · subst e
        simp [hid, hx, hs]
      · obtain ⟨y, hy, hyp, hys⟩ := hd h' hm'
        by_cases e : h'.conn = x.id
        · exfalso
          rw [e, hx] at hy
          cases hy
          rw [hp] at hyp
          cases hdst : h'.dest <;> simp [hdst, phaseOf] at hyp
        · simp [e]; exact ⟨y, hy, hyp, hys⟩

theorem setPhase_hands (s : St) (c : Nat) (p : Phase) : (setPhase s c p).hands = s.hands := rfl

theorem joinTunnel_upd (cfg : Cfg) (s : St) (x : Conn) (k : Nat) (ivOk : Bool) : Upd s x (joinTunnel cfg s x k ivOk) := by
  unfold joinTunnel
  split
  · exact .drop _ .encFailed rfl rfl
  · exact .hand _ { conn := x.id, dest := .tunnel k, cause := .stream, time := s.now, since := x.since } rfl rfl rfl rfl

theorem attempt_upd (cfg : Cfg) (s : St) (x : Conn) (ivOk : Bool) : Upd s x (attempt cfg s x ivOk) := by
  unfold attempt
  have g := gt_cases s
  split
  · next s1 k hg =>
    have h1 : (getTunnelConn s).1 = s1 := by rw [hg]
    have h2 : (getTunnelConn s).2 = some k := by rw [hg]
    rcases g.1 with hn | ⟨k', hk', _, hs⟩
    · rw [h2] at hn; cases hn
    · rw [h1] at hs; subst hs; exact joinTunnel_upd cfg s1 x k ivOk
  · next s1 hg =>
    have h1 : (getTunnelConn s).1 = s1 := by rw [hg]
    rw [← h1]
    exact .same _ g.2.1 g.2.2.1

theorem giveUp_upd (cfg : Cfg) (s : St) (x : Conn) (cause : Cause) (xferOk : Bool) : Upd s x (giveUp cfg s x cause xferOk) := by
  unfold giveUp
  split
  · exact .drop _ .noTunnel rfl rfl
  · split
    · exact .drop _ .transferFailed rfl rfl
    · exact .hand _ { conn := x.id, dest := .fallback, cause := cause, time := s.now, since := x.since } rfl rfl rfl rfl

/-- labels that do not touch connections or hand-overs -/
theorem frame_inv (s s' : St) (hc : s'.conns = s.conns) (hh : s'.hands = s.hands) (hi : HandInv s) (hd : DestInv s) :
    HandInv s' ∧ DestInv s' := by
  constructor
  · intro c; rw [hh, getC_congr hc]; exact hi c
  · intro h hm; rw [hh] at hm; rw [getC_congr hc]; exact hd h hm

theorem served_step (env : Env) (cfg : Cfg) (s : St) (e : Ev) (hi : HandInv s) (hd : DestInv s) :
    HandInv (xstep env cfg s e) ∧ DestInv (xstep env cfg s e) := by
  cases e with
  | advance d => exact frame_inv s _ rfl rfl hi hd
  | arrive c ivOk =>
    simp only [xstep]
    split
    · exact ⟨hi, hd⟩
    · split
      · exact ⟨hi, hd⟩
      · next hnone =>
        -- the new connection, opening, no hand-over yet
        let x : Conn := { id := c, since := s.now, phase := .opening }
        let s0 : St := { s with conns := x :: s.conns }
        have hx0 : getC s0 x.id = some x := by simp [getC, s0, x]
        have hget : ∀ c', getC s0 c' = if c' = c then some x else getC s c' := by
          intro c'
          by_cases e : c' = c
          · subst e; simp [getC, s0, x]
          · have : ¬ c = c' := fun e' => e e'.symm
            simp [getC, s0, x, e, this]
        have hi0 : HandInv s0 := by
          intro c'
          rw [hget]
          by_cases e : c' = c
          · subst e; simp [servedN, x]; have := hi c'; rw [hnone] at this; simpa [servedN, s0] using this
          · simp [e]; exact hi c'
        have hd0 : DestInv s0 := by
          intro h hm
          obtain ⟨y, hy, hyp, hys⟩ := hd h hm
          rw [hget]
          by_cases e : h.conn = c
          · rw [e, hnone] at hy; cases hy
          · simp [e]; exact ⟨y, hy, hyp, hys⟩
        exact upd_inv s0 _ x hx0 rfl (attempt_upd cfg s0 x ivOk) hi0 hd0
  | tick c ivOk =>
    simp only [xstep]
    split
    · next x hx =>
      obtain ⟨hg, hp, hid⟩ := opening_some s c x hx
      exact upd_inv s _ x (hid ▸ hg) hp (attempt_upd cfg s x ivOk) hi hd
    · exact ⟨hi, hd⟩
  | ctxDone c xferOk =>
    simp only [xstep]
    split
    · next x hx =>
      obtain ⟨hg, hp, hid⟩ := opening_some s c x hx
      split
      · exact upd_inv s _ x (hid ▸ hg) hp (giveUp_upd cfg s x _ xferOk) hi hd
      · exact ⟨hi, hd⟩
    · exact ⟨hi, hd⟩
  | limit20 c xferOk =>
    simp only [xstep]
    split
    · next x hx =>
      obtain ⟨hg, hp, hid⟩ := opening_some s c x hx
      split
      · exact upd_inv s _ x (hid ▸ hg) hp (giveUp_upd cfg s x _ xferOk) hi hd
      · exact ⟨hi, hd⟩
    · exact ⟨hi, hd⟩
  | vctxDone c xferOk =>
    simp only [xstep]
    split
    · next x hx =>
      obtain ⟨hg, hp, hid⟩ := opening_some s c x hx
      split
      · exact upd_inv s _ x (hid ▸ hg) hp (giveUp_upd cfg s x _ xferOk) hi hd
      · exact ⟨hi, hd⟩
    · exact ⟨hi, hd⟩
  | hole ts a b c =>
    simp only [xstep]
    split
    · split <;> split <;> exact frame_inv s _ rfl rfl hi hd
    · exact ⟨hi, hd⟩
  | coolDone =>
    simp only [xstep]
    split
    · split
      · exact frame_inv s _ rfl rfl hi hd
      · exact ⟨hi, hd⟩
    · exact ⟨hi, hd⟩
  | peerGone => exact frame_inv s _ rfl rfl hi hd
  | keepTick =>
    simp only [xstep]
    have g := gt_cases s
    split
    · exact ⟨hi, hd⟩
    · split
      · next s1 k hg =>
        have h1 : (getTunnelConn s).1 = s1 := by rw [hg]
        rw [← h1]; exact frame_inv s _ g.2.1 g.2.2.1 hi hd
      · next s1 hg =>
        have h1 : (getTunnelConn s).1 = s1 := by rw [hg]
        split
        · rw [← h1]; exact frame_inv s _ g.2.1 g.2.2.1 hi hd
        · exact frame_inv s _ (by rw [← h1]; exact g.2.1) (by rw [← h1]; exact g.2.2.1) hi hd
  | refill =>
    simp only [xstep]
    split
    · exact frame_inv s _ rfl rfl hi hd
    · exact ⟨hi, hd⟩
  | close => exact frame_inv s _ rfl rfl hi hd

theorem served_init (cfg : Cfg) : HandInv (xinit cfg) ∧ DestInv (xinit cfg) := by
  unfold xinit
  split <;> exact ⟨fun c => by simp [handsOf, getC, servedN], fun h hm => by cases hm⟩

theorem served_reachable (env : Env) (cfg : Cfg) (es : List Ev) :
    ∀ s, HandInv s → DestInv s → HandInv (xrun env cfg s es) ∧ DestInv (xrun env cfg s es) := by
  induction es with
  | nil => intro s hi hd; exact ⟨hi, hd⟩
  | cons e es ih => intro s hi hd; exact ih _ (served_step env cfg s e hi hd).1 (served_step env cfg s e hi hd).2

/-- for every history of labels: each user connection has been handed over at most once, and exactly once
    iff it is joined to a tunnel stream or transferred to the fallback visitor -/
theorem xv_served_once (env : Env) (cfg : Cfg) (es : List Ev) (c : Nat) :
    (handsOf (xrun env cfg (xinit cfg) es).hands c).length ≤ 1 ∧
    ((handsOf (xrun env cfg (xinit cfg) es).hands c).length = 1 ↔
      ∃ x, getC (xrun env cfg (xinit cfg) es) c = some x ∧ (x.phase = .fallback ∨ ∃ k, x.phase = .tunnel k)) := by
  have h := (served_reachable env cfg es (xinit cfg) (served_init cfg).1 (served_init cfg).2).1 c
  rw [h]
  cases hg : getC (xrun env cfg (xinit cfg) es) c with
  | none => simp [servedN]
  | some x => cases hp : x.phase <;> simp [servedN, hp]

/-- … never by both: two hand-overs of the same connection have the same destination (same tunnel session
    or both the fallback visitor) — and by `xv_served_once` they are the same record -/
theorem xv_never_both (env : Env) (cfg : Cfg) (es : List Ev) (h1 h2 : Hand)
    (m1 : h1 ∈ (xrun env cfg (xinit cfg) es).hands) (m2 : h2 ∈ (xrun env cfg (xinit cfg) es).hands)
    (hc : h1.conn = h2.conn) : h1.dest = h2.dest := by
  have hd := (served_reachable env cfg es (xinit cfg) (served_init cfg).1 (served_init cfg).2).2
  obtain ⟨x1, g1, p1, _⟩ := hd h1 m1
  obtain ⟨x2, g2, p2, _⟩ := hd h2 m2
  rw [hc, g2] at g1
  cases g1
  rw [p2] at p1
  cases d1 : h1.dest <;> cases d2 : h2.dest <;> simp [d1, d2, phaseOf] at p1 <;> simp [p1]

/-! ### never dropped silently while a fallback is configured -/

/-- why a user connection can end up closed without having been served -/
def ClosedInv (cfg : Cfg) (s : St) : Prop :=
  ∀ c x w, getC s c = some x → x.phase = .closed w →
    (w = .noTunnel ∧ cfg.fallback = false) ∨ (w = .transferFailed ∧ cfg.fallback = true) ∨ (w = .encFailed ∧ cfg.enc = true)

/-- labels on which neither helper.TransferConn nor the IV source fails -/
def GoodEv : Ev → Bool
  | .arrive _ ivOk => ivOk
  | .tick _ ivOk => ivOk
  | .ctxDone _ xferOk => xferOk
  | .limit20 _ xferOk => xferOk
  | .vctxDone _ xferOk => xferOk
  | _ => true

/-- no connection is closed at all -/
def NoneClosed (s : St) : Prop := ∀ c x w, getC s c = some x → x.phase ≠ .closed w

/-- what `attempt` can do to a connection's phase, to the hand-overs, and which other fields it leaves alone -/
theorem joinTunnel_char (cfg : Cfg) (s : St) (x : Conn) (k : Nat) (ivOk : Bool) :
    (∀ c y, getC (joinTunnel cfg s x k ivOk) c = some y → getC s c = some y ∨
      (c = x.id ∧ ((y.phase = .closed .encFailed ∧ cfg.enc = true ∧ ivOk = false) ∨ y.phase = .tunnel k))) ∧
    (∀ h ∈ (joinTunnel cfg s x k ivOk).hands, h ∈ s.hands ∨
      h = { conn := x.id, dest := .tunnel k, cause := .stream, time := s.now, since := x.since }) := by
  unfold joinTunnel
  split
  · next hc =>
    simp only [Bool.and_eq_true, Bool.not_eq_true'] at hc
    refine ⟨?_, fun h hm => .inl hm⟩
    intro c y hy
    rw [getC_setPhase] at hy
    by_cases e : c = x.id
    · subst e
      right
      cases hg : getC s x.id with
      | none => simp [hg] at hy
      | some z => simp [hg] at hy; exact ⟨rfl, .inl ⟨by rw [← hy], hc.1, hc.2⟩⟩
    · left; simpa [e] using hy
  · refine ⟨?_, ?_⟩
    · intro c y hy
      have hy' : getC (setPhase s x.id (.tunnel k)) c = some y := by rw [← hy]; rfl
      rw [getC_setPhase] at hy'
      by_cases e : c = x.id
      · subst e
        right
        cases hg : getC s x.id with
        | none => simp [hg] at hy'
        | some z => simp [hg] at hy'; exact ⟨rfl, .inr (by rw [← hy'])⟩
      · left; simpa [e] using hy'
    · intro h hm
      rcases List.mem_cons.mp hm with e | hm'
      · exact .inr e
      · exact .inl hm'

theorem attempt_char (cfg : Cfg) (s : St) (x : Conn) (ivOk : Bool) :
    (∀ c y, getC (attempt cfg s x ivOk) c = some y → getC s c = some y ∨
      (c = x.id ∧ ((y.phase = .closed .encFailed ∧ cfg.enc = true ∧ ivOk = false) ∨ ∃ k, y.phase = .tunnel k))) ∧
    (∀ h ∈ (attempt cfg s x ivOk).hands, h ∈ s.hands ∨
      ∃ k, s.sess = some k ∧ h = { conn := x.id, dest := .tunnel k, cause := .stream, time := s.now, since := x.since }) := by
  unfold attempt
  have g := gt_cases s
  split
  · next s1 k hg =>
    have h1 : (getTunnelConn s).1 = s1 := by rw [hg]
    have h2 : (getTunnelConn s).2 = some k := by rw [hg]
    rcases g.1 with hn | ⟨k', hk', hsess, hs⟩
    · rw [h2] at hn; cases hn
    · rw [h1] at hs; subst hs
      rw [h2] at hk'; cases hk'
      have j := joinTunnel_char cfg s1 x k ivOk
      refine ⟨?_, ?_⟩
      · intro c y hy
        rcases j.1 c y hy with a | ⟨e, b⟩
        · exact .inl a
        · exact .inr ⟨e, b.elim .inl (fun t => .inr ⟨k, t⟩)⟩
      · intro h hm
        rcases j.2 h hm with a | b
        · exact .inl a
        · exact .inr ⟨k, hsess, b⟩
  · next s1 hg =>
    have h1 : (getTunnelConn s).1 = s1 := by rw [hg]
    rw [← h1]
    refine ⟨fun c y hy => .inl (by rw [← getC_congr g.2.1]; exact hy), fun h hm => .inl (by rw [← g.2.2.1]; exact hm)⟩

theorem giveUp_char (cfg : Cfg) (s : St) (x : Conn) (cause : Cause) (xferOk : Bool) :
    (∀ c y, getC (giveUp cfg s x cause xferOk) c = some y → getC s c = some y ∨
      (c = x.id ∧ ((y.phase = .closed .noTunnel ∧ cfg.fallback = false) ∨
                   (y.phase = .closed .transferFailed ∧ cfg.fallback = true ∧ xferOk = false) ∨ y.phase = .fallback))) ∧
    (∀ h ∈ (giveUp cfg s x cause xferOk).hands, h ∈ s.hands ∨
      (cfg.fallback = true ∧ h = { conn := x.id, dest := .fallback, cause := cause, time := s.now, since := x.since })) := by
  have key : ∀ (p : Phase) (s' : St), s'.conns = (setPhase s x.id p).conns → ∀ c y, getC s' c = some y →
      getC s c = some y ∨ (c = x.id ∧ y.phase = p) := by
    intro p s' hc c y hy
    rw [getC_congr hc, getC_setPhase] at hy
    by_cases e : c = x.id
    · subst e
      right
      cases hg : getC s x.id with
      | none => simp [hg] at hy
      | some z => simp [hg] at hy; exact ⟨rfl, by rw [← hy]⟩
    · left; simpa [e] using hy
  unfold giveUp
  split
  · next hf =>
    simp only [Bool.not_eq_true'] at hf
    refine ⟨fun c y hy => (key _ _ rfl c y hy).elim .inl (fun t => .inr ⟨t.1, .inl ⟨t.2, hf⟩⟩), fun h hm => .inl hm⟩
  · next hf =>
    simp only [Bool.not_eq_true', Bool.not_eq_false] at hf
    split
    · next hx =>
      simp only [Bool.not_eq_true'] at hx
      refine ⟨fun c y hy => (key _ _ rfl c y hy).elim .inl (fun t => .inr ⟨t.1, .inr (.inl ⟨t.2, hf, hx⟩)⟩), fun h hm => .inl hm⟩
    · refine ⟨fun c y hy => (key .fallback _ rfl c y hy).elim .inl (fun t => .inr ⟨t.1, .inr (.inr t.2)⟩), ?_⟩
      intro h hm
      rcases List.mem_cons.mp hm with e | hm'
      · exact .inr ⟨hf, e⟩
      · exact .inl hm'

/-- a hand-over made in state `s`: to a stream of the session that exists then, or — only with FallbackTo set —
    to the fallback visitor after the fallback timeout, after openTunnel's 20 s, or because the visitor was closed -/
def NewHand (cfg : Cfg) (s : St) (h : Hand) : Prop :=
  h.time = s.now ∧
  ((∃ k, h.dest = .tunnel k ∧ h.cause = .stream ∧ s.sess = some k) ∨
   (h.dest = .fallback ∧ cfg.fallback = true ∧
     ((h.cause = .deadline ∧ h.since + cfg.fallbackMs ≤ s.now) ∨ (h.cause = .limit20 ∧ h.since + 20000 ≤ s.now) ∨
      (h.cause = .vclosed ∧ s.closedV = true))))

def Reason (cfg : Cfg) (e : Ev) (w : Why) : Prop :=
  (w = .noTunnel ∧ cfg.fallback = false) ∨ (w = .transferFailed ∧ cfg.fallback = true ∧ GoodEv e = false) ∨
  (w = .encFailed ∧ cfg.enc = true ∧ GoodEv e = false)

theorem step_hands (env : Env) (cfg : Cfg) (s : St) (e : Ev) :
    ∀ h ∈ (xstep env cfg s e).hands, h ∈ s.hands ∨ NewHand cfg s h := by
  have fromAttempt : ∀ (s0 : St) (x : Conn) (ivOk : Bool), s0.hands = s.hands → s0.sess = s.sess → s0.now = s.now →
      ∀ h ∈ (attempt cfg s0 x ivOk).hands, h ∈ s.hands ∨ NewHand cfg s h := by
    intro s0 x ivOk hh hs hn h hm
    rcases (attempt_char cfg s0 x ivOk).2 h hm with a | ⟨k, hk, e⟩
    · exact .inl (hh ▸ a)
    · subst e; exact .inr ⟨hn, .inl ⟨k, rfl, rfl, hs ▸ hk⟩⟩
  cases e with
  | advance d => exact fun h hm => .inl hm
  | arrive c ivOk =>
    simp only [xstep]
    split
    · exact fun h hm => .inl hm
    · split
      · exact fun h hm => .inl hm
      · exact fromAttempt _ _ ivOk rfl rfl rfl
  | tick c ivOk =>
    simp only [xstep]
    split
    · exact fromAttempt s _ ivOk rfl rfl rfl
    · exact fun h hm => .inl hm
  | ctxDone c xferOk =>
    simp only [xstep]
    split
    · next x hx =>
      split
      · next hg =>
        simp only [Bool.and_eq_true, decide_eq_true_eq] at hg
        intro h hm
        rcases (giveUp_char cfg s x .deadline xferOk).2 h hm with a | ⟨hf, e⟩
        · exact .inl a
        · subst e; exact .inr ⟨rfl, .inr ⟨rfl, hf, .inl ⟨rfl, hg.2⟩⟩⟩
      · exact fun h hm => .inl hm
    · exact fun h hm => .inl hm
  | limit20 c xferOk =>
    simp only [xstep]
    split
    · next x hx =>
      split
      · next hg =>
        simp only [decide_eq_true_eq] at hg
        intro h hm
        rcases (giveUp_char cfg s x .limit20 xferOk).2 h hm with a | ⟨hf, e⟩
        · exact .inl a
        · subst e; exact .inr ⟨rfl, .inr ⟨rfl, hf, .inr (.inl ⟨rfl, hg⟩)⟩⟩
      · exact fun h hm => .inl hm
    · exact fun h hm => .inl hm
  | vctxDone c xferOk =>
    simp only [xstep]
    split
    · next x hx =>
      split
      · next hg =>
        intro h hm
        rcases (giveUp_char cfg s x .vclosed xferOk).2 h hm with a | ⟨hf, e⟩
        · exact .inl a
        · subst e; exact .inr ⟨rfl, .inr ⟨rfl, hf, .inr (.inr ⟨rfl, hg⟩)⟩⟩
      · exact fun h hm => .inl hm
    · exact fun h hm => .inl hm
  | hole ts a b c =>
    simp only [xstep]
    split
    · split <;> split <;> exact fun h hm => .inl hm
    · exact fun h hm => .inl hm
  | coolDone =>
    simp only [xstep]
    split
    · split <;> exact fun h hm => .inl hm
    · exact fun h hm => .inl hm
  | peerGone => exact fun h hm => .inl hm
  | keepTick =>
    simp only [xstep]
    have g := gt_cases s
    split
    · exact fun h hm => .inl hm
    · split
      · next s1 k hg =>
        have h1 : (getTunnelConn s).1 = s1 := by rw [hg]
        rw [← h1, g.2.2.1]; exact fun h hm => .inl hm
      · next s1 hg =>
        have h1 : (getTunnelConn s).1 = s1 := by rw [hg]
        split
        · rw [← h1, g.2.2.1]; exact fun h hm => .inl hm
        · intro h hm
          have : h ∈ s1.hands := hm
          rw [← h1, g.2.2.1] at this
          exact .inl this
  | refill =>
    simp only [xstep]
    split <;> exact fun h hm => .inl hm
  | close => exact fun h hm => .inl hm

theorem step_phase (env : Env) (cfg : Cfg) (s : St) (e : Ev) (c : Nat) (y : Conn)
    (hy : getC (xstep env cfg s e) c = some y) :
    getC s c = some y ∨ y.phase = .opening ∨ (∃ k, y.phase = .tunnel k) ∨ y.phase = .fallback ∨
      ∃ w, y.phase = .closed w ∧ Reason cfg e w := by
  have fromAttempt : ∀ (s0 : St) (x : Conn) (ivOk : Bool), GoodEv e = ivOk →
      getC (attempt cfg s0 x ivOk) c = some y →
      getC s0 c = some y ∨ (∃ k, y.phase = .tunnel k) ∨ ∃ w, y.phase = .closed w ∧ Reason cfg e w := by
    intro s0 x ivOk hg h
    rcases (attempt_char cfg s0 x ivOk).1 c y h with a | ⟨_, b | b⟩
    · exact .inl a
    · exact .inr (.inr ⟨_, b.1, .inr (.inr ⟨rfl, b.2.1, hg ▸ b.2.2⟩)⟩)
    · exact .inr (.inl b)
  have fromGiveUp : ∀ (x : Conn) (cause : Cause) (xferOk : Bool), GoodEv e = xferOk →
      getC (giveUp cfg s x cause xferOk) c = some y →
      getC s c = some y ∨ y.phase = .fallback ∨ ∃ w, y.phase = .closed w ∧ Reason cfg e w := by
    intro x cause xferOk hg h
    rcases (giveUp_char cfg s x cause xferOk).1 c y h with a | ⟨_, b | b | b⟩
    · exact .inl a
    · exact .inr (.inr ⟨_, b.1, .inl ⟨rfl, b.2⟩⟩)
    · exact .inr (.inr ⟨_, b.1, .inr (.inl ⟨rfl, b.2.1, hg ▸ b.2.2⟩)⟩)
    · exact .inr (.inl b)
  cases e with
  | advance d => exact .inl hy
  | arrive c0 ivOk =>
    simp only [xstep] at hy
    split at hy
    · exact .inl hy
    · split at hy
      · exact .inl hy
      · rcases fromAttempt _ _ ivOk rfl hy with a | b | b
        · by_cases e : c = c0
          · subst e
            have : y = { id := c, since := s.now, phase := .opening } := by
              simp [getC] at a; exact a.symm
            subst this; exact .inr (.inl rfl)
          · have hne : ¬ c0 = c := fun e' => e e'.symm
            left
            simpa [getC, hne] using a
        · exact .inr (.inr (.inl b))
        · exact .inr (.inr (.inr (.inr b)))
  | tick c0 ivOk =>
    simp only [xstep] at hy
    split at hy
    · rcases fromAttempt s _ ivOk rfl hy with a | b | b
      · exact .inl a
      · exact .inr (.inr (.inl b))
      · exact .inr (.inr (.inr (.inr b)))
    · exact .inl hy
  | ctxDone c0 xferOk =>
    simp only [xstep] at hy
    split at hy
    · split at hy
      · rcases fromGiveUp _ _ xferOk rfl hy with a | b | b
        · exact .inl a
        · exact .inr (.inr (.inr (.inl b)))
        · exact .inr (.inr (.inr (.inr b)))
      · exact .inl hy
    · exact .inl hy
  | limit20 c0 xferOk =>
    simp only [xstep] at hy
    split at hy
    · split at hy
      · rcases fromGiveUp _ _ xferOk rfl hy with a | b | b
        · exact .inl a
        · exact .inr (.inr (.inr (.inl b)))
        · exact .inr (.inr (.inr (.inr b)))
      · exact .inl hy
    · exact .inl hy
  | vctxDone c0 xferOk =>
    simp only [xstep] at hy
    split at hy
    · split at hy
      · rcases fromGiveUp _ _ xferOk rfl hy with a | b | b
        · exact .inl a
        · exact .inr (.inr (.inr (.inl b)))
        · exact .inr (.inr (.inr (.inr b)))
      · exact .inl hy
    · exact .inl hy
  | hole ts a b c0 =>
    simp only [xstep] at hy
    split at hy
    · split at hy <;> split at hy <;> exact .inl hy
    · exact .inl hy
  | coolDone =>
    simp only [xstep] at hy
    split at hy
    · split at hy <;> exact .inl hy
    · exact .inl hy
  | peerGone => exact .inl hy
  | keepTick =>
    simp only [xstep] at hy
    have g := gt_cases s
    split at hy
    · exact .inl hy
    · split at hy
      · next s1 k hg =>
        have h1 : (getTunnelConn s).1 = s1 := by rw [hg]
        rw [← h1, getC_congr g.2.1] at hy; exact .inl hy
      · next s1 hg =>
        have h1 : (getTunnelConn s).1 = s1 := by rw [hg]
        split at hy
        · rw [← h1, getC_congr g.2.1] at hy; exact .inl hy
        · have : getC s1 c = some y := hy
          rw [← h1, getC_congr g.2.1] at this; exact .inl this
  | refill =>
    simp only [xstep] at hy
    split at hy <;> exact .inl hy
  | close => exact .inl hy

/-- the fields other than connections and hand-overs -/
structure Rest where
  now : Nat
  sess : Option Nat
  alive : Bool
  starter : Starter
  starts : List Nat
  closedV : Bool
  tokens : Nat
  keepFails : Nat
  refills : Nat
  nextSess : Nat

def rest (s : St) : Rest :=
  { now := s.now, sess := s.sess, alive := s.alive, starter := s.starter, starts := s.starts, closedV := s.closedV,
    tokens := s.tokens, keepFails := s.keepFails, refills := s.refills, nextSess := s.nextSess }

theorem joinTunnel_rest (cfg : Cfg) (s : St) (x : Conn) (k : Nat) (ivOk : Bool) : rest (joinTunnel cfg s x k ivOk) = rest s := by
  unfold joinTunnel; split <;> rfl

theorem attempt_rest (cfg : Cfg) (s : St) (x : Conn) (ivOk : Bool) : rest (attempt cfg s x ivOk) = rest (getTunnelConn s).1 := by
  unfold attempt
  split
  · next s1 k hg => rw [joinTunnel_rest, hg]
  · next s1 hg => rw [hg]

theorem giveUp_rest (cfg : Cfg) (s : St) (x : Conn) (cause : Cause) (xferOk : Bool) : rest (giveUp cfg s x cause xferOk) = rest s := by
  unfold giveUp; split
  · rfl
  · split <;> rfl

def rsignal (r : Rest) : Rest :=
  match r.starter, r.closedV with
  | .idle, false => { r with starter := .punching r.now, starts := r.now :: r.starts }
  | _, _ => r

def rgt (r : Rest) : Rest :=
  match r.sess, r.alive with
  | some _, true => r
  | _, _ => rsignal { r with sess := none, alive := false }

def rgtOk (r : Rest) : Bool :=
  match r.sess, r.alive with
  | some _, true => true
  | _, _ => false

def rhole (env : Env) (cfg : Cfg) (r : Rest) (ts : Int) (a b c : Bool) : Rest :=
  match r.starter with
  | .punching t0 =>
    let r1 : Rest := match holeRes env cfg ts a b c with
      | .ok => { r with sess := some r.nextSess, alive := true, nextSess := r.nextSess + 1 }
      | _ => r
    if r.now < t0 + 10000 then { r1 with starter := .cooling (t0 + 10000) } else { r1 with starter := .idle }
  | _ => r

def rcool (r : Rest) : Rest :=
  match r.starter with
  | .cooling u => if u ≤ r.now then { r with starter := .idle } else r
  | _ => r

def rkeep (cfg : Cfg) (r : Rest) : Rest :=
  if !cfg.keep || r.closedV then r
  else if rgtOk r then rgt r
  else if (rgt r).tokens = 0 then rgt r
  else { rgt r with tokens := (rgt r).tokens - 1, keepFails := (rgt r).keepFails + 1 }

def rrefill (cfg : Cfg) (r : Rest) : Rest :=
  if r.tokens < cfg.maxRetries then { r with tokens := r.tokens + 1, refills := r.refills + 1 } else r

/-- what one label can do to the fields other than connections and hand-overs -/
inductive RStep (env : Env) (cfg : Cfg) (r : Rest) : Rest → Prop
  | same : RStep env cfg r r
  | advance (d : Nat) : RStep env cfg r { r with now := r.now + d }
  | gt : RStep env cfg r (rgt r)
  | hole (ts : Int) (a b c : Bool) : RStep env cfg r (rhole env cfg r ts a b c)
  | cool : RStep env cfg r (rcool r)
  | gone : RStep env cfg r { r with alive := false }
  | keep : RStep env cfg r (rkeep cfg r)
  | refill : RStep env cfg r (rrefill cfg r)
  | close : RStep env cfg r { r with closedV := true, sess := none, alive := false }

theorem signal_rest (s : St) : rest (signalStart s) = rsignal (rest s) := by
  unfold signalStart rsignal
  cases hst : s.starter <;> cases hcl : s.closedV <;> simp [rest, hst, hcl]

theorem gt_rest (s : St) : rest (getTunnelConn s).1 = rgt (rest s) ∧ ((getTunnelConn s).2.isSome = rgtOk (rest s)) := by
  have key := signal_rest { s with sess := none, alive := false }
  have hr : rest { s with sess := none, alive := false } = { rest s with sess := none, alive := false } := rfl
  rw [hr] at key
  have h1 : (rest s).sess = s.sess := rfl
  have h2 : (rest s).alive = s.alive := rfl
  unfold getTunnelConn rgt rgtOk
  rw [h1, h2]
  cases hs : s.sess <;> cases ha : s.alive <;> simp [key]

theorem step_rstep (env : Env) (cfg : Cfg) (s : St) (e : Ev) : RStep env cfg (rest s) (rest (xstep env cfg s e)) := by
  have viaAttempt : ∀ (s0 : St) (x : Conn) (ivOk : Bool), rest s0 = rest s →
      RStep env cfg (rest s) (rest (attempt cfg s0 x ivOk)) := by
    intro s0 x ivOk h0
    rw [attempt_rest, (gt_rest s0).1, h0]; exact .gt
  cases e with
  | advance d => exact .advance d
  | arrive c ivOk =>
    simp only [xstep]
    split
    · exact .same
    · split
      · exact .same
      · exact viaAttempt _ _ ivOk rfl
  | tick c ivOk =>
    simp only [xstep]
    split
    · exact viaAttempt s _ ivOk rfl
    · exact .same
  | ctxDone c xferOk =>
    simp only [xstep]
    split
    · split
      · rw [giveUp_rest]; exact .same
      · exact .same
    · exact .same
  | limit20 c xferOk =>
    simp only [xstep]
    split
    · split
      · rw [giveUp_rest]; exact .same
      · exact .same
    · exact .same
  | vctxDone c xferOk =>
    simp only [xstep]
    split
    · split
      · rw [giveUp_rest]; exact .same
      · exact .same
    · exact .same
  | hole ts a b c =>
    have : rest (xstep env cfg s (.hole ts a b c)) = rhole env cfg (rest s) ts a b c := by
      simp only [xstep, rhole, rest]
      split
      · split <;> split <;> simp_all
      · simp_all
    rw [this]; exact .hole ts a b c
  | coolDone =>
    have : rest (xstep env cfg s .coolDone) = rcool (rest s) := by
      simp only [xstep, rcool, rest]
      split
      · split <;> simp_all
      · simp_all
    rw [this]; exact .cool
  | peerGone => exact .gone
  | keepTick =>
    have : rest (xstep env cfg s .keepTick) = rkeep cfg (rest s) := by
      have g := gt_rest s
      simp only [xstep, rkeep]
      have hcl : (rest s).closedV = s.closedV := rfl
      rw [hcl]
      split
      · rfl
      · split
        · next s1 k hg =>
          have h1 : (getTunnelConn s).1 = s1 := by rw [hg]
          have h2 : (getTunnelConn s).2 = some k := by rw [hg]
          have : rgtOk (rest s) = true := by rw [← g.2, h2]; rfl
          rw [this, ← h1, g.1]; rfl
        · next s1 hg =>
          have h1 : (getTunnelConn s).1 = s1 := by rw [hg]
          have h2 : (getTunnelConn s).2 = none := by rw [hg]
          have : rgtOk (rest s) = false := by rw [← g.2, h2]; rfl
          rw [this, ← g.1, h1]
          simp only [Bool.false_eq_true, if_false]
          have ht : (rest s1).tokens = s1.tokens := rfl
          rw [ht]
          split <;> rfl
    rw [this]; exact .keep
  | refill =>
    have : rest (xstep env cfg s .refill) = rrefill cfg (rest s) := by
      by_cases h : s.tokens < cfg.maxRetries <;> simp [xstep, rrefill, rest, h]
    rw [this]; exact .refill
  | close => exact .close

/-! ### invariants over every history of labels -/

/-- generic induction over `xrun` -/
theorem xrun_induct (env : Env) (cfg : Cfg) (P : St → Prop) (hstep : ∀ s e, P s → P (xstep env cfg s e)) :
    ∀ (es : List Ev) (s : St), P s → P (xrun env cfg s es) := by
  intro es
  induction es with
  | nil => intro s h; exact h
  | cons e es ih => intro s h; exact ih _ (hstep s e h)

theorem getC_xinit (cfg : Cfg) (c : Nat) : getC (xinit cfg) c = none := by
  unfold xinit; split <;> rfl

theorem hands_xinit (cfg : Cfg) : (xinit cfg).hands = [] := by
  unfold xinit; split <;> rfl

/-- a connection that ended up closed without having been served: no fallback is configured, or
    helper.TransferConn failed, or the IV source failed on an encrypted tunnel stream -/
theorem xv_closed_reason (env : Env) (cfg : Cfg) (es : List Ev) : ClosedInv cfg (xrun env cfg (xinit cfg) es) := by
  apply xrun_induct env cfg (ClosedInv cfg)
  · intro s e hs c y w hy hp
    rcases step_phase env cfg s e c y hy with a | a | ⟨k, a⟩ | a | ⟨w', a, r⟩
    · exact hs c y w a hp
    · rw [a] at hp; cases hp
    · rw [a] at hp; cases hp
    · rw [a] at hp; cases hp
    · rw [a] at hp; cases hp
      rcases r with r | r | r
      · exact .inl r
      · exact .inr (.inl ⟨r.1, r.2.1⟩)
      · exact .inr (.inr ⟨r.1, r.2.1⟩)
  · intro c x w hx; rw [getC_xinit] at hx; cases hx

/-- with a fallback configured no user connection is ever dropped — as long as TransferConn and the IV
    source do not fail: every connection is still waiting inside openTunnel, joined to a tunnel stream, or
    with the fallback visitor — whatever the NAT traversal does and whenever the visitor is closed -/
theorem xv_fallback_never_drops (env : Env) (cfg : Cfg) (es : List Ev) (hf : cfg.fallback = true)
    (hg : ∀ e ∈ es, GoodEv e = true) : NoneClosed (xrun env cfg (xinit cfg) es) := by
  have gen : ∀ (es : List Ev) (s : St), (∀ e ∈ es, GoodEv e = true) → NoneClosed s → NoneClosed (xrun env cfg s es) := by
    intro es
    induction es with
    | nil => intro s _ h; exact h
    | cons e es ih =>
      intro s hg h
      apply ih _ (fun e' m => hg e' (List.mem_cons_of_mem _ m))
      intro c y w hy hp
      have ge := hg e (List.mem_cons_self ..)
      rcases step_phase env cfg s e c y hy with a | a | ⟨k, a⟩ | a | ⟨w', a, r⟩
      · exact h c y w a hp
      · rw [a] at hp; cases hp
      · rw [a] at hp; cases hp
      · rw [a] at hp; cases hp
      · rcases r with r | r | r
        · rw [hf] at r; cases r.2
        · rw [ge] at r; cases r.2.2
        · rw [ge] at r; cases r.2.2
  exact gen es _ hg (fun c x w hx => by rw [getC_xinit] at hx; cases hx)

/-- progress, one step: when the fallback timeout of a connection still inside openTunnel fires, the
    connection is handed to the fallback visitor (TransferConn working) -/
theorem xv_deadline_hands_over (env : Env) (cfg : Cfg) (s : St) (c : Nat) (x : Conn)
    (hx : getC s c = some x) (hp : x.phase = .opening) (hf : cfg.fallback = true)
    (ht : x.since + cfg.fallbackMs ≤ s.now) :
    ∃ y, getC (xstep env cfg s (.ctxDone c true)) c = some y ∧ y.phase = .fallback ∧
      (xstep env cfg s (.ctxDone c true)).hands =
        { conn := c, dest := .fallback, cause := .deadline, time := s.now, since := x.since } :: s.hands := by
  have ho : opening? s c = some x := by simp [opening?, hx, hp]
  have hid := getC_id s c x hx
  simp only [xstep, ho, hf, Bool.true_and, decide_eq_true ht, if_true, giveUp, Bool.not_true, Bool.false_eq_true, if_false]
  refine ⟨{ x with phase := .fallback }, ?_, rfl, by rw [hid]⟩
  have : getC (setPhase s x.id .fallback) c = some { x with phase := .fallback } := by
    rw [getC_setPhase, hid]; simp [hx, hid]
  rw [← this]; rfl

/-- every hand-over in every history: a tunnel stream only of the session that existed at that moment; the
    fallback visitor only when FallbackTo is set, and then not before the fallback timeout (or openTunnel's
    20 s) has passed since the connection arrived — unless the visitor was being closed -/
def HandShape (cfg : Cfg) (h : Hand) : Prop :=
  (∀ k, h.dest = .tunnel k → h.cause = .stream) ∧
  (h.dest = .fallback → cfg.fallback = true ∧ h.cause ≠ .stream ∧
     (h.cause = .deadline → h.since + cfg.fallbackMs ≤ h.time) ∧ (h.cause = .limit20 → h.since + 20000 ≤ h.time))

theorem newHand_shape (cfg : Cfg) (s : St) (h : Hand) (n : NewHand cfg s h) : HandShape cfg h := by
  unfold NewHand at n
  obtain ⟨ht, hrest⟩ := n
  rcases hrest with ⟨k, hd, hc, _⟩ | ⟨hd, hf, hc⟩
  · exact ⟨fun _ _ => hc, fun e => (by rw [hd] at e; cases e)⟩
  · refine ⟨fun k e => (by rw [hd] at e; cases e), fun _ => ⟨hf, ?_, ?_, ?_⟩⟩
    · rcases hc with c | c | c <;> rw [c.1] <;> exact fun e => by cases e
    · intro e; rcases hc with c | c | c
      · rw [ht]; exact c.2
      · rw [c.1] at e; cases e
      · rw [c.1] at e; cases e
    · intro e; rcases hc with c | c | c
      · rw [c.1] at e; cases e
      · rw [ht]; exact c.2
      · rw [c.1] at e; cases e

theorem xv_hand_timing (env : Env) (cfg : Cfg) (es : List Ev) :
    ∀ h ∈ (xrun env cfg (xinit cfg) es).hands, HandShape cfg h := by
  apply xrun_induct env cfg (fun s => ∀ h ∈ s.hands, HandShape cfg h)
  · intro s e hs h hm
    rcases step_hands env cfg s e h hm with a | a
    · exact hs h a
    · exact newHand_shape cfg s h a
  · intro h hm; rw [hands_xinit] at hm; cases hm

/-- the tunnel session exists only for a visitor holding the proxy's key whose user is allowed … -/
def SessAdm (env : Env) (cfg : Cfg) (r : Rest) : Prop := ∀ k, r.sess = some k → XtAdmitted env cfg

theorem rstep_sessAdm (env : Env) (cfg : Cfg) (r r' : Rest) (t : RStep env cfg r r') (h : SessAdm env cfg r) :
    SessAdm env cfg r' := by
  cases t with
  | same => exact h
  | advance d => exact h
  | gt =>
    intro k hk
    unfold rgt at hk
    split at hk
    · exact h k hk
    · unfold rsignal at hk; split at hk <;> cases hk
  | hole ts a b c =>
    intro k hk
    unfold rhole at hk
    split at hk
    · cases hr : holeRes env cfg ts a b c
      case ok => exact xv_hole_ok_entitled env cfg ts a b c hr
      all_goals (simp only [hr] at hk; split at hk <;> exact h k hk)
    · exact h k hk
  | cool =>
    intro k hk
    unfold rcool at hk
    split at hk
    · split at hk <;> exact h k hk
    · exact h k hk
  | gone => exact h
  | keep =>
    intro k hk
    unfold rkeep at hk
    have hg : ∀ k, (rgt r).sess = some k → XtAdmitted env cfg := by
      intro k hk
      unfold rgt at hk
      split at hk
      · exact h k hk
      · unfold rsignal at hk; split at hk <;> cases hk
    split at hk
    · exact h k hk
    · split at hk
      · exact hg k hk
      · split at hk
        · exact hg k hk
        · exact hg k hk
  | refill =>
    intro k hk
    unfold rrefill at hk
    split at hk <;> exact h k hk
  | close => intro k hk; cases hk

/-- … so a user connection is joined to a tunnel stream only for such a visitor: for every history of labels,
    whatever STUN, the traversal and the scheduling do -/
theorem xv_tunnel_entitled (env : Env) (cfg : Cfg) (es : List Ev) :
    (∀ k, (xrun env cfg (xinit cfg) es).sess = some k → XtAdmitted env cfg) ∧
    (∀ h ∈ (xrun env cfg (xinit cfg) es).hands, ∀ k, h.dest = .tunnel k → XtAdmitted env cfg) := by
  apply xrun_induct env cfg (fun s => SessAdm env cfg (rest s) ∧ ∀ h ∈ s.hands, ∀ k, h.dest = .tunnel k → XtAdmitted env cfg)
  · intro s e ⟨hs, hh⟩
    refine ⟨rstep_sessAdm env cfg _ _ (step_rstep env cfg s e) hs, ?_⟩
    intro h hm k hd
    rcases step_hands env cfg s e h hm with a | ⟨_, ⟨k', hd', _, hk'⟩ | ⟨hd', _⟩⟩
    · exact hh h a k hd
    · exact hs k' hk'
    · rw [hd'] at hd; cases hd
  · refine ⟨?_, fun h hm => by rw [hands_xinit] at hm; cases hm⟩
    intro k hk
    unfold xinit rest at hk
    split at hk <;> cases hk

/-! ### pacing of hole punching (processTunnelStartEvents) and the retry budget of keepTunnelOpenWorker -/

/-- latest first: any two starts of makeNatHole are at least 10 s apart -/
def Paced (starts : List Nat) : Prop := List.Pairwise (fun later earlier => earlier + 10000 ≤ later) starts

def PaceInv (r : Rest) : Prop :=
  Paced r.starts ∧
  match r.starter with
  | .punching t0 => (∃ tl, r.starts = t0 :: tl) ∧ t0 ≤ r.now
  | .cooling u => ∀ t ∈ r.starts, t + 10000 ≤ u
  | .idle => ∀ t ∈ r.starts, t + 10000 ≤ r.now

theorem rsignal_pace (r : Rest) (h : PaceInv r) : PaceInv (rsignal r) := by
  unfold rsignal
  split
  · next hst hcl =>
    obtain ⟨hp, hi⟩ := h
    rw [hst] at hi
    exact ⟨List.pairwise_cons.mpr ⟨fun t ht => hi t ht, hp⟩, ⟨_, rfl⟩, Nat.le_refl _⟩
  · exact h

theorem rgt_pace (r : Rest) (h : PaceInv r) : PaceInv (rgt r) := by
  unfold rgt
  split
  · exact h
  · exact rsignal_pace _ h

theorem rstep_pace (env : Env) (cfg : Cfg) (r r' : Rest) (t : RStep env cfg r r') (h : PaceInv r) : PaceInv r' := by
  cases t with
  | same => exact h
  | advance d =>
    obtain ⟨hp, hi⟩ := h
    refine ⟨hp, ?_⟩
    cases hst : r.starter with
    | idle => rw [hst] at hi; exact fun t ht => Nat.le_trans (hi t ht) (Nat.le_add_right _ _)
    | punching t0 => rw [hst] at hi; exact ⟨hi.1, Nat.le_trans hi.2 (Nat.le_add_right _ _)⟩
    | cooling u => rw [hst] at hi; exact hi
  | gt => exact rgt_pace r h
  | hole ts a b c =>
    unfold rhole
    cases hst : r.starter with
    | idle => exact h
    | cooling u => exact h
    | punching t0 =>
      obtain ⟨hp, hi⟩ := h
      rw [hst] at hi
      obtain ⟨⟨tl, htl⟩, hle⟩ := hi
      have hall : ∀ t ∈ r.starts, t ≤ t0 := by
        intro t ht
        rw [htl] at ht hp
        rcases List.mem_cons.mp ht with e | m
        · exact e ▸ Nat.le_refl _
        · have := (List.pairwise_cons.mp hp).1 t m; omega
      simp only
      by_cases hlt : r.now < t0 + 10000
      · simp only [hlt, if_true]
        cases hr : holeRes env cfg ts a b c <;>
          exact ⟨hp, fun t ht => by have := hall t ht; show t + 10000 ≤ t0 + 10000; omega⟩
      · simp only [hlt, if_false]
        cases hr : holeRes env cfg ts a b c <;>
          exact ⟨hp, fun t ht => by have := hall t ht; show t + 10000 ≤ r.now; omega⟩
  | cool =>
    unfold rcool
    cases hst : r.starter with
    | idle => exact h
    | punching t0 => exact h
    | cooling u =>
      obtain ⟨hp, hi⟩ := h
      rw [hst] at hi
      simp only
      split
      · next hu => exact ⟨hp, fun t ht => Nat.le_trans (hi t ht) hu⟩
      · refine ⟨hp, ?_⟩; rw [hst]; exact hi
  | gone => exact h
  | keep =>
    unfold rkeep
    have hg := rgt_pace r h
    split
    · exact h
    · split
      · exact hg
      · split
        · exact hg
        · exact hg
  | refill =>
    unfold rrefill
    split
    · exact h
    · exact h
  | close => exact h

/-- for every history: two starts of makeNatHole are never less than 10 s apart ("avoid too frequently"),
    however many user connections and keep-alive checks ask for a tunnel meanwhile -/
theorem xv_hole_starts_paced (env : Env) (cfg : Cfg) (es : List Ev) : Paced (xrun env cfg (xinit cfg) es).starts := by
  have : PaceInv (rest (xrun env cfg (xinit cfg) es)) := by
    apply xrun_induct env cfg (fun s => PaceInv (rest s))
    · intro s e hs; exact rstep_pace env cfg _ _ (step_rstep env cfg s e) hs
    · unfold xinit
      split
      · exact ⟨List.pairwise_cons.mpr ⟨fun t ht => (by cases ht), List.Pairwise.nil⟩, ⟨_, rfl⟩, Nat.le_refl _⟩
      · exact ⟨List.Pairwise.nil, fun t ht => (by cases ht)⟩
  exact this.1

def BudgetInv (cfg : Cfg) (r : Rest) : Prop := r.keepFails + r.tokens = cfg.maxRetries + r.refills ∧ r.tokens ≤ cfg.maxRetries

theorem rgt_budget (r : Rest) : (rgt r).tokens = r.tokens ∧ (rgt r).keepFails = r.keepFails ∧ (rgt r).refills = r.refills := by
  unfold rgt
  split
  · exact ⟨rfl, rfl, rfl⟩
  · unfold rsignal; split <;> exact ⟨rfl, rfl, rfl⟩

theorem rstep_budget (env : Env) (cfg : Cfg) (r r' : Rest) (t : RStep env cfg r r') (h : BudgetInv cfg r) : BudgetInv cfg r' := by
  cases t with
  | same => exact h
  | advance d => exact h
  | gt => have g := rgt_budget r; unfold BudgetInv; rw [g.1, g.2.1, g.2.2]; exact h
  | hole ts a b c =>
    unfold rhole
    split
    · simp only; split <;> split <;> exact h
    · exact h
  | cool =>
    unfold rcool
    split
    · split <;> exact h
    · exact h
  | gone => exact h
  | keep =>
    have g := rgt_budget r
    have hg : BudgetInv cfg (rgt r) := by unfold BudgetInv; rw [g.1, g.2.1, g.2.2]; exact h
    unfold rkeep
    split
    · exact h
    · split
      · exact hg
      · split
        · exact hg
        · next hne =>
          obtain ⟨h1, h2⟩ := hg
          constructor
          · show (rgt r).keepFails + 1 + ((rgt r).tokens - 1) = cfg.maxRetries + (rgt r).refills
            omega
          · show (rgt r).tokens - 1 ≤ cfg.maxRetries
            omega
  | refill =>
    unfold rrefill
    split
    · next hlt =>
      obtain ⟨h1, h2⟩ := h
      constructor
      · show r.keepFails + (r.tokens + 1) = cfg.maxRetries + (r.refills + 1); omega
      · show r.tokens + 1 ≤ cfg.maxRetries; omega
    · exact h
  | close => exact h

/-- for every history: the failed checks of keepTunnelOpenWorker never exceed MaxRetriesAnHour plus the
    tokens the rate limiter handed back meanwhile (one per hour/MaxRetriesAnHour) -/
theorem xv_keep_budget (env : Env) (cfg : Cfg) (es : List Ev) :
    (xrun env cfg (xinit cfg) es).keepFails ≤ cfg.maxRetries + (xrun env cfg (xinit cfg) es).refills := by
  have : BudgetInv cfg (rest (xrun env cfg (xinit cfg) es)) := by
    apply xrun_induct env cfg (fun s => BudgetInv cfg (rest s))
    · intro s e hs; exact rstep_budget env cfg _ _ (step_rstep env cfg s e) hs
    · unfold xinit; split <;> exact ⟨by simp [rest], Nat.le_refl _⟩
  have h := this.1
  simp only [rest] at h
  omega

/-! ### tunnel session kinds -/

/-- both ends build the same kind of session (KCP+yamux or QUIC) for EVERY protocol string: the visitor decides
    from its own configuration, the proxy's frpc from NatHoleResp.Protocol, which the server copies from the
    visitor's message -/
theorem xv_session_kinds_agree (cfg : Cfg) : proxySessKind (respProtocol cfg.protocol) = visitorSessKind cfg := rfl

/-! ## §8 wrapper stacks of a tunnel stream (visitor frpc ↔ proxy frpc, no server in between) -/

section stacks
open Layers

/-- client/visitor/xtcp.go builds what every visitor builds; client/proxy/xtcp.go hands the stream to the
    common HandleTCPWorkConnection -/
theorem xt_stacks_are_common (e c : Bool) (o : Opts) :
    tunnelVisitorStack e c = visitorStack e c ∧ tunnelProxyStack o = clientStack o := ⟨rfl, rfl⟩

/-- the two ends of a tunnel stream mirror each other exactly when the visitor declares the proxy's
    useEncryption / useCompression (nothing in between translates, unlike the two legs of stcp) -/
theorem xt_mirror_iff (ve vc : Bool) (o : Opts) :
    tunnelVisitorStack ve vc = transforming (tunnelProxyStack o) ↔ (ve = o.enc ∧ vc = o.comp) := by
  cases o with | mk e c ls lc =>
  cases ve <;> cases vc <;> cases e <;> cases c <;> cases ls <;> cases lc <;> decide

def tunnelVisitorLayer (encL compL : Layers.Layer) (e c : Bool) : Layers.Layer :=
  stackLayer (instantiate encL compL 0 (tunnelVisitorStack e c))

def tunnelProxyLayer (encL compL : Layers.Layer) (burst : Nat) (o : Opts) : Layers.Layer :=
  stackLayer (instantiate encL compL burst (tunnelProxyStack o))

theorem xt_visitor_layer_eq (encL compL : Layers.Layer) (burst : Nat) (o : Opts) :
    C01.serverLayer encL compL burst { o with limSrv := false } = tunnelVisitorLayer encL compL o.enc o.comp := by
  cases o with | mk e c ls lc => cases e <;> cases c <;> rfl

theorem xt_proxy_layer_eq (encL compL : Layers.Layer) (burst : Nat) (o : Opts) :
    C01.clientLayer encL compL burst { o with limSrv := false } = tunnelProxyLayer encL compL burst o := rfl

/-- user → backend over the tunnel: whatever prefix of the visitor's encoded stream reaches the proxy's frpc, in
    whatever chunking, its stack (limiter, enc, comp) decodes it to a prefix of what the user wrote -/
theorem xt_tunnel_down_prefix {encL compL : Layers.Layer} (he : Lawful encL) (hc : Lawful compL) (burst : Nat) (hb : 0 < burst)
    (o : Opts) (ps cs : List C01Bytes)
    (hw : cs.flatten <+: ((tunnelVisitorLayer encL compL o.enc o.comp).Eout ps).flatten) :
    (tunnelProxyLayer encL compL burst o).Dout cs <+: ps.flatten := by
  rw [← xt_visitor_layer_eq encL compL burst o] at hw
  rw [← xt_proxy_layer_eq]
  exact C01.tunnel_down_prefix he hc burst hb _ ps cs hw

theorem xt_tunnel_down_complete {encL compL : Layers.Layer} (he : Lawful encL) (hc : Lawful compL) (burst : Nat) (hb : 0 < burst)
    (o : Opts) (ps cs : List C01Bytes)
    (hw : cs.flatten = ((tunnelVisitorLayer encL compL o.enc o.comp).Eout ps).flatten) :
    (tunnelProxyLayer encL compL burst o).Dout cs = ps.flatten := by
  rw [← xt_visitor_layer_eq encL compL burst o] at hw
  rw [← xt_proxy_layer_eq]
  exact C01.tunnel_down_complete he hc burst hb _ ps cs hw

/-- backend → user -/
theorem xt_tunnel_up_prefix {encL compL : Layers.Layer} (he : Lawful encL) (hc : Lawful compL) (burst : Nat) (hb : 0 < burst)
    (o : Opts) (ps cs : List C01Bytes)
    (hw : cs.flatten <+: ((tunnelProxyLayer encL compL burst o).Eout ps).flatten) :
    (tunnelVisitorLayer encL compL o.enc o.comp).Dout cs <+: ps.flatten := by
  rw [← xt_proxy_layer_eq] at hw
  rw [← xt_visitor_layer_eq encL compL burst o]
  exact C01.tunnel_up_prefix he hc burst hb _ ps cs hw

theorem xt_tunnel_up_complete {encL compL : Layers.Layer} (he : Lawful encL) (hc : Lawful compL) (burst : Nat) (hb : 0 < burst)
    (o : Opts) (ps cs : List C01Bytes)
    (hw : cs.flatten = ((tunnelProxyLayer encL compL burst o).Eout ps).flatten) :
    (tunnelVisitorLayer encL compL o.enc o.comp).Dout cs = ps.flatten := by
  rw [← xt_proxy_layer_eq] at hw
  rw [← xt_visitor_layer_eq encL compL burst o]
  exact C01.tunnel_up_complete he hc burst hb _ ps cs hw

end stacks

/-- with the keys: both ends key the cipher with the SECRET key (client/proxy/xtcp.go passes
    `[]byte(pxy.cfg.Secretkey)`, not the auth token an stcp work connection uses); equal declarations ⇒ the
    payload arrives unchanged, and the stacks are equal only for equal declarations -/
theorem xt_tunnel_keyed (e c : Bool) (x : List (List Visitor.Layer × Nat)) :
    decode (tunnelProxyEnd e c) (encode (tunnelVisitorEnd e c) x) = some x ∧
    (e = true → tunnelProxyEnd e c ≠ ownerEnd e c) := by
  refine ⟨decode_encode _ x, ?_⟩
  intro he; subst he; cases c <;> decide

theorem xt_tunnel_keyed_iff : ∀ ve vc pe pc : Bool, tunnelVisitorEnd ve vc = tunnelProxyEnd pe pc ↔ (ve = pe ∧ vc = pc) := by
  decide

example : decode (tunnelProxyEnd true true) (encode (tunnelVisitorEnd true false) [([], 7)]) ≠ some [([], 7)] := by decide

/-! ## §9 the fallback visitor, and the predicate the driver evaluates on what the real visitors did -/

/-- a connection transferred to the stcp fallback visitor (client/visitor/stcp.go: NewVisitorConn signed with
    `GetAuthKey(SecretKey, now)`) reaches an owner only for the stcp proxy's key and an allowed user -/
theorem xv_fallback_served_entitled (H : Str → Str) (ls : List (Str × Listener)) (name fsk : Str) (ts : Int) (user : Str)
    (conn lid : Nat) (h : (newConn H ls name ts (authKey H fsk ts) user conn).2 = .queued lid) :
    ∃ l, aget ls name = some l ∧ l.lid = lid ∧ authKey H fsk ts = authKey H l.sk ts ∧ UserAllowed l.allow user :=
  newConn_sound H ls name ts (authKey H fsk ts) user conn lid (.inl h)

/-- would the server admit this visitor's signed request -/
def xtAdmB (env : Env) (cfg : Cfg) (ts : Int) : Bool :=
  natAdmB env.H env.cfgs cfg.server ts (visitSign env.H cfg ts) env.user

theorem xtAdmB_entitled (env : Env) (cfg : Cfg) (ts : Int) (h : xtAdmB env cfg ts = true) : XtAdmitted env cfg := by
  obtain ⟨ch, c, hc, _, hk, hu⟩ := (natAdmB_iff _ _ _ _ _ _).mp h
  exact ⟨ts, c, hc, hk, hu⟩

/-- the model's own tunnel sessions satisfy it -/
theorem xv_hole_ok_admB (env : Env) (cfg : Cfg) (now : Int) (a b c : Bool)
    (h : holeRes env cfg now a b c = .ok) : xtAdmB env cfg now = true := by
  obtain ⟨hpre, _, ⟨ch, hex⟩, _, _⟩ := (xv_hole_ok_iff env cfg now a b c).mp h
  obtain ⟨c1, hc1, hu⟩ := precheck_sound env.fixed env.H env.cfgs [] [] cfg.server 0 [] env.user hpre
  obtain ⟨c2, hc2, _, hk, _⟩ := nat_grant_partial env.fixed env.H env.cfgs [] [] cfg.server now (visitSign env.H cfg now) env.user ch hex
  rw [hc1] at hc2; cases hc2
  unfold xtAdmB natAdmB
  simp [hc1, hk, (allowedB_iff _ _).mpr hu]

inductive XRoute | tunnel | fallback | pending | closed | other
  deriving DecidableEq, Repr

/-- one user connection as the harness saw it: who served it, how many backend connections it caused on ALL
    backends together, whether the bytes arrived intact each way -/
structure XObs where
  route : XRoute
  hits : Nat
  up : Bool
  down : Bool

/-- `admX` = the server admits this visitor to the xtcp proxy, `fbCfg` = FallbackTo is set, `admF` = the server
    admits the fallback visitor to its stcp proxy -/
def xtHoldsOn (admX fbCfg admF : Bool) (o : XObs) : Bool :=
  match o.route with
  | .tunnel => admX && o.hits == 1 && o.up && o.down
  | .fallback => fbCfg && admF && o.hits == 1 && o.up && o.down
  | .pending => o.hits == 0 && !(fbCfg && admF)
  | .closed => o.hits == 0 && !(fbCfg && admF)
  | .other => false

theorem xtHoldsOn_sound (env : Env) (cfg : Cfg) (ts : Int) (H : Str → Str) (ls : List (Str × Listener)) (fname fsk : Str)
    (fts : Int) (user : Str) (fbCfg : Bool) (o : XObs)
    (h : xtHoldsOn (xtAdmB env cfg ts) fbCfg (admissibleB H ls fname fts (authKey H fsk fts) user) o = true) :
    (o.route = .tunnel → XtAdmitted env cfg ∧ o.hits = 1 ∧ o.up = true ∧ o.down = true) ∧
    (o.route = .fallback → fbCfg = true ∧ (∃ lid, Admissible H ls fname fts (authKey H fsk fts) user lid) ∧
        o.hits = 1 ∧ o.up = true ∧ o.down = true) ∧
    ((o.route = .pending ∨ o.route = .closed) → o.hits = 0 ∧
        ¬ (fbCfg = true ∧ ∃ lid, Admissible H ls fname fts (authKey H fsk fts) user lid)) ∧
    o.route ≠ .other := by
  unfold xtHoldsOn at h
  have hadm : admissibleB H ls fname fts (authKey H fsk fts) user = true ↔
      ∃ lid, Admissible H ls fname fts (authKey H fsk fts) user lid := admissibleB_iff _ _ _ _ _ _
  refine ⟨?_, ?_, ?_, ?_⟩
  · intro hr
    simp only [hr, Bool.and_eq_true, beq_iff_eq] at h
    exact ⟨xtAdmB_entitled env cfg ts h.1.1.1, h.1.1.2, h.1.2, h.2⟩
  · intro hr
    simp only [hr, Bool.and_eq_true, beq_iff_eq] at h
    exact ⟨h.1.1.1.1, hadm.mp h.1.1.1.2, h.1.1.2, h.1.2, h.2⟩
  · intro hr
    have h' : (o.hits == 0 && !(fbCfg && admissibleB H ls fname fts (authKey H fsk fts) user)) = true := by
      rcases hr with hr | hr <;> simpa only [hr] using h
    simp only [Bool.and_eq_true, beq_iff_eq, Bool.not_eq_true', Bool.and_eq_false_iff] at h'
    refine ⟨h'.1, ?_⟩
    intro hc
    obtain ⟨hf, ha⟩ := hc
    have ha' := hadm.mpr ha
    rcases h'.2 with e | e
    · rw [hf] at e; cases e
    · rw [ha'] at e; cases e
  · intro hr
    simp only [hr] at h
    cases h

/-! ### non-vacuity: a concrete visitor and histories -/

def exEnv : Env := { H := exH, fixed := true, cfgs := [([112], { sk := [115], allow := [[97]], chan := 0 })], user := [97] }
def exCfg : Cfg := { server := [112], sk := [115], enc := true, comp := false, protocol := [113], keep := false,
                     maxRetries := 8, minRetry := 90, fallback := true, fallbackMs := 300 }

example : XtAdmitted exEnv exCfg := ⟨7, _, rfl, rfl, .inl (by decide)⟩
example : holeRes exEnv exCfg 7 true true true = .ok := by decide
example : holeRes exEnv { exCfg with sk := [120] } 7 true true true = .exchRefused .authFailed := by decide
example : holeRes { exEnv with user := [98] } exCfg 7 true true true = .preRefused .notAllowed := by decide
example : holeRes exEnv exCfg 7 false true true = .prepareFailed := by decide
/-- the hole is made in time: the connection is joined to the tunnel, exactly one hand-over -/
example : ((xrun exEnv exCfg (xinit exCfg) [.arrive 1 true, .advance 200, .hole 7 true true true, .tick 1 true,
            .advance 200, .ctxDone 1 true]).hands.map (fun h => (h.conn, h.dest))) = [(1, .tunnel 0)] := by decide
/-- STUN does not answer: after the fallback timeout the connection goes to the fallback visitor, once -/
example : ((xrun exEnv exCfg (xinit exCfg) [.arrive 1 true, .tick 1 true, .advance 300, .hole 7 false true true,
            .ctxDone 1 true, .tick 1 true, .ctxDone 1 true]).hands.map (fun h => (h.conn, h.dest, h.time))) =
          [(1, .fallback, 300)] := by decide
/-- before the timeout `ctxDone` is not enabled -/
example : (xrun exEnv exCfg (xinit exCfg) [.arrive 1 true, .advance 299, .ctxDone 1 true]).hands = [] := by decide

/-! ## §10 whose user: run ids over every history of logins, re-logins (replacement) and logouts

  server/control.go ControlManager + service.go RegisterControl / RegisterVisitorConn (Frp/Model/CtlMgr.lean).
  SPEC: the control that CURRENTLY owns a run id is the one of the latest Add under that run id, unless that very
  control has been deleted since (a Del by any other control — one that was replaced — does not count). -/

open CtlMgr (Ctl Tbl Call add del getByID visitorUser after users cmStep cmRun)

/-- `c` owns `rid` after the history `h` (newest first): it was added under `rid`, no later Add under `rid`, and no
    later Del of this very control -/
def Owns (h : List Call) (rid : Str) (c : Ctl) : Prop :=
  ∃ newer older, h = newer ++ Call.add rid c :: older ∧
    ∀ e ∈ newer, (∀ c', e ≠ Call.add rid c') ∧ e ≠ Call.del rid c.id

theorem del_get (t : Tbl) (rid rid' : Str) (id : Nat) :
    getByID (del t rid id) rid' =
      match getByID t rid' with
      | some c => if rid = rid' ∧ c.id = id then none else some c
      | none => none := by
  unfold del getByID
  by_cases e : rid = rid'
  · subst e
    cases hg : aget t rid with
    | none => simp [hg]
    | some c =>
      by_cases hid : c.id = id
      · simp [hid, aget_adel]
      · simp [hid, hg]
  · cases hg : aget t rid with
    | none => simp only [e, false_and, if_false]; split <;> simp_all
    | some c =>
      by_cases hid : c.id = id
      · simp only [hid, if_true, aget_adel, e, if_false, false_and]; split <;> simp_all
      · simp only [hid, if_false, e, false_and]; split <;> simp_all

theorem add_get (t : Tbl) (rid rid' : Str) (c : Ctl) :
    getByID (add t rid c).1 rid' = if rid = rid' then some c else getByID t rid' := by
  simp only [add, getByID, aget_aput]

/-- ControlManager, every history of Add / Del calls in any order (re-logins under a live run id, Dels by replaced
    controls, repeated Dels …): GetByID designates exactly the control that currently owns the run id -/
theorem cm_designates (h : List Call) (rid : Str) (c : Ctl) :
    getByID (after h) rid = some c ↔ Owns h rid c := by
  induction h generalizing c with
  | nil =>
    simp only [after, getByID, aget]
    constructor
    · intro h; cases h
    · rintro ⟨newer, older, he, _⟩
      cases newer <;> cases he
  | cons e h ih =>
    cases e with
    | add rid' c' =>
      simp only [after, CtlMgr.apply, add_get]
      by_cases er : rid' = rid
      · subst er
        simp only [if_true, Option.some.injEq]
        constructor
        · intro hc; subst hc
          exact ⟨[], h, rfl, fun e he => by cases he⟩
        · rintro ⟨newer, older, he, hn⟩
          cases newer with
          | nil => simp only [List.nil_append, List.cons.injEq, Call.add.injEq, true_and] at he; exact he.1
          | cons e0 n =>
            simp only [List.cons_append, List.cons.injEq] at he
            exact absurd he.1.symm ((hn e0 List.mem_cons_self).1 c')
      · simp only [er, if_false]
        rw [ih]
        constructor
        · rintro ⟨newer, older, he, hn⟩
          refine ⟨Call.add rid' c' :: newer, older, by rw [he]; rfl, ?_⟩
          intro e hem
          rcases List.mem_cons.mp hem with hem | hem
          · subst hem
            exact ⟨fun c'' hx => er (by cases hx; rfl), fun hx => by cases hx⟩
          · exact hn e hem
        · rintro ⟨newer, older, he, hn⟩
          cases newer with
          | nil =>
            simp only [List.nil_append, List.cons.injEq, Call.add.injEq] at he
            exact absurd he.1.1 er
          | cons e0 n =>
            simp only [List.cons_append, List.cons.injEq] at he
            exact ⟨n, older, he.2, fun e hem => hn e (List.mem_cons_of_mem _ hem)⟩
    | del rid' id =>
      simp only [after, CtlMgr.apply, del_get]
      constructor
      · intro hg
        cases hc : getByID (after h) rid with
        | none => rw [hc] at hg; cases hg
        | some c0 =>
          rw [hc] at hg
          simp only at hg
          by_cases hx : rid' = rid ∧ c0.id = id
          · rw [if_pos hx] at hg; cases hg
          · rw [if_neg hx] at hg
            cases hg
            obtain ⟨newer, older, he, hn⟩ := (ih c).mp hc
            refine ⟨Call.del rid' id :: newer, older, by rw [he]; rfl, ?_⟩
            intro e hem
            rcases List.mem_cons.mp hem with hem | hem
            · subst hem
              exact ⟨fun c'' hx' => (by cases hx'), fun hx' => hx (by cases hx'; exact ⟨rfl, rfl⟩)⟩
            · exact hn e hem
      · rintro ⟨newer, older, he, hn⟩
        cases newer with
        | nil => cases he
        | cons e0 n =>
          simp only [List.cons_append, List.cons.injEq] at he
          have hown : Owns h rid c := ⟨n, older, he.2, fun e hem => hn e (List.mem_cons_of_mem _ hem)⟩
          rw [(ih c).mpr hown]
          simp only
          have hne := (hn e0 List.mem_cons_self).2
          rw [← he.1] at hne
          rw [if_neg]
          rintro ⟨h1, h2⟩
          exact hne (by rw [h1, h2])

/-- at most one control owns a run id -/
theorem owns_unique (h : List Call) (rid : Str) (c c' : Ctl) (h1 : Owns h rid c) (h2 : Owns h rid c') : c = c' := by
  have a := (cm_designates h rid c).mpr h1
  have b := (cm_designates h rid c').mpr h2
  rw [a] at b
  exact Option.some.inj b

/-- RegisterVisitorConn, every history: the user that will be checked against allowUsers is "" for the empty run id
    and otherwise the login user of the control that currently owns the run id; an error iff nobody owns it -/
theorem visitor_user_is_current_owner (h : List Call) (rid user : Str) :
    visitorUser (after h) rid = .ok user ↔
      (rid = [] ∧ user = []) ∨ (rid ≠ [] ∧ ∃ c, Owns h rid c ∧ c.user = user) := by
  unfold visitorUser
  by_cases hr : rid = []
  · simp [hr]
  · simp only [hr, if_false, false_and, false_or, ne_eq, not_false_eq_true, true_and]
    cases hg : getByID (after h) rid with
    | none =>
      simp only [reduceCtorEq, false_iff, not_exists, not_and]
      intro c hc
      rw [(cm_designates h rid c).mpr hc] at hg
      cases hg
    | some c =>
      simp only [Except.ok.injEq]
      constructor
      · intro hu; exact ⟨c, (cm_designates h rid c).mp hg, hu⟩
      · rintro ⟨c', hc', hu⟩
        rw [(cm_designates h rid c').mpr hc'] at hg
        cases hg
        exact hu

theorem visitor_user_unknown (h : List Call) (rid : Str) (e : Err) :
    visitorUser (after h) rid = .error e ↔ (e = .noRun ∧ rid ≠ [] ∧ ∀ c, ¬ Owns h rid c) := by
  unfold visitorUser
  by_cases hr : rid = []
  · simp [hr]
  · simp only [hr, if_false, ne_eq, not_false_eq_true, true_and]
    cases hg : getByID (after h) rid with
    | none =>
      simp only [Except.error.injEq]
      constructor
      · intro he
        refine ⟨he.symm, fun c hc => ?_⟩
        rw [(cm_designates h rid c).mpr hc] at hg
        cases hg
      · intro he; exact he.1.symm
    | some c =>
      simp only [reduceCtorEq, false_iff, not_and]
      intro _ hall
      exact hall c ((cm_designates h rid c).mp hg)

/-- a re-login takes the run id over at once, whatever happened before (also while the previous control is still
    registered): from now on the run id stands for the NEW login's user -/
theorem relogin_takes_over (h : List Call) (rid : Str) (c : Ctl) (hr : rid ≠ []) :
    Owns (Call.add rid c :: h) rid c ∧ visitorUser (after (Call.add rid c :: h)) rid = .ok c.user := by
  have ho : Owns (Call.add rid c :: h) rid c := ⟨[], h, rfl, fun e he => by cases he⟩
  exact ⟨ho, (visitor_user_is_current_owner _ rid c.user).mpr (.inr ⟨hr, c, ho, rfl⟩)⟩

/-- the Del of a control that does not own the run id (it was replaced, or already deleted) changes nothing -/
theorem stale_del_noop (t : Tbl) (rid : Str) (id : Nat) (h : ∀ c, getByID t rid = some c → c.id ≠ id) :
    del t rid id = t := by
  unfold del
  cases hg : aget t rid with
  | none => rfl
  | some c => simp only [h c hg, if_false]

/-- the Del of the owner: the run id is unknown afterwards (until somebody logs in with it again) -/
theorem owner_del_forgets (h : List Call) (rid : Str) (c : Ctl) (ho : Owns h rid c) (hr : rid ≠ []) :
    visitorUser (after (Call.del rid c.id :: h)) rid = .error .noRun := by
  refine (visitor_user_unknown _ rid .noRun).mpr ⟨rfl, hr, ?_⟩
  rintro c' ⟨newer, older, he, hn⟩
  cases newer with
  | nil => cases he
  | cons e0 n =>
    simp only [List.cons_append, List.cons.injEq] at he
    have hown : Owns h rid c' := ⟨n, older, he.2, fun e hem => hn e (List.mem_cons_of_mem _ hem)⟩
    have := owns_unique h rid c c' ho hown
    subst this
    exact (hn e0 List.mem_cons_self).2 he.1.symm

/-! ### `Visitor.State.ctls` is the manager's table seen through `loginMsg.User` -/

theorem aget_users (t : Tbl) (rid : Str) : aget (users t) rid = (aget t rid).map (·.user) := by
  induction t with
  | nil => rfl
  | cons p t ih =>
    obtain ⟨k, v⟩ := p
    simp only [users, List.map_cons, aget] at ih ⊢
    split
    · rfl
    · exact ih

theorem users_aput (t : Tbl) (rid : Str) (c : Ctl) : users (aput t rid c) = aput (users t) rid c.user := by
  induction t with
  | nil => rfl
  | cons p t ih =>
    obtain ⟨k, v⟩ := p
    simp only [users, List.map_cons, aput] at ih ⊢
    split
    · rfl
    · simp only [List.map_cons, ih]

theorem users_adel (t : Tbl) (rid : Str) : users (adel t rid) = adel (users t) rid := by
  induction t with
  | nil => rfl
  | cons p t ih =>
    obtain ⟨k, v⟩ := p
    simp only [users, List.map_cons, adel] at ih ⊢
    split
    · exact ih
    · simp only [List.map_cons, ih]

theorem adel_absent {α : Type} (l : List (Str × α)) (k : Str) (h : aget l k = none) : adel l k = l := by
  induction l with
  | nil => rfl
  | cons p t ih =>
    obtain ⟨k', v⟩ := p
    simp only [aget] at h
    simp only [adel]
    split
    · next e => simp [e] at h
    · next e => simp only [e, if_false] at h; rw [ih h]

/-- `resolveUser` on the projection is RegisterVisitorConn on the manager -/
theorem resolveUser_users (t : Tbl) (rid : Str) : resolveUser (users t) rid = visitorUser t rid := by
  unfold resolveUser visitorUser getByID
  by_cases hr : rid = []
  · simp [hr]
  · simp only [hr, if_false, aget_users]
    cases aget t rid <;> rfl

/-- one service-level op: the model's `ctls` moves exactly as the projection of the manager's table under the
    Add / Del calls behind the op -/
theorem ctls_track_step (fixed : Bool) (H : Str → Str) (s : State) (t : Tbl) (n : Nat) (op : Op)
    (h : s.ctls = users t) : (step fixed H s op).1.ctls = users (cmStep t n op) := by
  cases op with
  | login rid user => simp only [step, cmStep, add, users_aput, h]
  | logout rid =>
    simp only [step, cmStep, h]
    cases hg : aget t rid with
    | none =>
      simp only
      exact adel_absent _ _ (by rw [aget_users, hg]; rfl)
    | some c => simp only [del, hg, if_true, users_adel]
  | listen name sk allow => simp only [step, doListen, cmStep]; split <;> exact h
  | natListen name sk allow => simp only [step, doNatListen, cmStep]; split <;> exact h
  | register rid kind name sk cfgAllow =>
    simp only [step, cmStep]
    split
    · exact h
    · split
      · exact h
      · cases kind <;> simp only [doListen, doNatListen] <;> split <;> exact h
  | closeListener name => exact h
  | natClose name => exact h
  | closeProxy rid name => exact h
  | lclose name => simp only [step, cmStep]; split <;> exact h
  | accept name => simp only [step, cmStep]; repeat' split
                   all_goals exact h
  | newConn name ts sign user conn => exact h
  | visitorConn name ts sign rid conn => simp only [step, cmStep]; split <;> exact h
  | natVisit sid name ts sign user pre => exact h
  | natVisitBy sid name ts sign rid pre => simp only [step, cmStep]; split <;> exact h
  | natDone sid => exact h

/-- every history of service-level ops (logins with fresh or live run ids, logouts, registrations, visits, …) -/
theorem ctls_track_manager (fixed : Bool) (H : Str → Str) (ops : List Op) :
    ∀ (s : State) (t : Tbl) (n : Nat), s.ctls = users t → (runS fixed H s ops).ctls = users (cmRun t n ops) := by
  induction ops with
  | nil => intro s t n h; exact h
  | cons op ops ih => intro s t n h; exact ih _ _ (n + 1) (ctls_track_step fixed H s t n op h)

/-- C08's user clause over every history: after ANY history of ops from the empty server, a RegisterVisitorConn is
    admitted only if the request is admissible (key + allow list of the registered listener) for the user of the control
    that the ControlManager designates for the run id AT THAT MOMENT ("" for the empty run id) -/
theorem visitorConn_user_is_designated (fixed : Bool) (H : Str → Str) (ops : List Op)
    (name : Str) (ts : Int) (sign rid : Str) (conn lid : Nat)
    (hadm : (step fixed H (runS fixed H {} ops) (.visitorConn name ts sign rid conn)).2 = .conn (.queued lid) ∨
            (step fixed H (runS fixed H {} ops) (.visitorConn name ts sign rid conn)).2 = .conn (.dropped lid)) :
    ∃ user, ((rid = [] ∧ user = []) ∨
             (rid ≠ [] ∧ ∃ c, getByID (cmRun [] 0 ops) rid = some c ∧ c.user = user)) ∧
            Admissible H (runS fixed H {} ops).listeners name ts sign user lid := by
  obtain ⟨user, hru, hadm'⟩ := (visitorConn_sound fixed H (runS fixed H {} ops) name ts sign rid conn).1 lid hadm
  refine ⟨user, ?_, hadm'⟩
  have htr := ctls_track_manager fixed H ops {} [] 0 rfl
  rcases hru with hru | ⟨hne, hg⟩
  · exact .inl hru
  · rw [htr, aget_users] at hg
    cases hc : aget (cmRun [] 0 ops) rid with
    | none => rw [hc] at hg; cases hg
    | some c =>
      rw [hc] at hg
      exact .inr ⟨hne, c, hc, by simpa using hg⟩

/-- a re-login closes what the replaced control had registered: none of its proxies outlives it (RegisterControl waits
    for `oldCtl.WaitClosed()` before the new control starts) -/
theorem relogin_closes_replaced (fixed : Bool) (H : Str → Str) (s : State) (rid user : Str) :
    (∀ p ∈ (step fixed H s (.login rid user)).1.listeners, p.2.owner ≠ rid) ∧
    (∀ p ∈ (step fixed H s (.login rid user)).1.natCfgs, p.2.owner ≠ rid) := by
  simp only [step]
  exact ⟨fun p hp => by simpa using (List.mem_filter.mp hp).2, fun p hp => by simpa using (List.mem_filter.mp hp).2⟩

/-! ### non-vacuity: alice logs in with run id r, mallory logs in with the same run id while alice is registered -/

def exA : Ctl := { id := 1, user := [97] }
def exM : Ctl := { id := 2, user := [109] }

example : visitorUser (after [Call.add [114] exA]) [114] = .ok [97] := by rfl
example : visitorUser (after [Call.add [114] exM, Call.add [114] exA]) [114] = .ok [109] := by rfl
-- the replaced control's Del comes late: mallory's control stays
example : visitorUser (after [Call.del [114] 1, Call.add [114] exM, Call.add [114] exA]) [114] = .ok [109] := by rfl
example : visitorUser (after [Call.del [114] 2, Call.del [114] 1, Call.add [114] exM, Call.add [114] exA]) [114] = .error .noRun := by
  rfl
-- proxy p of owner o allows [a]; run id r: alice admitted, after mallory's re-login under r refused
def exOps2 : List Op := [.login [111] [111], .register [111] .stcp [112] [115] [[97]], .login [114] [97]]
example : (step false exH (runS false exH {} exOps2) (.visitorConn [112] 7 (authKey exH [115] 7) [114] 1)).2
    = .conn (.queued 0) := by decide
example : (step false exH (runS false exH {} (exOps2 ++ [.login [114] [109]]))
    (.visitorConn [112] 7 (authKey exH [115] 7) [114] 1)).2 = .conn (.err .notAllowed) := by decide
example : (step false exH (runS false exH {} (exOps2 ++ [.logout [114]]))
    (.visitorConn [112] 7 (authKey exH [115] 7) [114] 1)).2 = .conn (.err .noRun) := by decide

/-! ## §11 "leaves no session state behind": the sessions map after refused NAT-hole requests, one or many -/

/-- one NatHoleVisitor request as HandleVisitor sees it (`sid` = what GenSid would hand out) -/
structure NatReq where
  sid : Str
  name : Str
  ts : Int
  sign : Str
  user : Str
  pre : Bool
  deriving Repr

def NatReq.run (fixed : Bool) (H : Str → Str) (cfgs : List (Str × NatCfg)) (sess : List (Str × NatSess)) (r : NatReq) :
    List (Str × NatSess) × NatOut :=
  natVisit fixed H cfgs sess r.sid r.name r.ts r.sign r.user r.pre

/-- whether a request is granted depends on the client table and the request only, not on what is stored -/
theorem natVisit_out_indep (fixed : Bool) (H : Str → Str) (cfgs : List (Str × NatCfg)) (sess sess' : List (Str × NatSess))
    (r : NatReq) : (r.run fixed H cfgs sess).2 = (r.run fixed H cfgs sess').2 := by
  unfold NatReq.run natVisit
  cases r.pre
  · simp only [Bool.false_eq_true, if_false]
    split
    · rfl
    · split
      · rfl
      · split <;> rfl
  · simp only [if_true]
    split
    · rfl
    · split <;> rfl

/-- a refused request (error or pre-check answer) leaves the sessions map as it was: in particular its size -/
theorem nat_refused_leaves_nothing (fixed : Bool) (H : Str → Str) (cfgs : List (Str × NatCfg)) (sess : List (Str × NatSess))
    (r : NatReq) (h : ∀ ch, (r.run fixed H cfgs sess).2 ≠ .granted ch) :
    (r.run fixed H cfgs sess).1 = sess ∧ (r.run fixed H cfgs sess).1.length = sess.length := by
  have := (natVisit_state fixed H cfgs sess r.sid r.name r.ts r.sign r.user r.pre).1 h
  exact ⟨this, congrArg List.length this⟩

/-- a flood: any number of requests handled one after the other against the same client table -/
def natFlood (fixed : Bool) (H : Str → Str) (cfgs : List (Str × NatCfg)) : List (Str × NatSess) → List NatReq → List (Str × NatSess)
  | sess, [] => sess
  | sess, r :: rs => natFlood fixed H cfgs (r.run fixed H cfgs sess).1 rs

/-- however many refused requests arrive — unknown proxy, wrong key, user not allowed, pre-checks of any kind, in any
    mixture —, the sessions map is exactly what it was before the first one -/
theorem flood_refused_leaves_nothing (fixed : Bool) (H : Str → Str) (cfgs : List (Str × NatCfg)) (rs : List NatReq) :
    ∀ (sess : List (Str × NatSess)), (∀ r ∈ rs, ∀ ch, (r.run fixed H cfgs []).2 ≠ .granted ch) →
      natFlood fixed H cfgs sess rs = sess := by
  induction rs with
  | nil => intro sess _; rfl
  | cons r rs ih =>
    intro sess h
    have hr : ∀ ch, (r.run fixed H cfgs sess).2 ≠ .granted ch := by
      intro ch; rw [natVisit_out_indep fixed H cfgs sess [] r]; exact h r List.mem_cons_self ch
    simp only [natFlood, (nat_refused_leaves_nothing fixed H cfgs sess r hr).1]
    exact ih sess (fun r' hr' => h r' (List.mem_cons_of_mem _ hr'))

/-- the predicate the driver evaluates on the implementation's own session table: a request that the implementation
    did not grant must not have made the table bigger (`before`, `after` = number of stored sessions that do not belong
    to a granted visit whose handler is still running) -/
def leavesNothingB (implGranted : Bool) (before after : Nat) : Bool := implGranted || decide (after ≤ before)

theorem leavesNothingB_sound (implGranted : Bool) (before after : Nat) :
    leavesNothingB implGranted before after = true ↔ (implGranted = false → after ≤ before) := by
  cases implGranted <;> simp [leavesNothingB]

/-- the model's own behaviour satisfies the predicate for every request, state and key derivation -/
theorem model_leavesNothing (fixed : Bool) (H : Str → Str) (cfgs : List (Str × NatCfg)) (sess : List (Str × NatSess))
    (r : NatReq) :
    leavesNothingB (match (r.run fixed H cfgs sess).2 with | .granted _ => true | _ => false)
      sess.length (r.run fixed H cfgs sess).1.length = true := by
  rw [leavesNothingB_sound]
  intro h
  have hr : ∀ ch, (r.run fixed H cfgs sess).2 ≠ .granted ch := by
    intro ch hc; rw [hc] at h; cases h
  exact Nat.le_of_eq (nat_refused_leaves_nothing fixed H cfgs sess r hr).2

-- right key, user outside the list, PreCheck off (what frpc never sends): refused, nothing stored — also 50 times
example : (NatReq.run true (fun x => x) witnessCfgs [] ⟨[49], [112], 7, authInput [115] 7, [109], false⟩) = ([], .err .notAllowed) := by
  decide
example : natFlood true (fun x => x) witnessCfgs [] (List.replicate 50 ⟨[49], [112], 7, authInput [115] 7, [109], false⟩) = [] := by
  decide

/-! ## §12 allow lists as a class: order, multiplicity, "", "*", exact entries; the list a proxy was registered with is
       the list its visitors are judged by -/

/-- THE meaning of a list: two lists with the same entries — in any order, each any number of times — allow exactly
    the same users (`allowedB` is `slices.Contains ‖ slices.Contains "*"`, the code's test) -/
theorem allowed_perm_dedup (a b : List Str) (h : ∀ x, x ∈ a ↔ x ∈ b) (user : Str) : allowedB a user = allowedB b user := by
  apply Bool.eq_iff_iff.mpr
  rw [allowedB_iff, allowedB_iff]
  unfold UserAllowed
  rw [h user, h [Str.star]]

/-- any permutation of the list -/
theorem allowed_perm (a b : List Str) (h : a.Perm b) (user : Str) : allowedB a user = allowedB b user :=
  allowed_perm_dedup a b (fun _ => h.mem_iff) user

/-- a canonical form an implementation may store instead of the list: sorted, repeated entries removed
    (`slices.Sort` + `slices.Compact`) -/
def canonAllow (a : List Str) : List Str := (a.mergeSort (fun x y => decide (x ≤ y))).eraseDups

theorem mem_canonAllow (a : List Str) (x : Str) : x ∈ canonAllow a ↔ x ∈ a := by
  unfold canonAllow
  rw [List.mem_eraseDups, List.mem_mergeSort]

/-- storing the canonical form changes nothing for any visitor -/
theorem allowed_canon (a : List Str) (user : Str) : allowedB (canonAllow a) user = allowedB a user :=
  allowed_perm_dedup _ _ (mem_canonAllow a) user

/-- repeating entries, or dropping repetitions, changes nothing -/
theorem allowed_append_self (a : List Str) (x user : Str) (hx : x ∈ a) : allowedB (x :: a) user = allowedB a user :=
  allowed_perm_dedup _ _ (fun y => by
    constructor
    · intro hy; rcases List.mem_cons.mp hy with e | e
      · exact e ▸ hx
      · exact e
    · exact List.mem_cons_of_mem _) user

/-- a visitor without a user (no run id, or a client that logged in without `user`) gets in only if "" is listed
    or the list has "*" -/
theorem empty_user_allowed_iff (a : List Str) : allowedB a [] = true ↔ ([] : Str) ∈ a ∨ [Str.star] ∈ a :=
  allowedB_iff a []

/-- entries are compared byte for byte: without "*" an allowed user IS an entry (no case folding, no trimming,
    no prefix / pattern matching) -/
theorem allowed_exact (a : List Str) (user : Str) (h : allowedB a user = true) (hs : [Str.star] ∉ a) : user ∈ a := by
  rcases (allowedB_iff a user).mp h with h | h
  · exact h
  · exact absurd h hs

theorem unlisted_refused (a : List Str) (user : Str) (h : user ∉ a) (hs : [Str.star] ∉ a) : allowedB a user = false := by
  cases hb : allowedB a user
  · rfl
  · exact absurd (allowed_exact a user hb hs) h

/-- "*" anywhere in the list admits every user, also "" -/
theorem star_anywhere (a b : List Str) (user : Str) : allowedB (a ++ [Str.star] :: b) user = true :=
  (allowedB_iff _ _).mpr (.inr (List.mem_append_right _ List.mem_cons_self))

/-- the answer of NewConn depends on the list only through its set of entries -/
theorem newConn_perm_dedup (H : Str → Str) (ls : List (Str × Listener)) (name : Str) (l : Listener) (a b : List Str)
    (h : ∀ x, x ∈ a ↔ x ∈ b) (ts : Int) (sign user : Str) (conn : Nat) :
    (newConn H (aput ls name { l with allow := a }) name ts sign user conn).2 =
      (newConn H (aput ls name { l with allow := b }) name ts sign user conn).2 := by
  simp only [newConn, aget_aput, if_true, allowed_perm_dedup a b h user]
  split
  · rfl
  · split
    · rfl
    · split
      · rfl
      · split <;> rfl

/-- … and so does HandleVisitor's (both branches, with and without the repair) -/
theorem natVisit_perm_dedup (fixed : Bool) (H : Str → Str) (cfgs : List (Str × NatCfg)) (sess : List (Str × NatSess))
    (c : NatCfg) (a b : List Str) (h : ∀ x, x ∈ a ↔ x ∈ b) (sid name : Str) (ts : Int) (sign user : Str) (pre : Bool) :
    (natVisit fixed H (aput cfgs name { c with allow := a }) sess sid name ts sign user pre).2 =
      (natVisit fixed H (aput cfgs name { c with allow := b }) sess sid name ts sign user pre).2 := by
  simp only [natVisit, aget_aput, if_true, allowed_perm_dedup a b h user]
  cases pre
  · simp only [Bool.false_eq_true, if_false]
    split
    · rfl
    · split <;> rfl
  · simp only [if_true]

/-- Manager.Listen stores the key and the list it was given, with a fresh empty open listener -/
theorem listen_stores (fixed : Bool) (H : Str → Str) (s : State) (name sk : Str) (allow : List Str)
    (hok : (step fixed H s (.listen name sk allow)).2 = .ok) :
    ∃ l, aget (step fixed H s (.listen name sk allow)).1.listeners name = some l ∧
      l.sk = sk ∧ l.allow = allow ∧ l.queue = [] ∧ l.closed = false ∧ l.lid = s.nextId := by
  simp only [step, doListen] at hok ⊢
  split at hok
  · cases hok
  · next hfree => simp [hfree, aget_aput]

/-- RegisterProxy → Run stores the configured list, or [owner's user] when none is configured (all three kinds) -/
theorem register_stores (fixed : Bool) (H : Str → Str) (s : State) (rid : Str) (kind : Kind) (name sk u : Str)
    (cfgAllow : List Str) (hu : aget s.ctls rid = some u)
    (hok : (step fixed H s (.register rid kind name sk cfgAllow)).2 = .ok) :
    (kind ≠ .xtcp → ∃ l, aget (step fixed H s (.register rid kind name sk cfgAllow)).1.listeners name = some l ∧
        l.sk = sk ∧ l.allow = effectiveAllow cfgAllow u ∧ l.queue = [] ∧ l.closed = false ∧ l.lid = s.nextId) ∧
    (kind = .xtcp → ∃ c, aget (step fixed H s (.register rid kind name sk cfgAllow)).1.natCfgs name = some c ∧
        c.sk = sk ∧ c.allow = effectiveAllow cfgAllow u ∧ c.chan = s.nextId) := by
  simp only [step, hu] at hok ⊢
  split at hok
  · cases hok
  · next hfree =>
    simp only [hfree]
    simp only [Bool.or_eq_true, Option.isSome_iff_ne_none, not_or, ne_eq, Decidable.not_not] at hfree
    cases kind <;> simp [doListen, doNatListen, hfree.1, hfree.2, aget_aput]

/-- a key-holding visitor against a fresh open listener with list `allow`: handed over iff the user is allowed -/
theorem fresh_conn_iff (H : Str → Str) (ls : List (Str × Listener)) (name : Str) (l : Listener) (ts : Int) (user : Str)
    (conn : Nat) (hl : aget ls name = some l) (hq : l.queue = []) (hc : l.closed = false) :
    (newConn H ls name ts (authKey H l.sk ts) user conn).2 = .queued l.lid ↔ UserAllowed l.allow user := by
  rw [← allowedB_iff]
  simp only [newConn, hl, ne_eq, not_true_eq_false, if_false, hc, hq, List.length_nil, acceptCap, Bool.false_eq_true]
  cases allowedB l.allow user <;> simp

/-- Listen, then NewConn by a key holder: handed to that listener iff the user is in the list GIVEN TO Listen
    (or that list has "*") — for every list: repeated entries, any order, "", "*" anywhere -/
theorem listen_then_conn_iff (fixed : Bool) (H : Str → Str) (s : State) (name sk : Str) (allow : List Str) (ts : Int)
    (user : Str) (conn : Nat) (hok : (step fixed H s (.listen name sk allow)).2 = .ok) :
    (newConn H (step fixed H s (.listen name sk allow)).1.listeners name ts (authKey H sk ts) user conn).2
        = .queued s.nextId ↔ UserAllowed allow user := by
  obtain ⟨l, hl, hsk, hal, hq, hc, hlid⟩ := listen_stores fixed H s name sk allow hok
  have := fresh_conn_iff H _ name l ts user conn hl hq hc
  rw [hsk, hal, hlid] at this
  exact this

/-- NewProxy (stcp / sudp) with any configured list, then NewVisitorConn by a key holder whose run id stands for
    user `v` ("" for no run id): handed to the new proxy iff `v` is in the configured list — the owner's user when
    none was configured — or that list has "*" -/
theorem register_then_visit_iff (fixed : Bool) (H : Str → Str) (s : State) (rid : Str) (kind : Kind) (name sk u : Str)
    (cfgAllow : List Str) (hk : kind ≠ .xtcp) (hu : aget s.ctls rid = some u)
    (hok : (step fixed H s (.register rid kind name sk cfgAllow)).2 = .ok)
    (ts : Int) (vrid v : Str) (conn : Nat) (hv : resolveUser s.ctls vrid = .ok v) :
    (step fixed H (step fixed H s (.register rid kind name sk cfgAllow)).1
        (.visitorConn name ts (authKey H sk ts) vrid conn)).2 = .conn (.queued s.nextId)
      ↔ UserAllowed (effectiveAllow cfgAllow u) v := by
  obtain ⟨l, hl, hsk, hal, hq, hc, hlid⟩ := (register_stores fixed H s rid kind name sk u cfgAllow hu hok).1 hk
  have hctl : (step fixed H s (.register rid kind name sk cfgAllow)).1.ctls = s.ctls := by
    simp only [step, hu]
    split
    · rfl
    · cases kind <;> simp only [doListen, doNatListen] <;> split <;> rfl
  have := fresh_conn_iff H _ name l ts v conn hl hq hc
  rw [hsk, hal, hlid] at this
  rw [← this]
  generalize (step fixed H s (.register rid kind name sk cfgAllow)).1 = s' at hctl ⊢
  simp only [step, hctl, hv]
  constructor
  · intro h; injection h with h
  · intro h; rw [h]

/-- NewProxy (xtcp) / ListenClient with any list, then the pre-check and — with the repair — the request proper of a
    key holder: positive iff the user is in that list or the list has "*" -/
theorem natListen_then_visit_iff (H : Str → Str) (cfgs : List (Str × NatCfg)) (sess : List (Str × NatSess))
    (c : NatCfg) (sid name : Str) (ts : Int) (user : Str) (hcfg : aget cfgs name = some c) :
    ((natVisit true H cfgs sess sid name ts (authKey H c.sk ts) user false).2 = .granted c.chan ↔ UserAllowed c.allow user) ∧
    (∀ fixed sign, (natVisit fixed H cfgs sess sid name ts sign user true).2 = .preOk ↔ UserAllowed c.allow user) := by
  refine ⟨?_, fun fixed sign => ?_⟩ <;> rw [← allowedB_iff] <;>
    simp only [natVisit, hcfg, Bool.false_eq_true, if_false, if_true, ne_eq, not_true_eq_false, Bool.true_and] <;>
    cases allowedB c.allow user <;> simp

-- ["bob","carol","bob"]: nobody ("") is refused, bob and carol get in, "Bob" / "bob " do not; the same for [carol, bob]
example : allowedB [[98, 111, 98], [99, 97, 114, 111, 108], [98, 111, 98]] [] = false := by decide
example : allowedB [[98, 111, 98], [99, 97, 114, 111, 108], [98, 111, 98]] [98, 111, 98] = true := by decide
example : allowedB [[98, 111, 98], [99, 97, 114, 111, 108], [98, 111, 98]] [66, 111, 98] = false := by decide
example : allowedB [[98, 111, 98], [99, 97, 114, 111, 108], [98, 111, 98]] [98, 111, 98, 32] = false := by decide
example : ([] : Str) ∉ canonAllow [[98, 111, 98], [99, 97, 114, 111, 108], [98, 111, 98]] ∧
    [98, 111, 98] ∈ canonAllow [[98, 111, 98], [99, 97, 114, 111, 108], [98, 111, 98]] := by
  rw [mem_canonAllow, mem_canonAllow]; decide
-- a list with one more entry "" is another list: it admits visitors without a user
example : allowedB [[98, 111, 98], [99, 97, 114, 111, 108], []] [] = true := by decide
example : (step false exH {} (.listen [112] [115] [[98], [99], [98]])).2 = .ok := by decide

end C08
end Frp
