import Frp.Model.Pool
import Frp.Model.SendPath
import Frp.Lemmas.Pool
/-
  C11 — Work connections: one user each, right proxy, bounded pool, never orphaned.

  Theorems over the small-step models `Frp.Pool` (one session's work-connection pool, its user
  handlers, its teardown) and `Frp.Handoff` (vhost muxer hand-off), for ALL label sequences
  (`Pool.Reach`, `Handoff.Reach`), for both the pinned code and the proposed repairs (`Fix`).
-/
namespace Frp
namespace C11
open Pool

/-! ## executable predicates evaluated by the driver on the implementation's own results -/

def dropS (s : String) (n : Nat) : String := String.ofList (s.toList.drop n)

/-- the number of advance requests the property allows: max 0 (min client server) -/
def advanceSpec (client serverMax : Int) : Nat := (max 0 (min client serverMax)).toNat

/-- `login` answered `ok:<n>` with n = the allowed number of advance requests -/
def loginOk (client serverMax : Int) (impl : String) : Bool :=
  impl == s!"ok:{advanceSpec client serverMax}"

/-- an offered work connection: never limbo; never pooled beyond the capacity; a connection handed
    straight to a waiting user is announced with the right proxy name, source and destination address
    and carries that user's payload.  `full` = the pool was at capacity before the offer. -/
def offerOk (_s : St) (_c : Nat) (full : Bool) (impl : String) : Bool :=
  if impl = "L" ∨ impl = "O" then false
  else if impl = "X:open" then false
  else if impl = "P" then !full
  else if impl.startsWith "S:" then
    match impl.splitOn ":" with
    | [_, _, flags] => flags == "nstd" && !full
    | _ => false
  else true

/-- a user connection: bridged to a work connection that was pooled (never one already in use or
    closed), announced correctly; or waiting; or closed by frps (`C:<n>`: promptly, after its handler
    consumed n pooled connections that turned out dead) — never stuck, never left open on a dead one -/
def userOk (s : St) (_u : Nat) (impl : String) : Bool :=
  if impl.startsWith "B:" then
    match impl.splitOn ":" with
    | [_, wid, flags] =>
      flags == "nstd" &&
      (match (dropS wid 1).toNat? with
       | some c => s.w.get c == some .pooled
       | none => false)
    | _ => false
  else impl == "W" || impl.startsWith "C:" || impl == "refused"

/-- after a session end: no held work connection and no waiting user is still open -/
def censusOk (impl : String) : Bool :=
  match impl.splitOn ";" with
  | [w, u] =>
    (match (dropS w 2).splitOn "/", (dropS u 2).splitOn "/" with
     | [_, wo], [_, uo] => wo == "0" && uo == "0"
     | _, _ => false)
  | _ => false

/-- Accept returned one of the connections routed to this listener -/
def acceptOk (routed : List Nat) (impl : String) : Bool :=
  match impl.splitOn ":" with
  | ["got", cid] => match (dropS cid 1).toNat? with
    | some c => routed.contains c
    | none => false
  | _ => false

/-- closing a listener leaves no routed connection open -/
def closeListenerOk (impl : String) : Bool :=
  match impl.splitOn ";limbo=" with
  | [_, l] => l == ""
  | _ => false

/-- a census after an accept loop has ended / been released: no connection is still open without an owner -/
def openNoneOk (impl : String) : Bool :=
  match impl.splitOn "open=" with
  | [_, l] => l == ""
  | _ => true      -- not a census (the op did not apply): nothing to judge

/-- one Accept of an InternalListener's loop: a connection, or the end of the loop with nothing left
    queued; never blocked while something is queued or the listener is closed -/
def vlAcceptOk (impl : String) : Bool :=
  if impl.startsWith "exit:" then impl == "exit:" else impl != "block"

/-- a visitor connection that NewConn accepted while the accept loop was free: bridged under the right
    proxy name, or closed -/
def visitorOk (impl : String) : Bool := impl != "stuck" && impl != "nostall" && impl != "B:N"

/-- census after the end of a session, `w=<closed>/<open>;u=<closed>/<open>;b=<bridged>`, over ALL its user
    connections and its un-started work connections: no user connection is open without a peer, no work
    connection is parked -/
def censusUsersOk (impl : String) : Bool :=
  match impl.splitOn ";" with
  | [w, u, b] =>
    (match (dropS w 2).splitOn "/", (dropS u 2).splitOn "/" with
     | [_, wo], [_, uo] => w.startsWith "w=" && u.startsWith "u=" && b.startsWith "b=" && wo == "0" && uo == "0"
     | _, _ => false)
  | _ => false

/-- `P:<n>` after offers: the pool never holds more than its capacity -/
def sendPooledOk (cap : Nat) (impl : String) : Bool :=
  match (dropS impl 2).toNat? with
  | some n => impl.startsWith "P:" && n ≤ cap
  | none => false

/-- `S:<k>` handlers parked in Send: only behind a client that does not read, and … (nothing more: how many
    park is the model's prediction, compared as a result) -/
def sendParkedOk (_cap : Nat) (stalled : Bool) (impl : String) : Bool :=
  stalled || impl == "S:0"

/-- the client reads again: the queue drains and every parked handler has left Send -/
def sendResumedOk (impl : String) : Bool := impl.startsWith "S:0;" && !(impl.endsWith "nosync")

/-- frps survived the inner ops -/
def childOk (impl : String) : Bool := !(impl.endsWith "crash") && !(impl.endsWith "hang")


/-! ## 1. NewControl / Start arithmetic -/

/-- the number of ReqWorkConn sent in advance is exactly max 0 (min client server) -/
theorem advance_eq_spec (c m : Int) : advance (newPoolCount c m) = advanceSpec c m := by
  unfold advance newPoolCount advanceSpec
  split <;> omega

/-- … in particular it never exceeds either bound -/
theorem advance_le (c m : Int) : (advance (newPoolCount c m) : Int) ≤ max 0 c ∧
    (advance (newPoolCount c m) : Int) ≤ max 0 m := by
  unfold advance newPoolCount
  split <;> omega

/-- the pool capacity is poolCount + 10 whenever NewControl returns -/
theorem cap_eq (c m : Int) (h : newControlPanics (newPoolCount c m) = false) :
    (capOf (newPoolCount c m) : Int) = min c m + 10 := by
  unfold newControlPanics at h
  unfold capOf newPoolCount at *
  simp at h
  split <;> split at h <;> omega

/-- §7/4: NewControl panics (in a goroutine without recover: frps dies) iff min(client, server) < -10 -/
theorem newControl_panics_iff (c m : Int) : newControlPanics (newPoolCount c m) = true ↔ min c m < -10 := by
  unfold newControlPanics newPoolCount
  simp
  split <;> omega

theorem newControl_panic_witness : newControlPanics (newPoolCount (-11) 5) = true := by decide

/-- with the proposed clamp NewControl never panics and every retry loop runs at least once -/
theorem clamp_no_panic (c m : Int) : newControlPanics (clampPoolCount true (newPoolCount c m)) = false := by
  unfold newControlPanics clampPoolCount
  simp
  split <;> omega

theorem clamp_tries_pos (pc : Int) : 0 < tries (clampPoolCount true pc) := by
  unfold tries clampPoolCount
  simp
  split <;> omega

theorem clamp_advance (c m : Int) : advance (clampPoolCount true (newPoolCount c m)) = advanceSpec c m := by
  unfold advance clampPoolCount newPoolCount advanceSpec
  simp
  split <;> split <;> omega

/-! ## 2. all label sequences: the invariant's consequences -/

syntax "step_cases " ident : tactic
macro_rules
  | `(tactic| step_cases $h) =>
    `(tactic| first
      | (cases $h:ident; exact ⟨rfl, rfl⟩)
      | (cases $h:ident)
      | (split at $h:ident <;> step_cases $h))

theorem step_params {fx : Fix} {s s' : St} {l : Label} {r : Res} (hs : step fx s l = some (s', r)) :
    s'.pc = s.pc ∧ s'.T = s.T := by
  cases l <;> simp only [step, recvFor] at hs <;> step_cases hs

theorem reach_params {fx : Fix} {pc : Int} {T : Nat} {s : St} (h : Reach fx pc T s) : s.pc = pc ∧ s.T = T := by
  induction h with
  | init => exact ⟨rfl, rfl⟩
  | step _ hs ih => have := step_params hs; exact ⟨this.1.trans ih.1, this.2.trans ih.2⟩

theorem reach_run {fx : Fix} {pc : Int} {T : Nat} {s s' : St} (h : Reach fx pc T s) (ls : List Label)
    (hr : run fx s ls = some s') : Reach fx pc T s' := by
  induction ls generalizing s with
  | nil => simp [run] at hr; subst hr; exact h
  | cons l ls ih =>
    simp only [run] at hr
    split at hr
    · cases hr
    · rename_i s1 r hs
      exact ih (Reach.step h hs) hr

/-- the pool never holds more than poolCount + 10 connections -/
theorem pool_le_cap {fx : Fix} {pc : Int} {T : Nat} {s : St} (h : Reach fx pc T s) :
    s.pool.length ≤ capOf pc := by
  have := (inv_reach h).le_cap
  rw [St.cap, (reach_params h).1] at this; exact this

/-- the queue and the per-connection states agree; no connection sits in the pool twice -/
theorem pooled_iff_in_pool {fx : Fix} {pc : Int} {T : Nat} {s : St} (h : Reach fx pc T s) (c : Nat) :
    s.w.get c = some .pooled ↔ c ∈ s.pool := ((inv_reach h).pooled_iff c).symm

theorem pool_nodup {fx : Fix} {pc : Int} {T : Nat} {s : St} (h : Reach fx pc T s) : s.pool.Nodup :=
  (inv_reach h).nodup

/-- a user handler that is bridged to (or about to start) c is THE handler c is taken by:
    c is not in the pool, not closed, not in limbo, and no other handler has it -/
theorem bridged_exclusive {fx : Fix} {pc : Int} {T : Nat} {s : St} (h : Reach fx pc T s) (u c : Nat)
    (hb : s.u.get u = some (.bridged c)) :
    s.w.get c = some (.taken u) ∧ c ∉ s.pool ∧
    ∀ u', ((∃ k, s.u.get u' = some (.holding k c)) ∨ s.u.get u' = some (.bridged c)) → u' = u := by
  have inv := inv_reach h
  have hw := (inv.taken_iff c u).2 (Or.inr hb)
  refine ⟨hw, ?_, ?_⟩
  · intro hm; have := (inv.pooled_iff c).1 hm; rw [hw] at this; cases this
  · intro u' hu'
    have := (inv.taken_iff c u').2 hu'
    rw [hw] at this; simp at this; exact this.symm

/-- one work connection per user: a handler never holds two -/
theorem one_workconn_per_user {fx : Fix} {pc : Int} {T : Nat} {s : St} (h : Reach fx pc T s) (u c c' : Nat)
    (h1 : s.w.get c = some (.taken u)) (h2 : s.w.get c' = some (.taken u)) : c = c' := by
  have inv := inv_reach h
  rcases (inv.taken_iff c u).1 h1 with ⟨k, hk⟩ | hb <;> rcases (inv.taken_iff c' u).1 h2 with ⟨k', hk'⟩ | hb'
  · rw [hk] at hk'; simp at hk'; exact hk'.2
  · rw [hk] at hb'; cases hb'
  · rw [hb] at hk'; cases hk'
  · rw [hb] at hb'; simp at hb'; exact hb'

/-- a taken connection is consumed by exactly the handler recorded for it (never handed out twice) -/
theorem taken_has_handler {fx : Fix} {pc : Int} {T : Nat} {s : St} (h : Reach fx pc T s) (u c : Nat)
    (h1 : s.w.get c = some (.taken u)) :
    (∃ k, s.u.get u = some (.holding k c)) ∨ s.u.get u = some (.bridged c) :=
  ((inv_reach h).taken_iff c u).1 h1

/-- surplus offers are refused and closed (every state, not only reachable ones) -/
theorem surplus_refused (fx : Fix) (s : St) (c : Nat) (hp : s.panicked = false)
    (hw : s.w.get c = some .lookedUp) (hc : s.poolClosed = false) (hfull : s.cap ≤ s.pool.length) :
    step fx s (.send c) = some ({ s with w := s.w.set c .closed }, .refused) := by
  simp only [step, hp, hw, hc]
  simp
  omega

/-- an offer below capacity is pooled at the tail -/
theorem offer_pooled (fx : Fix) (s : St) (c : Nat) (hp : s.panicked = false)
    (hw : s.w.get c = some .lookedUp) (hc : s.poolClosed = false) (hroom : s.pool.length < s.cap) :
    step fx s (.send c) = some ({ s with pool := s.pool ++ [c], w := s.w.set c .pooled }, .pooled) := by
  simp only [step, hp, hw, hc]
  simp [hroom]

/-- a work connection arriving for a session that has left the manager is closed -/
theorem ended_session_offer_closed (fx : Fix) (s : St) (c : Nat) (a : Bool) (hp : s.panicked = false)
    (hw : s.w.get c = some .dialled) (hm : s.inManager = false) :
    step fx s (.lookup c a) = some ({ s with w := s.w.set c .closed }, .closed) := by
  simp [step, hp, hw, hm]

/-- the drain closes every pooled connection -/
theorem drain_closes_all (fx : Fix) (s s' : St) (r : Res) (hs : step fx s .drain = some (s', r)) :
    ∀ c, c ∈ s.pool → s'.w.get c = some .closed := by
  simp only [step] at hs
  split at hs
  · cases hs
  · cases hs
    intro c hc
    show (s.pool.foldl (fun t c => t.set c W.closed) s.w).get c = some .closed
    rw [foldl_set_get]; simp [hc]

/-- after the drain nothing is pooled any more, whatever arrives later -/
theorem after_drain_none_pooled {fx : Fix} {pc : Int} {T : Nat} {s : St} (h : Reach fx pc T s)
    (hd : s.drained = true) (c : Nat) : s.w.get c ≠ some .pooled := by
  have inv := inv_reach h
  intro hp
  have := (inv.pooled_iff c).2 hp
  rw [(inv.drained_empty hd).1] at this; cases this

/-- a waiting handler has waited at most UserConnTimeout ticks … -/
theorem wait_bounded {fx : Fix} {pc : Int} {T : Nat} {s : St} (h : Reach fx pc T s) (u k t : Nat)
    (hw : s.u.get u = some (.waiting k t)) : t ≤ T := by
  have := (inv_reach h).wait_le u k t hw
  rw [(reach_params h).2] at this; exact this

/-- … because the clock cannot pass a due timeout … -/
theorem due_timeout_blocks_clock (fx : Fix) (s : St) (u k t : Nat)
    (hw : s.u.get u = some (.waiting k t)) (hd : s.T ≤ t) : step fx s .tick = none := by
  have : tickOk s = false := by
    unfold tickOk
    apply Tbl.allCur_false s.u _ u _ hw
    simp; omega
  simp [step, this]

/-- … and the timeout closes the user connection -/
theorem due_timeout_closes (fx : Fix) (s : St) (u k t : Nat) (hp : s.panicked = false)
    (hw : s.u.get u = some (.waiting k t)) (hd : s.T ≤ t) :
    step fx s (.timeout u) = some ({ s with u := s.u.set u .closed }, .closed) := by
  simp [step, hp, hw, hd]

/-- the retry loop of GetWorkConnFromPool runs at most poolCount + 1 rounds: every live handler's
    round index is below `tries`; with `wait_bounded` the total wait is ≤ (poolCount+1)·UserConnTimeout -/
theorem retries_bounded {fx : Fix} {pc : Int} {T : Nat} {s : St} (h : Reach fx pc T s) (u k : Nat)
    (hu : s.u.get u = some (.accepted k) ∨ (∃ t, s.u.get u = some (.waiting k t)) ∨
          (∃ c, s.u.get u = some (.holding k c))) : k < tries pc := by
  have := (inv_reach h).idx_lt u k hu
  rw [(reach_params h).1] at this; exact this

/-- no handler is ever stuck: unless it is bridged or closed, one of its own labels is enabled,
    or it is waiting with its timer still running -/
theorem handler_never_stuck (fx : Fix) (s : St) (u : Nat) (x : U) (hp : s.panicked = false)
    (hx : s.u.get u = some x) :
    (∃ c, x = .bridged c) ∨ x = .closed ∨ (∃ k t, x = .waiting k t ∧ t < s.T) ∨
    (∃ l, (l = .take u ∨ l = .request u true ∨ l = .startMsg u true ∨ l = .timeout u) ∧
          (step fx s l).isSome = true) := by
  cases x with
  | bridged c => exact Or.inl ⟨c, rfl⟩
  | closed => exact Or.inr (Or.inl rfl)
  | waiting k t =>
    by_cases ht : t < s.T
    · exact Or.inr (Or.inr (Or.inl ⟨k, t, rfl, ht⟩))
    · refine Or.inr (Or.inr (Or.inr ⟨.timeout u, Or.inr (Or.inr (Or.inr rfl)), ?_⟩))
      have : s.T ≤ t := by omega
      simp [step, hp, hx, this]
  | holding k c =>
    refine Or.inr (Or.inr (Or.inr ⟨.startMsg u true, Or.inr (Or.inr (Or.inl rfl)), ?_⟩))
    simp [step, hp, hx]
  | accepted k =>
    cases hpool : s.pool with
    | cons c rest =>
      refine Or.inr (Or.inr (Or.inr ⟨.take u, Or.inl rfl, ?_⟩))
      simp [step, hp, hx, recvFor, hpool]
    | nil =>
      cases hc : s.poolClosed with
      | true =>
        refine Or.inr (Or.inr (Or.inr ⟨.take u, Or.inl rfl, ?_⟩))
        simp [step, hp, hx, recvFor, hpool, hc]
      | false =>
        refine Or.inr (Or.inr (Or.inr ⟨.request u true, Or.inr (Or.inl rfl), ?_⟩))
        simp [step, hp, hx, hpool, hc]

/-! ## 2b. a pooled connection that turned out dead -/

/-- A handler that received a pooled connection whose peer has gone.  BOTH outcomes of the StartWorkConn
    write are enabled (the write into a half-closed yamux stream, or into a session whose death has not
    been noticed yet, still succeeds), and neither leaves the user connection open on the dead one:
    a failed write closes the work connection and the handler goes to the next round or closes the user;
    a "successful" write bridges, the end of Join is enabled at once and closes both ends. -/
theorem dead_conn_never_orphans (fx : Fix) (s : St) (u k c : Nat) (hp : s.panicked = false)
    (hu : s.u.get u = some (.holding k c)) :
    (∃ s1 r, step fx s (.startMsg u false) = some (s1, r) ∧ s1.w.get c = some .closed ∧
       ((r = .retry ∧ s1.u.get u = some (.accepted (k + 1)) ∧ k + 1 < tries s.pc) ∨
        (r = .exhausted ∧ s1.u.get u = some .closed))) ∧
    (∃ s1, step fx s (.startMsg u true) = some (s1, .bridged c) ∧ s1.u.get u = some (.bridged c) ∧
       ∃ s2, step fx s1 (.joinEnd u) = some (s2, .closed) ∧ s2.u.get u = some .closed ∧
             s2.w.get c = some .closed) := by
  constructor
  · by_cases hk : k + 1 < tries s.pc
    · have e : step fx s (.startMsg u false) =
          some ({ s with w := s.w.set c .closed, u := s.u.set u (.accepted (k + 1)) }, .retry) := by
        simp [step, hp, hu, hk]
      exact ⟨_, _, e, by simp [Tbl.get_set], Or.inl ⟨rfl, by simp [Tbl.get_set], hk⟩⟩
    · have e : step fx s (.startMsg u false) =
          some ({ s with w := s.w.set c .closed, u := s.u.set u .closed }, .exhausted) := by
        simp [step, hp, hu, hk]
      exact ⟨_, _, e, by simp [Tbl.get_set], Or.inr ⟨rfl, by simp [Tbl.get_set]⟩⟩
  · have e1 : step fx s (.startMsg u true) = some ({ s with u := s.u.set u (.bridged c) }, .bridged c) := by
      simp [step, hp, hu]
    refine ⟨_, e1, by simp [Tbl.get_set], ?_⟩
    have e2 : step fx { s with u := s.u.set u (.bridged c) } (.joinEnd u) =
        some ({ s with u := (s.u.set u (.bridged c)).set u .closed, w := s.w.set c .closed }, .closed) := by
      simp [step, hp, Tbl.get_set]
    exact ⟨_, e2, by simp [Tbl.get_set], by simp [Tbl.get_set]⟩

/-- whichever way the write went, the dead connection is consumed by this one handler only: once the
    handler has let go of it, it is closed and nobody can ever be bridged to it again -/
theorem closed_conn_never_bridged {fx : Fix} {pc : Int} {T : Nat} {s : St} (h : Reach fx pc T s) (c : Nat)
    (hc : s.w.get c = some .closed) (u : Nat) : s.u.get u ≠ some (.bridged c) ∧ ∀ k, s.u.get u ≠ some (.holding k c) := by
  have inv := inv_reach h
  constructor
  · intro hb; have := (inv.taken_iff c u).2 (Or.inr hb); rw [hc] at this; cases this
  · intro k hk; have := (inv.taken_iff c u).2 (Or.inl ⟨k, hk⟩); rw [hc] at this; cases this

/-! ## 2c. the advance requests over the whole history of a session -/

/-- However many proxies the session registers, closes and registers again, however many user and work
    connections come and go: the requests sent in advance (on behalf of no user connection) are the
    `advance` of `Start()`, i.e. exactly max 0 (min client server) -/
theorem advance_history {fx : Fix} {client serverMax : Int} {T : Nat} {s : St}
    (h : Reach fx (clampPoolCount true (newPoolCount client serverMax)) T s) :
    s.adv = advanceSpec client serverMax := by
  have := (acct_reach h).adv_eq
  rw [(reach_params h).1, clamp_advance] at this; exact this

theorem advance_history_le {fx : Fix} {pc : Int} {T : Nat} {s : St} (h : Reach fx pc T s) :
    s.adv = advance pc := by
  have := (acct_reach h).adv_eq
  rw [(reach_params h).1] at this; exact this

/-- every ReqWorkConn ever sent is one of the advance ones or was sent by GetWorkConn for a user connection -/
theorem reqs_accounted {fx : Fix} {pc : Int} {T : Nat} {s : St} (h : Reach fx pc T s) :
    s.reqs = advance pc + s.ureq := by
  have a := acct_reach h
  rw [a.reqs_eq, a.adv_eq, (reach_params h).1]

/-- registering or closing a proxy asks the client for nothing and touches neither pool nor handlers -/
theorem proxy_ops_request_nothing (fx : Fix) (s s' : St) (p : Nat) (r : Res)
    (hs : step fx s (.regProxy p) = some (s', r) ∨ step fx s (.closeProxy p) = some (s', r)) :
    s'.reqs = s.reqs ∧ s'.adv = s.adv ∧ s'.pool = s.pool ∧ s'.u = s.u ∧ s'.w = s.w := by
  rcases hs with hs | hs <;> simp only [step] at hs <;>
    (repeat' (split at hs)) <;> first | (cases hs; exact ⟨rfl, rfl, rfl, rfl, rfl⟩) | cases hs

/-- the executable form used by the driver: with `ureq` user-driven requests so far, a session may have
    been sent at most `advanceSpec + ureq` ReqWorkConn -/
def reqsOk (client serverMax : Int) (ureq : Nat) (impl : String) : Bool :=
  match ((impl.splitOn ":").getLast?.getD "").toNat? with
  | some n => decide (n ≤ advanceSpec client serverMax + ureq)
  | none => false

/-! ## 3. `limbo`: a work connection that is neither pooled nor closed (§7/11) -/

/-- no work connection is ever left open outside the pool and outside a handler -/
def NoLimboFull (fx : Fix) : Prop :=
  ∀ (pc : Int) (T : Nat) (s : St) (c : Nat), Reach fx pc T s → s.w.get c ≠ some .limbo

/-- the schedule: a work connection passes the session lookup, the control connection dies and the
    worker closes the pool, then RegisterWorkConn sends -/
def limboTrace : List Label := [.dial 0, .lookup 0 true, .dispDone, .closePool, .send 0]

theorem limbo_witness :
    (run pinned (init 1 1) limboTrace).map (fun s => s.w.get 0) = some (some .limbo) := by decide

/-- FALSE on the pinned tree -/
theorem noLimboFull_pinned_false : ¬ NoLimboFull pinned := by
  intro h
  cases hr : run pinned (init 1 1) limboTrace with
  | none => have := limbo_witness; rw [hr] at this; cases this
  | some s =>
    have hw := limbo_witness
    rw [hr] at hw
    simp at hw
    exact h 1 1 s 0 (reach_run Reach.init limboTrace hr) hw

/-- what IS true on the pinned tree: limbo needs a send that met the closed pool -/
theorem no_limbo_partial {fx : Fix} {pc : Int} {T : Nat} {s : St} (h : Reach fx pc T s)
    (hl : s.lateSend = false) (c : Nat) : s.w.get c ≠ some .limbo := by
  intro hc
  have := ((inv_reach h).limbo_late c hc).1
  rw [hl] at this; cases this

/-- TRUE with the proposed repair (RegisterWorkConn reports the closed pool as an error) -/
theorem noLimboFull_repaired : NoLimboFull repaired := by
  intro pc T s c h hc
  have := ((inv_reach h).limbo_late c hc).2
  cases this

theorem no_limbo_of_fix {fx : Fix} (hf : fx.closeOnClosedPool = true) : NoLimboFull fx := by
  intro pc T s c h hc
  have := ((inv_reach h).limbo_late c hc).2
  rw [hf] at this; cases this

/-- with the repair, a late offer is closed -/
theorem late_offer_closed_repaired (s : St) (c : Nat) (hp : s.panicked = false)
    (hw : s.w.get c = some .lookedUp) (hc : s.poolClosed = true) :
    step repaired s (.send c) = some ({ s with w := s.w.set c .closed, lateSend := true }, .refused) := by
  simp [step, hp, hw, hc, repaired]

/-! ## 4. negative poolCount: the retry loop that never runs (new candidate, with §7/4) -/

/-- frps survives every user connection -/
def NoCrashFull (fx : Fix) : Prop :=
  ∀ (client serverMax : Int) (T : Nat) (s : St),
    newControlPanics (clampPoolCount fx.clampPoolCount (newPoolCount client serverMax)) = false →
    Reach fx (clampPoolCount fx.clampPoolCount (newPoolCount client serverMax)) T s → s.panicked = false

/-- Login.PoolCount = -1, one user connection: `defer workConn.Close()` on a nil interface -/
theorem crash_witness : (run pinned (init (-1) 1) [.regProxy 0, .accept 0]).map (·.panicked) = some true := by decide

theorem noCrashFull_pinned_false : ¬ NoCrashFull pinned := by
  intro h
  cases hr : run pinned (init (-1) 1) [.regProxy 0, .accept 0] with
  | none => have := crash_witness; rw [hr] at this; cases this
  | some s =>
    have hw := crash_witness
    rw [hr] at hw
    simp at hw
    have e : clampPoolCount pinned.clampPoolCount (newPoolCount (-1) 5) = -1 := by decide
    have hh := h (-1) 5 1 s
    rw [e] at hh
    have := hh (by decide) (reach_run Reach.init _ hr)
    rw [hw] at this; cases this

/-- what IS true on the pinned tree: non-negative poolCount never crashes -/
theorem no_crash_partial {fx : Fix} {pc : Int} {T : Nat} {s : St} (h : Reach fx pc T s) (hpc : 0 ≤ pc) :
    s.panicked = false := by
  cases hp : s.panicked with
  | false => rfl
  | true =>
    have := (inv_reach h).panic_tries hp
    rw [(reach_params h).1] at this
    unfold tries at this
    omega

/-- TRUE with the proposed clamp -/
theorem noCrashFull_repaired : NoCrashFull repaired := by
  intro c m T s _ h
  apply no_crash_partial h
  show 0 ≤ clampPoolCount true (newPoolCount c m)
  unfold clampPoolCount
  simp
  split <;> omega

/-! ## 5. vhost hand-off (§7/10, Muxer.handle) -/

/-- no connection routed to a listener is left open when the hand-off fails -/
def HandoffNoLimboFull (fx : Fix) : Prop :=
  ∀ (s : Handoff.St) (c : Nat), Handoff.Reach fx s → s.c.get c ≠ some .limbo

def handoffLimboTrace : List Handoff.Label := [.listen 0, .conn 0, .route 0 0, .closeListener 0, .handoff 0]

theorem handoff_limbo_witness :
    (Handoff.run pinned {} handoffLimboTrace).map (fun s => s.c.get 0) = some (some .limbo) := by decide

theorem handoff_reach_run {fx : Fix} {s s' : Handoff.St} (h : Handoff.Reach fx s) (ls : List Handoff.Label)
    (hr : Handoff.run fx s ls = some s') : Handoff.Reach fx s' := by
  induction ls generalizing s with
  | nil => simp [Handoff.run] at hr; subst hr; exact h
  | cons l ls ih =>
    simp only [Handoff.run] at hr
    split at hr
    · cases hr
    · rename_i s1 hs
      exact ih (Handoff.Reach.step h hs) hr

theorem handoffNoLimbo_pinned_false : ¬ HandoffNoLimboFull pinned := by
  intro h
  cases hr : Handoff.run pinned {} handoffLimboTrace with
  | none => have := handoff_limbo_witness; rw [hr] at this; cases this
  | some s =>
    have hw := handoff_limbo_witness
    rw [hr] at hw
    simp at hw
    exact h s 0 (handoff_reach_run Handoff.Reach.init _ hr) hw

theorem handoff_step_limbo {fx : Fix} {s s' : Handoff.St} {l : Handoff.Label}
    (hi : ∀ c, s.c.get c = some .limbo → fx.closeOnFailedHandoff = false)
    (hs : Handoff.step fx s l = some s') :
    ∀ c, s'.c.get c = some .limbo → fx.closeOnFailedHandoff = false := by
  cases l with
  | listen l =>
    simp only [Handoff.step] at hs; split at hs
    · cases hs
    · cases hs; exact hi
  | conn c0 =>
    simp only [Handoff.step] at hs; split at hs
    · cases hs
    · cases hs; intro c
      show (s.c.set c0 .parsed).get c = some .limbo → _
      rw [Tbl.get_set]; by_cases hc : c = c0
      · subst hc; simp
      · simp only [hc, if_false]; exact hi c
  | route c0 l =>
    simp only [Handoff.step] at hs; split at hs
    · cases hs; intro c
      show (s.c.set c0 (.routed l)).get c = some .limbo → _
      rw [Tbl.get_set]; by_cases hc : c = c0
      · subst hc; simp
      · simp only [hc, if_false]; exact hi c
    · cases hs
  | noRoute c0 =>
    simp only [Handoff.step] at hs; split at hs
    · cases hs; intro c
      show (s.c.set c0 .closed).get c = some .limbo → _
      rw [Tbl.get_set]; by_cases hc : c = c0
      · subst hc; simp
      · simp only [hc, if_false]; exact hi c
    · cases hs
  | closeListener l =>
    simp only [Handoff.step] at hs; split at hs
    · cases hs; exact hi
    · cases hs
  | handoff c0 =>
    simp only [Handoff.step] at hs; split at hs
    · split at hs
      · cases hs; intro c
        rename_i l _ _
        show (s.c.set c0 (.delivered l)).get c = some .limbo → _
        rw [Tbl.get_set]; by_cases hc : c = c0
        · subst hc; simp
        · simp only [hc, if_false]; exact hi c
      · cases hs; intro c
        show (s.c.set c0 (if fx.closeOnFailedHandoff then .closed else .limbo)).get c = some .limbo → _
        rw [Tbl.get_set]; by_cases hc : c = c0
        · subst hc
          cases hf : fx.closeOnFailedHandoff <;> simp
        · simp only [hc, if_false]; exact hi c
    · cases hs

/-- TRUE with the proposed repair (close the connection when the send panicked) -/
theorem handoffNoLimbo_repaired : HandoffNoLimboFull repaired := by
  intro s c h
  have : ∀ c, s.c.get c = some .limbo → repaired.closeOnFailedHandoff = false := by
    induction h with
    | init => intro c hc; simp [Tbl.get] at hc
    | step _ hs ih => exact handoff_step_limbo ih hs
  intro hc; have := this c hc; cases this

/-- the hand-off of a routed connection always completes, and delivers only to an open listener -/
theorem handoff_outcome (fx : Fix) (s : Handoff.St) (c l : Nat) (hc : s.c.get c = some (.routed l)) :
    ∃ s', Handoff.step fx s (.handoff c) = some s' ∧
      (s'.c.get c = some (.delivered l) ∧ s.lsn.get l = some true ∨
       s'.c.get c = some (if fx.closeOnFailedHandoff then .closed else .limbo) ∧ s.lsn.get l ≠ some true) := by
  by_cases hl : s.lsn.get l = some true
  · exact ⟨{ s with c := s.c.set c (.delivered l) }, by simp [Handoff.step, hc, hl],
      Or.inl ⟨by simp [Tbl.get_set], hl⟩⟩
  · exact ⟨{ s with c := s.c.set c (if fx.closeOnFailedHandoff then .closed else .limbo) },
      by simp [Handoff.step, hc, hl], Or.inr ⟨by simp [Tbl.get_set], hl⟩⟩

/-! ## 6. visitor-listener accept path (InternalListener; stcp / sudp / xtcp proxies) -/

namespace VL

structure Inv (s : VListen.St) : Prop where
  nodup : s.q.Nodup
  queued_iff : ∀ c, c ∈ s.q ↔ s.c.get c = some VListen.V.queued
  le_cap : s.q.length ≤ s.cap
  exit_empty : s.loopExit = true → s.q = [] ∧ s.chClosed = true
  unreg_closed : s.registered = false → s.chClosed = true

theorem inv_init (cap : Nat) : Inv { cap := cap } := by
  constructor <;> simp [Tbl.get]

theorem inv_setClosed {s : VListen.St} (h : Inv s) (c : Nat) (hn : s.c.get c = none) :
    Inv { s with c := s.c.set c VListen.V.closed } := by
  refine ⟨h.nodup, ?_, h.le_cap, h.exit_empty, h.unreg_closed⟩
  intro c'
  show c' ∈ s.q ↔ (s.c.set c VListen.V.closed).get c' = some VListen.V.queued
  rw [Tbl.get_set]
  by_cases hc : c' = c
  · subst hc
    simp only [if_true, Option.some.injEq]
    constructor
    · intro hm; have := (h.queued_iff c').1 hm; rw [hn] at this; cases this
    · intro e; cases e
  · simp only [hc, if_false]; exact h.queued_iff c'

theorem inv_step {s s' : VListen.St} {l : VListen.Label} {r : VListen.Res} (h : Inv s) (hs : VListen.step s l = some (s', r)) : Inv s' := by
  cases l with
  | put c =>
    simp only [VListen.step] at hs
    split at hs
    · cases hs
    · rename_i hc
      have hn : s.c.get c = none := by
        cases hg : s.c.get c with
        | none => rfl
        | some v => exact absurd (by simp [hg]) hc
      split at hs
      · cases hs; exact inv_setClosed h c hn
      · split at hs
        · cases hs; exact inv_setClosed h c hn
        · rename_i hreg hcl
          split at hs
          · rename_i hlen
            cases hs
            have hcn : c ∉ s.q := by
              intro hm; have := (h.queued_iff c).1 hm; rw [hn] at this; cases this
            refine ⟨?_, ?_, ?_, ?_, h.unreg_closed⟩
            · show (s.q ++ [c]).Nodup
              rw [List.nodup_append]
              refine ⟨h.nodup, by simp, ?_⟩
              intro a ha b hb
              simp at hb; subst hb
              intro e; subst e; exact hcn ha
            · intro c'
              show c' ∈ s.q ++ [c] ↔ (s.c.set c VListen.V.queued).get c' = some VListen.V.queued
              rw [Tbl.get_set]
              by_cases hc' : c' = c
              · subst hc'; simp
              · simp only [hc', if_false, List.mem_append, List.mem_singleton, or_false]; exact h.queued_iff c'
            · show (s.q ++ [c]).length ≤ s.cap
              simp; omega
            · intro he
              have := (h.exit_empty he).2
              exact absurd this hcl
          · cases hs; exact inv_setClosed h c hn
  | accept =>
    simp only [VListen.step] at hs
    split at hs
    · cases hs
    · rename_i hle
      split at hs
      · rename_i c rest hq
        cases hs
        have hnd := h.nodup
        rw [hq] at hnd
        have hcn : c ∉ rest := (List.nodup_cons.1 hnd).1
        refine ⟨(List.nodup_cons.1 hnd).2, ?_, ?_, ?_, h.unreg_closed⟩
        · intro c'
          show c' ∈ rest ↔ (s.c.set c VListen.V.accepted).get c' = some VListen.V.queued
          rw [Tbl.get_set]
          by_cases hc' : c' = c
          · subst hc'; simp [hcn]
          · simp only [hc', if_false]
            rw [← h.queued_iff c', hq]; simp [hc']
        · have := h.le_cap; rw [hq] at this; simp at this; show rest.length ≤ s.cap; omega
        · intro he; exact absurd he hle
      · rename_i hq
        split at hs
        · rename_i hcl
          cases hs
          exact ⟨h.nodup, h.queued_iff, h.le_cap, fun _ => ⟨hq, hcl⟩, h.unreg_closed⟩
        · cases hs
  | closeL =>
    simp only [VListen.step] at hs
    cases hs
    exact ⟨h.nodup, h.queued_iff, h.le_cap, fun he => ⟨(h.exit_empty he).1, rfl⟩, fun _ => rfl⟩
  | unregister =>
    simp only [VListen.step] at hs
    split at hs
    · rename_i hc
      cases hs
      exact ⟨h.nodup, h.queued_iff, h.le_cap, h.exit_empty, fun _ => hc.1⟩
    · cases hs

theorem inv_reach {cap : Nat} {s : VListen.St} (h : VListen.Reach cap s) : Inv s := by
  induction h with
  | init => exact inv_init cap
  | step _ hs ih => exact inv_step ih hs

end VL

/-- NEVER ORPHANED on the visitor-listener path, for all interleavings of put / accept / close /
    unregister: once the accept goroutine has returned, no connection that was ever put is still
    queued — each one was returned by Accept (and is owned by a handler) or has been closed -/
theorem visitor_none_stranded {cap : Nat} {s : VListen.St} (h : VListen.Reach cap s) (he : s.loopExit = true) (c : Nat) :
    s.c.get c = some VListen.V.accepted ∨ s.c.get c = some VListen.V.closed ∨ s.c.get c = none := by
  have inv := VL.inv_reach h
  cases hg : s.c.get c with
  | none => exact Or.inr (Or.inr rfl)
  | some v =>
    cases v with
    | accepted => exact Or.inl rfl
    | closed => exact Or.inr (Or.inl rfl)
    | queued =>
      have := (inv.queued_iff c).2 hg
      rw [(inv.exit_empty he).1] at this; cases this

/-- the queue and the per-connection states agree, without duplicates, within the capacity -/
theorem visitor_queue_sound {cap : Nat} {s : VListen.St} (h : VListen.Reach cap s) :
    s.q.Nodup ∧ s.q.length ≤ s.cap ∧ ∀ c, c ∈ s.q ↔ s.c.get c = some VListen.V.queued :=
  ⟨(VL.inv_reach h).nodup, (VL.inv_reach h).le_cap, (VL.inv_reach h).queued_iff⟩

/-- a connection handed to NewConn is queued (only while the listener is open, registered and below
    capacity) or closed on the spot; PutConn never loses one -/
theorem visitor_put_outcome (s : VListen.St) (c : Nat) (hn : s.c.get c = none) :
    ∃ s' r, VListen.step s (VListen.Label.put c) = some (s', r) ∧
      ((r = VListen.Res.queued ∧ s'.c.get c = some VListen.V.queued ∧ s.chClosed = false ∧ s.registered = true ∧ s.q.length < s.cap) ∨
       ((r = VListen.Res.err ∨ r = VListen.Res.full) ∧ s'.c.get c = some VListen.V.closed)) := by
  by_cases hr : s.registered = false
  · exact ⟨{ s with c := s.c.set c VListen.V.closed }, VListen.Res.err, by simp [VListen.step, hn, hr], Or.inr ⟨Or.inl rfl, by simp [Tbl.get_set]⟩⟩
  · by_cases hc : s.chClosed = true
    · exact ⟨{ s with c := s.c.set c VListen.V.closed }, VListen.Res.err, by simp [VListen.step, hn, hr, hc], Or.inr ⟨Or.inl rfl, by simp [Tbl.get_set]⟩⟩
    · by_cases hl : s.q.length < s.cap
      · exact ⟨{ s with q := s.q ++ [c], c := s.c.set c VListen.V.queued }, VListen.Res.queued, by simp [VListen.step, hn, hr, hc, hl],
          Or.inl ⟨rfl, by simp [Tbl.get_set], by simpa using hc, by simpa using hr, hl⟩⟩
      · exact ⟨{ s with c := s.c.set c VListen.V.closed }, VListen.Res.full, by simp [VListen.step, hn, hr, hc, hl],
          Or.inr ⟨Or.inr rfl, by simp [Tbl.get_set]⟩⟩

/-- after Close the accept loop cannot block and cannot leave early: it returns every queued connection,
    in order, and only then exits -/
theorem visitor_drain_after_close (s : VListen.St) (hc : s.chClosed = true) (hl : s.loopExit = false) :
    ∃ s', VListen.run s (List.replicate (s.q.length + 1) VListen.Label.accept) = some s' ∧ s'.loopExit = true ∧ s'.q = [] ∧
      ∀ c, c ∈ s.q → s.q.Nodup → s'.c.get c = some VListen.V.accepted := by
  generalize hq : s.q = q
  induction q generalizing s with
  | nil =>
    refine ⟨{ s with loopExit := true }, ?_, rfl, hq, by intro c hm; cases hm⟩
    simp [VListen.run, VListen.step, hl, hq, hc]
  | cons a rest ih =>
    let s1 : VListen.St := { s with q := rest, c := s.c.set a VListen.V.accepted }
    have hs : VListen.step s VListen.Label.accept = some (s1, VListen.Res.got a) := by simp [VListen.step, hl, hq, s1]
    obtain ⟨s', hr, he, hq', hall⟩ := ih s1 hc hl rfl
    refine ⟨s', ?_, he, hq', ?_⟩
    · show VListen.run s (VListen.Label.accept :: List.replicate (rest.length + 1) VListen.Label.accept) = some s'
      simp only [VListen.run, hs]; exact hr
    · intro c hm hnd
      have hnd' := List.nodup_cons.1 hnd
      by_cases hca : c = a
      · subst hca
        -- a is not in rest: the later accepts do not touch it
        have keep : ∀ (t : VListen.St) (n : Nat) (t' : VListen.St), t.c.get c = some VListen.V.accepted → c ∉ t.q →
            VListen.run t (List.replicate n VListen.Label.accept) = some t' → t'.c.get c = some VListen.V.accepted := by
          intro t n
          induction n generalizing t with
          | zero => intro t' h1 _ h3; simp [VListen.run] at h3; subst h3; exact h1
          | succ n ihn =>
            intro t' h1 h2 h3
            simp only [List.replicate_succ, VListen.run] at h3
            split at h3
            · cases h3
            · rename_i t1 r1 hst
              simp only [VListen.step] at hst
              split at hst
              · cases hst
              · split at hst
                · rename_i b rest' hqb
                  cases hst
                  have hcb : c ≠ b := by intro e; subst e; exact h2 (by rw [hqb]; simp)
                  exact ihn _ t' (by simp [Tbl.get_set, hcb, h1]) (by intro hm'; exact h2 (by rw [hqb]; simp [hm'])) h3
                · split at hst
                  · cases hst; exact ihn { t with loopExit := true } t' h1 h2 h3
                  · cases hst
        exact keep s1 _ s' (by simp [s1, Tbl.get_set]) hnd'.1 hr
      · have : c ∈ rest := by simpa [hca] using hm
        exact hall c this hnd'.2

/-! ## 7. group-listener accept path (TCPGroup / TCPMuxGroup hand-off) -/

namespace GA

structure Inv (s : GroupAccept.St) : Prop where
  backlog_iff : ∀ c, s.c.get c = some GroupAccept.G.backlog → c ∈ s.backlog
  held_iff : ∀ c, s.c.get c = some GroupAccept.G.held → s.hold = some c
  idle : s.members = 0 → s.backlog = [] ∧ s.hold = none

theorem inv_setOther {s : GroupAccept.St} (h : Inv s) (c : Nat) (v : GroupAccept.G)
    (hv1 : v ≠ .backlog) (hv2 : v ≠ .held) (m : Nat) (hm : m = 0 → s.members = 0) :
    Inv { s with members := m, c := s.c.set c v } := by
  refine ⟨?_, ?_, fun e => h.idle (hm e)⟩
  · intro c'
    show (s.c.set c v).get c' = some GroupAccept.G.backlog → c' ∈ s.backlog
    rw [Tbl.get_set]
    by_cases hc : c' = c
    · subst hc; simp only [if_true, Option.some.injEq]; intro e; exact absurd e hv1
    · simp only [hc, if_false]; exact h.backlog_iff c'
  · intro c'
    show (s.c.set c v).get c' = some GroupAccept.G.held → s.hold = some c'
    rw [Tbl.get_set]
    by_cases hc : c' = c
    · subst hc; simp only [if_true, Option.some.injEq]; intro e; exact absurd e hv2
    · simp only [hc, if_false]; exact h.held_iff c'

theorem inv_step {s s' : GroupAccept.St} {l : GroupAccept.Label} (h : Inv s)
    (hs : GroupAccept.step s l = some s') : Inv s' := by
  cases l with
  | listen =>
    simp only [GroupAccept.step] at hs
    cases hs
    exact ⟨h.backlog_iff, h.held_iff, fun e => by simp at e⟩
  | conn c =>
    simp only [GroupAccept.step] at hs
    split at hs
    · cases hs
    · split at hs
      · cases hs; exact inv_setOther h c .closed (by simp) (by simp) s.members (fun e => e)
      · rename_i hm
        cases hs
        refine ⟨?_, ?_, fun e => absurd e hm⟩
        · intro c'
          show (s.c.set c .backlog).get c' = some GroupAccept.G.backlog → c' ∈ s.backlog ++ [c]
          rw [Tbl.get_set]
          by_cases hc : c' = c
          · subst hc; simp
          · simp only [hc, if_false]; intro e; simp [h.backlog_iff c' e]
        · intro c'
          show (s.c.set c .backlog).get c' = some GroupAccept.G.held → s.hold = some c'
          rw [Tbl.get_set]
          by_cases hc : c' = c
          · subst hc; simp
          · simp only [hc, if_false]; exact h.held_iff c'
  | workerAccept =>
    simp only [GroupAccept.step] at hs
    split at hs
    · rename_i c rest hh hb
      split at hs
      · cases hs
      · rename_i hm
        cases hs
        refine ⟨?_, ?_, fun e => absurd e hm⟩
        · intro c'
          show (s.c.set c .held).get c' = some GroupAccept.G.backlog → c' ∈ rest
          rw [Tbl.get_set]
          by_cases hc : c' = c
          · subst hc; simp
          · simp only [hc, if_false]; intro e
            have := h.backlog_iff c' e
            rw [hb] at this; simpa [hc] using this
        · intro c'
          show (s.c.set c .held).get c' = some GroupAccept.G.held → some c = some c'
          rw [Tbl.get_set]
          by_cases hc : c' = c
          · subst hc; simp
          · simp only [hc, if_false]; intro e
            have := h.held_iff c' e
            rw [hh] at this; cases this
    · cases hs
  | recv =>
    simp only [GroupAccept.step] at hs
    split at hs
    · rename_i c hh
      split at hs
      · cases hs
      · rename_i hm
        cases hs
        refine ⟨?_, ?_, fun e => absurd e hm⟩
        · intro c'
          show (s.c.set c .delivered).get c' = some GroupAccept.G.backlog → c' ∈ s.backlog
          rw [Tbl.get_set]
          by_cases hc : c' = c
          · subst hc; simp
          · simp only [hc, if_false]; exact h.backlog_iff c'
        · intro c'
          show (s.c.set c .delivered).get c' = some GroupAccept.G.held → none = some c'
          rw [Tbl.get_set]
          by_cases hc : c' = c
          · subst hc; simp
          · simp only [hc, if_false]; intro e
            have := h.held_iff c' e
            rw [hh] at this; simp at this; exact absurd this.symm hc
    · cases hs
  | leave =>
    simp only [GroupAccept.step] at hs
    split at hs
    · cases hs
    · split at hs
      · cases hs
        refine ⟨?_, ?_, fun _ => ⟨rfl, rfl⟩⟩
        · intro c'
          show (s.backlog.foldl (fun (t : Tbl GroupAccept.G) c => t.set c GroupAccept.G.closed) _).get c' = some GroupAccept.G.backlog → c' ∈ []
          rw [foldl_set_get]
          by_cases hm : c' ∈ s.backlog
          · simp [hm]
          · simp only [hm, if_false]
            intro e
            have : s.c.get c' = some GroupAccept.G.backlog := by
              cases hh : s.hold with
              | none => simpa [hh] using e
              | some c0 =>
                simp only [hh] at e
                rw [Tbl.get_set] at e
                by_cases hc : c' = c0
                · simp [hc] at e
                · simpa [hc] using e
            exact absurd (h.backlog_iff c' this) hm
        · intro c'
          show (s.backlog.foldl (fun (t : Tbl GroupAccept.G) c => t.set c GroupAccept.G.closed) _).get c' = some GroupAccept.G.held → none = some c'
          rw [foldl_set_get]
          by_cases hm : c' ∈ s.backlog
          · simp [hm]
          · simp only [hm, if_false]
            intro e
            exfalso
            cases hh : s.hold with
            | none =>
              simp only [hh] at e
              have := h.held_iff c' e
              rw [hh] at this; cases this
            | some c0 =>
              simp only [hh] at e
              rw [Tbl.get_set] at e
              by_cases hc : c' = c0
              · simp [hc] at e
              · simp only [hc, if_false] at e
                have := h.held_iff c' e
                rw [hh] at this; simp at this; exact hc this.symm
      · rename_i h0 h1
        cases hs
        exact ⟨h.backlog_iff, h.held_iff, fun e => by simp at e; omega⟩

theorem inv_reach {s : GroupAccept.St} (h : GroupAccept.Reach s) : Inv s := by
  induction h with
  | init => exact ⟨by intro c e; simp [Tbl.get] at e, by intro c e; simp [Tbl.get] at e, fun _ => ⟨rfl, rfl⟩⟩
  | step _ hs ih => exact inv_step ih hs

end GA

/-- NEVER ORPHANED on the group-listener path, for all interleavings of joins, user connections, worker
    and member accepts and leaves: when no member is left, every connection that ever reached the group's
    port was delivered to a member (its handler owns it) or has been closed — none sits in a channel or
    in the worker's hands -/
theorem group_none_stranded {s : GroupAccept.St} (h : GroupAccept.Reach s) (hm : s.members = 0) (c : Nat) :
    s.c.get c = some .delivered ∨ s.c.get c = some .closed ∨ s.c.get c = none := by
  have inv := GA.inv_reach h
  cases hg : s.c.get c with
  | none => exact Or.inr (Or.inr rfl)
  | some v =>
    cases v with
    | delivered => exact Or.inl rfl
    | closed => exact Or.inr (Or.inl rfl)
    | backlog => have := inv.backlog_iff c hg; rw [(inv.idle hm).1] at this; cases this
    | held => have := inv.held_iff c hg; rw [(inv.idle hm).2] at this; cases this

/-- the unbuffered hand-off holds at most one connection outside the kernel queue at any time -/
theorem group_worker_holds_one {s : GroupAccept.St} (h : GroupAccept.Reach s) (c c' : Nat)
    (h1 : s.c.get c = some .held) (h2 : s.c.get c' = some .held) : c = c' := by
  have inv := GA.inv_reach h
  have a := inv.held_iff c h1
  have b := inv.held_iff c' h2
  rw [a] at b; simpa using b

/-! ## 8. the control-message send path: a handler parked in `Dispatcher.Send`

  `Frp.Pool`'s label `request u ok` is GetWorkConn's `msgDispatcher.Send(&msg.ReqWorkConn{})`.  `Frp.SendPath`
  splits it: the handler enters `Send` (`call u`), and leaves it through the send arm (`enq u`: Pool's
  `request u true`) or through the `doneCh` arm (`wake u`: Pool's `request u false`).  While the client does
  not read its control connection and the queue is full the handler is parked — for as long as the session
  lives.  The clause proved here: the end of the session (`done`) releases every parked handler, for all
  interleavings of senders, send loop, write, read failure and `conn.Close()`; Pool's `request u false` then
  closes the user connection, `request u true` leads to the closed pool or the timeout. -/

namespace SP

structure Inv (s : SendPath.St) : Prop where
  q_le : s.q.length ≤ s.cap
  eof_done : ∀ u, s.p.get u = some .eof → s.done = true
  exit_done : s.loopExit = true → s.done = true
  exit_idle : s.loopExit = true → s.wr = none

theorem inv_init (cap : Nat) : Inv (SendPath.init cap) := by
  refine ⟨by simp [SendPath.init], ?_, ?_, ?_⟩
  · intro u h; simp [SendPath.init, Tbl.get] at h
  · intro h; simp [SendPath.init] at h
  · intro _; rfl

theorem inv_step {plain : Bool} {s s' : SendPath.St} {l : SendPath.Label} (h : Inv s)
    (hs : SendPath.step plain s l = some s') : Inv s' := by
  obtain ⟨h1, h2, h3, h4⟩ := h
  cases l with
  | call u =>
    simp only [SendPath.step] at hs
    split at hs
    · cases hs
    · split at hs
      · rename_i hpd
        cases hs
        refine ⟨h1, ?_, h3, h4⟩
        intro u' hu'
        simp only [Tbl.get_set] at hu'
        split at hu'
        · exact hpd.2
        · exact h2 u' hu'
      · cases hs
        refine ⟨h1, ?_, h3, h4⟩
        intro u' hu'
        simp only [Tbl.get_set] at hu'
        split at hu'
        · cases hu'
        · exact h2 u' hu'
  | enq u =>
    simp only [SendPath.step] at hs
    split at hs
    · rename_i hc
      cases hs
      refine ⟨?_, ?_, h3, h4⟩
      · simp only [List.length_append, List.length_cons, List.length_nil]; omega
      · intro u' hu'
        simp only [Tbl.get_set] at hu'
        split at hu'
        · cases hu'
        · exact h2 u' hu'
    · cases hs
  | wake u =>
    simp only [SendPath.step] at hs
    split at hs
    · rename_i hc
      cases hs
      refine ⟨h1, ?_, h3, h4⟩
      intro u' hu'
      simp only [Tbl.get_set] at hu'
      split at hu'
      · exact hc.2.2
      · exact h2 u' hu'
    · cases hs
  | loopRecv =>
    simp only [SendPath.step] at hs
    split at hs
    · rename_i he _ hq
      cases hs
      refine ⟨?_, h2, h3, ?_⟩
      · simp only [hq, List.length_cons] at h1; simp only; omega
      · intro hx; simp only at hx; rw [he] at hx; cases hx
    · cases hs
  | loopDone =>
    simp only [SendPath.step] at hs
    split at hs
    · rename_i hc
      cases hs
      exact ⟨h1, h2, fun _ => hc.2.2, fun _ => hc.2.1⟩
    · cases hs
  | written ok =>
    simp only [SendPath.step] at hs
    split at hs
    · rename_i m hw
      have hne : s.loopExit ≠ true := by
        intro he; have := h4 he; rw [this] at hw; cases hw
      split at hs
      · split at hs
        · cases hs
        · cases hs; exact ⟨h1, h2, h3, fun _ => rfl⟩
      · split at hs
        · cases hs; exact ⟨h1, h2, h3, fun _ => rfl⟩
        · cases hs
    · cases hs
  | readFail =>
    simp only [SendPath.step] at hs
    split at hs
    · cases hs
    · cases hs; exact ⟨h1, fun _ _ => rfl, fun _ => rfl, h4⟩
  | connClose =>
    simp only [SendPath.step] at hs
    split at hs
    · cases hs
    · cases hs; exact ⟨h1, h2, h3, h4⟩

theorem inv_reach {plain : Bool} {cap : Nat} {s : SendPath.St} (h : SendPath.Reach plain cap s) : Inv s := by
  induction h with
  | init => exact inv_init cap
  | step _ hs ih => exact inv_step ih hs

theorem reach_run {plain : Bool} {cap : Nat} {s s' : SendPath.St} (h : SendPath.Reach plain cap s)
    (ls : List SendPath.Label) (hr : SendPath.run plain s ls = some s') : SendPath.Reach plain cap s' := by
  induction ls generalizing s with
  | nil => simp [SendPath.run] at hr; subst hr; exact h
  | cons l ls ih =>
    simp only [SendPath.run] at hr
    split at hr
    · cases hr
    · rename_i s1 hs
      exact ih (SendPath.Reach.step h hs) hr

end SP

/-- the send queue never holds more than its capacity (100) -/
theorem send_queue_bounded {plain : Bool} {cap : Nat} {s : SendPath.St} (h : SendPath.Reach plain cap s) :
    s.q.length ≤ s.cap := (SP.inv_reach h).q_le

/-- `Send` returns io.EOF only once `doneCh` is closed … -/
theorem send_eof_only_after_done {plain : Bool} {cap : Nat} {s : SendPath.St} (h : SendPath.Reach plain cap s)
    (u : Nat) (hu : s.p.get u = some .eof) : s.done = true := (SP.inv_reach h).eof_done u hu

/-- … which is the guard of Pool's `request u false`; that label closes the user connection at once
    (GetWorkConn: "control is already closed" ⇒ handleUserTCPConnection returns, deferred `userConn.Close()`) -/
theorem send_eof_closes_user (fx : Fix) (s : St) (u : Nat) (r : St × Res)
    (hs : step fx s (.request u false) = some r) : s.dispDone = true ∧ r.1.u.get u = some .closed := by
  simp only [step] at hs
  split at hs
  · cases hs
  · split at hs
    · split at hs
      · cases hs
      · split at hs
        · rename_i h; cases h
        · split at hs
          · rename_i hd
            cases hs
            exact ⟨hd, by simp [Tbl.get_set]⟩
          · cases hs
    · cases hs

/-- a handler inside `Send` is blocked (neither arm ready) exactly when the queue is full and the session lives -/
theorem parked_blocked_iff (s : SendPath.St) (u : Nat) (hu : s.p.get u = some .parked) :
    (SendPath.step false s (.enq u) = none ∧ SendPath.step false s (.wake u) = none) ↔
    (s.cap ≤ s.q.length ∧ s.done = false) := by
  simp only [SendPath.step, hu, true_and]
  constructor
  · intro ⟨h1, h2⟩
    constructor
    · by_cases h : s.q.length < s.cap
      · simp [h] at h1
      · omega
    · cases hd : s.done with
      | false => rfl
      | true => simp [hd] at h2
  · intro ⟨h1, h2⟩
    have : ¬ s.q.length < s.cap := by omega
    simp [this, h2]

/-- THE RELEASE: once the session has ended (`doneCh` closed) the `doneCh` arm of every parked handler is ready,
    however full the queue is and whatever the send loop and the connection are doing … -/
theorem blocked_sender_released_on_end (s : SendPath.St) (u : Nat) (hu : s.p.get u = some .parked)
    (hd : s.done = true) :
    SendPath.step false s (.wake u) = some { s with p := s.p.set u .eof } := by
  simp [SendPath.step, hu, hd]

/-- … and nothing another goroutine does takes the release away: after any other label the session is still
    ended and the handler is still parked with that arm ready (so under any fair schedule it leaves `Send`) -/
theorem release_persistent {s s' : SendPath.St} {l : SendPath.Label} (u : Nat)
    (hs : SendPath.step false s l = some s') (hu : s.p.get u = some .parked) (hd : s.done = true) :
    s'.done = true ∧ (s'.p.get u = some .parked ∨ l = .enq u ∨ l = .wake u) := by
  cases l with
  | call u' =>
    simp only [SendPath.step] at hs
    split at hs
    · cases hs
    · rename_i hn
      have hne : u ≠ u' := by
        intro e; subst e; simp [hu] at hn
      split at hs <;> (cases hs; exact ⟨hd, Or.inl (by simp [Tbl.get_set, hne, hu])⟩)
  | enq u' =>
    simp only [SendPath.step] at hs
    split at hs
    · cases hs
      by_cases e : u = u'
      · subst e; exact ⟨hd, Or.inr (Or.inl rfl)⟩
      · exact ⟨hd, Or.inl (by simp [Tbl.get_set, e, hu])⟩
    · cases hs
  | wake u' =>
    simp only [SendPath.step] at hs
    split at hs
    · cases hs
      by_cases e : u = u'
      · subst e; exact ⟨hd, Or.inr (Or.inr rfl)⟩
      · exact ⟨hd, Or.inl (by simp [Tbl.get_set, e, hu])⟩
    · cases hs
  | loopRecv =>
    simp only [SendPath.step] at hs
    split at hs
    · cases hs; exact ⟨hd, Or.inl hu⟩
    · cases hs
  | loopDone =>
    simp only [SendPath.step] at hs
    split at hs
    · cases hs; exact ⟨hd, Or.inl hu⟩
    · cases hs
  | written ok =>
    simp only [SendPath.step] at hs
    split at hs
    · split at hs
      · split at hs
        · cases hs
        · cases hs; exact ⟨hd, Or.inl hu⟩
      · split at hs
        · cases hs; exact ⟨hd, Or.inl hu⟩
        · cases hs
    · cases hs
  | readFail =>
    simp only [SendPath.step] at hs
    split at hs
    · cases hs
    · cases hs <;> exact ⟨rfl, Or.inl hu⟩
  | connClose =>
    simp only [SendPath.step] at hs
    split at hs
    · cases hs
    · cases hs; exact ⟨hd, Or.inl hu⟩

/-- the clause, as a property of a `Send` implementation: in every reachable state of an ended session every
    handler parked in `Send` can leave it by a step of its own -/
def ReleasedOnEnd (plain : Bool) : Prop :=
  ∀ (cap : Nat) (s : SendPath.St) (u : Nat), SendPath.Reach plain cap s → s.done = true →
    s.p.get u = some .parked → ∃ l s', SendPath.step plain s l = some s' ∧ s'.p.get u ≠ some .parked

/-- it holds for the `select` of the tree … -/
theorem releasedOnEnd_select : ReleasedOnEnd false := by
  intro cap s u _ hd hu
  refine ⟨.wake u, _, blocked_sender_released_on_end s u hu hd, ?_⟩
  simp [Tbl.get_set]

/-- … so an ended session in which no `doneCh` arm is left to fire has nobody parked in `Send` -/
theorem ended_quiescent_none_parked (s : SendPath.St) (hd : s.done = true)
    (hq : ∀ u, SendPath.step false s (.wake u) = none) (u : Nat) : s.p.get u ≠ some .parked := by
  intro hu
  have := blocked_sender_released_on_end s u hu hd
  rw [hq u] at this; cases this

/-- the variant with a plain `d.sendCh <- m` after a non-blocking `doneCh` check: a handler parked on a full
    queue whose send loop has returned stays parked under EVERY label … -/
def Stranded (s : SendPath.St) (u : Nat) : Prop :=
  s.loopExit = true ∧ s.cap ≤ s.q.length ∧ s.p.get u = some .parked

theorem plainSend_strand_stable {s s' : SendPath.St} {l : SendPath.Label} {u : Nat}
    (hs : SendPath.step true s l = some s') (h : Stranded s u) : Stranded s' u := by
  obtain ⟨he, hq, hu⟩ := h
  cases l with
  | call u' =>
    simp only [SendPath.step] at hs
    split at hs
    · cases hs
    · rename_i hn
      have hne : u ≠ u' := by
        intro e; subst e; simp [hu] at hn
      split at hs <;> (cases hs; exact ⟨he, hq, by simp [Tbl.get_set, hne, hu]⟩)
  | enq u' =>
    simp only [SendPath.step] at hs
    split at hs
    · rename_i hc; omega
    · cases hs
  | wake u' => simp [SendPath.step] at hs
  | loopRecv => simp [SendPath.step, he] at hs
  | loopDone => simp [SendPath.step, he] at hs
  | written ok =>
    simp only [SendPath.step] at hs
    split at hs
    · split at hs
      · split at hs
        · cases hs
        · cases hs; exact ⟨he, hq, hu⟩
      · split at hs
        · cases hs; exact ⟨he, hq, hu⟩
        · cases hs
    · cases hs
  | readFail =>
    simp only [SendPath.step] at hs
    split at hs
    · cases hs
    · cases hs; exact ⟨he, hq, hu⟩
  | connClose =>
    simp only [SendPath.step] at hs
    split at hs
    · cases hs
    · cases hs; exact ⟨he, hq, hu⟩

/-- … hence for ever: no continuation of the run releases it (GetWorkConn never returns, the deferred
    `userConn.Close()` never runs: the user connection stays open without a peer) -/
theorem plainSend_stranded_forever {s s' : SendPath.St} {u : Nat} (ls : List SendPath.Label)
    (hr : SendPath.run true s ls = some s') (h : Stranded s u) : Stranded s' u := by
  induction ls generalizing s with
  | nil => simp [SendPath.run] at hr; subst hr; exact h
  | cons l ls ih =>
    simp only [SendPath.run] at hr
    split at hr
    · cases hr
    · rename_i s1 hs
      exact ih hr (plainSend_strand_stable hs h)

/-- the schedule (queue of 2 for brevity; `plainSend_strand_witness_100` below is the same with 100): the client
    stops reading (no `written true`), senders 0‥2 fill writer + queue, sender 3 parks, the read fails, the worker
    closes the connection, the pending write fails, the send loop sees `doneCh` and returns -/
def strandTrace : List SendPath.Label :=
  [.call 0, .enq 0, .loopRecv, .call 1, .enq 1, .call 2, .enq 2, .call 3, .readFail, .connClose, .written false, .loopDone]

theorem plainSend_strand_witness :
    (SendPath.run true (SendPath.init 2) strandTrace).map
      (fun s => (s.done, s.loopExit, s.q.length, s.p.get 3)) = some (true, true, 2, some .parked) := by decide

/-- the same schedule for a queue of `n`, with senders 0‥n filling writer + queue and sender n+1 parked -/
def strandTraceN (n : Nat) : List SendPath.Label :=
  [.call 0, .enq 0, .loopRecv] ++ (List.range n).flatMap (fun i => [.call (i + 1), .enq (i + 1)]) ++
  [.call (n + 1), .readFail, .connClose, .written false, .loopDone]

theorem plainSend_strand_witness_100 :
    (SendPath.run true (SendPath.init 100) (strandTraceN 100)).map
      (fun s => (s.done, s.loopExit, s.q.length, s.p.get 101)) = some (true, true, 100, some .parked) := by
  decide +kernel

/-- `ReleasedOnEnd` is false for the plain send -/
theorem releasedOnEnd_plainSend_false : ¬ ReleasedOnEnd true := by
  intro h
  have hw := plainSend_strand_witness
  cases hr : SendPath.run true (SendPath.init 2) strandTrace with
  | none => rw [hr] at hw; cases hw
  | some s =>
    rw [hr] at hw
    simp only [Option.map_some, Option.some.injEq, Prod.mk.injEq] at hw
    obtain ⟨hd, he, hq, hu⟩ := hw
    have hreach := SP.reach_run (SendPath.Reach.init (plain := true) (cap := 2)) strandTrace hr
    have hcap : s.cap = 2 := by
      have : (SendPath.run true (SendPath.init 2) strandTrace).map (·.cap) = some 2 := by decide
      rw [hr] at this; simpa using this
    obtain ⟨l, s', hs, hne⟩ := h 2 s 3 hreach hd hu
    have := plainSend_strand_stable hs ⟨he, by omega, hu⟩
    exact hne this.2.2

/-! ## non-vacuity -/

example : (GroupAccept.run {} [.listen, .conn 1, .conn 2, .conn 3, .workerAccept, .recv, .workerAccept, .leave]).map
    (fun s => [s.c.get 1, s.c.get 2, s.c.get 3]) = some [some .delivered, some .closed, some .closed] := by decide


def vlDemo : Option VListen.St :=
  VListen.run {} [.put 1, .put 2, .accept, .put 3, .closeL, .put 4, .unregister, .put 5, .accept, .accept, .accept]
example : vlDemo.map (·.loopExit) = some true := by decide
example : vlDemo.map (fun s => [s.c.get 1, s.c.get 2, s.c.get 3]) = some [some .accepted, some .accepted, some .accepted] := by decide
example : vlDemo.map (fun s => [s.c.get 4, s.c.get 5]) = some [some .closed, some .closed] := by decide
example : VListen.run {} [.put 1, .closeL, .accept, .accept, .accept] = none := by decide
example : (VListen.run { cap := 1 } [.put 1, .put 2]).map (fun s => [s.c.get 1, s.c.get 2]) =
    some [some .queued, some .closed] := by decide


/-- a reachable state with a full pool, a bridged pair, a waiting user and a refused surplus offer -/
example : ∃ s, run pinned (init 0 1)
    ([.regProxy 0, .dial 0, .lookup 0 true, .send 0, .accept 7, .take 7, .startMsg 7 true, .accept 8, .request 8 true, .tick] ) = some s ∧
    s.u.get 7 = some (.bridged 0) ∧ s.u.get 8 = some (.waiting 0 1) ∧ s.w.get 0 = some (.taken 7) := by
  refine ⟨_, rfl, ?_, ?_, ?_⟩ <;> decide

example : (run pinned (init 0 1) [.regProxy 0, .accept 8, .request 8 true, .tick, .tick]) = none := by decide
example : (run pinned (init 0 1) [.regProxy 0, .accept 8, .request 8 true, .tick, .timeout 8]).map (fun s => s.u.get 8) = some (some .closed) := by decide
example : (run repaired (init 1 1) limboTrace).map (fun s => s.w.get 0) = some (some .closed) := by decide
example : (Handoff.run repaired {} handoffLimboTrace).map (fun s => s.c.get 0) = some (some .closed) := by decide
example : advance (newPoolCount 7 5) = 5 ∧ advance (newPoolCount (-3) 5) = 0 ∧ capOf (newPoolCount (-3) 5) = 7 := by decide

/-- the schedule of `plainSend_strand_witness` on the tree's `select`: sender 3 is parked on the full queue of the
    ended session and its `doneCh` arm releases it -/
example : (SendPath.run false (SendPath.init 2) (strandTrace ++ [.wake 3])).map (fun s => s.p.get 3) = some (some .eof) := by decide
example : (SendPath.run false (SendPath.init 2) strandTrace).map (fun s => (SendPath.parkedOf s, s.q, s.wire)) = some ([3], [1, 2], []) := by decide
/-- a client that reads: everything is written, nobody parks -/
example : (SendPath.run false (SendPath.init 2) [.call 0, .enq 0, .loopRecv, .written true, .call 1, .enq 1, .loopRecv, .written true]).map
    (fun s => (SendPath.parkedOf s, s.wire)) = some ([], [0, 1]) := by decide

end C11
end Frp
