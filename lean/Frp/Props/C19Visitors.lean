import Frp.Lemmas.VisitorMgr
/-
  C19, Part V — "… and its visitors [converge] to exactly the configured ones: entries that
  disappeared or changed are stopped, unchanged entries keep running, new entries are started."

  Model: Frp/Model/VisitorMgr.lean (client/visitor/visitor_manager.go: UpdateAll, startVisitor,
  keepVisitorsRunning, Close, TransferConn).  All statements are for EVERY manager state that
  satisfies the invariant `VInv` (which every reachable state does: `vm_inv_run`), every loaded
  list, and every history of keep-alive iterations (`tryStart`, any entry in any order, any number
  of times), bind addresses being taken and released by other programs (`squat` / `free`) and
  `Close`.

  Not a theorem (and false for the code as it is): "reloading the loaded configuration changes
  nothing" for a list in which a name occurs twice with different contents — `vm_dup_restart_witness`;
  for lists without duplicated names it is `vm_reload_idempotent`.
-/
namespace Frp
namespace C19
section V
open VisitorMgr VM

/-! ### the invariant holds in every reachable state -/

theorem vm_inv_init : VInv VisitorMgr.init := by
  simp [VInv, VisitorMgr.init, VNamesNodup]

theorem vm_inv_updateAll (m : Mgr) (cfgs : List VCfg) (h : VInv m) : VInv (updateAll m cfgs) := by
  rw [updateAll_eq]
  exact addLoop_inv _ _ (afterDelete_inv m cfgs h)

theorem vm_inv_tryStart (m : Mgr) (n : Nat) (h : VInv m) : VInv (tryStart m n) := by
  unfold tryStart
  split
  · exact h
  · rename_i c hf
    split
    · exact h
    · rename_i hv
      have hn : c.name = n := by simpa using List.find?_some hf
      apply inv_start m c h (List.mem_of_find?_eq_some hf)
      rw [hn]; simpa using hv

theorem vm_inv_close (m : Mgr) (h : VInv m) : VInv (VisitorMgr.close m) := by
  obtain ⟨h1, h2, h3, h4⟩ := h
  refine ⟨h1, ?_, ?_, ?_⟩
  · simp only [VisitorMgr.close]
    rw [List.pairwise_map]
    exact h2
  · intro v hv
    simp only [VisitorMgr.close, List.mem_map] at hv
    obtain ⟨w, hw, rfl⟩ := hv
    exact h3 w hw
  · intro v hv
    simp only [VisitorMgr.close, List.mem_map] at hv
    obtain ⟨w, hw, rfl⟩ := hv
    exact h4 w hw

theorem vm_inv_step (m : Mgr) (e : Ev) (h : VInv m) : VInv (step m e) := by
  cases e with
  | upd cfgs => exact vm_inv_updateAll m cfgs h
  | tryStart n => exact vm_inv_tryStart m n h
  | squat p => simp only [step]; split <;> exact h
  | free p => exact h
  | close => exact vm_inv_close m h

theorem vm_inv_run (es : List Ev) : ∀ (m : Mgr), VInv m → VInv (run m es) := by
  induction es with
  | nil => intro m h; exact h
  | cons e es ih => intro m h; exact ih _ (vm_inv_step m e h)

/-! ### what a reload stores -/

/-- the stored names after a reload are exactly the names of the loaded list -/
theorem vm_update_names (m : Mgr) (cfgs : List VCfg) (n : Nat) :
    hasCfg (updateAll m cfgs).cfgs n = true ↔ ∃ c ∈ cfgs, c.name = n := by
  rw [updateAll_eq, addLoop_hasCfg]
  constructor
  · intro h
    rcases Bool.or_eq_true_iff.mp h with h | h
    · obtain ⟨c, hc, hn⟩ := (hasCfg_iff _ _).mp h
      simp only [afterDelete, List.mem_filter] at hc
      exact ⟨c, vkeeps_mem hc.2, hn⟩
    · exact (hasCfg_iff _ _).mp h
  · intro h
    exact Bool.or_eq_true_iff.mpr (Or.inr ((hasCfg_iff _ _).mpr h))

/-- every stored configuration is an entry of the loaded list (nothing of an earlier list survives) -/
theorem vm_update_cfgs_mem (m : Mgr) (cfgs : List VCfg) (c : VCfg) (h : c ∈ (updateAll m cfgs).cfgs) :
    c ∈ cfgs := by
  rw [updateAll_eq] at h
  rcases addLoop_cfgs_mem _ _ _ h with h | h
  · simp only [afterDelete, List.mem_filter] at h
    exact vkeeps_mem h.2
  · exact h

/-- "unchanged entries keep running": a visitor whose configuration equals the configured entry
    of its name is the SAME object afterwards (not closed, not restarted) -/
theorem vm_kept_same_visitor (m : Mgr) (cfgs : List VCfg) (h : VInv m) (v : V) (hv : v ∈ m.visitors)
    (hk : keeps cfgs v.cfg = true) : v ∈ (updateAll m cfgs).visitors := by
  rw [updateAll_eq]
  apply addLoop_visitors_sub
  simp only [afterDelete, List.mem_filter]
  refine ⟨hv, ?_⟩
  cases hg : (goneNames m cfgs).contains v.cfg.name with
  | false => rfl
  | true =>
    obtain ⟨c, hc, hkc, hn⟩ := (gone_iff m cfgs _).mp hg
    have := vnodup_eq h.1 hc (h.2.2.1 v hv) hn
    subst this
    rw [hk] at hkc; cases hkc

/-- "entries that disappeared or changed are stopped": the visitor object of a removed or changed
    entry is gone from the map (it was closed), and whatever runs under that name afterwards is a
    new object -/
theorem vm_changed_closed (m : Mgr) (cfgs : List VCfg) (h : VInv m) (v : V) (hv : v ∈ m.visitors)
    (hk : keeps cfgs v.cfg = false) :
    v ∉ (updateAll m cfgs).visitors ∧ ∀ w ∈ (updateAll m cfgs).visitors, w.cfg.name = v.cfg.name → m.nextId ≤ w.id := by
  have hgone : (goneNames m cfgs).contains v.cfg.name = true :=
    (gone_iff m cfgs _).mpr ⟨v.cfg, h.2.2.1 v hv, hk, rfl⟩
  have key : ∀ w ∈ (updateAll m cfgs).visitors, w.cfg.name = v.cfg.name → m.nextId ≤ w.id := by
    intro w hw hn
    rw [updateAll_eq] at hw
    rcases addLoop_visitors_mem _ _ _ hw with hw | hw
    · simp only [afterDelete, List.mem_filter] at hw
      rw [hn, hgone] at hw
      simp at hw
    · simpa [afterDelete_nextId] using hw
  refine ⟨?_, key⟩
  intro hmem
  have := key v hmem rfl
  have := h.2.2.2 v hv
  omega

/-- reloading the loaded configuration changes nothing — for lists without duplicated names -/
theorem vm_reload_idempotent (m : Mgr) (cfgs : List VCfg) (hnd : VNamesNodup cfgs) :
    updateAll (updateAll m cfgs) cfgs = updateAll m cfgs := by
  have hall : ∀ c ∈ (updateAll m cfgs).cfgs, keeps cfgs c = true := by
    intro c hc
    simp [keeps, vlookupLast_of_nodup hnd (vm_update_cfgs_mem m cfgs c hc)]
  have hg : goneNames (updateAll m cfgs) cfgs = [] := by
    simp only [goneNames, List.map_eq_nil_iff, List.filter_eq_nil_iff]
    intro c hc
    simp [hall c hc]
  have hd : afterDelete (updateAll m cfgs) cfgs = updateAll m cfgs := by
    simp only [afterDelete, hg, List.filter_eq_self.mpr hall]
    have : List.filter (fun v : V => !([] : List Nat).contains v.cfg.name) (updateAll m cfgs).visitors = (updateAll m cfgs).visitors :=
      List.filter_eq_self.mpr (fun _ _ => by simp)
    rw [this]
  rw [updateAll_eq (updateAll m cfgs), hd]
  apply addLoop_noop
  intro c hc
  exact (vm_update_names m cfgs c.name).mpr ⟨c, hc, rfl⟩

/-- …but not for a name that occurs twice with different contents: the FIRST entry is stored and
    started, the delete loop of the next (identical) reload compares it with the LAST entry, closes the
    visitor and starts a new one (stamp 2 instead of 1) -/
theorem vm_dup_restart_witness :
    (updateAll VisitorMgr.init [⟨1, 0, 0, false⟩, ⟨1, 1, 0, false⟩]).visitors.map (fun v => (v.cfg.variant, v.id)) = [(0, 1)] ∧
    (updateAll (updateAll VisitorMgr.init [⟨1, 0, 0, false⟩, ⟨1, 1, 0, false⟩])
        [⟨1, 0, 0, false⟩, ⟨1, 1, 0, false⟩]).visitors.map (fun v => (v.cfg.variant, v.id)) = [(0, 2)] := by
  decide

/-! ### every history after a reload -/

theorem vm_step_cfgs (m : Mgr) (e : Ev) (he : e.isUpd = false) : (step m e).cfgs = m.cfgs := by
  cases e with
  | upd cfgs => cases he
  | tryStart n =>
    simp only [step, tryStart]
    split
    · rfl
    · split
      · rfl
      · exact startVisitor_cfgs _ _
  | squat p => simp only [step]; split <;> rfl
  | free p => rfl
  | close => rfl

theorem vm_run_cfgs (es : List Ev) : ∀ (m : Mgr), (∀ e ∈ es, e.isUpd = false) → (run m es).cfgs = m.cfgs := by
  induction es with
  | nil => intro m _; rfl
  | cons e es ih =>
    intro m h
    show (run (step m e) es).cfgs = m.cfgs
    rw [ih _ (fun e' he' => h e' (List.mem_cons_of_mem _ he')), vm_step_cfgs m e (h e List.mem_cons_self)]

/-- CONVERGENCE OF THE CONFIGURED SET, for every history: after a reload of `cfgs`, whatever
    keep-alive iterations, start failures and successes, address squatting and `Close` follow (no
    further reload), the stored names are exactly the names of `cfgs` and every stored entry is
    an entry of `cfgs` -/
theorem vm_history_configured (m : Mgr) (cfgs : List VCfg) (es : List Ev) (hes : ∀ e ∈ es, e.isUpd = false) :
    (∀ n, hasCfg (run (updateAll m cfgs) es).cfgs n = true ↔ ∃ c ∈ cfgs, c.name = n) ∧
    (∀ c ∈ (run (updateAll m cfgs) es).cfgs, c ∈ cfgs) := by
  rw [vm_run_cfgs es _ hes]
  exact ⟨vm_update_names m cfgs, vm_update_cfgs_mem m cfgs⟩

/-- EVERY RUNNING VISITOR IS A CONFIGURED ONE WITH ITS CURRENT CONFIGURATION, for every history:
    a visitor that exists at any later moment was started from an entry of the loaded list and that
    entry is the one stored under its name -/
theorem vm_history_running (m : Mgr) (cfgs : List VCfg) (es : List Ev) (h : VInv m)
    (hes : ∀ e ∈ es, e.isUpd = false) (v : V) (hv : v ∈ (run (updateAll m cfgs) es).visitors) :
    v.cfg ∈ cfgs ∧ v.cfg ∈ (run (updateAll m cfgs) es).cfgs := by
  have hinv := vm_inv_run es _ (vm_inv_updateAll m cfgs h)
  have hc := hinv.2.2.1 v hv
  exact ⟨(vm_history_configured m cfgs es hes).2 _ hc, hc⟩

/-- "a removed visitor is never started again" -/
theorem vm_removed_never_runs (m : Mgr) (cfgs : List VCfg) (es : List Ev) (h : VInv m)
    (hes : ∀ e ∈ es, e.isUpd = false) (n : Nat) (hn : ∀ c ∈ cfgs, c.name ≠ n) :
    hasVisitor (run (updateAll m cfgs) es).visitors n = false := by
  rw [hasVisitor_false_iff]
  intro v hv
  exact hn _ (vm_history_running m cfgs es h hes v hv).1

/-- "a changed visitor runs with its NEW configuration" (list without duplicated names: the entry
    of the name) -/
theorem vm_changed_runs_new (m : Mgr) (cfgs : List VCfg) (es : List Ev) (h : VInv m)
    (hes : ∀ e ∈ es, e.isUpd = false) (hnd : VNamesNodup cfgs) (v : V)
    (hv : v ∈ (run (updateAll m cfgs) es).visitors) : lookupLast cfgs v.cfg.name = some v.cfg :=
  vlookupLast_of_nodup hnd (vm_history_running m cfgs es h hes v hv).1

/-! ### the keep-alive loop -/

/-- an entry that is not running and can bind is started by its next iteration, with the stored configuration -/
theorem vm_try_starts (m : Mgr) (h : VInv m) (c : VCfg) (hc : c ∈ m.cfgs)
    (hv : hasVisitor m.visitors c.name = false) (hcan : canStart m c = true) :
    (tryStart m c.name).visitors = m.visitors ++ [{ cfg := c, id := m.nextId }] := by
  simp only [tryStart, find_of_nodup h.1 hc, hv]
  exact startVisitor_can m c hcan

/-- an entry that cannot bind stays configured and is retried: the iteration changes nothing -/
theorem vm_try_blocked (m : Mgr) (h : VInv m) (c : VCfg) (hc : c ∈ m.cfgs) (hcan : canStart m c = false) :
    tryStart m c.name = m := by
  simp only [tryStart, find_of_nodup h.1 hc]
  split
  · rfl
  · exact startVisitor_cannot m c hcan

/-- an iteration never touches a running visitor and never starts one for a name that is not stored -/
theorem vm_try_others (m : Mgr) (n : Nat) (v : V) (hv : v ∈ (tryStart m n).visitors) :
    v ∈ m.visitors ∨ (v.cfg ∈ m.cfgs ∧ v.cfg.name = n ∧ v.id = m.nextId) := by
  unfold tryStart at hv
  split at hv
  · exact Or.inl hv
  · rename_i c hf
    split at hv
    · exact Or.inl hv
    · rcases startVisitor_mem _ _ _ hv with hv | ⟨rfl, _⟩
      · exact Or.inl hv
      · exact Or.inr ⟨List.mem_of_find?_eq_some hf, by simpa using List.find?_some hf, rfl⟩

/-- `vmSettled m c`: the entry runs, or it cannot be started as things are -/
def vmSettled (m : Mgr) (c : VCfg) : Prop := hasVisitor m.visitors c.name = true ∨ canStart m c = false

theorem vm_tryStart_cfgs (m : Mgr) (n : Nat) : (tryStart m n).cfgs = m.cfgs :=
  vm_step_cfgs m (.tryStart n) rfl

theorem vm_tryStart_sub (m : Mgr) (n : Nat) (v : V) (hv : v ∈ m.visitors) : v ∈ (tryStart m n).visitors := by
  unfold tryStart
  split
  · exact hv
  · split
    · exact hv
    · exact startVisitor_sub _ _ _ hv

theorem vm_tryStart_busy (m : Mgr) (n p : Nat) (hb : busy m p = true) : busy (tryStart m n) p = true := by
  have hs : (tryStart m n).squat = m.squat := by
    unfold tryStart
    split
    · rfl
    · split
      · rfl
      · exact startVisitor_squat _ _
  simp only [busy, Bool.or_eq_true, List.any_eq_true] at hb ⊢
  rcases hb with hb | ⟨v, hv, hb⟩
  · left; rw [hs]; exact hb
  · right; exact ⟨v, vm_tryStart_sub m n v hv, hb⟩

theorem vm_settled_tryStart (m : Mgr) (n : Nat) (c : VCfg) (hs : vmSettled m c) : vmSettled (tryStart m n) c := by
  rcases hs with hs | hs
  · left
    obtain ⟨v, hv, hn⟩ := (hasVisitor_iff _ _).mp hs
    exact (hasVisitor_iff _ _).mpr ⟨v, vm_tryStart_sub m n v hv, hn⟩
  · right
    simp only [canStart, Bool.and_eq_false_iff, Bool.not_eq_false', Bool.or_eq_false_iff] at hs ⊢
    rcases hs with hs | ⟨h0, hb⟩
    · exact Or.inl hs
    · exact Or.inr ⟨h0, by simpa using vm_tryStart_busy m n c.port (by simpa using hb)⟩

theorem vm_settled_pass (order : List Nat) : ∀ (m : Mgr) (c : VCfg), vmSettled m c → vmSettled (pass m order) c := by
  induction order with
  | nil => intro m c h; exact h
  | cons n rest ih => intro m c h; exact ih _ c (vm_settled_tryStart m n c h)

theorem vm_settled_after_try (m : Mgr) (h : VInv m) (c : VCfg) (hc : c ∈ m.cfgs) : vmSettled (tryStart m c.name) c := by
  by_cases hv : hasVisitor m.visitors c.name = true
  · exact vm_settled_tryStart m _ c (Or.inl hv)
  · have hv' : hasVisitor m.visitors c.name = false := by simpa using hv
    by_cases hcan : canStart m c = true
    · left
      rw [vm_try_starts m h c hc hv' hcan, hasVisitor_iff]
      exact ⟨_, List.mem_append_right _ (List.mem_singleton.mpr rfl), rfl⟩
    · have hcan' : canStart m c = false := by simpa using hcan
      rw [vm_try_blocked m h c hc hcan']
      exact Or.inr hcan'

theorem vm_pass_cfgs (order : List Nat) : ∀ (m : Mgr), (pass m order).cfgs = m.cfgs := by
  induction order with
  | nil => intro m; rfl
  | cons n rest ih => intro m; show (pass (tryStart m n) rest).cfgs = m.cfgs; rw [ih, vm_tryStart_cfgs]

/-- A COMPLETE PASS, IN ANY ORDER, SETTLES EVERY ENTRY: after the loop has iterated over all stored
    entries (Go's map order is arbitrary, entries may be visited more than once), every stored
    entry runs or cannot be started in the state the pass ends in — its bind address is taken, or
    its configuration can never start.  Together with `vm_history_running` (whatever runs is
    configured): the running-or-retrying visitors are exactly the configured ones. -/
theorem vm_pass_complete (order : List Nat) : ∀ (m : Mgr), VInv m → ∀ c ∈ m.cfgs, c.name ∈ order →
    vmSettled (pass m order) c := by
  induction order with
  | nil => intro m _ c _ hn; cases hn
  | cons n rest ih =>
    intro m h c hc hn
    show vmSettled (pass (tryStart m n) rest) c
    by_cases hcn : c.name = n
    · subst hcn
      exact vm_settled_pass rest _ c (vm_settled_after_try m h c hc)
    · have hr : c.name ∈ rest := by
        rcases List.mem_cons.mp hn with h1 | h1
        · exact absurd h1 hcn
        · exact h1
      exact ih _ (vm_inv_tryStart m n h) c (by rw [vm_tryStart_cfgs]; exact hc) hr

/-! ### the two defects of the code as it is — witnesses — and the repaired functions

    (a) a name that occurs twice with different contents: `vm_dup_restart_witness` above; with the add
        loop repaired (`updateAllFixed`: it stores and starts `cfgsMap[name]`) reloading the loaded list
        is a no-op for EVERY list, after every history.
    (b) `Close()` closes the visitors and `stopCh`, but an iteration of the keep-alive loop that was
        waiting for `vm.mu` (or a `select` that finds both the ticker and `stopCh` ready) still runs
        afterwards: an entry that was waiting for an address — one another program has released, or one
        a sibling visitor held until `Close()` closed it — is started by a manager that is closed, and
        nobody closes it.  With the iteration repaired (`tryStartFixed`) a closed manager holds no
        address, whatever follows. -/

theorem vsel_spec {all : List VCfg} {c : VCfg} (h : c ∈ all) : lookupLast all c.name = some (sel all c) := by
  unfold sel
  cases hf : lookupLast all c.name with
  | some c' => rfl
  | none =>
    unfold lookupLast at hf
    have := List.find?_eq_none.mp hf c (List.mem_reverse.mpr h)
    simp at this

theorem vsel_name (all : List VCfg) (c : VCfg) : (sel all c).name = c.name := by
  unfold sel
  split
  · rename_i c' hf
    exact (vlookupLast_mem hf).2
  · rfl

theorem hasCfg_map_sel (all cs : List VCfg) (n : Nat) : hasCfg (cs.map (sel all)) n = hasCfg cs n := by
  simp [hasCfg, List.any_map, Function.comp_def, vsel_name]

theorem updateAllFixed_eq (m : Mgr) (cfgs : List VCfg) :
    updateAllFixed m cfgs = addLoop (afterDelete m cfgs) (cfgs.map (sel cfgs)) := rfl

theorem vm_inv_updateAllFixed (m : Mgr) (cfgs : List VCfg) (h : VInv m) : VInv (updateAllFixed m cfgs) := by
  rw [updateAllFixed_eq]
  exact addLoop_inv _ _ (afterDelete_inv m cfgs h)

/-- repaired reload: every stored entry is THE configured entry of its name (the last one) -/
theorem vmF_update_cfgs_last (m : Mgr) (cfgs : List VCfg) (c : VCfg) (h : c ∈ (updateAllFixed m cfgs).cfgs) :
    lookupLast cfgs c.name = some c := by
  rw [updateAllFixed_eq] at h
  rcases addLoop_cfgs_mem _ _ _ h with h | h
  · simp only [afterDelete, List.mem_filter] at h
    simpa [keeps] using h.2
  · obtain ⟨c0, hc0, rfl⟩ := List.mem_map.mp h
    rw [vsel_name]
    exact vsel_spec hc0

theorem vmF_update_names (m : Mgr) (cfgs : List VCfg) (n : Nat) :
    hasCfg (updateAllFixed m cfgs).cfgs n = true ↔ ∃ c ∈ cfgs, c.name = n := by
  rw [updateAllFixed_eq, addLoop_hasCfg, hasCfg_map_sel]
  constructor
  · intro h
    rcases Bool.or_eq_true_iff.mp h with h | h
    · obtain ⟨c, hc, hn⟩ := (hasCfg_iff _ _).mp h
      simp only [afterDelete, List.mem_filter] at hc
      exact ⟨c, vkeeps_mem hc.2, hn⟩
    · exact (hasCfg_iff _ _).mp h
  · intro h
    exact Bool.or_eq_true_iff.mpr (Or.inr ((hasCfg_iff _ _).mpr h))

/-- the witness of (a) on the repaired reload: the LAST entry is stored and runs, the identical
    reload keeps the object (stamp 1) -/
theorem vm_dup_fixed_witness :
    (updateAllFixed VisitorMgr.init [⟨1, 0, 0, false⟩, ⟨1, 1, 0, false⟩]).visitors.map (fun v => (v.cfg.variant, v.id)) = [(1, 1)] ∧
    (updateAllFixed (updateAllFixed VisitorMgr.init [⟨1, 0, 0, false⟩, ⟨1, 1, 0, false⟩])
        [⟨1, 0, 0, false⟩, ⟨1, 1, 0, false⟩]).visitors.map (fun v => (v.cfg.variant, v.id)) = [(1, 1)] := by
  decide

/-- THE FULL STATEMENT for the repaired reload: reloading the loaded configuration changes nothing,
    for every manager state and EVERY list (duplicated names included) -/
theorem vm_reload_idempotent_fixed (m : Mgr) (cfgs : List VCfg) :
    updateAllFixed (updateAllFixed m cfgs) cfgs = updateAllFixed m cfgs := by
  have hall : ∀ c ∈ (updateAllFixed m cfgs).cfgs, keeps cfgs c = true := by
    intro c hc
    simp [keeps, vmF_update_cfgs_last m cfgs c hc]
  have hg : goneNames (updateAllFixed m cfgs) cfgs = [] := by
    simp only [goneNames, List.map_eq_nil_iff, List.filter_eq_nil_iff]
    intro c hc
    simp [hall c hc]
  have hd : afterDelete (updateAllFixed m cfgs) cfgs = updateAllFixed m cfgs := by
    simp only [afterDelete, hg, List.filter_eq_self.mpr hall]
    have : List.filter (fun v : V => !([] : List Nat).contains v.cfg.name) (updateAllFixed m cfgs).visitors = (updateAllFixed m cfgs).visitors :=
      List.filter_eq_self.mpr (fun _ _ => by simp)
    rw [this]
  rw [updateAllFixed_eq (updateAllFixed m cfgs), hd]
  apply addLoop_noop
  intro c hc
  obtain ⟨c0, hc0, rfl⟩ := List.mem_map.mp hc
  rw [vsel_name]
  exact (vmF_update_names m cfgs c0.name).mpr ⟨c0, hc0, rfl⟩

theorem vm_kept_same_visitor_fixed (m : Mgr) (cfgs : List VCfg) (h : VInv m) (v : V) (hv : v ∈ m.visitors)
    (hk : keeps cfgs v.cfg = true) : v ∈ (updateAllFixed m cfgs).visitors := by
  rw [updateAllFixed_eq]
  apply addLoop_visitors_sub
  simp only [afterDelete, List.mem_filter]
  refine ⟨hv, ?_⟩
  cases hg : (goneNames m cfgs).contains v.cfg.name with
  | false => rfl
  | true =>
    obtain ⟨c, hc, hkc, hn⟩ := (gone_iff m cfgs _).mp hg
    have := vnodup_eq h.1 hc (h.2.2.1 v hv) hn
    subst this
    rw [hk] at hkc; cases hkc

/-! histories of the repaired machine -/

theorem vmF_step_cfgs (m : Mgr) (e : Ev) (he : e.isUpd = false) : (stepFixed m e).cfgs = m.cfgs := by
  cases e with
  | upd cfgs => cases he
  | tryStart n =>
    simp only [stepFixed, tryStartFixed]
    split
    · rfl
    · exact vm_step_cfgs m (.tryStart n) rfl
  | squat p => exact vm_step_cfgs m (.squat p) rfl
  | free p => rfl
  | close => rfl

theorem vmF_run_cfgs (es : List Ev) : ∀ (m : Mgr), (∀ e ∈ es, e.isUpd = false) → (runFixed m es).cfgs = m.cfgs := by
  induction es with
  | nil => intro m _; rfl
  | cons e es ih =>
    intro m h
    show (runFixed (stepFixed m e) es).cfgs = m.cfgs
    rw [ih _ (fun e' he' => h e' (List.mem_cons_of_mem _ he')), vmF_step_cfgs m e (h e List.mem_cons_self)]

theorem vmF_inv_step (m : Mgr) (e : Ev) (h : VInv m) : VInv (stepFixed m e) := by
  cases e with
  | upd cfgs => exact vm_inv_updateAllFixed m cfgs h
  | tryStart n =>
    simp only [stepFixed, tryStartFixed]
    split
    · exact h
    · exact vm_inv_tryStart m n h
  | squat p => exact vm_inv_step m (.squat p) h
  | free p => exact h
  | close => exact vm_inv_close m h

theorem vmF_inv_run (es : List Ev) : ∀ (m : Mgr), VInv m → VInv (runFixed m es) := by
  induction es with
  | nil => intro m h; exact h
  | cons e es ih => intro m h; exact ih _ (vmF_inv_step m e h)

/-- repaired machine, every history: whatever runs carries THE configured entry of its name -/
theorem vm_fixed_runs_last (m : Mgr) (cfgs : List VCfg) (es : List Ev) (h : VInv m)
    (hes : ∀ e ∈ es, e.isUpd = false) (v : V) (hv : v ∈ (runFixed (updateAllFixed m cfgs) es).visitors) :
    lookupLast cfgs v.cfg.name = some v.cfg := by
  have hinv := vmF_inv_run es _ (vm_inv_updateAllFixed m cfgs h)
  have hc := hinv.2.2.1 v hv
  rw [vmF_run_cfgs es _ hes] at hc
  exact vmF_update_cfgs_last m cfgs _ hc

/-- REPAIRED MACHINE: RELOADING THE LOADED LIST KEEPS EVERY VISITOR OBJECT, AFTER ANY HISTORY of
    keep-alive iterations, start failures, addresses taken and released, for EVERY list -/
theorem vm_fixed_reload_keeps_all (m : Mgr) (cfgs : List VCfg) (es : List Ev) (h : VInv m)
    (hes : ∀ e ∈ es, e.isUpd = false) (v : V) (hv : v ∈ (runFixed (updateAllFixed m cfgs) es).visitors) :
    v ∈ (updateAllFixed (runFixed (updateAllFixed m cfgs) es) cfgs).visitors := by
  apply vm_kept_same_visitor_fixed _ _ (vmF_inv_run es _ (vm_inv_updateAllFixed m cfgs h)) v hv
  simp [keeps, vm_fixed_runs_last m cfgs es h hes v hv]

/-! (b) a closed manager -/

/-- `Close()` was called and every visitor object in the map is closed -/
def ClosedQuiet (m : Mgr) : Prop := m.closed = true ∧ ∀ v ∈ m.visitors, v.isOpen = false

theorem vm_close_quiet (m : Mgr) : ClosedQuiet (VisitorMgr.close m) := by
  refine ⟨rfl, ?_⟩
  intro v hv
  simp only [VisitorMgr.close, List.mem_map] at hv
  obtain ⟨w, _, rfl⟩ := hv
  rfl

theorem closedQuiet_busy (m : Mgr) (h : ClosedQuiet m) (p : Nat) : busy m p = m.squat.contains p := by
  have : m.visitors.any (fun v => v.isOpen && v.cfg.port == p) = false := by
    rw [List.any_eq_false]
    intro v hv
    simp [h.2 v hv]
  simp [busy, this]

/-- the witness of (b): address 1 is taken by another program, the visitor waits; `Close()`; the
    address is released; one more iteration — the closed manager listens on address 1.  Second
    shape: two entries want address 1, the sibling holds it until `Close()` closes it. -/
theorem vm_close_pass_witness :
    (run VisitorMgr.init [.squat 1, .upd [⟨1, 0, 1, false⟩], .close, .free 1, .tryStart 1]).closed = true ∧
    busy (run VisitorMgr.init [.squat 1, .upd [⟨1, 0, 1, false⟩], .close, .free 1, .tryStart 1]) 1 = true ∧
    (run VisitorMgr.init [.squat 1, .upd [⟨1, 0, 1, false⟩], .close, .free 1, .tryStart 1]).squat = [] ∧
    busy (run VisitorMgr.init [.upd [⟨1, 0, 1, false⟩, ⟨2, 0, 1, false⟩], .close, .tryStart 2]) 1 = true := by
  decide

/-- the same histories on the repaired iteration: nothing listens -/
theorem vm_close_pass_fixed_witness :
    busy (runFixed VisitorMgr.init [.squat 1, .upd [⟨1, 0, 1, false⟩], .close, .free 1, .tryStart 1]) 1 = false ∧
    busy (runFixed VisitorMgr.init [.upd [⟨1, 0, 1, false⟩, ⟨2, 0, 1, false⟩], .close, .tryStart 2]) 1 = false := by
  decide

/-- REPAIRED ITERATION: after `Close()`, whatever keep-alive iterations, addresses taken and released
    and further `Close()` calls follow (no reload), every visitor object is closed and the manager
    holds no address: an address is busy iff another program holds it -/
theorem vm_closed_quiet_fixed (es : List Ev) : ∀ (m : Mgr), ClosedQuiet m → (∀ e ∈ es, e.isUpd = false) →
    ClosedQuiet (runFixed m es) ∧ ∀ p, busy (runFixed m es) p = (runFixed m es).squat.contains p := by
  induction es with
  | nil => intro m h _; exact ⟨h, closedQuiet_busy m h⟩
  | cons e es ih =>
    intro m h hes
    have he := hes e List.mem_cons_self
    have hrest : ∀ e' ∈ es, e'.isUpd = false := fun e' he' => hes e' (List.mem_cons_of_mem _ he')
    have hq : ClosedQuiet (stepFixed m e) := by
      cases e with
      | upd cfgs => cases he
      | tryStart n => simp only [stepFixed, tryStartFixed, h.1, if_true]; exact h
      | squat p => simp only [stepFixed, step]; split <;> exact h
      | free p => exact h
      | close => exact vm_close_quiet m
    exact ih _ hq hrest

/-- the code AS IT IS satisfies it only as long as no iteration of the loop runs after `Close()` -/
theorem vm_closed_quiet_partial (es : List Ev) : ∀ (m : Mgr), ClosedQuiet m →
    (∀ e ∈ es, e.isUpd = false ∧ e.isTry = false) →
    ClosedQuiet (run m es) ∧ ∀ p, busy (run m es) p = (run m es).squat.contains p := by
  induction es with
  | nil => intro m h _; exact ⟨h, closedQuiet_busy m h⟩
  | cons e es ih =>
    intro m h hes
    have he := hes e List.mem_cons_self
    have hrest : ∀ e' ∈ es, e'.isUpd = false ∧ e'.isTry = false := fun e' he' => hes e' (List.mem_cons_of_mem _ he')
    have hq : ClosedQuiet (step m e) := by
      cases e with
      | upd cfgs => cases he.1
      | tryStart n => cases he.2
      | squat p => simp only [step]; split <;> exact h
      | free p => exact h
      | close => exact vm_close_quiet m
    exact ih _ hq hrest

/-! ### the executable predicate (run by the driver on the implementation's answers) -/

/-- what the harness reads off the real manager: the stored entries (name, variant, port), the
    names that have a visitor object, the pool addresses that cannot be bound -/
structure VObs where
  cfg : List (Nat × Nat × Nat)
  run : List Nat
  busy : List Nat

def vtriple (c : VCfg) : Nat × Nat × Nat := (c.name, c.variant, c.port)

def obsOf (keys : List Nat) (m : Mgr) : VObs :=
  { cfg := m.cfgs.map vtriple, run := m.visitors.map (·.cfg.name), busy := keys.filter (busy m) }

/-- the visitor clause on an observation, `cfgs` being the last loaded list: every stored entry is
    an entry of `cfgs`, every name of `cfgs` is stored, whatever runs is stored -/
def vHoldsOn (cfgs : List VCfg) (o : VObs) : Bool :=
  o.cfg.all (fun t => cfgs.any (fun c => vtriple c == t)) &&
  cfgs.all (fun c => o.cfg.any (fun t => t.1 == c.name)) &&
  o.run.all (fun n => o.cfg.any (fun t => t.1 == n))

/-- after a complete pass (manager not closed): every stored entry runs, can never start, or its
    address is taken -/
def vSettledOn (cfgs : List VCfg) (o : VObs) : Bool :=
  o.cfg.all (fun t => o.run.contains t.1 ||
    cfgs.all (fun c => vtriple c != t || c.never || (c.port != 0 && o.busy.contains c.port)))

/-- all entries of a name, in list order -/
def entriesOf (cfgs : List VCfg) (n : Nat) : List VCfg := cfgs.filter (fun c => c.name == n)

/-- (name, object stamp) of every visitor object in the map -/
def runObs (m : Mgr) : List (Nat × Nat) := m.visitors.map (fun v => (v.cfg.name, v.id))

/-- "unchanged entries keep running", on two observations around a reload from `prev` to `cfgs`:
    every visitor object that existed before under a name whose entries in the new list are exactly
    its entries in the previous list (so whichever of them is "the configured one", it has not
    changed) is still there — the same object, not a restarted one -/
def vKeptOn (prev cfgs : List VCfg) (before after : List (Nat × Nat)) : Bool :=
  before.all (fun p => (entriesOf cfgs p.1).isEmpty || entriesOf cfgs p.1 != entriesOf prev p.1 || after.contains p)

/-- "a closed manager holds nothing": every pool address that cannot be bound is one another
    program (`held`) holds -/
def vClosedQuietOn (held : List Nat) (o : VObs) : Bool := o.busy.all (fun p => held.contains p)

theorem lookupLast_entries (cfgs : List VCfg) (n : Nat) : lookupLast cfgs n = lookupLast (entriesOf cfgs n) n := by
  unfold lookupLast entriesOf
  rw [← List.filter_reverse, List.find?_filter]
  congr 1
  funext c
  cases h : (c.name == n) <;> simp [h]

/-- the repaired reload satisfies `vKeptOn` for every pair of lists and every history in between -/
theorem model_vKept_fixed (m : Mgr) (prev cfgs : List VCfg) (es : List Ev) (h : VInv m)
    (hes : ∀ e ∈ es, e.isUpd = false) :
    vKeptOn prev cfgs (runObs (runFixed (updateAllFixed m prev) es))
      (runObs (updateAllFixed (runFixed (updateAllFixed m prev) es) cfgs)) = true := by
  simp only [vKeptOn, List.all_eq_true, Bool.or_eq_true]
  intro p hp
  obtain ⟨v, hv, rfl⟩ := List.mem_map.mp hp
  by_cases he : entriesOf cfgs v.cfg.name = entriesOf prev v.cfg.name
  · right
    have hl : lookupLast cfgs v.cfg.name = some v.cfg := by
      rw [lookupLast_entries, he, ← lookupLast_entries]
      exact vm_fixed_runs_last m prev es h hes v hv
    have hk : keeps cfgs v.cfg = true := by simp [keeps, hl]
    have := vm_kept_same_visitor_fixed _ cfgs (vmF_inv_run es _ (vm_inv_updateAllFixed m prev h)) v hv hk
    simp only [List.contains_iff_mem]
    exact List.mem_map.mpr ⟨v, this, rfl⟩
  · left; right
    simpa using he

/-- the repaired loop satisfies `vClosedQuietOn` after `Close()` and every history without a reload -/
theorem model_vClosedQuiet_fixed (keys : List Nat) (m : Mgr) (es : List Ev) (h : ClosedQuiet m)
    (hes : ∀ e ∈ es, e.isUpd = false) :
    vClosedQuietOn (runFixed m es).squat (obsOf keys (runFixed m es)) = true := by
  have hb := (vm_closed_quiet_fixed es m h hes).2
  simp only [vClosedQuietOn, obsOf, List.all_eq_true, List.mem_filter]
  intro p hp
  rw [← hb p]
  exact hp.2

/-- the model's own observation satisfies the predicate, after every history -/
theorem model_vHolds (keys : List Nat) (m : Mgr) (cfgs : List VCfg) (es : List Ev) (h : VInv m)
    (hes : ∀ e ∈ es, e.isUpd = false) : vHoldsOn cfgs (obsOf keys (run (updateAll m cfgs) es)) = true := by
  have hcfg := vm_history_configured m cfgs es hes
  have hrun := vm_history_running m cfgs es h hes
  simp only [vHoldsOn, obsOf, Bool.and_eq_true, List.all_eq_true, List.any_eq_true, List.mem_map]
  refine ⟨⟨?_, ?_⟩, ?_⟩
  · rintro t ⟨c, hc, rfl⟩
    exact ⟨c, hcfg.2 c hc, by simp⟩
  · intro c hc
    obtain ⟨c', hc', hn⟩ := (hasCfg_iff _ _).mp ((hcfg.1 c.name).mpr ⟨c, hc, rfl⟩)
    exact ⟨vtriple c', ⟨c', hc', rfl⟩, by simp [vtriple, hn]⟩
  · rintro n ⟨v, hv, rfl⟩
    exact ⟨vtriple v.cfg, ⟨v.cfg, (hrun v hv).2, rfl⟩, by simp [vtriple]⟩

/-- …and after a complete pass also `vSettledOn`, when the pool contains every address in use -/
theorem model_vSettled (keys : List Nat) (m : Mgr) (order : List Nat) (h : VInv m)
    (hord : ∀ c ∈ m.cfgs, c.name ∈ order) (hkeys : ∀ c ∈ m.cfgs, c.port ∈ keys) :
    vSettledOn m.cfgs (obsOf keys (pass m order)) = true := by
  simp only [vSettledOn, obsOf, vm_pass_cfgs, List.all_eq_true, List.mem_map, Bool.or_eq_true]
  rintro t ⟨c, hc, rfl⟩
  rcases vm_pass_complete order m h c hc (hord c hc) with hs | hs
  · left
    obtain ⟨v, hv, hn⟩ := (hasVisitor_iff _ _).mp hs
    simp only [List.contains_iff_mem, List.mem_map]
    exact ⟨v, hv, by simpa [vtriple] using hn⟩
  · right
    intro c' hc'
    by_cases ht : vtriple c' = vtriple c
    · have hcc : c' = c := by
        have := vnodup_eq h.1 hc' hc (by simpa [vtriple] using congrArg (·.1) ht)
        exact this
      subst hcc
      simp only [canStart, Bool.and_eq_false_iff, Bool.not_eq_false', Bool.or_eq_false_iff] at hs
      rcases hs with hs | ⟨h0, hb⟩
      · simp [hs]
      · have hb' : busy (pass m order) c'.port = true := by simpa using hb
        have hmem : c'.port ∈ keys.filter (busy (pass m order)) := List.mem_filter.mpr ⟨hkeys c' hc, hb'⟩
        have h0' : c'.port ≠ 0 := by simpa using h0
        simp [h0', hmem]
    · simp [ht]

example : VInv (updateAll VisitorMgr.init [⟨1, 0, 1, false⟩, ⟨2, 3, 1, false⟩, ⟨3, 0, 0, true⟩]) :=
  vm_inv_updateAll _ _ vm_inv_init
-- two entries want address 1: the first in slice order gets it, the other one is retried and gets
-- it once the first has been removed by a reload
example : (updateAll VisitorMgr.init [⟨1, 0, 1, false⟩, ⟨2, 3, 1, false⟩]).visitors.map (·.cfg.name) = [1] := by decide
example : (pass (updateAll (updateAll VisitorMgr.init [⟨1, 0, 1, false⟩, ⟨2, 3, 1, false⟩]) [⟨2, 3, 1, false⟩]) [2]).visitors.map
    (fun v => (v.cfg.name, v.id)) = [(2, 2)] := by decide
-- Run() fails at load (address taken by another program), the entry is removed by the next reload, the
-- address is released, the loop passes: nothing runs, nothing is stored
example : (run VisitorMgr.init [.squat 1, .upd [⟨1, 0, 1, false⟩], .upd [], .free 1, .tryStart 1]).visitors = [] ∧
    (run VisitorMgr.init [.squat 1, .upd [⟨1, 0, 1, false⟩], .upd [], .free 1, .tryStart 1]).cfgs = [] := by decide

end V
end C19
end Frp
