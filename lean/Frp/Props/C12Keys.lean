import Frp.Model.ClientLogin
import Frp.Gen.KeyFacts
/-
  C12 — two straight-line pieces the session model takes for granted, tied to the source by regenerated facts
  (`Frp/Gen/KeyFacts.lean`, translate/gen_keyfacts.go):

  (a) names as the CLIENT sends them.  The session model (Model/Sess.lean) uses ONE key per registration for the
      Exist check, the Add, the own-table insert, the CloseProxy lookup and every Del.  server/control.go uses two
      expressions: the message's name (`pxyMsg.ProxyName`, `closeMsg.ProxyName`) and `pxy.GetName()`.  They are the
      same string because the proxy object's name is the message's name, unchanged: UnmarshalFromMsg copies it,
      `Complete("")` prepends the empty prefix, NewProxy stores it, GetName returns it, nothing else writes it.
  (b) the client half of a re-login (client/service.go): `svr.runID` is written only by an ACCEPTED login and is what
      every later Login (and every work connection of the new session) carries — a refused or failed login leaves it.
-/
namespace Frp
namespace C12
open NameKey ClientLogin

/-! ### (a) every table operation is keyed by the name the client sent -/

theorem serverName_is_sent_name (raw : Str) : serverName raw = raw := by
  simp [serverName, complete]

theorem key_is_sent_name (e : KeyExpr) (raw : Str) : key e raw = raw := by
  cases e <;> simp [key, serverName_is_sent_name]

/-- a prefix, had there been one, changes the name (why `Complete("")` matters) -/
example : complete (Str.ofString "u") (Str.ofString "web") = Str.ofString "u.web" := by decide +kernel

/-- the source has the shape the model mirrors: the eight table sites of server/control.go with their key
    expressions; the only writers of a proxy config's Name are UnmarshalFromMsg (`= m.ProxyName`) and Complete
    (`= prefix + c.Name`); NewProxyConfigurerFromMsg calls exactly UnmarshalFromMsg(m) and Complete("") on the
    configurer and writes no Name itself; the proxy object's name is `configurer.GetBaseConfig().Name`, GetName
    returns it and nothing in server/proxy assigns it -/
def keyFactsShape : Bool :=
  Gen.KeyFacts.tableSites ==
    [("worker:proxies.range", "pxy"), ("worker:pxyManager.Del", "pxy.GetName()"),
     ("RegisterProxy:pxyManager.Exist", "pxyMsg.ProxyName"), ("RegisterProxy:pxyManager.Add", "pxyMsg.ProxyName"),
     ("RegisterProxy:proxies.insert", "pxy.GetName()"), ("CloseProxy:proxies.lookup", "closeMsg.ProxyName"),
     ("CloseProxy:pxyManager.Del", "pxy.GetName()"), ("CloseProxy:proxies.delete", "closeMsg.ProxyName")] &&
  Gen.KeyFacts.nameAssigns ==
    [("ProxyBaseConfig.Complete", "c.Name = lo.Ternary(namePrefix == \"\", \"\", namePrefix+\".\") + c.Name"),
     ("ProxyBaseConfig.UnmarshalFromMsg", "c.Name = m.ProxyName")] &&
  Gen.KeyFacts.fromMsgCalls == ["UnmarshalFromMsg(m)", "Complete(\"\")"] && !Gen.KeyFacts.fromMsgAssignsName &&
  Gen.KeyFacts.baseProxyNameInit == "configurer.GetBaseConfig().Name" &&
  Gen.KeyFacts.getNameBody == ["return pxy.name"] && Gen.KeyFacts.nameFieldAssigns.isEmpty

theorem key_facts_shape : keyFactsShape = true := by decide +kernel

/-- the key a table site uses for a registration whose NewProxy / CloseProxy message carries `raw` -/
def siteKey (s : String × String) (raw : Str) : Option Str := (classify s.2).map (fun e => key e raw)

/-- **one key everywhere**: the Exist check, the Add, the own-table insert, the CloseProxy lookup and delete and
    both Dels (CloseProxy, teardown) use the name exactly as the client sent it — blanks, case, length and all -/
theorem table_keys_are_the_sent_name (raw : Str) :
    ∀ s ∈ Gen.KeyFacts.tableSites, s.1 ≠ "worker:proxies.range" → siteKey s raw = some raw := by
  have h : ∀ s ∈ Gen.KeyFacts.tableSites, s.1 ≠ "worker:proxies.range" → (classify s.2).isSome = true := by
    decide +kernel
  intro s hs hne
  have := h s hs hne
  simp only [siteKey]
  cases hc : classify s.2 with
  | none => simp [hc] at this
  | some e => simp [key_is_sent_name]

/-! ### (b) the client keeps the run id it was given and presents it -/

/-- the source has the shape the model mirrors (`early = false`) -/
def clientLoginShape : Bool :=
  Gen.KeyFacts.runIDAssignAfterErrCheck && Gen.KeyFacts.errCheckReturns &&
  Gen.KeyFacts.loginRunIDExpr == "svr.runID" &&
  Gen.KeyFacts.runIDAssigns == [("Service.login", "svr.runID = loginRespMsg.RunID")] &&
  Gen.KeyFacts.sessionRunIDExpr == "svr.runID" && Gen.KeyFacts.workConnRunIDExpr == "ctl.sessionCtx.RunID"

theorem client_login_shape : clientLoginShape = true := by decide +kernel

theorem src_not_early : srcEarly = false := by decide +kernel

/-- a refused login, a failed connection attempt, an unreadable answer: the run id stays -/
theorem refused_login_keeps_run_id (c : Cl) (rid : Str) :
    onResp srcEarly c (.refused rid) = c ∧ onResp srcEarly c .ioErr = c := by
  rw [src_not_early]; simp [onResp]

/-- **every login presents the run id the server assigned last** — for all histories of accepted, refused and
    failed logins, for the login after each prefix of the history -/
theorem every_login_presents_last_assigned (rs : List Resp) :
    ∀ (c : Cl) (i : Nat), i ≤ rs.length → (sent srcEarly c rs)[i]? = some (lastAssigned c.runID (rs.take i)) := by
  rw [src_not_early]
  induction rs with
  | nil =>
    intro c i hi
    have : i = 0 := by simpa using hi
    subst this
    simp [sent, presents, lastAssigned]
  | cons r rs ih =>
    intro c i hi
    cases i with
    | zero => simp [sent, presents, lastAssigned]
    | succ i =>
      have hi' : i ≤ rs.length := by simpa using hi
      simp only [sent, List.getElem?_cons_succ, List.take_succ_cons]
      rw [ih (onResp false c r) i hi']
      cases r <;> simp [onResp, lastAssigned]

/-- in particular the re-login after any history -/
theorem relogin_presents_last_assigned (c : Cl) (rs : List Resp) :
    (sent srcEarly c rs)[rs.length]? = some (lastAssigned c.runID rs) := by
  have := every_login_presents_last_assigned rs c rs.length (Nat.le_refl _)
  simpa using this

/-- the work connections of the session an accepted login starts carry the id that login was given -/
theorem work_conns_carry_assigned (c : Cl) (rid : Str) : workRunID srcEarly c (.accepted rid) = rid := by
  simp [workRunID, onResp]

/-- what the clause excludes: with the assignment before the error check, one refused re-login makes the client
    forget its id — the next login is a fresh one and nobody asks frps to replace the stale session -/
theorem early_assign_forgets_witness :
    let a := Str.ofString "5f1b85abf998ea65"
    sent true {} [.accepted a, .refused [], .accepted a] = [[], a, [], a] ∧
    sent false {} [.accepted a, .refused [], .accepted a] = [[], a, a, a] := by decide +kernel

/-- the executable predicate of the driver (`ClientLogin.presentsOK`) is the theorem's statement -/
theorem presentsOK_sound (c : Cl) (rs : List Resp) (i : Nat) (hi : i ≤ rs.length) (presented : Str) :
    presentsOK (lastAssigned c.runID (rs.take i)) presented = true ↔ (sent srcEarly c rs)[i]? = some presented := by
  rw [every_login_presents_last_assigned rs c i hi]
  simp only [presentsOK, beq_iff_eq, Option.some.injEq]
  exact eq_comm

end C12
end Frp
