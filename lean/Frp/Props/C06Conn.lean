import Frp.Props.C06
import Frp.Model.HttpConn
import Frp.Gen.RouteCtxFacts
/-
  C06, continued — requests that SHARE A CLIENT CONNECTION (HTTP/1.1 keep-alive; the streams of an h2c
  connection opened by the RFC 7540 section 3.2 upgrade or by prior knowledge), interleaved with registration
  changes, and the idle BACKEND connections the reverse proxy's transport re-uses:

    "all register/unregister/re-register histories interleaved with traffic, all request hosts/paths/users,
     and all sequences of requests sharing keep-alive connections";
    "once a route has been closed or re-registered by another proxy no new request reaches the former owner's
     backend; all of this holds across connection reuse to backends".

  Model: Frp/Model/HttpConn.lean (pkg/util/vhost/http.go: ServeHTTP, authorize, injectRequestInfoToCtx, the
  handler wrapped by h2c.NewHandler, Rewrite's pool key, DialContext → CreateConnection).
-/
namespace Frp
namespace C06
open Str Router HttpConn

/-- every idle backend connection sits under the pool key of the registration whose backend it leads to -/
def PoolInv (S : Srv) : Prop := ∀ e ∈ S.pool, e.1 = e.2

theorem lookup_mem {k b : Nat} : ∀ {l : List (Nat × Nat)}, l.lookup k = some b → (k, b) ∈ l
  | [], h => by simp [List.lookup] at h
  | (k', b') :: l, h => by
    by_cases e : k = k'
    · subst e
      simp only [List.lookup, beq_self_eq_true] at h
      cases h
      exact List.mem_cons_self
    · have : (k == k') = false := by simpa using e
      simp only [List.lookup, this] at h
      exact List.mem_cons_of_mem _ (lookup_mem h)

/-- what a step may do to the server besides answering -/
structure Keeps (S S' : Srv) : Prop where
  R    : S'.R = S.R
  next : S'.next = S.next
  pool : PoolInv S'

/-- the reverse proxy + transport, for a context whose route information was resolved NOW for the request
    itself: the backend of that route's registration answers — over a new connection or an idle one -/
theorem forward_resolved {S : Srv} (hP : PoolInv S) (q : Req) (rc : Route) (reuse : Bool)
    (h : resolve S.R q = some rc) :
    (forward S { host := q.host, path := q.path, user := q.user, peer := q.peer } rc reuse).2 = some rc.payload ∧
    Keeps S (forward S { host := q.host, path := q.path, user := q.user, peer := q.peer } rc reuse).1 := by
  unfold forward
  cases hl : (if reuse then S.pool.lookup rc.payload else none) with
  | some b =>
    simp only
    have hb : S.pool.lookup rc.payload = some b := by
      cases reuse
      · simp at hl
      · simpa using hl
    have := hP _ (lookup_mem hb)
    simp only at this
    exact ⟨by rw [this], ⟨rfl, rfl, hP⟩⟩
  | none =>
    simp only
    unfold HttpConn.resolve at h
    simp only [h]
    refine ⟨by simp, ⟨rfl, rfl, ?_⟩⟩
    intro e he
    simp only [List.mem_cons] at he
    rcases he with rfl | he
    · rfl
    · exact hP e he

/-- **A stream is routed by its own request and the table as it is — whatever context it inherits.**  The
    handler wrapped by `h2c.NewHandler`, handed ANY context (that of whichever request opened the connection,
    resolved against whichever earlier table), answers request `q` from the backend of the registration that
    `getVhost` finds for `q`'s own (host, path, user) in the table at that moment, nobody if there is none. -/
theorem wrapped_own_route {S : Srv} (hP : PoolInv S) (ctx : Ctx) (q : Req) (reuse : Bool) :
    (wrapped never S ctx q reuse).2 = (resolve S.R q).map (·.payload) ∧
    Keeps S (wrapped never S ctx q reuse).1 := by
  unfold wrapped
  simp only [never, Bool.false_eq_true, if_false, inject]
  cases h : resolve S.R q with
  | none => exact ⟨rfl, ⟨rfl, rfl, hP⟩⟩
  | some rc => exact forward_resolved hP q rc reuse h

/-- the same for a request that passes `ServeHTTP` (HTTP/1.1, incl. the request that opens an h2c connection) -/
theorem serveHTTP_own_route {S : Srv} (hP : PoolInv S) (q : Req) (reuse : Bool) :
    (serveHTTP never S q reuse).2.1 = (resolve S.R q).map (·.payload) ∧
    Keeps S (serveHTTP never S q reuse).1 := by
  unfold serveHTTP
  simp only [inject]
  cases h : resolve S.R q with
  | none => exact ⟨rfl, ⟨rfl, rfl, hP⟩⟩
  | some rc =>
    simp only
    have := wrapped_own_route hP (some ({ host := q.host, path := q.path, user := q.user, peer := q.peer }, some rc)) q reuse
    rw [h] at this
    exact this

/-- one event of a history, code as it is: the table and `nextRegID` move as the registration changes say and
    by nothing else, the pool invariant is kept, and a request — on a new connection, a kept-alive one, or as
    a stream of an h2c connection, whatever that connection carried before — is answered by the lookup of
    ITS OWN host, path and user in the table as it is -/
theorem step_never {S : Srv} (hP : PoolInv S) (cs : Conns) (e : Ev) :
    PoolInv (step never S cs e).1 ∧
    (match e with
     | .reg d l u => (step never S cs e).1.R = (add S.R d l u S.next).1 ∧ (step never S cs e).1.next = S.next + 1 ∧
         (step never S cs e).2.2 = none
     | .unreg d l u => (step never S cs e).1.R = del S.R d l u ∧ (step never S cs e).1.next = S.next ∧
         (step never S cs e).2.2 = none
     | .req _ _ q _ => (step never S cs e).1.R = S.R ∧ (step never S cs e).1.next = S.next ∧
         (step never S cs e).2.2 = some ((resolve S.R q).map (·.payload))
     | .pri _ => (step never S cs e).1.R = S.R ∧ (step never S cs e).1.next = S.next ∧ (step never S cs e).2.2 = none
     | .close _ => (step never S cs e).1.R = S.R ∧ (step never S cs e).1.next = S.next ∧ (step never S cs e).2.2 = none) := by
  cases e with
  | reg d l u => exact ⟨hP, rfl, rfl, rfl⟩
  | unreg d l u => exact ⟨hP, rfl, rfl, rfl⟩
  | close c => exact ⟨hP, rfl, rfl, rfl⟩
  | pri c =>
    simp only [step]
    split <;> exact ⟨hP, rfl, rfl, rfl⟩
  | req c up q reuse =>
    simp only [step]
    split
    · rename_i ctx _
      have := wrapped_own_route hP ctx q reuse
      exact ⟨this.2.pool, this.2.R, this.2.next, by rw [this.1]⟩
    · have := serveHTTP_own_route hP q reuse
      exact ⟨this.2.pool, this.2.R, this.2.next, by rw [this.1]⟩

/-- **The route of the k-th request of a connection is a function of that request and the current table
    only.**  For every history of registration changes, connections opened in any way (HTTP/1.1, `Upgrade: h2c`,
    prior knowledge), requests on them in any order and number, closes, and every choice of the transport
    between an idle backend connection and a new one: the answers are those of the reference server that has
    no connections, no contexts and no pool and looks every request up in the table produced by the
    registration changes before it. -/
theorem conn_history_eq_ref (evs : List Ev) :
    ∀ (S : Srv) (cs : Conns), PoolInv S → HttpConn.run never S cs evs = ref S.R S.next evs := by
  induction evs with
  | nil => intro S cs _; rfl
  | cons e es ih =>
    intro S cs hP
    have hs := step_never hP cs e
    cases e with
    | reg d l u =>
      obtain ⟨hp', hR, hn, ha⟩ := hs
      simp only [HttpConn.run, ha, ref]
      rw [ih _ _ hp', hR, hn]
    | unreg d l u =>
      obtain ⟨hp', hR, hn, ha⟩ := hs
      simp only [HttpConn.run, ha, ref]
      rw [ih _ _ hp', hR, hn]
    | close c =>
      obtain ⟨hp', hR, hn, ha⟩ := hs
      simp only [HttpConn.run, ha, ref]
      rw [ih _ _ hp', hR, hn]
    | pri c =>
      obtain ⟨hp', hR, hn, ha⟩ := hs
      simp only [HttpConn.run, ha, ref]
      rw [ih _ _ hp', hR, hn]
    | req c up q reuse =>
      obtain ⟨hp', hR, hn, ha⟩ := hs
      simp only [HttpConn.run, ha, ref]
      rw [ih _ _ hp', hR, hn]

/-- the same traffic with the connection structure erased: every request on a fresh HTTP/1.1 connection of
    its own, nothing upgraded, nothing re-used -/
def plain : Ev → Ev
  | .req _ _ q _ => .req 0 false q false
  | .pri _ => .close 0
  | e => e

theorem ref_plain (evs : List Ev) : ∀ R n, ref R n (evs.map plain) = ref R n evs := by
  induction evs with
  | nil => intro R n; rfl
  | cons e es ih =>
    intro R n
    cases e <;> simp only [List.map_cons, plain, ref, ih]

/-- **Independent of the connection's earlier streams**: which connection a request arrives on, how that
    connection was opened, what was asked on it before (same host and path or not, same user or not) and which
    backend connections lie idle does not enter — the answers equal those of the same requests sent one per
    fresh connection. -/
theorem conn_structure_irrelevant (evs : List Ev) (S : Srv) (cs : Conns) (hP : PoolInv S) :
    HttpConn.run never S cs evs = HttpConn.run never { S with pool := [] } [] (evs.map plain) := by
  rw [conn_history_eq_ref evs S cs hP, conn_history_eq_ref (evs.map plain) { S with pool := [] } []
    (by intro e he; cases he), ref_plain]

/-! ### most specific route at that moment, and nobody's former backend -/

/-- state and connection table after a history -/
def after (trust : Trust) (S : Srv) (cs : Conns) : List Ev → Srv × Conns
  | [] => (S, cs)
  | e :: es => after trust (step trust S cs e).1 (step trust S cs e).2.1 es

/-- registrations are numbered apart: every registered route carries a registration number below
    `nextRegID`, and no two registered routes carry the same -/
structure RegInv (S : Srv) : Prop where
  inv    : Router.Inv S.R
  pool   : PoolInv S
  below  : ∀ r, Registered S.R r → r.payload < S.next
  apart  : ∀ r r', Registered S.R r → Registered S.R r' → r.payload = r'.payload → r = r'
  filed  : ∀ d u, ∀ r ∈ S.R d u, r.domain = d ∧ r.user = u

theorem empty_bucket (d u : Str) : Srv.empty.R d u = [] := rfl

theorem regInv_empty : RegInv Srv.empty where
  inv := inv_empty
  pool := by intro e he; cases he
  below := by intro r h; unfold Registered at h; rw [empty_bucket] at h; cases h
  apart := by intro r r' h; unfold Registered at h; rw [empty_bucket] at h; cases h
  filed := by intro d u r h; rw [empty_bucket] at h; cases h

theorem regInv_register {S : Srv} (h : RegInv S) (d l u : Str) : RegInv (register S d l u).1 := by
  unfold register
  cases hres : (add S.R d l u S.next).2 with
  | conflict =>
    have hR := add_conflict_unchanged S.R d l u S.next hres
    refine ⟨by simp only [hR]; exact h.inv, h.pool, ?_, ?_, ?_⟩
    · intro r hr; simp only [hR] at hr; exact Nat.lt_succ_of_lt (h.below r hr)
    · intro r r' hr hr'; simp only [hR] at hr hr'; exact h.apart r r' hr hr'
    · intro d' u' r hr; simp only [hR] at hr; exact h.filed d' u' r hr
  | ok =>
    have hm := add_ok_mem S.R d l u S.next hres
    refine ⟨inv_add h.inv d l u S.next, h.pool, ?_, ?_, ?_⟩
    · intro r hr
      unfold Registered at hr
      rcases (hm _ _ r).mp hr with hr | ⟨_, _, rfl⟩
      · exact Nat.lt_succ_of_lt (h.below r hr)
      · exact Nat.lt_succ_self _
    · intro r r' hr hr' hp
      unfold Registered at hr hr'
      rcases (hm _ _ r).mp hr with hr | ⟨_, _, rfl⟩ <;> rcases (hm _ _ r').mp hr' with hr' | ⟨_, _, rfl⟩
      · exact h.apart r r' hr hr' hp
      · have := h.below r hr; simp only at hp; omega
      · have := h.below r' hr'; simp only at hp; omega
      · rfl
    · intro d' u' r hr
      rcases (hm d' u' r).mp hr with hr | ⟨rfl, rfl, rfl⟩
      · exact h.filed d' u' r hr
      · exact ⟨rfl, rfl⟩

theorem regInv_unregister {S : Srv} (h : RegInv S) (d l u : Str) : RegInv (unregister S d l u) := by
  unfold unregister
  have hm := del_mem S.R d l u
  refine ⟨inv_del h.inv d l u, h.pool, ?_, ?_, ?_⟩
  · intro r hr
    exact h.below r ((hm _ _ r).mp hr).1
  · intro r r' hr hr' hp
    exact h.apart r r' ((hm _ _ r).mp hr).1 ((hm _ _ r').mp hr').1 hp
  · intro d' u' r hr
    exact h.filed d' u' r ((hm d' u' r).mp hr).1

theorem regInv_step {S : Srv} (h : RegInv S) (cs : Conns) (e : Ev) : RegInv (step never S cs e).1 := by
  have hs := step_never h.pool cs e
  cases e with
  | reg d l u => exact regInv_register h d l u
  | unreg d l u => exact regInv_unregister h d l u
  | close c => exact h
  | pri c =>
    obtain ⟨hp, hR, hn, _⟩ := hs
    exact ⟨by rw [hR]; exact h.inv, hp, by rw [hR, hn]; exact h.below, by rw [hR]; exact h.apart, by rw [hR]; exact h.filed⟩
  | req c up q reuse =>
    obtain ⟨hp, hR, hn, _⟩ := hs
    exact ⟨by rw [hR]; exact h.inv, hp, by rw [hR, hn]; exact h.below, by rw [hR]; exact h.apart, by rw [hR]; exact h.filed⟩

/-- every state the server reaches, under any history with any connection structure -/
theorem regInv_reachable (evs : List Ev) : ∀ (S : Srv) (cs : Conns), RegInv S → RegInv (after never S cs evs).1 := by
  induction evs with
  | nil => intro S cs h; exact h
  | cons e es ih => intro S cs h; exact ih _ _ (regInv_step h cs e)

/-- `a` is a correct answer to request `q` against table `R`: the registration of a registered route that
    matches the request and is at least as specific as every registered route that matches; nobody only if
    nothing matches -/
def GoodAns (R : Routers) (q : Req) (a : Option Nat) : Prop :=
  match a with
  | none => ∀ r, Registered R r → ¬ Matches r (canon q.host) q.path q.user
  | some p => ∃ r, Registered R r ∧ r.payload = p ∧ Matches r (canon q.host) q.path q.user ∧
      ∀ r', Registered R r' → Matches r' (canon q.host) q.path q.user → AtLeastAsSpecific (canon q.host) q.user r r'

/-- **Most specific route live at that moment, for every request of every connection.**  After any history
    `pre` (registration changes, connections of every kind, requests on them), the next request — on
    connection `c` whatever it is: new, kept alive, or an h2c connection opened by any earlier request — is
    answered by the backend of the most specific route registered at that moment for the request's own
    host, path and user. -/
theorem conn_request_most_specific (pre : List Ev) (c : Nat) (up : Bool) (q : Req) (reuse : Bool) :
    ∃ a, (step never (after never Srv.empty [] pre).1 (after never Srv.empty [] pre).2 (.req c up q reuse)).2.2 = some a ∧
      GoodAns (after never Srv.empty [] pre).1.R q a := by
  have hI := regInv_reachable pre Srv.empty [] regInv_empty
  have hs := step_never hI.pool (after never Srv.empty [] pre).2 (.req c up q reuse)
  refine ⟨_, hs.2.2.2, ?_⟩
  unfold GoodAns HttpConn.resolve
  cases h : getVhost (after never Srv.empty [] pre).1.R (canon q.host) q.path q.user with
  | none =>
    simp only [Option.map_none]
    exact fun r hr => getVhost_none h r hr
  | some r =>
    simp only [Option.map_some]
    obtain ⟨hreg, hm, hbest⟩ := getVhost_some hI.inv h
    exact ⟨r, hreg, rfl, hm, hbest⟩

/-- a registration `p` is gone: no registered route carries it, and it is not a future one -/
def Gone (S : Srv) (p : Nat) : Prop := p < S.next ∧ ∀ r, Registered S.R r → r.payload ≠ p

theorem gone_step {S : Srv} (hI : RegInv S) (cs : Conns) (e : Ev) {p : Nat} (hg : Gone S p) :
    Gone (step never S cs e).1 p := by
  have hs := step_never hI.pool cs e
  cases e with
  | reg d l u =>
    obtain ⟨_, hR, hn, _⟩ := hs
    refine ⟨by rw [hn]; exact Nat.lt_succ_of_lt hg.1, ?_⟩
    intro r hr
    rw [hR] at hr
    cases hres : (add S.R d l u S.next).2 with
    | conflict => rw [add_conflict_unchanged S.R d l u S.next hres] at hr; exact hg.2 r hr
    | ok =>
      unfold Registered at hr
      rcases (add_ok_mem S.R d l u S.next hres _ _ r).mp hr with hr | ⟨_, _, rfl⟩
      · exact hg.2 r hr
      · simp only; have := hg.1; omega
  | unreg d l u =>
    obtain ⟨_, hR, hn, _⟩ := hs
    refine ⟨by rw [hn]; exact hg.1, ?_⟩
    intro r hr
    rw [hR] at hr
    exact hg.2 r ((del_mem S.R d l u _ _ r).mp hr).1
  | close c => exact hg
  | pri c =>
    obtain ⟨_, hR, hn, _⟩ := hs
    exact ⟨by rw [hn]; exact hg.1, by rw [hR]; exact hg.2⟩
  | req c up q reuse =>
    obtain ⟨_, hR, hn, _⟩ := hs
    exact ⟨by rw [hn]; exact hg.1, by rw [hR]; exact hg.2⟩

/-- un-registering the route of registration `p` makes `p` gone -/
theorem unregister_gone {S : Srv} (hI : RegInv S) {r : Route} (hr : Registered S.R r) :
    Gone (unregister S r.domain r.location r.user) r.payload := by
  refine ⟨hI.below r hr, ?_⟩
  intro r' hr' hp
  unfold unregister at hr'
  have hm := (del_mem S.R r.domain r.location r.user _ _ r').mp hr'
  have heq := hI.apart r' r hm.1 hr hp
  subst heq
  have hf := hI.filed _ _ r' hr
  have hd : toLower r'.domain = r'.domain := by
    have := hI.inv.lower r'.domain r'.user r' hr
    exact this
  exact hm.2 ⟨hd.symm, rfl, rfl⟩

/-- **No new request reaches the former owner's backend.**  Once the route of registration `p` has been
    un-registered — and whether or not the same (host, location, user) triple is registered again by another
    owner, which is then ANOTHER registration — no request of any later history is answered by `p`'s backend:
    not on a new connection, not on a connection kept alive since before, not as a later stream of an h2c
    connection that `p` answered the opening request of, and not over a backend connection left idle in the
    transport's pool. -/
theorem former_owner_never_answers (evs : List Ev) :
    ∀ (S : Srv) (cs : Conns) (p : Nat), RegInv S → Gone S p → some p ∉ HttpConn.run never S cs evs := by
  induction evs with
  | nil => intro S cs p _ _ h; cases h
  | cons e es ih =>
    intro S cs p hI hg
    have hI' := regInv_step hI cs e
    have hg' := gone_step hI cs e hg
    have hs := step_never hI.pool cs e
    cases e with
    | reg d l u => simp only [HttpConn.run, hs.2.2.2]; exact ih _ _ p hI' hg'
    | unreg d l u => simp only [HttpConn.run, hs.2.2.2]; exact ih _ _ p hI' hg'
    | close c => simp only [HttpConn.run, hs.2.2.2]; exact ih _ _ p hI' hg'
    | pri c => simp only [HttpConn.run, hs.2.2.2]; exact ih _ _ p hI' hg'
    | req c up q reuse =>
      simp only [HttpConn.run, hs.2.2.2, List.mem_cons, not_or]
      refine ⟨?_, ih _ _ p hI' hg'⟩
      intro heq
      unfold HttpConn.resolve at heq
      cases h : getVhost S.R (canon q.host) q.path q.user with
      | none => rw [h] at heq; cases heq
      | some r =>
        rw [h] at heq
        simp only [Option.map_some, Option.some.injEq] at heq
        exact hg.2 r (getVhost_some hI.inv h).1 heq.symm

/-! ### the shape `never` stands for, read from the source (Gen/RouteCtxFacts, regenerated on every run) -/

/-- a handler resolves first: the first thing its body does with route information is an UNCONDITIONAL call of
    `authorize` / `injectRequestInfoToCtx` on the request it was handed, and nothing afterwards reads route
    information from that request (only from the request the resolution returned) -/
def ResolvesFirst (h : Gen.RouteCtxFacts.Handler) : Bool :=
  match h.events with
  | e :: rest =>
    e.kind = "resolve" && e.depth = 0 && e.on.contains h.param &&
      (e.what = "authorize" || e.what = "injectRequestInfoToCtx") &&
      rest.all (fun e' => e'.kind = "pass" && !e'.on.contains h.param ||
                          e'.kind = "read" && !e'.on.contains h.param)
  | [] => false

/-- **No handler of pkg/util/vhost reads route information out of the request context before it has resolved it
    itself** — `ServeHTTP` and the handler wrapped by `h2c.NewHandler` are both there and both resolve first
    (the policy `never` of the model); `authorize` and `injectRequestInfoToCtx` are the resolvers. -/
theorem source_handlers_resolve_first :
    Gen.RouteCtxFacts.handlers.all ResolvesFirst = true ∧
    (Gen.RouteCtxFacts.handlers.map (·.name)).contains "NewHTTPReverseProxy:h2c.NewHandler" = true ∧
    (Gen.RouteCtxFacts.handlers.map (·.name)).contains "HTTPReverseProxy.ServeHTTP" = true ∧
    Gen.RouteCtxFacts.resolvers.contains "authorize" = true ∧
    Gen.RouteCtxFacts.resolvers.contains "injectRequestInfoToCtx" = true ∧
    Gen.RouteCtxFacts.readers.contains "authorize" = false ∧
    Gen.RouteCtxFacts.readers.contains "injectRequestInfoToCtx" = false := by
  decide

/-! ### what a handler that trusts the inherited context does (non-vacuity of the statements above) -/

def hostA : Str := s "app.example.com"
def reqA (user : String) : Req := { host := hostA, path := s "/page", user := s user, peer := 7 }

/-- a route restricted to alice next to an unrestricted one; alice opens an h2c connection; the next stream
    has the same host and path and no user -/
def userWitness : List Ev :=
  [ .reg hostA (s "/") (s "alice"), .reg hostA (s "/") []
  , .req 1 true (reqA "alice") true, .req 1 true (reqA "") true, .req 1 true (reqA "bob") true ]

/-- the opening request is answered, the route changes owner, the same request again as the next stream -/
def ownerWitness : List Ev :=
  [ .reg hostA (s "/") [], .req 1 true (reqA "") true
  , .unreg hostA (s "/") [], .reg hostA (s "/") [], .req 1 true (reqA "") true ]

example : HttpConn.run never Srv.empty [] userWitness = [some 1, some 2, some 2] := by decide +kernel
example : HttpConn.run never Srv.empty [] ownerWitness = [some 1, some 2] := by decide +kernel

/-- a wrapped handler that takes the inherited context for the request's when host, path and peer agree
    forwards later streams along the OPENING request's route: another user's route … -/
theorem trusting_context_user_witness :
    HttpConn.run sameHostPathPeer Srv.empty [] userWitness = [some 1, some 1, some 1] ∧
    HttpConn.run sameHostPathPeer Srv.empty [] userWitness ≠ ref Srv.empty.R Srv.empty.next userWitness := by
  decide +kernel

/-- … and the former owner's backend, over the connection left idle under the old registration's pool key -/
theorem trusting_context_owner_witness :
    HttpConn.run sameHostPathPeer Srv.empty [] ownerWitness = [some 1, some 1] ∧
    ¬ (some 1 ∉ (HttpConn.run sameHostPathPeer Srv.empty [] ownerWitness).drop 1) := by
  decide +kernel

end C06
end Frp
