import Frp.Props.C07
import Frp.Model.HttpAuthConn
/-
  C07, continued — (1) every stream of a connection that was upgraded to HTTP/2 (h2c) is a request that
  must pass the credential decision for ITS OWN route; (2) the server-side tcpmux proxy registers its
  listeners with the configured user name and password, so that the CONNECT muxer's check protects the
  proxy as configured.

  Model: Frp/Model/HttpAuthConn.lean.
-/
namespace Frp
namespace C07
open Str Router HttpAuth

/-! ### h2c -/

/-- the answer to one stream respects the property: the backend of route `id` answered only if THE
    STREAM presents exactly that route's user name and password (or the route is not protected) -/
def StreamOK (T : Table) (w : WireReq) (r : StreamResp) : Prop :=
  ∀ id, r = .resp (.forward id) → CredsOK T id w.auth

theorem mem_zip_map_self {α β : Type} (f : α → β) :
    ∀ (l : List α) (p : α × β), p ∈ l.zip (l.map f) → p.2 = f p.1
  | [], p, h => by simp at h
  | a :: l, p, h => by
    simp only [List.map_cons, List.zip_cons_cons, List.mem_cons] at h
    rcases h with rfl | h
    · rfl
    · exact mem_zip_map_self f l p h

/-- `ServeHTTP` forwards along the route `forwardOf` selects -/
theorem serve_forward_eq {T : Table} {q : Req} {id : Nat} (h : serve T q = .forward id) :
    forwardOf T q = .forward id := by
  unfold serve at h
  split at h
  split at h
  · cases h
  · exact h

theorem h2cConnReq_fst (c : Bool) (T : Table) (q0 : Req) (ws : List WireReq) :
    (h2cConnReq c T q0 ws).1 = serve T q0 := by
  unfold h2cConnReq
  split
  · rename_i id h; simp [h]
  · rfl

theorem h2cConnReq_snd {c : Bool} {T : Table} {q0 : Req} {ws : List WireReq} {first : Resp}
    {rs : List StreamResp} (h : h2cConnReq c T q0 ws = (first, rs)) :
    rs = [] ∨ rs = ws.map (h2cStream c T q0) := by
  unfold h2cConnReq at h
  split at h
  · right; simp only [Prod.mk.injEq] at h; exact h.2.symm
  · left; simp only [Prod.mk.injEq] at h; exact h.2.symm

/-- **the request that opens the connection** (upgrade request or prior-knowledge preface) is
    answered by `ServeHTTP` in both versions: forwarded only with its route's exact credentials -/
theorem h2cConn_first_sound (c : Bool) (T : Table) (w0 : WireReq) (ws : List WireReq) (first : Resp)
    (rs : List StreamResp) (h : h2cConn c T w0 ws = some (first, rs)) (id : Nat) (hf : first = .forward id) :
    CredsOK T id w0.auth := by
  unfold h2cConn at h
  cases hp : w0.parse with
  | none => rw [hp] at h; cases h
  | some q0 =>
    rw [hp] at h
    simp only [Option.map_some, Option.some.injEq] at h
    have h1 := h2cConnReq_fst c T q0 ws
    rw [h] at h1
    simp only at h1
    apply serveWire_sound T w0 id
    unfold serveWire
    rw [hp, Option.map_some, ← h1, hf]

/-- **a stream, repaired handler**: the stream is forwarded only with the exact credentials of the
    route it is forwarded to … -/
theorem h2cStream_checked_sound (T : Table) (q0 : Req) (w : WireReq) :
    StreamOK T w (h2cStream true T q0 w) := by
  intro id h
  unfold h2cStream at h
  cases hp : w.parse with
  | none => rw [hp] at h; cases h
  | some q =>
    rw [hp] at h
    simp only [↓reduceIte, StreamResp.resp.injEq] at h
    apply serveWire_sound T w id
    unfold serveWire
    rw [hp, Option.map_some, h]

/-- … and that route is the one selected by the stream's OWN :authority, :path and user -/
theorem h2cStream_checked_same_route (T : Table) (q0 : Req) (w : WireReq) (id : Nat)
    (h : h2cStream true T q0 w = .resp (.forward id)) :
    ∃ q, w.parse = some q ∧ ∃ r, getVhost T.R (canon q.host) q.path (routeUser q) = some r ∧
      r.payload = id ∧ hasPrefix q.path r.location = true := by
  unfold h2cStream at h
  cases hp : w.parse with
  | none => rw [hp] at h; cases h
  | some q =>
    rw [hp] at h
    simp only [↓reduceIte, StreamResp.resp.injEq] at h
    exact ⟨q, rfl, serve_forward_prefix T q id h⟩

/-- **a whole connection, repaired handler**: for every route table, every opening request and every
    sequence of further streams (each with its own :authority, :path, authorization), every request of
    the connection — the first and each stream — reaches a backend only with the exact credentials of
    the route it reaches.  Credentials of the opening request do not count for a later stream. -/
theorem h2cConn_checked_sound (T : Table) (w0 : WireReq) (ws : List WireReq) (first : Resp)
    (rs : List StreamResp) (h : h2cConn true T w0 ws = some (first, rs)) :
    (∀ id, first = .forward id → CredsOK T id w0.auth) ∧ ∀ p ∈ ws.zip rs, StreamOK T p.1 p.2 := by
  refine ⟨fun id hf => h2cConn_first_sound true T w0 ws first rs h id hf, ?_⟩
  unfold h2cConn at h
  cases hp : w0.parse with
  | none => rw [hp] at h; cases h
  | some q0 =>
    rw [hp] at h
    simp only [Option.map_some, Option.some.injEq] at h
    intro p hmem
    rcases h2cConnReq_snd h with he | he
    · rw [he] at hmem; simp at hmem
    · rw [he] at hmem
      have := mem_zip_map_self (h2cStream true T q0) ws p hmem
      rw [this]
      exact h2cStream_checked_sound T q0 p.1

/-- **/repo HEAD, what it does**: every later stream is answered along the route of the request that
    opened the connection, whatever its own :authority, :path and authorization are (or is reset when
    its :path does not parse) -/
theorem h2cConn_head_streams (T : Table) (w0 : WireReq) (ws : List WireReq) (first : Resp)
    (rs : List StreamResp) (h : h2cConn false T w0 ws = some (first, rs)) :
    ∀ p ∈ ws.zip rs, p.2 = .rst ∨ p.2 = .resp first := by
  unfold h2cConn at h
  cases hp : w0.parse with
  | none => rw [hp] at h; cases h
  | some q0 =>
    rw [hp] at h
    simp only [Option.map_some, Option.some.injEq] at h
    intro p hmem
    have hfst := h2cConnReq_fst false T q0 ws
    rw [h] at hfst
    simp only at hfst
    unfold h2cConnReq at h
    split at h
    · rename_i id hs
      simp only [Prod.mk.injEq] at h
      rw [← h.2] at hmem
      have := mem_zip_map_self (h2cStream false T q0) ws p hmem
      rw [this]
      unfold h2cStream
      cases p.1.parse with
      | none => exact Or.inl rfl
      | some q =>
        right
        simp only [Bool.false_eq_true, ↓reduceIte]
        rw [serve_forward_eq hs, ← h.1]
    · simp only [Prod.mk.injEq] at h
      rw [← h.2] at hmem
      simp at hmem

/-- **/repo HEAD, what holds**: a later stream respects the property if it carries the same
    `Authorization` as the opening request (the missing case — a stream with other or no credentials on
    a connection opened with a protected route's credentials — is `h2cHead_witness`) -/
theorem h2cConn_head_partial (T : Table) (w0 : WireReq) (ws : List WireReq) (first : Resp)
    (rs : List StreamResp) (h : h2cConn false T w0 ws = some (first, rs)) :
    ∀ p ∈ ws.zip rs, p.1.auth = w0.auth → StreamOK T p.1 p.2 := by
  intro p hmem ha id hid
  rcases h2cConn_head_streams T w0 ws first rs h p hmem with hr | hr
  · rw [hr] at hid; cases hid
  · rw [hr] at hid
    simp only [StreamResp.resp.injEq] at hid
    rw [ha]
    exact h2cConn_first_sound false T w0 ws first rs h id hid

/-- the full statement for the code as it is; it does NOT hold (`h2cHead_witness`) -/
def H2cHeadFull : Prop :=
  ∀ (T : Table) (w0 : WireReq) (ws : List WireReq) (first : Resp) (rs : List StreamResp),
    h2cConn false T w0 ws = some (first, rs) → ∀ p ∈ ws.zip rs, StreamOK T p.1 p.2

/-- a protected host (route 1, alice / secret) and an open host (route 2) on one frps -/
def hTable : Table :=
  { R := (add (add Router.empty (s "p.example.com") [] [] 1).1 (s "o.example.com") [] [] 2).1
    creds := [(1, ⟨s "alice", s "secret"⟩)] }

def hReq (host path : String) (a : Option (Str × Str)) : WireReq :=
  { host := s host, proxied := false, target := s path, auth := a, pauth := none }

def hGood : Option (Str × Str) := some (s "alice", s "secret")

/-- **witness, /repo HEAD**: a connection is opened with the protected host's credentials and
    upgraded; a further stream for the protected host WITHOUT credentials is forwarded to the protected
    backend -/
theorem h2cHead_witness :
    h2cConn false hTable (hReq "p.example.com" "/" hGood) [hReq "p.example.com" "/x" none] =
      some (.forward 1, [.resp (.forward 1)]) ∧
    ¬ StreamOK hTable (hReq "p.example.com" "/x" none) (.resp (.forward 1)) := by
  refine ⟨by decide +kernel, ?_⟩
  intro h
  have := h 1 rfl
  revert this
  decide +kernel

theorem h2cHeadFull_fails : ¬ H2cHeadFull := by
  intro h
  exact h2cHead_witness.2
    (h hTable (hReq "p.example.com" "/" hGood) [hReq "p.example.com" "/x" none] _ _ h2cHead_witness.1
      (hReq "p.example.com" "/x" none, .resp (.forward 1)) (by simp))

/-- **witness, /repo HEAD, routing**: on a connection opened for the open host a stream for the
    protected host (here with its credentials) is answered by the OPEN host's backend — which thereby
    receives the stream's Authorization header —, not by the route the stream names -/
theorem h2cHead_misroute_witness :
    h2cConn false hTable (hReq "o.example.com" "/" none) [hReq "p.example.com" "/x" hGood] =
      some (.forward 2, [.resp (.forward 2)]) ∧
    serveWire hTable (hReq "p.example.com" "/x" hGood) = some (.forward 1) := by
  decide +kernel

/-- the repaired handler on the same inputs: challenge without, the protected backend with, the
    credentials; a stream for the protected host on a connection opened through the open host is
    checked like any other request -/
example : h2cConn true hTable (hReq "p.example.com" "/" hGood) [hReq "p.example.com" "/x" none] =
    some (.forward 1, [.resp .unauthorized]) := by decide +kernel
example : h2cConn true hTable (hReq "o.example.com" "/" none)
    [hReq "p.example.com" "/x" none, hReq "p.example.com" "/x" hGood, hReq "o.example.com" "/%" none] =
    some (.forward 2, [.resp .unauthorized, .resp (.forward 1), .rst]) := by decide +kernel
example : h2cConn true hTable (hReq "p.example.com" "/" none) [hReq "o.example.com" "/" none] =
    some (.unauthorized, []) := by decide +kernel
/-- prior knowledge needs a catch-all route (the preface has no Host) -/
example : h2cConn false hTable priWire [hReq "o.example.com" "/" none] = some (.notFound, []) := by decide +kernel

/-! executable predicate for implementation traces of one connection -/

def streamHoldsOn (T : Table) (w : WireReq) (r : StreamResp) : Bool :=
  match r with
  | .resp (.forward id) => decide (CredsOK T id w.auth)
  | _ => true

theorem streamHoldsOn_sound (T : Table) (w : WireReq) (r : StreamResp) :
    streamHoldsOn T w r = true ↔ StreamOK T w r := by
  unfold StreamOK
  cases r with
  | rst => simp [streamHoldsOn]
  | resp r =>
    cases r with
    | forward id => simp [streamHoldsOn]
    | unauthorized => simp [streamHoldsOn]
    | notFound => simp [streamHoldsOn]

/-- `first` = the answer to the opening request (`none`: nothing is claimed about it — 400, or the
    prior-knowledge preface, which no backend sees), `rs` = the answers to the streams sent afterwards -/
def h2cHoldsOn (T : Table) (w0 : WireReq) (ws : List WireReq) (first : Option Resp) (rs : List StreamResp) : Bool :=
  holdsOnWire T w0 first && (ws.zip rs).all (fun p => streamHoldsOn T p.1 p.2)

theorem h2cHoldsOn_sound (T : Table) (w0 : WireReq) (ws : List WireReq) (first : Option Resp)
    (rs : List StreamResp) :
    h2cHoldsOn T w0 ws first rs = true ↔
      ((∀ id, first = some (.forward id) → CredsOK T id w0.auth) ∧ ∀ p ∈ ws.zip rs, StreamOK T p.1 p.2) := by
  unfold h2cHoldsOn
  rw [Bool.and_eq_true, holdsOnWire_sound, List.all_eq_true]
  constructor
  · intro ⟨h1, h2⟩
    exact ⟨h1, fun p hp => (streamHoldsOn_sound T p.1 p.2).mp (h2 p hp)⟩
  · intro ⟨h1, h2⟩
    exact ⟨h1, fun p hp => (streamHoldsOn_sound T p.1 p.2).mpr (h2 p hp)⟩

theorem model_h2cHoldsOn_checked (T : Table) (w0 : WireReq) (ws : List WireReq) (first : Resp)
    (rs : List StreamResp) (h : h2cConn true T w0 ws = some (first, rs)) :
    h2cHoldsOn T w0 ws (some first) rs = true := by
  rw [h2cHoldsOn_sound]
  obtain ⟨h1, h2⟩ := h2cConn_checked_sound T w0 ws first rs h
  refine ⟨fun id hf => h1 id ?_, h2⟩
  injection hf

/-! ### server-side tcpmux proxies: listener fields and the CONNECT check -/

/-- **field mapping**: every listener a tcpmux proxy registers — one per custom domain and the one
    for the subdomain — carries the configured user name, password and routing user, each in its own
    field -/
theorem tmListeners_fields (sh : Str) (c : TmCfg) :
    ∀ l ∈ tmListeners sh c,
      l.username = c.httpUser ∧ l.password = c.httpPwd ∧ l.routeByHTTPUser = c.routeUser := by
  intro l hl
  unfold tmListeners at hl
  rcases List.mem_append.mp hl with h | h
  · obtain ⟨d, _, rfl⟩ := List.mem_map.mp h
    exact ⟨rfl, rfl, rfl⟩
  · split at h
    · simp at h
    · simp only [List.mem_singleton] at h
      subst h
      exact ⟨rfl, rfl, rfl⟩

/-- … and they are exactly the non-empty custom domains followed by `subdomain.subDomainHost` -/
theorem tmListeners_names (sh : Str) (c : TmCfg) :
    (tmListeners sh c).map (·.name) =
      c.domains.filter (fun d => !d.isEmpty) ++ (if c.sub = [] then [] else [c.sub ++ dot :: sh]) := by
  unfold tmListeners
  rw [List.map_append, List.map_map]
  congr 1
  · simp [Function.comp_def, httpConnectListen]
  · split <;> simp [httpConnectListen]

/-- what the muxer stores agrees with the configuration each listener object was created from -/
def TmAgree (S : TmState) : Prop :=
  ∀ n rec, S.recs.lookup n = some rec →
    S.T.credsOf n = ⟨rec.cfg.httpUser, rec.cfg.httpPwd⟩ ∧ rec.l.routeByHTTPUser = rec.cfg.routeUser ∧
    rec.l.username = rec.cfg.httpUser ∧ rec.l.password = rec.cfg.httpPwd

theorem tmAgree_empty : TmAgree TmState.empty := by
  intro n rec h
  simp [TmState.empty] at h

theorem tmClaim_agree (id : Nat) (c : TmCfg) :
    ∀ (ls : List TmListener) (S : TmState) (held : List TmListener),
      (∀ l ∈ ls, l.username = c.httpUser ∧ l.password = c.httpPwd ∧ l.routeByHTTPUser = c.routeUser) →
      TmAgree S → TmAgree (tmClaim S id c held ls).1
  | [], S, held, _, hS => by simpa [tmClaim] using hS
  | l :: rest, S, held, hl, hS => by
    unfold tmClaim
    split
    · rename_i R' hadd
      apply tmClaim_agree id c rest _ _ (fun x hx => hl x (List.mem_cons_of_mem _ hx))
      intro n rec hn
      obtain ⟨hu, hp, hr⟩ := hl l (List.mem_cons_self ..)
      by_cases hnn : n = S.next
      · subst hnn
        simp only [List.lookup_cons, beq_self_eq_true, Option.some.injEq] at hn
        subst hn
        refine ⟨?_, hr, hu, hp⟩
        simp [Table.credsOf, hu, hp]
      · have hb : (n == S.next) = false := by simpa using hnn
        simp only [List.lookup_cons, hb] at hn
        obtain ⟨h1, h2⟩ := hS n rec hn
        refine ⟨?_, h2⟩
        rw [← h1]
        simp [Table.credsOf, List.lookup_cons, hb]
    · exact hS

theorem tmRelease_agree : ∀ (ls : List TmListener) (S : TmState), TmAgree S → TmAgree (tmRelease S ls)
  | [], S, hS => by simpa [tmRelease] using hS
  | l :: rest, S, hS => by
    unfold tmRelease
    apply tmRelease_agree rest
    intro n rec hn
    exact hS n rec hn

theorem tmRelease_recs : ∀ (ls : List TmListener) (S : TmState), (tmRelease S ls).recs = S.recs
  | [], S => by simp [tmRelease]
  | l :: rest, S => by unfold tmRelease; rw [tmRelease_recs rest]

theorem tmRelease_creds : ∀ (ls : List TmListener) (S : TmState), (tmRelease S ls).T.creds = S.T.creds
  | [], S => by simp [tmRelease]
  | l :: rest, S => by unfold tmRelease; rw [tmRelease_creds rest]

theorem tmRun_agree (sh : Str) (S : TmState) (id : Nat) (c : TmCfg) (hS : TmAgree S) :
    TmAgree (tmRun sh S id c).1 := by
  unfold tmRun
  split
  · exact hS
  · have hc := tmClaim_agree id c (tmListeners sh c) S [] (tmListeners_fields sh c) hS
    split
    · rename_i S' held hcl
      rw [hcl] at hc
      intro n rec hn
      exact hc n rec hn
    · rename_i S' held hcl
      rw [hcl] at hc
      exact tmRelease_agree held S' hc

theorem tmClose_agree (S : TmState) (id : Nat) (hS : TmAgree S) : TmAgree (tmClose S id) := by
  unfold tmClose
  split
  · exact hS
  · rename_i c held _
    have := tmRelease_agree held S hS
    intro n rec hn
    exact this n rec hn

theorem tmStep_agree (S : TmState) (op : TmOp) (hS : TmAgree S) : TmAgree (tmStep S op) := by
  cases op with
  | run sh id c => exact tmRun_agree sh S id c hS
  | close id => exact tmClose_agree S id hS

/-- the agreement holds after every history of proxy starts and stops -/
theorem tmAgree_reach (ops : List TmOp) : TmAgree (ops.foldl tmStep TmState.empty) := by
  suffices h : ∀ S, TmAgree S → TmAgree (ops.foldl tmStep S) from h _ tmAgree_empty
  induction ops with
  | nil => intro S hS; exact hS
  | cons op rest ih => intro S hS; exact ih _ (tmStep_agree S op hS)

/-- **tcpmux proxy, end to end**: after any history of tcpmux proxies being started (`NewProxy` + `Run`,
    with roll-back on a refused domain) and closed on one muxer, a CONNECT request is handed to a
    listener of a proxy configured with `httpUser` only if it carries exactly that proxy's `httpUser`
    and `httpPassword` -/
theorem tmProxy_sound (ops : List TmOp) (q : ConnectReq) (n : Nat) (rec : TmRec)
    (h : tmHandle (ops.foldl tmStep TmState.empty) q = .accept n)
    (hr : (ops.foldl tmStep TmState.empty).recs.lookup n = some rec) (hp : rec.cfg.httpUser ≠ []) :
    q.pauth = some (rec.cfg.httpUser, rec.cfg.httpPwd) := by
  have hc := (tmAgree_reach ops n rec hr).1
  have := muxHandle_sound _ q n h (by rw [hc]; exact hp)
  rw [hc] at this
  exact this

/-- non-vacuity: custom domain + subdomain, both protected by the configured pair -/
def tmCfgW : TmCfg := { domains := [s "secret.example.com"], sub := s "vault", routeUser := [], httpUser := s "admin", httpPwd := s "s3cret" }
def tmW : TmState := (tmRun (s "frps.example.com") TmState.empty 7 tmCfgW).1

example : (tmRun (s "frps.example.com") TmState.empty 7 tmCfgW).2 = .ok := by decide +kernel
example : tmHandle tmW ⟨s "secret.example.com", some (s "admin", s "s3cret")⟩ = .accept 0 := by decide +kernel
example : tmHandle tmW ⟨s "vault.frps.example.com", some (s "admin", s "s3cret")⟩ = .accept 1 := by decide +kernel
example : tmHandle tmW ⟨s "vault.frps.example.com", some (s "admin", s "wrong")⟩ = .proxyAuthRequired := by decide +kernel
example : tmHandle tmW ⟨s "secret.example.com", some (s "admin", [])⟩ = .proxyAuthRequired := by decide +kernel
example : tmHandle tmW ⟨s "secret.example.com", none⟩ = .proxyAuthRequired := by decide +kernel
example : tmHandle (tmClose tmW 7) ⟨s "secret.example.com", some (s "admin", s "s3cret")⟩ = .notFound := by decide +kernel

/-- executable predicate: proxy `c` was asked for a work connection for a CONNECT carrying `pauth` -/
def tmHoldsOn (c : TmCfg) (pauth : Option (Str × Str)) : Bool :=
  decide (c.httpUser ≠ [] → pauth = some (c.httpUser, c.httpPwd))

theorem tmHoldsOn_sound (c : TmCfg) (pauth : Option (Str × Str)) :
    tmHoldsOn c pauth = true ↔ (c.httpUser ≠ [] → pauth = some (c.httpUser, c.httpPwd)) := by
  simp only [tmHoldsOn, decide_eq_true_eq]

theorem model_tmHoldsOn (ops : List TmOp) (q : ConnectReq) (n : Nat) (rec : TmRec)
    (h : tmHandle (ops.foldl tmStep TmState.empty) q = .accept n)
    (hr : (ops.foldl tmStep TmState.empty).recs.lookup n = some rec) :
    tmHoldsOn rec.cfg q.pauth = true :=
  (tmHoldsOn_sound _ _).mpr (tmProxy_sound ops q n rec h hr)

end C07
end Frp
