import Frp.Lemmas.GroupRelease
/-
  Property C10 for http proxies with and without a load-balancing group
  (Frp/Model/GroupRelease.lean over Frp/Model/VhostReg.lean; invariant `InvL` and its step lemmas:
  Frp/Lemmas/VhostReg.lean, `C06.reg_table_eq_live`).

  All statements are about every history of register / close / session end of any number of sessions
  with arbitrary configurations (custom domains, subdomain, locations, route user, group, group key).
-/
namespace Frp
namespace C10
namespace Group
open Str Router VhostReg GroupRel

/-! ## SPEC side: what may be said looking at the live proxies only -/

/-- two (domain, location) pairs name the same route (domains are stored lower-cased) -/
def KeyEq (a b : Str × Str) : Prop := toLower a.1 = toLower b.1 ∧ a.2 = b.2

instance (a b : Str × Str) : Decidable (KeyEq a b) := by unfold KeyEq; infer_instance

/-- the live proxy `r` stands for the route `(k, u)` -/
def HoldsRoute (sh : Str) (r : Rec) (k : Str × Str) (u : Str) : Prop :=
  r.cfg.user = u ∧ ∃ k' ∈ triples sh r.cfg, KeyEq k' k

instance (sh : Str) (r : Rec) (k : Str × Str) (u : Str) : Decidable (HoldsRoute sh r k u) := by
  unfold HoldsRoute; infer_instance

/-- the live proxy `r` is a member of the group `c` names -/
def Fellow (sh : Str) (r : Rec) (c : Cfg) : Prop := r.cfg.group = c.group ∧ triples sh r.cfg ≠ []

instance (sh : Str) (r : Rec) (c : Cfg) : Decidable (Fellow sh r c) := by unfold Fellow; infer_instance

def KeysNodup (ks : List (Str × Str)) : Prop := ks.Pairwise (fun a b => ¬ KeyEq a b)

instance (ks : List (Str × Str)) : Decidable (KeysNodup ks) := by unfold KeysNodup; infer_instance

/-- **Nothing but a live proxy stands in the way of a registration**: the name is not a live proxy's;
    without a group, the configuration's routes are distinct and no live proxy stands for one of them;
    with a group, the configuration has (at most) one route and either the group has no live member and no
    live proxy stands for the route, or every live member has that route, that route user and that key. -/
def CanRegister (sh : Str) (live : List Rec) (c : Cfg) : Prop :=
  (∀ r ∈ live, r.name ≠ c.name) ∧
  (c.group = [] →
    KeysNodup (triples sh c) ∧ ∀ k ∈ triples sh c, ∀ r ∈ live, ¬ HoldsRoute sh r k c.user) ∧
  (c.group ≠ [] → ∀ k ∈ triples sh c,
    triples sh c = [k] ∧
    ((∀ r ∈ live, ¬ Fellow sh r c) → ∀ r ∈ live, ¬ HoldsRoute sh r k c.user) ∧
    (∀ r ∈ live, Fellow sh r c →
      triples sh r.cfg = [k] ∧ r.cfg.user = c.user ∧ r.cfg.groupKey = c.groupKey))

instance (sh : Str) (live : List Rec) (c : Cfg) : Decidable (CanRegister sh live c) := by
  unfold CanRegister; infer_instance

/-- the routes the live proxies stand for: (lower-cased domain, location, route user) -/
def liveKeys (sh : Str) (live : List Rec) : List (Str × Str × Str) :=
  live.flatMap (fun r => (triples sh r.cfg).map (fun k => (toLower k.1, k.2, r.cfg.user)))

/-! ## who stands behind a stored route, and which route stands behind a held pair -/

theorem add_conflict_reg {R R' : Routers} {d l u : Str} {p : Nat} (hR : Router.Inv R)
    (h : add R d l u p = (R', .conflict)) :
    ∃ r, Reg R r ∧ r.domain = toLower d ∧ r.location = l ∧ r.user = u := by
  unfold add at h
  simp only at h
  split at h
  · rename_i hany
    simp only [List.any_eq_true, decide_eq_true_eq] at hany
    obtain ⟨r, hr, hl⟩ := hany
    obtain ⟨e1, e2⟩ := hR.keyed _ _ r hr
    refine ⟨r, ?_, e1, hl, e2⟩
    unfold Reg; rw [e1, e2]; exact hr
  · simp at h

/-- every stored route is held by a running instance: one of its pairs, its route user -/
theorem reg_holder {T : Tab} {hs : List Holder} (hI : InvL T hs) {r : Route} (hr : Reg T.R r) :
    ∃ h ∈ hs, h.user = r.user ∧ ∃ k ∈ h.keys, toLower k.1 = r.domain ∧ k.2 = r.location := by
  rcases Nat.mod_two_eq_zero_or_one r.payload with he | ho
  · obtain ⟨h, hh, _, k, hk, hrk⟩ := hI.owned r hr he
    subst hrk
    exact ⟨h, hh, rfl, k, hk, rfl, rfl⟩
  · obtain ⟨n, g, hget, hne, hrg⟩ := hI.gowned r hr ho
    obtain ⟨m, hm⟩ := List.exists_mem_of_ne_nil _ hne
    obtain ⟨h, hh, _, _, _, e4, e5⟩ := hI.gholder n g hget m hm
    subst hrg
    exact ⟨h, hh, e5, (g.domain, g.location), by rw [e4]; exact List.mem_singleton.mpr rfl, rfl, rfl⟩

/-- the route behind a pair a running instance holds: its own (no group) or its group's -/
theorem route_of_holder {T : Tab} {hs : List Holder} (hI : InvL T hs) {h : Holder} (hh : h ∈ hs)
    {k : Str × Str} (hk : k ∈ h.keys) :
    ∃ ro, Reg T.R ro ∧ ro.domain = toLower k.1 ∧ ro.location = k.2 ∧ ro.user = h.user ∧
      ((h.group = [] ∧ ro.payload = 2 * h.id) ∨
       (h.group ≠ [] ∧ ∃ g, T.G.get h.group = some g ∧ ro.payload = 2 * g.gid + 1 ∧
          (h.name, h.id) ∈ g.members ∧ h.keys = [(g.domain, g.location)] ∧ h.user = g.user)) := by
  by_cases hg : h.group = []
  · exact ⟨pr h k, hI.own h hh hg k hk, rfl, rfl, rfl, Or.inl ⟨hg, rfl⟩⟩
  · have hkne : h.keys ≠ [] := by intro e; rw [e] at hk; cases hk
    obtain ⟨g, hget, hm⟩ := hI.gmem h hh hg hkne
    obtain ⟨h', hh', e1, _, _, e4, e5⟩ := hI.gholder _ g hget _ hm
    have : h' = h := id_unique hI.ids hh' hh e1
    subst this
    have hk' : k = (g.domain, g.location) := by rw [e4] at hk; exact List.mem_singleton.mp hk
    subst hk'
    exact ⟨gr g, (hI.groute _ g hget (members_ne_nil hm)).1, rfl, rfl, e5.symm,
      Or.inr ⟨hg, g, hget, rfl, hm, e4, e5⟩⟩

/-! ## a registration nothing live stands against goes through -/

theorem claim_ok_plain {gkey : Str} {hs : List Holder} (keys : List (Str × Str)) :
    ∀ (T : Tab) (p : Holder), InvL T (p :: hs) → p.group = [] →
      KeysNodup (p.keys ++ keys) →
      (∀ k ∈ keys, ∀ h ∈ hs, h.user = p.user → ∀ k' ∈ h.keys, ¬ KeyEq k' k) →
      (claim T p gkey keys).2.2 = none := by
  induction keys with
  | nil => intro T p _ _ _ _; rfl
  | cons k rest ih =>
    intro T p hI hg hnd hfree
    obtain ⟨d, l⟩ := k
    unfold claim
    cases hr : regOne T p gkey d l with
    | mk T' r =>
      cases r with
      | some e =>
        exfalso
        unfold regOne at hr
        rw [if_neg (fun hne => hne hg)] at hr
        split at hr
        · simp at hr
        · rename_i hadd
          obtain ⟨r, hreg, e1, e2, e3⟩ := add_conflict_reg hI.rinv hadd
          obtain ⟨h, hh, hu, k, hk, ek1, ek2⟩ := reg_holder hI hreg
          rcases List.mem_cons.mp hh with rfl | hh'
          · exact (List.pairwise_append.mp hnd).2.2 k hk (d, l) List.mem_cons_self
              ⟨ek1.trans e1, ek2.trans e2⟩
          · exact hfree (d, l) List.mem_cons_self h hh' (hu.trans e3) k hk ⟨ek1.trans e1, ek2.trans e2⟩
      | none =>
        dsimp only
        have hI' := (inv_regOne hI hr).1 rfl
        apply ih T' _ hI' hg
        · show KeysNodup ((p.keys ++ [(d, l)]) ++ rest)
          rw [List.append_assoc]; exact hnd
        · intro k hk; exact hfree k (List.mem_cons_of_mem _ hk)

theorem regOne_ok_group {T : Tab} {p : Holder} {hs : List Holder} {gkey d l : Str}
    (hI : InvL T (p :: hs)) (hg : p.group ≠ []) (hk : p.keys = [])
    (hname : ∀ h ∈ hs, h.name ≠ p.name)
    (hfree : (∀ h ∈ hs, ¬ (h.group = p.group ∧ h.keys ≠ [])) →
      ∀ h ∈ hs, h.user = p.user → ∀ k' ∈ h.keys, ¬ KeyEq k' (d, l))
    (hfel : ∀ h ∈ hs, h.group = p.group → h.keys ≠ [] → h.keys = [(d, l)] ∧ h.user = p.user)
    (hkey : ∀ g, T.G.get p.group = some g → g.members ≠ [] → g.key = gkey) :
    (regOne T p gkey d l).2 = none := by
  unfold regOne
  rw [if_pos hg]
  unfold groupRegister
  dsimp only
  have hI0 := inv_ensure hI p.group
  obtain ⟨g, hget⟩ := ensure_get T p.group
  rw [hget]
  dsimp only
  have notp : ∀ h ∈ p :: hs, h.keys ≠ [] → h ∈ hs := by
    intro h hh hne
    rcases List.mem_cons.mp hh with rfl | hh'
    · exact absurd hk hne
    · exact hh'
  unfold groupJoin
  by_cases hm : g.members = []
  · rw [if_pos hm]
    cases hadd : add (ensureGroup T p.group).R d l p.user (2 * g.gid + 1) with
    | mk R' res =>
      cases res with
      | ok => rfl
      | conflict =>
        exfalso
        obtain ⟨r, hreg, e1, e2, e3⟩ := add_conflict_reg hI0.rinv hadd
        obtain ⟨h, hh, hu, k, hk', ek1, ek2⟩ := reg_holder hI0 hreg
        have hh' := notp h hh (by intro e; rw [e] at hk'; cases hk')
        refine hfree ?_ h hh' (hu.trans e3) k hk' ⟨ek1.trans e1, ek2.trans e2⟩
        intro x hx ⟨hxg, hxk⟩
        obtain ⟨g', hget', hm'⟩ := hI0.gmem x (List.mem_cons_of_mem _ hx) (by rw [hxg]; exact hg) hxk
        rw [hxg, hget] at hget'
        have := Option.some.inj hget'; subst this
        rw [hm] at hm'; cases hm'
  · rw [if_neg hm]
    obtain ⟨m, hmm⟩ := List.exists_mem_of_ne_nil _ hm
    obtain ⟨h, hh, _, _, e3, e4, e5⟩ := hI0.gholder p.group g hget m hmm
    have hh' := notp h hh (by rw [e4]; simp)
    obtain ⟨f1, f2⟩ := hfel h hh' e3 (by rw [e4]; simp)
    rw [e4] at f1
    have hd : g.domain = d := by
      have := List.head_eq_of_cons_eq f1; exact congrArg Prod.fst this
    have hl : g.location = l := by
      have := List.head_eq_of_cons_eq f1; exact congrArg Prod.snd this
    have hgrp := (hI0.groute p.group g hget hm).2.1
    have hpar : ¬ (g.group ≠ p.group ∨ g.domain ≠ d ∨ g.location ≠ l ∨ g.user ≠ p.user) := by
      rintro (a | a | a | a)
      · exact a hgrp
      · exact a hd
      · exact a hl
      · exact a (e5.symm.trans f2)
    rw [if_neg hpar]
    have hk2 : ¬ g.key ≠ gkey := fun a => a (hkey g (ensure_get_members hget hm) hm)
    rw [if_neg hk2]
    have hany : ¬ (g.members.any (fun m => m.1 = p.name)) = true := by
      intro ha
      simp only [List.any_eq_true, decide_eq_true_eq] at ha
      obtain ⟨m', hm', en⟩ := ha
      obtain ⟨h2, hh2, _, n2, _, k2, _⟩ := hI0.gholder p.group g hget m' hm'
      have hh2' := notp h2 hh2 (by rw [k2]; simp)
      exact hname h2 hh2' (n2.trans en)
    rw [if_neg hany]

theorem holderOfRec_fields (sh : Str) (r : Rec) :
    (holderOfRec sh r).id = r.id ∧ (holderOfRec sh r).name = r.cfg.name ∧
    (holderOfRec sh r).user = r.cfg.user ∧ (holderOfRec sh r).group = r.cfg.group ∧
    (holderOfRec sh r).keys = triples sh r.cfg := ⟨rfl, rfl, rfl, rfl, rfl⟩

/-- **Nothing but a live proxy stands in the way**: in every reachable state a registration whose name no
    live proxy has, whose routes no live proxy stands for (outside its group) and whose group's live
    members — if any — have its route and its key, goes through.  Whatever happened before (refused joins of
    any kind, closed proxies, ended sessions, group objects left in the table) has no say. -/
theorem register_ok_of_can {sh : Str} {s : GState} (h : GInv sh s) (sid : Nat) (c : Cfg)
    (hcan : CanRegister sh s.owner c) : (s.register sh sid c).2 = .ok := by
  obtain ⟨hnm, hplain, hgrp⟩ := hcan
  have hlive : ¬ s.isLive c.name = true := by
    intro hl
    simp only [GState.isLive, List.any_eq_true, decide_eq_true_eq] at hl
    obtain ⟨r, hr, e⟩ := hl
    exact hnm r hr e
  have hfresh' : ∀ x ∈ s.st.hs, (holderOf s.next c []).id ≠ x.id := by
    intro x hx e
    have := hs_id_lt h x hx
    rw [← e] at this
    exact Nat.lt_irrefl _ this
  have h0 := inv_intro (p := holderOf s.next c []) h.inv rfl hfresh'
  have hclaim : (claim s.st.tab (holderOf s.next c []) c.groupKey (triples sh c)).2.2 = none := by
    by_cases hg : c.group = []
    · obtain ⟨hnd, hfree⟩ := hplain hg
      apply claim_ok_plain (triples sh c) s.st.tab _ h0 hg
      · exact hnd
      · intro k hk x hx hu k' hk' hke
        obtain ⟨r, hr, e⟩ := h.hrec x hx
        subst e
        exact hfree k hk r hr ⟨hu, k', hk', hke⟩
    · cases htr : triples sh c with
      | nil => rfl
      | cons k rest =>
        obtain ⟨hone, hfree, hfel⟩ := hgrp hg k (by rw [htr]; exact List.mem_cons_self)
        rw [htr] at hone
        have hrest : rest = [] := List.tail_eq_of_cons_eq hone
        subst hrest
        obtain ⟨d, l⟩ := k
        have hstep : (regOne s.st.tab (holderOf s.next c []) c.groupKey d l).2 = none := by
          apply regOne_ok_group h0 hg rfl
          · intro x hx e
            obtain ⟨r, hr, e'⟩ := h.hrec x hx
            subst e'
            exact hnm r hr ((h.rech r hr).2.1.trans e)
          · intro hno x hx hu k' hk' hke
            obtain ⟨r, hr, e'⟩ := h.hrec x hx
            subst e'
            refine hfree ?_ r hr ⟨hu, k', hk', hke⟩
            intro r' hr' ⟨a, b⟩
            exact hno _ (h.rech r' hr').1 ⟨a, b⟩
          · intro x hx hxg hxk
            obtain ⟨r, hr, e'⟩ := h.hrec x hx
            subst e'
            obtain ⟨a, b, _⟩ := hfel r hr ⟨hxg, hxk⟩
            exact ⟨a, b⟩
          · intro g hget hm
            obtain ⟨m, hmm⟩ := List.exists_mem_of_ne_nil _ hm
            obtain ⟨r', hr', e1, e2⟩ := h.keyed _ g hget m hmm
            obtain ⟨x, hx, i1, _, i3, i4, _⟩ := h.inv.gholder _ g hget m hmm
            obtain ⟨r, hr, e'⟩ := h.hrec x hx
            subst e'
            have : r = r' := rec_id_unique h hr hr' (i1.trans e1.symm)
            subst this
            obtain ⟨_, _, c3⟩ := hfel r hr ⟨i3, by show (holderOfRec sh r).keys ≠ []; rw [i4]; simp⟩
            exact e2.symm.trans c3
        unfold claim
        cases hr : regOne s.st.tab (holderOf s.next c []) c.groupKey d l with
        | mk T' r =>
          rw [hr] at hstep
          dsimp only at hstep
          subst hstep
          rfl
  have hrun : (run sh s.st s.next c).2 = .ok := by
    unfold run
    rw [if_neg (next_fresh h)]
    split
    · rfl
    · rename_i T' p e hc
      rw [hc] at hclaim; cases hclaim
  unfold GState.register
  rw [if_neg hlive]
  split
  · rfl
  · rename_i S' e hr; rw [hr] at hrun; cases hrun
  · rename_i S' hr; rw [hr] at hrun; cases hrun

/-! ## what a live proxy holds is held by nobody else: its registration can be repeated verbatim as soon
       as it is gone -/

/-- In every reachable state, for a live proxy `r` and ANY set of other live proxies (the proxies left
    after `r` was closed, after its session ended, after any further proxies went away): nothing stands
    against registering `r`'s configuration again. -/
theorem can_register_of_sublive {sh : Str} {s : GState} (h : GInv sh s) {r : Rec} (hr : r ∈ s.owner)
    (live : List Rec) (hsub : ∀ x ∈ live, x ∈ s.owner ∧ x.name ≠ r.name) :
    CanRegister sh live r.cfg := by
  obtain ⟨h0, hn0, _⟩ := h.rech r hr
  have hI := h.inv
  -- a live proxy other than `r` standing for a route of `r` shares `r`'s group
  have hclash : ∀ x ∈ live, ∀ k ∈ triples sh r.cfg, HoldsRoute sh x k r.cfg.user →
      r.cfg.group ≠ [] ∧ x.cfg.group = r.cfg.group := by
    intro x hx k hk ⟨hu, k', hk', hke⟩
    obtain ⟨hxo, hxn⟩ := hsub x hx
    obtain ⟨hx0, _, _⟩ := h.rech x hxo
    obtain ⟨ro, hro, a1, a2, a3, a4⟩ := route_of_holder hI h0 (k := k) hk
    obtain ⟨rx, hrx, b1, b2, b3, b4⟩ := route_of_holder hI hx0 (k := k') hk'
    have heq : rx = ro := reg_unique hI.rinv hrx hro (by rw [a1, b1]; exact hke.1)
      (by rw [a3, b3]; exact hu) (by rw [a2, b2]; exact hke.2)
    subst heq
    rcases a4 with ⟨_, pa⟩ | ⟨ga, g, hgget, pa, _, _, _⟩ <;>
      rcases b4 with ⟨_, pb⟩ | ⟨gb, g', hgget', pb, _, _, _⟩
    · exfalso
      have : x.id = r.id := by
        have : (holderOfRec sh x).id = (holderOfRec sh r).id := by omega
        exact this
      exact hxn (congrArg Rec.name (rec_id_unique h hxo hr this))
    · exfalso; omega
    · exfalso; omega
    · refine ⟨ga, ?_⟩
      have hgid : g'.gid = g.gid := by omega
      exact hI.ginj _ _ g' g hgget' hgget hgid
  refine ⟨fun x hx => ?_, fun hg => ⟨?_, ?_⟩, fun hg k hk => ?_⟩
  · rw [← hn0]; exact (hsub x hx).2
  · exact hI.nodup _ h0 hg
  · intro k hk x hx hhold
    exact (hclash x hx k hk hhold).1 hg
  · obtain ⟨ro, hro, a1, a2, a3, a4⟩ := route_of_holder hI h0 (k := k) hk
    rcases a4 with ⟨ga, _⟩ | ⟨_, g, hgget, _, hgm, hkeys, hgu⟩
    · exact absurd ga hg
    · have hk1 : triples sh r.cfg = [k] := by
        have e : (holderOfRec sh r).keys = [(g.domain, g.location)] := hkeys
        have hk' : k ∈ (holderOfRec sh r).keys := hk
        rw [e] at hk'
        have := List.mem_singleton.mp hk'
        subst this; exact e
      refine ⟨hk1, ?_, ?_⟩
      · intro hno x hx hhold
        exact hno x hx ⟨(hclash x hx k hk hhold).2, by
          obtain ⟨_, k', hk', _⟩ := hhold
          intro e; rw [e] at hk'; cases hk'⟩
      · intro x hx ⟨hxg, hxk⟩
        obtain ⟨hxo, _⟩ := hsub x hx
        obtain ⟨hx0, _, _⟩ := h.rech x hxo
        obtain ⟨k', hk'⟩ := List.exists_mem_of_ne_nil _ hxk
        obtain ⟨rx, _, _, _, _, b4⟩ := route_of_holder hI hx0 (k := k') hk'
        rcases b4 with ⟨gb, _⟩ | ⟨_, g', hgget', _, hgm', hkeys', hgu'⟩
        · exfalso
          have : x.cfg.group = [] := gb
          rw [hxg] at this; exact hg this
        · have hgg : g' = g := by
            have e : (holderOfRec sh x).group = (holderOfRec sh r).group := hxg
            rw [e, hgget] at hgget'
            exact (Option.some.inj hgget').symm
          subst hgg
          obtain ⟨r1, hr1, i1, j1⟩ := h.keyed _ g' hgget _ hgm
          obtain ⟨r2, hr2, i2, j2⟩ := h.keyed _ g' hgget _ hgm'
          have e1 : r1 = r := rec_id_unique h hr1 hr i1
          have e2 : r2 = x := rec_id_unique h hr2 hxo i2
          subst e1; subst e2
          refine ⟨?_, ?_, j2.trans j1.symm⟩
          · have e : (holderOfRec sh r2).keys = [(g'.domain, g'.location)] := hkeys'
            have e' : (holderOfRec sh r1).keys = [(g'.domain, g'.location)] := hkeys
            show (holderOfRec sh r2).keys = [k]
            rw [e]
            have : (holderOfRec sh r1).keys = [k] := hk1
            rw [e'] at this; exact this
          · have u1 : (holderOfRec sh r1).user = g'.user := hgu
            have u2 : (holderOfRec sh r2).user = g'.user := hgu'
            exact u2.trans u1.symm

/-- `Control.CloseProxy`, exact effect on the live proxies: the caller's proxy of that name is gone,
    nothing else (in particular nothing of another session, whatever it is called) -/
theorem close_owner {sh : Str} {s : GState} (h : GInv sh s) (sid : Nat) (name : Str) :
    (s.close sid name).owner = s.owner.filter (fun e => ¬ (e.name = name ∧ e.sid = sid)) := by
  rcases close_cases s sid name with ⟨e, hno⟩ | ⟨r, hr, hn, hs, e⟩
  · rw [e]
    symm
    apply List.filter_eq_self.mpr
    intro x hx
    have := hno x hx
    simp only [decide_not, Bool.not_eq_eq_eq_not, Bool.not_true, decide_eq_false_iff_not]
    exact this
  · rw [e]
    dsimp only
    apply List.filter_congr
    intro x hx
    by_cases en : x.name = name
    · have : x = r := rec_name_unique h hx hr (en.trans hn.symm)
      subst this
      simp [en, hs]
    · simp [en]

theorem close_foreign_noop (s : GState) (sid : Nat) (name : Str)
    (hno : ∀ r ∈ s.owner, ¬ (r.name = name ∧ r.sid = sid)) : s.close sid name = s := by
  rcases close_cases s sid name with ⟨e, _⟩ | ⟨r, hr, hn, hs, _⟩
  · exact e
  · exact absurd ⟨hn, hs⟩ (hno r hr)

theorem closeAll_owner {sh : Str} (sid : Nat) (ns : List Str) :
    ∀ s : GState, GInv sh s →
      (ns.foldl (fun st n => st.close sid n) s).owner =
        s.owner.filter (fun e => ¬ (e.sid = sid ∧ e.name ∈ ns)) := by
  induction ns with
  | nil =>
    intro s _
    symm
    apply List.filter_eq_self.mpr
    intro x _; simp
  | cons n rest ih =>
    intro s h
    rw [List.foldl_cons, ih _ (ginv_close h sid n), close_owner h, List.filter_filter]
    apply List.filter_congr
    intro x _
    by_cases a : x.sid = sid <;> by_cases b : x.name = n <;> simp [a, b]

/-- **end of a session**: exactly the proxies of that session are gone -/
theorem sessionEnd_owner {sh : Str} {s : GState} (h : GInv sh s) (sid : Nat) :
    (s.sessionEnd sid).owner = s.owner.filter (fun e => e.sid ≠ sid) := by
  unfold GState.sessionEnd
  rw [closeAll_owner sid _ s h]
  apply List.filter_congr
  intro x hx
  by_cases a : x.sid = sid
  · have : x.name ∈ s.namesOf sid := by
      unfold GState.namesOf
      exact List.mem_map.mpr ⟨x, List.mem_filter.mpr ⟨hx, by simpa using a⟩, rfl⟩
    simp [a, this]
  · simp [a]

/-- a refused registration — name taken, route conflict at any of its routes, any kind of refused join —
    leaves the live proxies and the running instances exactly as they were -/
theorem register_refused_unchanged (sh : Str) (s : GState) (sid : Nat) (c : Cfg)
    (hne : (s.register sh sid c).2 ≠ .ok) :
    (s.register sh sid c).1.owner = s.owner ∧ (s.register sh sid c).1.st.hs = s.st.hs := by
  unfold GState.register at hne ⊢
  split
  · exact ⟨rfl, rfl⟩
  · split
    · rename_i S' hr
      rw [if_neg (by assumption)] at hne
      rw [hr] at hne
      exact absurd rfl hne
    · rename_i S' e hr
      refine ⟨rfl, ?_⟩
      have := C06.reg_refused_unchanged sh s.st s.next c (by rw [hr]; intro hc; cases hc)
      rw [hr] at this; exact this
    · exact ⟨rfl, rfl⟩

/-! ## exact state: the route table and the group table are what the live proxies stand for -/

/-- **The route table is exactly what the live proxies stand for**: a route (domain, location, user) is
    stored iff some live proxy's configuration has it — whatever happened before. -/
theorem routes_eq_live {sh : Str} {s : GState} (h : GInv sh s) (d l u : Str) :
    (∃ ro, Reg s.st.tab.R ro ∧ ro.domain = d ∧ ro.location = l ∧ ro.user = u) ↔
      (d, l, u) ∈ liveKeys sh s.owner := by
  unfold liveKeys
  constructor
  · rintro ⟨ro, hro, rfl, rfl, rfl⟩
    obtain ⟨x, hx, hu, k, hk, e1, e2⟩ := reg_holder h.inv hro
    obtain ⟨r, hr, e⟩ := h.hrec x hx
    subst e
    refine List.mem_flatMap.mpr ⟨r, hr, List.mem_map.mpr ⟨k, hk, ?_⟩⟩
    rw [e1, e2]
    have : r.cfg.user = ro.user := hu
    rw [this]
  · intro hm
    obtain ⟨r, hr, hm'⟩ := List.mem_flatMap.mp hm
    obtain ⟨k, hk, e⟩ := List.mem_map.mp hm'
    obtain ⟨h0, _, _⟩ := h.rech r hr
    obtain ⟨ro, hro, a1, a2, a3, _⟩ := route_of_holder h.inv h0 (k := k) hk
    simp only [Prod.mk.injEq] at e
    obtain ⟨e1, e2, e3⟩ := e
    exact ⟨ro, hro, a1.trans e1, a2.trans e2, a3.trans e3⟩

/-- **group membership is released with the proxy**: the members of every group in the table are live
    proxies configured for that group, and every live grouped proxy (that has a route) is a member -/
theorem members_eq_live {sh : Str} {s : GState} (h : GInv sh s) (n nm : Str) :
    (∃ g id, s.st.tab.G.get n = some g ∧ (nm, id) ∈ g.members) ↔
      (n ≠ [] ∧ ∃ r ∈ s.owner, r.name = nm ∧ r.cfg.group = n ∧ triples sh r.cfg ≠ []) := by
  constructor
  · rintro ⟨g, id, hget, hm⟩
    obtain ⟨x, hx, _, e2, e3, e4, _⟩ := h.inv.gholder n g hget _ hm
    obtain ⟨r, hr, e⟩ := h.hrec x hx
    subst e
    refine ⟨(h.inv.groute n g hget (members_ne_nil hm)).2.2, r, hr, ?_, e3, ?_⟩
    · exact (h.rech r hr).2.1.trans e2
    · show (holderOfRec sh r).keys ≠ []
      rw [e4]; simp
  · rintro ⟨hn, r, hr, rfl, rfl, hk⟩
    obtain ⟨h0, hn0, _⟩ := h.rech r hr
    obtain ⟨g, hget, hm⟩ := h.inv.gmem _ h0 hn hk
    refine ⟨g, r.id, hget, ?_⟩
    have : (holderOfRec sh r).name = r.name := hn0.symm
    rw [← this]; exact hm

/-- with no live proxy left nothing is left: no route, no group member, no running instance -/
theorem quiescent_clean {sh : Str} {s : GState} (h : GInv sh s) (he : s.owner = []) :
    (∀ ro, ¬ Reg s.st.tab.R ro) ∧ (∀ n g, s.st.tab.G.get n = some g → g.members = []) ∧ s.st.hs = [] := by
  refine ⟨?_, ?_, ?_⟩
  · intro ro hro
    have := (routes_eq_live h ro.domain ro.location ro.user).mp ⟨ro, hro, rfl, rfl, rfl⟩
    rw [he] at this; simp [liveKeys] at this
  · intro n g hget
    apply Decidable.byContradiction
    intro hne
    obtain ⟨m, hm⟩ := List.exists_mem_of_ne_nil _ hne
    obtain ⟨r, hr, _⟩ := h.keyed n g hget m hm
    rw [he] at hr; cases hr
  · apply Decidable.byContradiction
    intro hne
    obtain ⟨x, hx⟩ := List.exists_mem_of_ne_nil _ hne
    obtain ⟨r, hr, _⟩ := h.hrec x hx
    rw [he] at hr; cases hr

/-! ## all histories -/

inductive GOp
  | register (sid : Nat) (c : Cfg)
  | close (sid : Nat) (name : Str)
  | sessionEnd (sid : Nat)

def gapply (sh : Str) (s : GState) : GOp → GState
  | .register sid c => (s.register sh sid c).1
  | .close sid name => s.close sid name
  | .sessionEnd sid => s.sessionEnd sid

/-- the state after any history (`sh` = the server's subDomainHost) -/
def grun (sh : Str) (ops : List GOp) : GState := ops.foldl (gapply sh) GState.init

/-- every reachable state satisfies the invariant -/
theorem ginv_reachable (sh : Str) (ops : List GOp) : GInv sh (grun sh ops) := by
  unfold grun
  suffices hgen : ∀ s : GState, GInv sh s → GInv sh (ops.foldl (gapply sh) s) from hgen _ (ginv_init sh)
  induction ops with
  | nil => intro s h; exact h
  | cons op ops ih =>
    intro s h
    apply ih
    cases op with
    | register sid c => exact ginv_register h sid c
    | close sid name => exact ginv_close h sid name
    | sessionEnd sid => exact ginv_sessionEnd h sid

/-- **After every history the route table equals the routes of the live proxies.** -/
theorem table_eq_live_reachable (sh : Str) (ops : List GOp) (d l u : Str) :
    (∃ ro, Reg (grun sh ops).st.tab.R ro ∧ ro.domain = d ∧ ro.location = l ∧ ro.user = u) ↔
      (d, l, u) ∈ liveKeys sh (grun sh ops).owner :=
  routes_eq_live (ginv_reachable sh ops) d l u

/-- **Close, then the identical registration succeeds** — on the same or on any other session, after
    every history: whatever was refused or closed before, whoever else is in the group. -/
theorem reregister_after_close (sh : Str) (ops : List GOp) (r : Rec) (hr : r ∈ (grun sh ops).owner)
    (sid' : Nat) :
    (((grun sh ops).close r.sid r.name).register sh sid' r.cfg).2 = .ok := by
  have h := ginv_reachable sh ops
  apply register_ok_of_can (ginv_close h r.sid r.name)
  apply can_register_of_sublive h hr
  intro x hx
  rw [close_owner h] at hx
  obtain ⟨hx', hp⟩ := List.mem_filter.mp hx
  refine ⟨hx', fun en => ?_⟩
  have : x = r := rec_name_unique h hx' hr en
  subst this
  simp at hp

/-- **Session end, then the identical registration of any of its proxies succeeds** on a new session. -/
theorem reregister_after_session_end (sh : Str) (ops : List GOp) (r : Rec)
    (hr : r ∈ (grun sh ops).owner) (sid' : Nat) :
    (((grun sh ops).sessionEnd r.sid).register sh sid' r.cfg).2 = .ok := by
  have h := ginv_reachable sh ops
  apply register_ok_of_can (ginv_sessionEnd h r.sid)
  apply can_register_of_sublive h hr
  intro x hx
  rw [sessionEnd_owner h] at hx
  obtain ⟨hx', hp⟩ := List.mem_filter.mp hx
  refine ⟨hx', fun en => ?_⟩
  have : x = r := rec_name_unique h hx' hr en
  subst this
  simp at hp

/-- **A refused registration destroys nothing of the others**: after every history, a registration that is
    refused (for whatever reason) leaves the live proxies as they were, hence (`routes_eq_live`,
    `members_eq_live` in the state after it) every route and every group membership. -/
theorem refused_keeps_routes (sh : Str) (ops : List GOp) (sid : Nat) (c : Cfg)
    (hne : ((grun sh ops).register sh sid c).2 ≠ .ok) (d l u : Str) :
    (∃ ro, Reg ((grun sh ops).register sh sid c).1.st.tab.R ro ∧ ro.domain = d ∧ ro.location = l ∧
        ro.user = u) ↔
    (∃ ro, Reg (grun sh ops).st.tab.R ro ∧ ro.domain = d ∧ ro.location = l ∧ ro.user = u) := by
  have h := ginv_reachable sh ops
  rw [routes_eq_live (ginv_register h sid c), routes_eq_live h,
    (register_refused_unchanged sh _ sid c hne).1]

/-! ### non-vacuity: a group with a refused join of each kind, the last member leaving, re-registration -/

def shDemo : Str := C06.shDemo

def demoOps : List GOp :=
  [ .register 1 (C06.cfgDemo "a" ["lb.example.com"] "" [] "" "grp" "k")
  , .register 2 (C06.cfgDemo "b" ["LB.example.com"] "" [] "" "grp" "k")            -- refused: params (raw domain differs)
  , .register 2 (C06.cfgDemo "b" ["lb.example.com"] "" [] "" "grp" "wrong")        -- refused: key
  , .register 2 (C06.cfgDemo "b" ["lb.example.com", "x.example.com"] "" [] "" "grp" "k")  -- refused at the 2nd route
  , .register 3 (C06.cfgDemo "c" ["lb.example.com"] "" [] "" "" "")                -- refused: conflict with the group's route
  , .register 2 (C06.cfgDemo "b" ["lb.example.com"] "" [] "" "grp" "k")
  , .register 3 (C06.cfgDemo "p" ["p.example.com"] "t" ["/", "/api"] "" "" "") ]

example : ((grun shDemo demoOps).owner.map (fun r => (Str.toString r.name, r.sid))) =
    [("p", 3), ("b", 2), ("a", 1)] := by decide +kernel
example : (liveKeys shDemo (grun shDemo demoOps).owner).length = 6 := by decide +kernel
example : (((grun shDemo demoOps).close 1 (Str.ofString "a")).close 2 (Str.ofString "b")).st.hs.map (·.id) = [6] := by
  decide +kernel
example : CanRegister shDemo (((grun shDemo demoOps).close 1 (Str.ofString "a")).close 2 (Str.ofString "b")).owner
    (C06.cfgDemo "a" ["lb.example.com"] "" [] "" "grp" "k") := by decide +kernel
example : ¬ CanRegister shDemo (grun shDemo demoOps).owner
    (C06.cfgDemo "z" ["lb.example.com"] "" [] "" "grp" "other") := by decide +kernel

end Group
end C10
end Frp
